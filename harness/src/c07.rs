//! C07: exhaustive governor table against the real `Governor::next_state`.
use crate::util::*;
use glonax::core::{Engine, EngineState};
use glonax::driver::Governor;
use std::time::{Duration, Instant};

const STATES: [EngineState; 4] = [
    EngineState::NoRequest,
    EngineState::Starting,
    EngineState::Stopping,
    EngineState::Request,
];

pub fn run(out: &mut Out, tier: &str, rng: &mut Rng) {
    // (idle, max, timeout ms). The first is the shipped VolvoD7E setting.
    let settings: &[(u16, u16, u64)] = if tier == "thorough" {
        &[(800, 2100, 2000), (0, 65535, 2000), (1000, 1000, 500), (1, 2, 400), (900, 65535, 60_000)]
    } else {
        &[(800, 2100, 2000), (1000, 1000, 500)]
    };
    out.exhaustive = true;
    out.rule = "all 4x4 (reported,requested) states x all 65536 requested rpm x age {none, fresh, expired} x (idle,max,timeout) settings; reported rpm drawn at random (the governor ignores it); a case is non-trivial when the requested state pair is one for which the age or the requested rpm can influence the output".into();
    let base = Instant::now();
    for &(idle, max, tmo) in settings {
        let gov = Governor::new(idle, max, Duration::from_millis(tmo));
        for ss in STATES {
            for cs in STATES {
                for age_kind in 0..6 {
                    // fresh = 0 ms (far below every timeout used); expired = timeout + 10 s; and three ages just past the
                    // deadline (an age can only grow between its construction and the call, so "older" never flakes)
                    let (age_tok, d): (i64, Option<Duration>) = match age_kind {
                        0 => (-1, None),
                        1 => (0, Some(Duration::from_millis(0))),
                        2 => ((tmo + 10_000) as i64, Some(Duration::from_millis(tmo + 10_000))),
                        3 => ((tmo + 1) as i64, Some(Duration::from_millis(tmo + 1))),
                        4 => ((tmo + 400) as i64, Some(Duration::from_millis(tmo + 400))),
                        _ => ((tmo + 999) as i64, Some(Duration::from_millis(tmo + 999))),
                    };
                    out.count(&format!("sig={:?} cmd={:?} age={}", ss, cs, ["none", "fresh", "expired", "deadline+1ms", "deadline+400ms", "deadline+999ms"][age_kind]));
                    for rpm in 0..=65535u16 {
                        if age_kind >= 3 && rpm % 257 != 0 && rpm != idle && rpm != max && rpm != 65535 {
                            continue;
                        }
                        let sig_rpm = (rng.next() & 0xFFFF) as u16;
                        let sig = Engine { driver_demand: 0, actual_engine: 0, rpm: sig_rpm, state: ss };
                        let cmd = Engine { driver_demand: 0, actual_engine: 0, rpm, state: cs };
                        // (a machine that has been up for less than the age cannot represent it: such a case is skipped)
                        let inst = match d {
                            None => None,
                            Some(d) => match Instant::now().checked_sub(d) {
                                Some(i) => Some(i),
                                None => continue,
                            },
                        };
                        let _ = base;
                        let r = gov.next_state(&sig, &cmd, inst);
                        let nontrivial = matches!(ss, EngineState::Request | EngineState::NoRequest | EngineState::Starting);
                        out.case(
                            &format!("{} {} {} {} {} {} {} {}", idle, max, tmo, ss as u8, sig_rpm, cs as u8, rpm, age_tok),
                            &format!("{} {} {} {}", r.driver_demand, r.actual_engine, r.rpm, r.state as u8),
                            nontrivial,
                        );
                    }
                }
            }
        }
    }
    // --- many more envelopes (bounds off every "nice" grid: odd, prime, adjacent, extreme, idle = max), each with the
    // requested speeds at and around its own bounds, the ends of the u16 range and a random sample
    let mut envelopes: Vec<(u16, u16, u64)> = vec![(805, 2100, 2000), (800, 2105, 2000), (801, 2099, 2000), (7, 13, 300), (999, 1001, 2000),
        (0, 0, 100), (65535, 65535, 100), (1, 65534, 2000), (899, 2201, 1), (123, 45678, 2000), (2100, 2100, 2000), (0, 9, 50), (65526, 65535, 2000)];
    for _ in 0..(if tier == "thorough" { 200 } else { 20 }) {
        let a = (rng.next() & 0xFFFF) as u16;
        let b = (rng.next() & 0xFFFF) as u16;
        envelopes.push((a.min(b), a.max(b), 1 + rng.below(5000)));
    }
    for (idle, max, tmo) in envelopes {
        let gov = Governor::new(idle, max, Duration::from_millis(tmo));
        let mut rpms: Vec<u16> = vec![0, 1, 9, 10, 11, 65525, 65534, 65535];
        for c in [idle, max] {
            for d in -11i32..=11 {
                let v = c as i32 + d;
                if (0..=65535).contains(&v) {
                    rpms.push(v as u16);
                }
            }
        }
        for _ in 0..24 {
            rpms.push((rng.next() & 0xFFFF) as u16);
        }
        for ss in STATES {
            for cs in STATES {
                for (age_tok, d) in [(-1i64, None), (0, Some(Duration::from_millis(0))), ((tmo + 10_000) as i64, Some(Duration::from_millis(tmo + 10_000)))] {
                    for &rpm in &rpms {
                        // the reported speed sometimes equals the requested one (a decision must not depend on that)
                        let sig_rpm = if rng.chance(1, 3) { rpm } else { (rng.next() & 0xFFFF) as u16 };
                        let sig = Engine { driver_demand: 0, actual_engine: 0, rpm: sig_rpm, state: ss };
                        let cmd = Engine { driver_demand: 0, actual_engine: 0, rpm, state: cs };
                        let inst = match d {
                            None => None,
                            Some(d) => match Instant::now().checked_sub(d) {
                                Some(i) => Some(i),
                                None => continue,
                            },
                        };
                        let r = gov.next_state(&sig, &cmd, inst);
                        out.case(
                            &format!("{} {} {} {} {} {} {} {}", idle, max, tmo, ss as u8, sig_rpm, cs as u8, rpm, age_tok),
                            &format!("{} {} {} {}", r.driver_demand, r.actual_engine, r.rpm, r.state as u8),
                            true,
                        );
                    }
                }
            }
        }
        out.count("envelope off the grid");
    }
}
