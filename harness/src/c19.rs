//! C19: the real f32 helpers on dense grids, boundary values, random and non-finite inputs; values travel as bit patterns.
use crate::util::*;
use glonax::core::Actuator;
use glonax::driver::ActuatorState;
use glonax::math::{law_of_cosines, linear_motion, shortest_rotation, Linear};
use glonax::world::{Actor, ActorBuilder, ActorSegment};
use nalgebra::{Rotation3, Vector3};
use std::f32::consts::PI;

fn b(x: f32) -> String {
    format!("{:08x}", x.to_bits())
}

fn next_up(x: f32) -> f32 {
    f32::from_bits(if x >= 0.0 { x.to_bits() + 1 } else { x.to_bits() - 1 })
}
fn next_down(x: f32) -> f32 {
    if x == 0.0 {
        return -f32::from_bits(1);
    }
    f32::from_bits(if x > 0.0 { x.to_bits() - 1 } else { x.to_bits() + 1 })
}

fn rand_f32(rng: &mut Rng, lo: f32, hi: f32) -> f32 {
    let u = (rng.next() >> 11) as f64 / (1u64 << 53) as f64;
    (lo as f64 + (hi as f64 - lo as f64) * u) as f32
}

const SPECIAL: [f32; 10] = [f32::NAN, f32::INFINITY, f32::NEG_INFINITY, f32::MAX, f32::MIN, f32::MIN_POSITIVE, 0.0, -0.0, 1.0e30, -1.0e30];

fn sr(out: &mut Out, d: f32) {
    match guarded(move || shortest_rotation(d)) {
        Some(r) => out.case(&format!("sr {}", b(d)), &b(r), d.is_finite() && d >= -2.0 * PI),
        None => out.case(&format!("sr {}", b(d)), "PANIC", true),
    }
}

fn loc(out: &mut Out, a: f32, bb: f32, c: f32) {
    match guarded(move || law_of_cosines(a, bb, c)) {
        Some(r) => out.case(&format!("loc {} {} {}", b(a), b(bb), b(c)), &b(r), true),
        None => out.case(&format!("loc {} {} {}", b(a), b(bb), b(c)), "PANIC", true),
    }
}

fn sweep(rng: &mut Rng, n: usize, span: f32, lb: f32) -> Vec<f32> {
    let mut v: Vec<f32> = (0..n).map(|_| rand_f32(rng, -span, span)).collect();
    // sign change, deadband edges, exact zeroes
    v.extend_from_slice(&[0.0, -0.0, lb, -lb, next_down(lb), next_up(lb), next_up(-lb), next_down(-lb), f32::MIN_POSITIVE, -f32::MIN_POSITIVE, span, -span]);
    v.retain(|x| x.is_finite());
    v.sort_by(|a, b| a.partial_cmp(b).unwrap().then_with(|| b.is_sign_negative().cmp(&a.is_sign_negative())));
    v
}

fn lm(out: &mut Out, lb: f32, off: f32, sc: f32, inv: bool, ds: &[f32]) {
    let rs: Vec<String> = ds
        .iter()
        .map(|&d| match guarded(move || linear_motion(d, lb, off, sc, inv)) {
            Some(Some(v)) => v.to_string(),
            Some(None) => "n".to_string(),
            None => "P".to_string(),
        })
        .collect();
    let dtok: Vec<String> = ds.iter().map(|&d| b(d)).collect();
    out.case(&format!("lm {} {} {} {} {}", b(lb), b(off), b(sc), inv as u8, dtok.join(",")), &rs.join(","), true);
}

fn lu(out: &mut Out, kp: f32, off: f32, inv: bool, es: &[f32]) {
    let rs: Vec<String> = es
        .iter()
        .map(|&e| match guarded(move || Linear::new(kp, off, inv).update(e)) {
            Some(v) => b(v),
            None => "P".to_string(),
        })
        .collect();
    let etok: Vec<String> = es.iter().map(|&e| b(e)).collect();
    out.case(&format!("lu {} {} {} {}", b(kp), b(off), inv as u8, etok.join(",")), &rs.join(","), true);
}

fn act(out: &mut Out, kp: f32, off: f32, inv: bool, ins: &[Option<f32>]) {
    let ins2 = ins.to_vec();
    let res = guarded(move || {
        let mut st = ActuatorState::bind(Actuator::Boom, Linear::new(kp, off, inv));
        ins2.iter()
            .map(|i| match std::panic::catch_unwind(std::panic::AssertUnwindSafe(|| st.update(*i))) {
                Ok(Some(ev)) => {
                    if i.is_some() {
                        format!("v:{}", ev.value)
                    } else {
                        if ev.value == 0 && ev.error == 0.0 { "s".to_string() } else { format!("s?{}", ev.value) }
                    }
                }
                Ok(None) => "n".to_string(),
                Err(_) => "P".to_string(),
            })
            .collect::<Vec<String>>()
    });
    let itok: Vec<String> = ins.iter().map(|i| i.map_or("-".to_string(), b)).collect();
    match res {
        Some(r) => out.case(&format!("act {} {} {} {}", b(kp), b(off), inv as u8, itok.join(" ")), &r.join(" "), true),
        None => out.case(&format!("act {} {} {} {}", b(kp), b(off), inv as u8, itok.join(" ")), "PANIC", true),
    }
}

fn rand_segment(rng: &mut Rng, scale: f32) -> ActorSegment {
    rand_segment_m(rng, scale).0
}

/// A segment and ITS TRANSFORM WRITTEN OUT INDEPENDENTLY (translation x rotation, built with nalgebra from the same location and
/// Euler angles - not read back from the code under test): "the segment's transform" of the property.
fn rand_segment_m(rng: &mut Rng, scale: f32) -> (ActorSegment, nalgebra::Matrix4<f32>) {
    let loc = Vector3::new(rand_f32(rng, -scale, scale), rand_f32(rng, -scale, scale), rand_f32(rng, -scale, scale));
    let mut s = ActorSegment::new(loc);
    // the segment's location and rotation as its caller's calls say (kept here, never read back)
    let mut loc = loc;
    let mut rot = Rotation3::identity();
    if rng.chance(3, 4) {
        let r = Rotation3::from_euler_angles(rand_f32(rng, -3.0, 3.0), rand_f32(rng, -1.4, 1.4), rand_f32(rng, -3.0, 3.0));
        s.set_rotation(r);
        rot = r;
    }
    // every mutator of a segment, in any order, the last one being any of them
    if rng.chance(1, 2) {
        for _ in 0..(1 + rng.below(3)) {
            match rng.below(4) {
                0 => {
                    let v = Vector3::new(rand_f32(rng, -scale, scale), rand_f32(rng, -scale, scale), rand_f32(rng, -scale, scale));
                    s.set_location(v);
                    loc = v;
                }
                1 => {
                    let d = Vector3::new(rand_f32(rng, -scale, scale), rand_f32(rng, -scale, scale), rand_f32(rng, -scale, scale));
                    s.add_location(d);
                    loc += d;
                }
                2 => {
                    let r = Rotation3::from_euler_angles(rand_f32(rng, -3.0, 3.0), rand_f32(rng, -1.4, 1.4), rand_f32(rng, -3.0, 3.0));
                    s.set_rotation(r);
                    rot = r;
                }
                _ => {
                    let r = Rotation3::from_euler_angles(rand_f32(rng, -1.0, 1.0), rand_f32(rng, -1.0, 1.0), rand_f32(rng, -1.0, 1.0));
                    s.add_rotation(r);
                    rot = rot * r;
                }
            }
        }
    }
    let m = nalgebra::Translation3::from(loc).to_homogeneous() * rot.to_homogeneous();
    (s, m)
}

fn world(out: &mut Out, rng: &mut Rng, nseg: usize) {
    // ASCII and multi-byte names (the wire format counts BYTES)
    let names = ["frame", "boom", "arm", "attachment", "boom", "flèche", "底盘"];
    let mut segs: Vec<(String, ActorSegment)> = vec![];
    let mut mats: Vec<nalgebra::Matrix4<f32>> = vec![];
    let scale = *rng.pick(&[1.0f32, 10.0, 1000.0]);
    for _ in 0..nseg {
        // duplicate names on purpose sometimes: the first match ends the chain
        let pool = if rng.chance(1, 3) { 7 } else { 4 };
        let n = names[rng.below(pool) as usize].to_string();
        let n = if rng.chance(1, 8) { format!("{}é", n) } else { n };
        let (seg, m) = rand_segment_m(rng, scale);
        segs.push((n, seg));
        mats.push(m);
    }
    let mut bld = ActorBuilder::new(*rng.pick(&["machine", "", "graafmachine-é", "掘"]));
    for (n, s) in &segs {
        bld = bld.attach_segment(n.clone(), s.clone());
    }
    let actor = bld.build();
    let query = if rng.chance(1, 6) { "nosuch".to_string() } else { names[rng.below(6) as usize].to_string() };
    let p = actor.world_location(&query);
    let stok: Vec<String> = segs
        .iter()
        .zip(mats.iter())
        .map(|((n, _s), m)| {
            let w: Vec<String> = (0..4).flat_map(|i| (0..4).map(move |j| (i, j))).map(|(i, j)| b(m[(i, j)])).collect();
            format!("{}:{}", n, w.join(","))
        })
        .collect();
    out.case(&format!("world {} {}", query, stok.join(" ")), &format!("{} {} {}", b(p.x), b(p.y), b(p.z)), nseg > 1);
    out.count(&format!("chain length {}", nseg));

    // serialisation round trip of the same actor
    let bytes = actor.to_bytes();
    let verdict = match guarded(move || Actor::try_from(bytes)) {
        None => "PANIC".to_string(),
        Some(Err(())) => "rejected".to_string(),
        Some(Ok(back)) => {
            let mut bad = vec![];
            if back.name() != actor.name() {
                bad.push("name");
            }
            let (b1, b2) = (actor.to_bytes(), back.to_bytes());
            if b1.len() != b2.len() {
                bad.push("length");
            }
            for (n, s) in &segs {
                // first segment with that name
                let first = segs.iter().find(|(m, _)| m == n).unwrap();
                if std::ptr::eq(first, &segs[segs.iter().position(|(m, _)| m == n).unwrap()]) {
                    if let Some(l) = back.segment_location(n) {
                        let e = first.1.location();
                        if l.x.to_bits() != e.x.to_bits() || l.y.to_bits() != e.y.to_bits() || l.z.to_bits() != e.z.to_bits() {
                            bad.push("translation");
                        }
                    } else {
                        bad.push("segment-missing");
                    }
                }
                let (w1, w2) = (actor.world_location(n), back.world_location(n));
                let tol = 1e-3 * (1.0 + scale * segs.len() as f32);
                if (w1 - w2).norm() > tol {
                    bad.push("world-location");
                }
                let _ = s;
            }
            bad.sort();
            bad.dedup();
            if bad.is_empty() { "ok".to_string() } else { bad.join(",") }
        }
    };
    out.case(&format!("actor {}", nseg), &verdict, nseg > 0);
}

pub fn run(out: &mut Out, tier: &str, rng: &mut Rng) {
    let thorough = tier == "thorough";
    let k = if thorough { 8 } else { 1 };
    out.rule = "real f32 helpers; every number as its bit pattern. shortest_rotation: dense grid over [-2pi, 10pi], every multiple of pi/2 +- 0..3 ulps, random to 1e6, below -2pi, non-finite. law_of_cosines: grid of side lengths incl. degenerate and impossible triangles, random, zero / negative / non-finite sides. linear_motion and Linear::update: ascending sweeps of errors (random + sign change + deadband edges + +-0) for contract gains (offset 0..32767, scale / kp >= 0), for extreme gains (negative, above 32767, infinite, NaN); ActuatorState histories of present / absent errors; Actor world_location over chains of 1-6 segments with duplicate and missing names; Actor to_bytes / try_from. Non-trivial = inside the asserted domain".into();
    // --- shortest rotation
    let n = 4000 * k;
    for i in 0..=n {
        sr(out, -2.0 * PI + (12.0 * PI) * (i as f32) / (n as f32));
    }
    for m in -4..=24 {
        let mut x = (m as f32) * (PI / 2.0);
        let mut y = x;
        sr(out, x);
        for _ in 0..3 {
            x = next_up(x);
            y = next_down(y);
            sr(out, x);
            sr(out, y);
        }
    }
    for _ in 0..2000 * k {
        let hi = *rng.pick(&[10.0f32, 1000.0, 1.0e6]);
        sr(out, rand_f32(rng, -2.0 * PI, hi));
    }
    for _ in 0..200 {
        sr(out, rand_f32(rng, -100.0, -2.0 * PI));
    }
    for s in SPECIAL {
        sr(out, s);
    }
    // --- law of cosines
    let sides = [0.001f32, 0.5, 1.0, 3.0, 4.0, 5.0, 6.0, 7.3, 100.0, 2500.0, 10000.0];
    for &a in &sides {
        for &bb in &sides {
            for &c in &sides {
                loc(out, a, bb, c);
            }
            // degenerate and just-impossible
            loc(out, a, bb, a + bb);
            loc(out, a, bb, (a - bb).abs());
            loc(out, a, bb, (a + bb) * 1.01);
            loc(out, a, bb, (a - bb).abs() * 0.99);
            loc(out, a, bb, 0.0);
        }
    }
    for _ in 0..3000 * k {
        let (a, bb) = (rand_f32(rng, 0.001, 50.0), rand_f32(rng, 0.001, 50.0));
        let c = if rng.chance(2, 3) { rand_f32(rng, (a - bb).abs(), a + bb) } else { rand_f32(rng, 0.0, 120.0) };
        loc(out, a, bb, c);
    }
    // the same shapes at every scale (the angle does not depend on it): 1e-9 … 1e4
    for _ in 0..1500 * k {
        let (a, bb) = (rand_f32(rng, 0.5, 5.0), rand_f32(rng, 0.5, 5.0));
        let c = if rng.chance(3, 4) { rand_f32(rng, (a - bb).abs(), a + bb) } else { rand_f32(rng, 0.0, 12.0) };
        let sc = *rng.pick(&[1.0e-9f32, 1.0e-7, 1.0e-6, 1.0e-5, 1.0e-4, 3.0e-4, 1.0e-3, 1.0e-2, 1.0, 100.0, 2000.0]);
        loc(out, a * sc, bb * sc, c * sc);
        out.count(&format!("law_of_cosines at scale {:e}", sc));
    }
    for s in SPECIAL {
        loc(out, s, 1.0, 1.0);
        loc(out, 1.0, s, 1.0);
        loc(out, 1.0, 1.0, s);
    }
    loc(out, -3.0, 4.0, 5.0);
    loc(out, 0.0, 0.0, 0.0);
    // --- linear_motion
    let offs = [0.0f32, 1.0, 12000.0, 32767.0, 250.5];
    let scs = [0.0f32, 1.0, 15000.0, 1.0e6, 0.001];
    let lbs = [0.0f32, 0.005, 0.01, 1.0];
    for &off in &offs {
        for &sc in &scs {
            for &lb in &lbs {
                for inv in [false, true] {
                    let span = *rng.pick(&[0.05f32, 3.2, 1000.0]);
                    let ds = sweep(rng, 40 * k as usize, span, lb);
                    lm(out, lb, off, sc, inv, &ds);
                    out.count("linear_motion sweep: contract gains");
                }
            }
        }
    }
    for _ in 0..60 * k {
        let off = rand_f32(rng, 0.0, 32767.0);
        let sc = rand_f32(rng, 0.0, 40000.0);
        let lb = rand_f32(rng, 0.0, 0.05);
        let ds = sweep(rng, 40, 3.2, lb);
        lm(out, lb, off, sc, rng.chance(1, 2), &ds);
        out.count("linear_motion sweep: contract gains");
    }
    // extreme gains
    for &off in &[-1.0f32, -32768.0, -40000.0, 40000.0, 65535.0, f32::INFINITY, f32::NEG_INFINITY, f32::NAN, f32::MAX, f32::MIN] {
        for &sc in &[1.0f32, 15000.0, -15000.0, f32::INFINITY, f32::NAN] {
            let ds = sweep(rng, 12, 3.2, 0.01);
            lm(out, 0.01, off, sc, false, &ds);
            lm(out, 0.01, off, sc, true, &ds);
            out.count("linear_motion sweep: extreme gains");
        }
    }
    lm(out, 0.01, 12000.0, 15000.0, false, &[f32::NAN, f32::INFINITY, f32::NEG_INFINITY, f32::MAX, f32::MIN]);
    // --- Linear::update
    for &off in &offs {
        for &kp in &scs {
            for inv in [false, true] {
                let span = *rng.pick(&[0.05f32, 3.2, 1000.0]);
                let es = sweep(rng, 40 * k as usize, span, 0.0);
                lu(out, kp, off, inv, &es);
                out.count("Linear::update sweep: contract gains");
            }
        }
    }
    for _ in 0..60 * k {
        let es = sweep(rng, 40, 3.2, 0.0);
        lu(out, rand_f32(rng, 0.0, 40000.0), rand_f32(rng, 0.0, 32767.0), rng.chance(1, 2), &es);
        out.count("Linear::update sweep: contract gains");
    }
    for &off in &[-1.0f32, 32767.5, 32768.0, 40000.0, f32::INFINITY, f32::NAN] {
        let es = sweep(rng, 8, 3.2, 0.0);
        lu(out, 15000.0, off, false, &es);
        out.count("Linear::update sweep: extreme gains");
    }
    // --- ActuatorState
    for _ in 0..200 * k {
        let kp = *rng.pick(&[15000.0f32, 1.0, 40000.0]);
        let off = *rng.pick(&[12000.0f32, 0.0, 32767.0]);
        let len = 1 + rng.below(24) as usize;
        let ins: Vec<Option<f32>> = (0..len).map(|_| if rng.chance(2, 5) { None } else { Some(rand_f32(rng, -3.2, 3.2)) }).collect();
        act(out, kp, off, rng.chance(1, 2), &ins);
    }
    act(out, 15000.0, 12000.0, false, &[None, None, None]);
    act(out, 15000.0, 12000.0, false, &[Some(1000.0), Some(-1000.0), None, None, Some(0.0), None]);
    // --- world / actor
    for i in 0..600 * k {
        world(out, rng, 1 + (i % 6) as usize);
    }
}
