//! C16: the real `Runtime` task system under a termination request delivered at every scheduling point
//! (hook `verif_sched`), after scheduling (directly or through the real SIGTERM path), with recording stub
//! services — and with the real `NetworkAuthority` on the emulated bus, where the frames are observed.
use crate::auth::{raw_to_frame_tok, DriverCfg, NetCfg};
use crate::bus::Bus;
use crate::util::*;
use glonax::core::{Motion, Object};
use glonax::runtime::{CommandSender, NetworkService, Service, SignalReceiver, SignalSender};
use glonax::service::{NetworkAuthority, NetworkConfig};
use std::sync::atomic::{AtomicU64, AtomicUsize, Ordering};
use std::sync::{Arc, Mutex};
use std::time::{Duration, Instant};

#[derive(Default)]
struct Counters {
    setup: AtomicUsize,
    teardown: AtomicUsize,
    body: AtomicUsize,
}

struct Shared {
    svc: Vec<Counters>,
    sender: Mutex<Option<CommandSender>>,
}

#[derive(Clone)]
struct Cfg {
    idx: usize,
    shared: Arc<Shared>,
}

struct StubIo(Cfg);

impl Service<Cfg> for StubIo {
    fn new(config: Cfg) -> Self {
        StubIo(config)
    }
    async fn setup(&mut self) {
        self.0.shared.svc[self.0.idx].setup.fetch_add(1, Ordering::SeqCst);
    }
    async fn teardown(&mut self) {
        self.0.shared.svc[self.0.idx].teardown.fetch_add(1, Ordering::SeqCst);
    }
    async fn wait_io_sub(&mut self, command_tx: CommandSender, _signal_rx: SignalReceiver) {
        *self.0.shared.sender.lock().unwrap() = Some(command_tx);
        self.0.shared.svc[self.0.idx].body.fetch_add(1, Ordering::SeqCst);
        tokio::time::sleep(Duration::from_millis(2)).await;
    }
}

#[derive(Clone)]
struct StubNet(Cfg);

impl NetworkService<Cfg> for StubNet {
    fn new(config: Cfg) -> Self {
        StubNet(config)
    }
    async fn setup(&mut self) {
        self.0.shared.svc[self.0.idx].setup.fetch_add(1, Ordering::SeqCst);
    }
    async fn teardown(&mut self) {
        self.0.shared.svc[self.0.idx].teardown.fetch_add(1, Ordering::SeqCst);
    }
    async fn recv(&mut self, _signal_tx: SignalSender) {
        self.0.shared.svc[self.0.idx].body.fetch_add(1, Ordering::SeqCst);
        tokio::time::sleep(Duration::from_millis(1)).await;
    }
    async fn on_tick(&mut self, _signal_tx: SignalSender) {
        self.0.shared.svc[self.0.idx].body.fetch_add(1, Ordering::SeqCst);
    }
    async fn on_command(&mut self, _object: &Object) {
        self.0.shared.svc[self.0.idx].body.fetch_add(1, Ordering::SeqCst);
    }
}

fn tokio_rt(multi: bool) -> tokio::runtime::Runtime {
    if multi {
        tokio::runtime::Builder::new_multi_thread().worker_threads(3).enable_all().build().unwrap()
    } else {
        tokio::runtime::Builder::new_current_thread().enable_all().build().unwrap()
    }
}

#[derive(Clone, Copy, PartialEq)]
enum When {
    /// at the `nth` passage of a scheduling point
    Point(&'static str, usize),
    /// after scheduling, `ms` later, by `verif_request_shutdown`
    After(u64),
    /// after scheduling, `ms` later, by a real SIGTERM through `register_shutdown_signal`
    Sigterm(u64),
}

impl When {
    fn tok(&self) -> String {
        match self {
            When::Point(p, n) => format!("{} {}", p, n),
            When::After(ms) => format!("after {}", ms),
            When::Sigterm(ms) => format!("sigterm {}", ms),
        }
    }
}

/// a task system that has not joined by then is reported as hung (the supervisor's stop timeout is 5 s)
const JOIN_LIMIT: Duration = Duration::from_millis(4000);
/// bound asserted on the measured shutdown time (kept well above scheduling noise of a loaded machine)
const FAST_MS: u128 = 3000;

/// the three io services of glonaxd's `run()` as stubs + `nets` stub networks
fn sched_scenario(out: &mut Out, multi: bool, nets: usize, when: When, burst: bool) {
    let rt = tokio_rt(multi);
    let n_svc = 3 + nets;
    let shared = Arc::new(Shared { svc: (0..n_svc).map(|_| Counters::default()).collect(), sender: Mutex::new(None) });
    let (joined, ms, quiet, per) = rt.block_on(async {
        let mut runtime = glonax::Runtime::default();
        if let When::Sigterm(_) = when {
            runtime.register_shutdown_signal();
            // the handler is installed by the signal task's first poll
            tokio::time::sleep(Duration::from_millis(30)).await;
        }
        if let When::Point(p, n) = when {
            glonax::runtime::verif_sched::arm(p, n);
        }
        for i in 0..3 {
            runtime.schedule_io_sub_service::<StubIo, Cfg>(Cfg { idx: i, shared: shared.clone() });
        }
        for i in 0..nets {
            runtime.schedule_net_service::<StubNet, Cfg>(Cfg { idx: 3 + i, shared: shared.clone() }, Duration::from_millis(2));
        }
        glonax::runtime::verif_sched::disarm();
        match when {
            When::After(d) | When::Sigterm(d) => {
                if d > 0 {
                    tokio::time::sleep(Duration::from_millis(d)).await;
                }
                if burst {
                    // let the producer stub run so that the sender is there, then a command burst
                    tokio::time::sleep(Duration::from_millis(5)).await;
                    if let Some(tx) = shared.sender.lock().unwrap().clone() {
                        for _ in 0..40 {
                            let _ = tx.send(Object::Motion(Motion::StopAll));
                        }
                    }
                }
                if let When::Sigterm(_) = when {
                    unsafe {
                        libc::kill(libc::getpid(), libc::SIGTERM);
                    }
                } else {
                    runtime.verif_request_shutdown();
                }
            }
            When::Point(..) => {}
        }
        let t0 = Instant::now();
        let r = tokio::time::timeout(JOIN_LIMIT, async {
            runtime.wait_for_shutdown().await;
            runtime.wait_for_tasks().await;
        })
        .await;
        let (joined, ms) = (r.is_ok(), t0.elapsed().as_millis());
        // observed while the Runtime (and with it the shutdown sender) is still alive, as in a daemon that hangs
        let per: Vec<String> = shared.svc.iter().enumerate().map(|(i, c)| format!("{}:{}:{}", i + 1, c.setup.load(Ordering::SeqCst), c.teardown.load(Ordering::SeqCst))).collect();
        // silence after completion
        let snap: Vec<usize> = shared.svc.iter().map(|c| c.body.load(Ordering::SeqCst) + c.setup.load(Ordering::SeqCst) + c.teardown.load(Ordering::SeqCst)).collect();
        let quiet = if joined {
            tokio::time::sleep(Duration::from_millis(15)).await;
            let snap2: Vec<usize> = shared.svc.iter().map(|c| c.body.load(Ordering::SeqCst) + c.setup.load(Ordering::SeqCst) + c.teardown.load(Ordering::SeqCst)).collect();
            snap == snap2
        } else {
            true
        };
        (joined, ms, quiet, per)
    });
    rt.shutdown_background();
    out.case(
        &format!("sched {} {} {}{}", if multi { "mt" } else { "ct" }, nets, when.tok(), if burst { " burst" } else { "" }),
        &format!("j={} q={} fast={} {}", joined as u8, quiet as u8, (ms < FAST_MS || !joined) as u8, per.join(" ")),
        true,
    );
    out.count(&format!("request at {}", match when { When::Point(p, _) => p, When::After(_) => "after scheduling", When::Sigterm(_) => "after scheduling (SIGTERM)" }));
    out.count(&format!("networks {}", nets));
}

static IFACE: AtomicU64 = AtomicU64::new(0);

struct ProdOnly(Cfg);
impl Service<Cfg> for ProdOnly {
    fn new(config: Cfg) -> Self {
        ProdOnly(config)
    }
    async fn wait_io_sub(&mut self, command_tx: CommandSender, _signal_rx: SignalReceiver) {
        *self.0.shared.sender.lock().unwrap() = Some(command_tx);
        std::future::pending::<()>().await
    }
}

/// real NetworkAuthority instances under the real Runtime on emulated buses
fn bus_scenario(out: &mut Out, multi: bool, cfgs: &[NetCfg], when: When, burst: bool) {
    crate::bus::root();
    let rt = tokio_rt(multi);
    let shared = Arc::new(Shared { svc: vec![Counters::default()], sender: Mutex::new(None) });
    let mut buses = vec![];
    let mut confs: Vec<NetworkConfig> = vec![];
    for c in cfgs {
        let iface = format!("sd{}", IFACE.fetch_add(1, Ordering::SeqCst));
        buses.push(Bus::attach(&iface));
        confs.push(toml::from_str(&c.toml(&iface)).expect("network config parses"));
    }
    let (joined, ms, during, after_n) = rt.block_on(async {
        let mut runtime = glonax::Runtime::default();
        runtime.register_shutdown_signal();
        tokio::time::sleep(Duration::from_millis(30)).await;
        if let When::Point(p, n) = when {
            glonax::runtime::verif_sched::arm(p, n);
        }
        runtime.schedule_io_sub_service::<ProdOnly, Cfg>(Cfg { idx: 0, shared: shared.clone() });
        for c in &confs {
            runtime.schedule_net_service::<NetworkAuthority, NetworkConfig>(c.clone(), Duration::from_millis(10));
        }
        glonax::runtime::verif_sched::disarm();
        match when {
            When::After(d) | When::Sigterm(d) => {
                tokio::time::sleep(Duration::from_millis(d)).await;
                if burst {
                    if let Some(tx) = shared.sender.lock().unwrap().clone() {
                        for k in 0..24 {
                            let _ = tx.send(Object::Motion(if k % 2 == 0 { Motion::StopAll } else { Motion::ResumeAll }));
                        }
                    }
                }
            }
            When::Point(..) => {}
        }
        // everything before the request (a request delivered during scheduling precedes every frame)
        if !matches!(when, When::Point(..)) {
            for b in &buses {
                let _ = b.sync();
            }
        }
        match when {
            When::Sigterm(_) => unsafe {
                libc::kill(libc::getpid(), libc::SIGTERM);
            },
            When::After(_) => runtime.verif_request_shutdown(),
            When::Point(..) => {}
        }
        let t0 = Instant::now();
        let r = tokio::time::timeout(JOIN_LIMIT, async {
            runtime.wait_for_shutdown().await;
            runtime.wait_for_tasks().await;
        })
        .await;
        let (joined, ms) = (r.is_ok(), t0.elapsed().as_millis());
        let mut during: Vec<Vec<String>> = vec![];
        let mut after_n = 0usize;
        for (b, c) in buses.iter().zip(cfgs.iter()) {
            during.push(b.sync().iter().map(|r| raw_to_frame_tok(r, c.address)).collect());
        }
        if joined {
            tokio::time::sleep(Duration::from_millis(40)).await;
            for b in &buses {
                after_n += b.sync().len();
            }
        }
        (joined, ms, during, after_n)
    });
    rt.shutdown_background();
    let cfg_tok: Vec<String> = cfgs.iter().map(|c| c.tok()).collect();
    let frames: Vec<String> = during.iter().map(|f| if f.is_empty() { "-".to_string() } else { f.join(",") }).collect();
    out.case(
        &format!("bus {} {} {}{}", if multi { "mt" } else { "ct" }, cfg_tok.join("|"), when.tok(), if burst { " burst" } else { "" }),
        &format!("j={} after={} fast={} {}", joined as u8, after_n, (ms < FAST_MS || !joined) as u8, frames.join(" ")),
        true,
    );
    out.count("real NetworkAuthority under the real Runtime");
    out.count(&format!("shutdown wall time request->joined: {}", if !joined { "not joined" } else if ms <= 20 { "<=20 ms" } else if ms <= 100 { "<=100 ms" } else if ms <= 1000 { "<=1 s" } else { ">1 s" }));
}

fn hcu(da: u8, sa: Option<u8>) -> DriverCfg {
    // every other unit is "silent": its 0 ms timeout has expired whenever the request arrives
    DriverCfg { da, sa, timeout: Some(if da % 2 == 0 { 250 } else { 0 }), vendor: "laixer".into(), product: "hcu".into() }
}

fn other(rng: &mut Rng) -> DriverCfg {
    let (v, p, da): (&str, &str, u8) = *rng.pick(&[("laixer", "vcu", 0x12), ("volvo", "d7e", 0x00), ("kübler", "inclinometer", 0x7A), ("kübler", "encoder", 0x6A), ("j1939", "ecu", 0x3C), ("j1939", "ecm", 0x01)]);
    DriverCfg { da, sa: None, timeout: Some(1000), vendor: v.into(), product: p.into() }
}

const GLONAXD: &str = "/verif/.cache/target-repo/debug/glonaxd";

/// the real glonaxd (built with glonax/verif) on two emulated buses with the shipped configuration:
/// SIGTERM `offset_ms` after it is up, with `clients` connections open on its Unix socket
/// `unlink`: the listener's socket FILE is removed (a tmp reaper, a second instance taking over the path) while the daemon runs.
fn e2e_scenario(out: &mut Out, n: usize, offset_ms: u64, clients: usize, inject: bool, unlink: bool) {
    use std::io::Write;
    use std::os::unix::process::ExitStatusExt;
    if !std::path::Path::new(GLONAXD).exists() {
        out.note("glonaxd binary not built: end-to-end part skipped".to_string());
        return;
    }
    let conf: crate::server_config::Config = match glonax::from_file("/repo/contrib/etc/glonax.conf") {
        Ok(c) => c,
        Err(_) => {
            out.case("e2e shipped-config", "REJECTED", true);
            return;
        }
    };
    let dir = std::path::PathBuf::from(format!("/verif/.cache/e2e/{}-{}", std::process::id(), n));
    let _ = std::fs::remove_dir_all(&dir);
    std::fs::create_dir_all(dir.join("bus")).unwrap();
    let text = std::fs::read_to_string("/repo/contrib/etc/glonax.conf").unwrap().replace("/tmp/glonax.sock", dir.join("glonax.sock").to_str().unwrap());
    let cfile = dir.join("glonax.conf");
    std::fs::File::create(&cfile).unwrap().write_all(text.as_bytes()).unwrap();
    let cfgs: Vec<NetCfg> = conf
        .j1939
        .iter()
        .map(|net| NetCfg {
            address: net.address,
            name: [net.name.manufacturer_code as u32, net.name.function_instance as u32, net.name.ecu_instance as u32, net.name.function as u32, net.name.vehicle_system as u32, net.name.vehicle_system_instance as u32, net.name.industry_group as u32],
            drivers: net.driver.iter().map(|d| DriverCfg { da: d.da, sa: d.sa, timeout: d.timeout, vendor: d.vendor.clone(), product: d.product.clone() }).collect(),
        })
        .collect();
    let buses: Vec<Bus> = conf.j1939.iter().map(|net| Bus::attach_at(&dir.join("bus"), &net.interface)).collect();
    let mut child = std::process::Command::new(GLONAXD)
        .arg("--config")
        .arg(&cfile)
        .arg("--quiet")
        .env("GLONAX_VERIF_BUS", dir.join("bus"))
        .env_remove("GLONAX_VERIF_BUS_LOOPBACK")
        .stdout(std::process::Stdio::null())
        .stderr(std::process::Stdio::null())
        .spawn()
        .expect("spawn glonaxd");
    // up = every network has announced itself (address claim) and the socket is there
    let t_up = Instant::now();
    let mut claimed = vec![false; buses.len()];
    while t_up.elapsed() < Duration::from_secs(5) && !(claimed.iter().all(|c| *c) && dir.join("glonax.sock").exists()) {
        for (i, b) in buses.iter().enumerate() {
            for r in b.sync() {
                let id = u32::from_le_bytes([r[0], r[1], r[2], r[3]]) & 0x1FFF_FFFF;
                if (id >> 8) & 0xFF00 == 0xEE00 {
                    claimed[i] = true;
                }
            }
        }
        std::thread::sleep(Duration::from_millis(2));
    }
    let up = claimed.iter().all(|c| *c);
    let mut conns = vec![];
    for k in 0..clients {
        if let Ok(mut c) = std::os::unix::net::UnixStream::connect(dir.join("glonax.sock")) {
            if k % 2 == 0 {
                // a registered session (frame type 0x10 = session, flags 0, name "e2e")
                let mut f = vec![b'L', b'X', b'R', 0x03, 0x10, 0x00, 0x04, 0, 0, 0];
                f.extend_from_slice(&[0x00, b'e', b'2', b'e']);
                let _ = c.write_all(&f);
            }
            conns.push(c);
        }
    }
    if inject {
        // a burst of unit frames while the request arrives
        for b in &buses {
            for k in 0..20u8 {
                b.inject(&Bus::raw(0x18FF4A4A | 0x8000_0000, 8, &[k, 0, 0, 0, 0, 0, 0, 0]));
            }
        }
    }
    if unlink {
        let _ = std::fs::remove_file(dir.join("glonax.sock"));
    }
    std::thread::sleep(Duration::from_millis(offset_ms));
    for b in &buses {
        let _ = b.sync();
    }
    let t0 = Instant::now();
    unsafe {
        libc::kill(child.id() as i32, libc::SIGTERM);
    }
    let mut status = None;
    while t0.elapsed() < Duration::from_secs(6) {
        if let Ok(Some(s)) = child.try_wait() {
            status = Some(s);
            break;
        }
        std::thread::sleep(Duration::from_millis(1));
    }
    let ms = t0.elapsed().as_millis();
    if status.is_none() {
        let _ = child.kill();
        let _ = child.wait();
    }
    let during: Vec<Vec<String>> = buses.iter().zip(cfgs.iter()).map(|(b, c)| b.sync().iter().map(|r| raw_to_frame_tok(r, c.address)).collect()).collect();
    std::thread::sleep(Duration::from_millis(60));
    let after_n: usize = buses.iter().map(|b| b.sync().len()).sum();
    let exit = match status {
        Some(s) if s.success() => "0".to_string(),
        Some(s) => s.code().map(|c| c.to_string()).unwrap_or_else(|| format!("sig{}", s.signal().unwrap_or(0))),
        None => "hung".to_string(),
    };
    drop(conns);
    drop(buses);
    let _ = std::fs::remove_dir_all(&dir);
    let cfg_tok: Vec<String> = cfgs.iter().map(|c| c.tok()).collect();
    let frames: Vec<String> = during.iter().map(|f| if f.is_empty() { "-".to_string() } else { f.join(",") }).collect();
    out.case(
        &format!("bus e2e{}c{} {} sigterm {}{}{}", if up { "" } else { "-notup" }, clients, cfg_tok.join("|"), offset_ms, if inject { " burst" } else { "" }, if unlink { " socket-unlinked" } else { "" }),
        &format!("j={} after={} fast={} {}", (exit == "0") as u8, after_n, (ms < FAST_MS) as u8, frames.join(" ")),
        true,
    );
    out.count(&format!("real glonaxd under SIGTERM: exit {}", exit));
    out.count(&format!("shutdown wall time request->exit (glonaxd): {}", if ms <= 20 { "<=20 ms" } else if ms <= 100 { "<=100 ms" } else if ms <= 1000 { "<=1 s" } else { ">1 s" }));
}

struct SigCount(Cfg);
impl Service<Cfg> for SigCount {
    fn new(config: Cfg) -> Self {
        SigCount(config)
    }
    async fn wait_io_sub(&mut self, _command_tx: CommandSender, mut signal_rx: SignalReceiver) {
        loop {
            match signal_rx.recv().await {
                Ok(o) => {
                    self.0.shared.svc[0].setup.fetch_add(1, Ordering::SeqCst);
                    // what only the RECEIVE task can publish: a measurement decoded from a unit frame
                    if matches!(o, Object::Rotator(_)) {
                        self.0.shared.svc[0].body.fetch_add(1, Ordering::SeqCst);
                    }
                }
                Err(tokio::sync::broadcast::error::RecvError::Lagged(_)) => {}
                Err(_) => return,
            }
        }
    }
}

/// C06 under CONCURRENCY: the real NetworkAuthority of a network with the shipped mix of units under the real Runtime on a
/// multi-thread executor (receive, tick - every millisecond - and command tasks really run in parallel); for `ms` milliseconds
/// one thread floods the bus with unit frames while another floods the command channel; then three probes: the receive task
/// still turns a unit frame into a signal, the tick task still emits frames, the command task still handles a command.
/// (A stress: it cannot raise a false alarm on code that does not panic; what it catches is a panic that needs two tasks
/// at the same instant.)
pub fn concurrent_stress(out: &mut Out, ms: u64) {
    crate::bus::root();
    let rt = tokio_rt(true);
    let shared = Arc::new(Shared { svc: vec![Counters::default()], sender: Mutex::new(None) });
    let cfg = NetCfg {
        address: 0x27,
        name: [0, 2, 1, 255, 5, 5, 3],
        drivers: vec![
            hcu(0x4A, None),
            DriverCfg { da: 0x6A, sa: None, timeout: Some(1000), vendor: "kübler".into(), product: "encoder".into() },
            DriverCfg { da: 0x00, sa: Some(0x11), timeout: Some(250), vendor: "volvo".into(), product: "d7e".into() },
            DriverCfg { da: 0x12, sa: None, timeout: Some(1000), vendor: "laixer".into(), product: "vcu".into() },
        ],
    };
    let iface = format!("sd{}", IFACE.fetch_add(1, Ordering::SeqCst));
    let bus = Arc::new({
        let mut b = Bus::attach(&iface);
        // the tick and command clones never read their sockets: do not wait for them
        b.impatient = true;
        b
    });
    let conf: NetworkConfig = toml::from_str(&cfg.toml(&iface)).expect("network config parses");
    let (recv_ok, tick_ok, cmd_ok) = rt.block_on(async {
        let mut runtime = glonax::Runtime::default();
        runtime.schedule_io_sub_service::<ProdOnly, Cfg>(Cfg { idx: 0, shared: shared.clone() });
        runtime.schedule_io_sub_service::<SigCount, Cfg>(Cfg { idx: 0, shared: shared.clone() });
        runtime.schedule_net_service::<NetworkAuthority, NetworkConfig>(conf.clone(), Duration::from_micros(if ms % 2 == 0 { 50 } else { 1000 }));
        tokio::time::sleep(Duration::from_millis(50)).await;
        let tx = shared.sender.lock().unwrap().clone().expect("command sender");
        let stop = Arc::new(std::sync::atomic::AtomicBool::new(false));
        let (b2, st2) = (bus.clone(), stop.clone());
        let flood_bus = std::thread::spawn(move || {
            let frames = [
                Bus::raw(0x18FFAA6A | 0x8000_0000, 8, &[0x54, 0x06, 0, 0, 0, 0, 0, 0]),
                Bus::raw(0x18FF084A | 0x8000_0000, 8, &[0x14, 0xFF, 1, 0xFF, 1, 0, 0, 0]),
                Bus::raw(0x0CF00400 | 0x8000_0000, 8, &[0xF0, 0x7D, 0x80, 0xE0, 0x2E, 0xFF, 0xFF, 0xFF]),
                Bus::raw(0x18FF0812 | 0x8000_0000, 8, &[0x14, 0xFF, 0, 0xFF, 1, 0, 0, 0]),
            ];
            let mut k = 0usize;
            while !st2.load(Ordering::SeqCst) {
                b2.inject(&frames[k % frames.len()]);
                k += 1;
            }
        });
        let (tx2, st3) = (tx.clone(), stop.clone());
        let flood_cmd = std::thread::spawn(move || {
            let mut k = 0u32;
            while !st3.load(Ordering::SeqCst) {
                let _ = tx2.send(match k % 3 {
                    0 => Object::Motion(Motion::StraightDrive((k % 2000) as i16)),
                    1 => Object::Engine(glonax::core::Engine::from_rpm(1000 + (k % 900) as u16)),
                    _ => Object::Motion(Motion::StopAll),
                });
                k += 1;
                if k % 64 == 0 {
                    std::thread::sleep(Duration::from_micros(200));
                }
            }
        });
        tokio::time::sleep(Duration::from_millis(ms)).await;
        stop.store(true, Ordering::SeqCst);
        let _ = flood_bus.join();
        let _ = flood_cmd.join();
        tokio::time::sleep(Duration::from_millis(100)).await;
        // probe 1: the receive task turns a unit frame into a signal
        let before = shared.svc[0].body.load(Ordering::SeqCst);
        let mut recv_ok = false;
        for _ in 0..20 {
            bus.inject(&Bus::raw(0x18FFAA6A | 0x8000_0000, 8, &[0x10, 0x27, 0, 0, 0, 0, 0, 0]));
            tokio::time::sleep(Duration::from_millis(25)).await;
            if shared.svc[0].body.load(Ordering::SeqCst) > before {
                recv_ok = true;
                break;
            }
        }
        // probe 2: the tick task emits frames
        let _ = bus.sync();
        tokio::time::sleep(Duration::from_millis(100)).await;
        let tick_ok = !bus.sync().is_empty();
        // probe 3: the command task handles a command (a motion reset appears on the bus only through a command)
        let mut cmd_ok = false;
        for _ in 0..20 {
            let _ = tx.send(Object::Motion(Motion::ResetAll));
            tokio::time::sleep(Duration::from_millis(25)).await;
            if bus.sync().iter().any(|r| r[8..13] == [0x5A, 0x43, 0xFF, 0xFF, 0x01]) {
                cmd_ok = true;
                break;
            }
        }
        (recv_ok, tick_ok, cmd_ok)
    });
    rt.shutdown_background();
    if std::env::var("VERIF_SHOW_PANICS").is_ok() {
        eprintln!("stress {} ms: {} signals seen", ms, shared.svc[0].setup.load(Ordering::SeqCst));
    }
    out.case(&format!("live {} {}", cfg.tok(), ms), &format!("recv={} tick={} cmd={}", recv_ok as u8, tick_ok as u8, cmd_ok as u8), true);
    out.count("concurrent flood of the bus and of the command channel, then liveness probes");
}

/// C09 through the REAL daemon, in every operating mode: glonaxd on a network with the engine unit and a hydraulic unit; the
/// engine unit reports 1500 rpm (nothing happens), then 2300 rpm: the emergency sequence must reach the bus - the engine is
/// sent the shutdown code (0x07), which it is never sent otherwise.
pub fn daemon_c09(out: &mut Out, _tier: &str) {
    use std::io::Write;
    if !std::path::Path::new(GLONAXD).exists() {
        out.note("glonaxd binary not built: daemon-level C09 part skipped".to_string());
        return;
    }
    for (n, (mode, flag)) in [("normal", false), ("pilot-restrict", false), ("autonomous", false), ("normal", true)].iter().enumerate() {
        let dir = std::path::PathBuf::from(format!("/verif/.cache/e2e/c09-{}-{}", std::process::id(), n));
        let _ = std::fs::remove_dir_all(&dir);
        std::fs::create_dir_all(dir.join("bus")).unwrap();
        let text = format!("mode = \"{}\"\n[unix_listener]\npath = \"{}\"\n[machine]\nid = \"00000000-0000-0000-0000-000000000000\"\ntype = \"Excavator\"\nmodel = \"LE240\"\nserial = \"0.0\"\n[[j1939]]\ninterface = \"vce0\"\naddress = 0x27\ndriver = [{{ da = 0x0, sa = 0x11, vendor = \"volvo\", product = \"d7e\" }}, {{ da = 0x4A, vendor = \"laixer\", product = \"hcu\" }}]\n[j1939.name]\nmanufacturer_code = 0\nfunction_instance = 2\necu_instance = 1\nfunction = 255\nvehicle_system = 5\nvehicle_system_instance = 5\nindustry_group = 3\n", mode, dir.join("glonax.sock").display());
        let cfile = dir.join("glonax.conf");
        std::fs::File::create(&cfile).unwrap().write_all(text.as_bytes()).unwrap();
        let mut bus = Bus::attach_at(&dir.join("bus"), "vce0");
        bus.impatient = true;
        let mut cmd = std::process::Command::new(GLONAXD);
        cmd.arg("--config").arg(&cfile).arg("--quiet");
        if *flag {
            cmd.arg("--pilot-only");
        }
        let mut child = cmd.env("GLONAX_VERIF_BUS", dir.join("bus")).env_remove("GLONAX_VERIF_BUS_LOOPBACK").stdout(std::process::Stdio::null()).stderr(std::process::Stdio::null()).spawn().expect("spawn glonaxd");
        // up = the network has announced itself
        let t0 = Instant::now();
        let mut up = false;
        while t0.elapsed() < Duration::from_secs(6) && !up {
            up = bus.sync().iter().any(|r| (u32::from_le_bytes([r[0], r[1], r[2], r[3]]) >> 8) & 0xFF00 == 0xEE00);
            std::thread::sleep(Duration::from_millis(5));
        }
        let stop_code_seen = |b: &Bus, rpm: u16, wait_ms: u64| -> bool {
            let raw = (rpm * 8).to_le_bytes();
            let f = Bus::raw(0x0CF00400 | 0x8000_0000, 8, &[0xF0, 0x7D, 0x80, raw[0], raw[1], 0xFF, 0xFF, 0xFF]);
            let _ = b.sync();
            let t = Instant::now();
            let mut seen = false;
            while t.elapsed() < Duration::from_millis(wait_ms) && !seen {
                b.inject(&f);
                std::thread::sleep(Duration::from_millis(20));
                seen = b.sync().iter().any(|r| u32::from_le_bytes([r[0], r[1], r[2], r[3]]) & 0x1FFF_FFFF == 0x0CFF_0211 && r[9] == 0x07);
            }
            seen
        };
        let quiet = !stop_code_seen(&bus, 1500, 300);
        let emergency = stop_code_seen(&bus, 2300, 2000);
        unsafe {
            libc::kill(child.id() as i32, libc::SIGTERM);
        }
        let t1 = Instant::now();
        while t1.elapsed() < Duration::from_secs(6) {
            if let Ok(Some(_)) = child.try_wait() {
                break;
            }
            std::thread::sleep(Duration::from_millis(2));
        }
        let _ = child.kill();
        let _ = child.wait();
        drop(bus);
        let _ = std::fs::remove_dir_all(&dir);
        out.case(&format!("daemon9 {}{}", mode, if *flag { "+pilot-only" } else { "" }), &format!("up={} quiet_at_1500={} shutdown_code_at_2300={}", up as u8, quiet as u8, emergency as u8), true);
        out.count("real glonaxd: overspeed reported on the bus, per operating mode");
    }
}

/// C20 through the REAL daemon: glonaxd (built with glonax/verif) started on a generated configuration with 1..3 networks
/// whose driver lists have 0..3 entries (known and unknown pairs); per network: the address claim it announces at
/// start-up, its answer to a SoftwareIdentification request and to an AddressClaimed request addressed to it.
pub fn daemon_c20(out: &mut Out, tier: &str, rng: &mut Rng) {
    use std::io::Write;
    if !std::path::Path::new(GLONAXD).exists() {
        out.note("glonaxd binary not built: daemon-level C20 part skipped".to_string());
        return;
    }
    let lists: Vec<Vec<DriverCfg>> = vec![
        vec![],
        vec![DriverCfg { da: 0x55, sa: None, timeout: None, vendor: "acme".into(), product: "widget".into() }],
        vec![DriverCfg { da: 0x4A, sa: None, timeout: Some(250), vendor: "laixer".into(), product: "hcu".into() }],
        vec![DriverCfg { da: 0x00, sa: Some(0x11), timeout: Some(250), vendor: "volvo".into(), product: "d7e".into() }, DriverCfg { da: 0x12, sa: None, timeout: Some(1000), vendor: "laixer".into(), product: "vcu".into() }],
        vec![DriverCfg { da: 0x6A, sa: None, timeout: Some(1000), vendor: "kübler".into(), product: "encoder".into() }, DriverCfg { da: 0x7A, sa: None, timeout: None, vendor: "kübler".into(), product: "inclinometer".into() }],
    ];
    let runs = if tier == "thorough" { 10 } else { 3 };
    for n in 0..runs {
        let nets = 1 + (n % 3);
        let mut cfgs: Vec<NetCfg> = vec![];
        for k in 0..nets {
            // every run has at least one network WITHOUT units
            // (the first other network of run n takes list 4, 3, 2, ... in turn so that every list meets every mode)
            let l = if k == n % nets { lists[0].clone() } else if k == (n + 1) % nets { lists[4 - (n / 3 + n + 3) % 4].clone() } else { rng.pick(&lists).clone() };
            cfgs.push(NetCfg { address: *rng.pick(&[0x27u8, 0x9B, 0x01, 0xFD]), name: [rng.below(2048) as u32, rng.below(32) as u32, rng.below(8) as u32, rng.below(256) as u32, rng.below(128) as u32, rng.below(16) as u32, rng.below(8) as u32], drivers: l });
        }
        let dir = std::path::PathBuf::from(format!("/verif/.cache/e2e/c20-{}-{}", std::process::id(), n));
        let _ = std::fs::remove_dir_all(&dir);
        std::fs::create_dir_all(dir.join("bus")).unwrap();
        // every operating mode (what a network does at start-up and answers does not depend on it)
        let mode = ["normal", "pilot-restrict", "autonomous"][n % 3];
        let mut text = format!("mode = \"{}\"\n[unix_listener]\npath = \"{}\"\n[machine]\nid = \"00000000-0000-0000-0000-000000000000\"\ntype = \"Excavator\"\nmodel = \"LE240\"\nserial = \"0.0\"\n[engine]\nrpm_idle = 800\nrpm_max = 2100\n", mode, dir.join("glonax.sock").display());
        for (k, c) in cfgs.iter().enumerate() {
            let ds: Vec<String> = c.drivers.iter().map(|d| format!("{{ da = {}, {}{}vendor = \"{}\", product = \"{}\" }}", d.da, d.sa.map_or(String::new(), |x| format!("sa = {}, ", x)), d.timeout.map_or(String::new(), |x| format!("timeout = {}, ", x)), d.vendor, d.product)).collect();
            text += &format!("[[j1939]]\ninterface = \"vcd{}\"\naddress = {}\ndriver = [{}]\n[j1939.name]\nmanufacturer_code = {}\nfunction_instance = {}\necu_instance = {}\nfunction = {}\nvehicle_system = {}\nvehicle_system_instance = {}\nindustry_group = {}\n", k, c.address, ds.join(", "), c.name[0], c.name[1], c.name[2], c.name[3], c.name[4], c.name[5], c.name[6]);
        }
        let cfile = dir.join("glonax.conf");
        std::fs::File::create(&cfile).unwrap().write_all(text.as_bytes()).unwrap();
        let buses: Vec<Bus> = (0..nets).map(|k| Bus::attach_at(&dir.join("bus"), &format!("vcd{}", k))).collect();
        let mut child = std::process::Command::new(GLONAXD)
            .arg("--config").arg(&cfile).arg("--quiet").args(if n % 4 == 3 { vec!["--pilot-only"] } else { vec![] })
            .env("GLONAX_VERIF_BUS", dir.join("bus")).env_remove("GLONAX_VERIF_BUS_LOOPBACK")
            .stdout(std::process::Stdio::null()).stderr(std::process::Stdio::null())
            .spawn().expect("spawn glonaxd");
        // start-up: collect what every network puts on its bus during the first 6 s (normally: until all have claimed + 200 ms)
        let t0 = Instant::now();
        let mut seen: Vec<Vec<[u8; 16]>> = vec![vec![]; nets];
        let mut all_claimed_at: Option<Instant> = None;
        let mut last_req_at = Instant::now();
        while t0.elapsed() < Duration::from_millis(6000) {
            for (i, b) in buses.iter().enumerate() {
                let fresh = b.sync();
                if fresh.iter().any(|r| (u32::from_le_bytes([r[0], r[1], r[2], r[3]]) >> 16) & 0xFF == 0xEA) {
                    last_req_at = Instant::now();
                }
                seen[i].extend(fresh);
            }
            let claimed = seen.iter().all(|v| v.iter().any(|r| (u32::from_le_bytes([r[0], r[1], r[2], r[3]]) >> 8) & 0xFF00 == 0xEE00));
            if claimed && all_claimed_at.is_none() {
                all_claimed_at = Some(Instant::now());
            }
            // until every network has announced itself and no further request to a unit has appeared for 600 ms (a loaded
            // machine may run the first cycles late)
            if let Some(t) = all_claimed_at {
                if t.elapsed() > Duration::from_millis(600) && last_req_at.elapsed() > Duration::from_millis(600) {
                    break;
                }
            }
            std::thread::sleep(Duration::from_millis(5));
        }
        let mut toks = vec![];
        for (i, c) in cfgs.iter().enumerate() {
            let claim: Vec<String> = seen[i].iter().filter(|r| (u32::from_le_bytes([r[0], r[1], r[2], r[3]]) >> 8) & 0xFF00 == 0xEE00 && r[0] == c.address).map(|r| raw_to_frame_tok(r, c.address)).collect();
            // the two requests, each answered (or not) within 1.5 s
            let mut answers = vec![];
            for req in [65242u32, 60928] {
                let _ = buses[i].sync();
                buses[i].inject(&crate::auth::raw_of(crate::drv::make_id(6, 59904, c.address, 0x10), &[(req & 0xFF) as u8, (req >> 8) as u8, (req >> 16) as u8]));
                let t = Instant::now();
                let mut got: Vec<String> = vec![];
                while t.elapsed() < Duration::from_millis(1500) && got.is_empty() {
                    for r in buses[i].sync() {
                        let id = u32::from_le_bytes([r[0], r[1], r[2], r[3]]) & 0x1FFF_FFFF;
                        let g = (id >> 8) & 0xFFFF;
                        if (id & 0xFF) as u8 == c.address && (g == req || (req == 60928 && g & 0xFF00 == 0xEE00)) {
                            got.push(raw_to_frame_tok(&r, c.address));
                        }
                    }
                    std::thread::sleep(Duration::from_millis(2));
                }
                answers.push(if got.is_empty() { "-".to_string() } else { got.join(",") });
            }
            // the requests the daemon sent to its configured units during start-up, in order
            let reqs: Vec<String> = seen[i].iter().filter(|r| (u32::from_le_bytes([r[0], r[1], r[2], r[3]]) >> 16) & 0xFF == 0xEA).map(|r| raw_to_frame_tok(r, c.address)).collect();
            toks.push(format!("{}|{}|{}|{}", if claim.is_empty() { "-".to_string() } else { claim.join(",") }, answers[0], answers[1], if reqs.is_empty() { "-".to_string() } else { reqs.join(",") }));
        }
        unsafe {
            libc::kill(child.id() as i32, libc::SIGTERM);
        }
        let t1 = Instant::now();
        while t1.elapsed() < Duration::from_secs(6) {
            if let Ok(Some(_)) = child.try_wait() {
                break;
            }
            std::thread::sleep(Duration::from_millis(2));
        }
        let _ = child.kill();
        let _ = child.wait();
        drop(buses);
        let _ = std::fs::remove_dir_all(&dir);
        for (c, t) in cfgs.iter().zip(toks.iter()) {
            out.case(&format!("daemon {}", c.tok()), t, true);
            out.count(&format!("real glonaxd: network with {} configured unit(s)", c.drivers.len()));
        }
    }
}

pub fn run(out: &mut Out, tier: &str, rng: &mut Rng) {
    let thorough = tier == "thorough";
    out.rule = "real glonax::Runtime: the three io services of glonaxd's run() and 0..3 networks as recording stubs, the termination request delivered at EVERY scheduling point of every schedule call (hook verif_sched: enter / guard / spawn / spawn2 / spawn3 x call index), after scheduling (0..40 ms later, idle or in a 40-command burst) directly and through a real SIGTERM handled by register_shutdown_signal, on current-thread and multi-thread tokio runtimes; observed: setup / teardown calls per service, whether wait_for_tasks returns within 4 s, silence afterwards. Then the real NetworkAuthority (1-2 networks, 0-3 hydraulic units each plus other units) under the real Runtime on emulated buses: frames seen between the request and the join, frames after the join. Then authority-level teardown at any point of its life. Non-trivial = all".into();
    // --- A: every scheduling point
    for multi in [false, true] {
        for nets in 0..=(if thorough { 3 } else { 2 }) {
            let calls = 3 + nets;
            for p in ["enter", "guard", "spawn"] {
                for n in 0..calls {
                    sched_scenario(out, multi, nets, When::Point(p, n), false);
                }
            }
            for p in ["spawn2", "spawn3"] {
                for n in 0..nets {
                    sched_scenario(out, multi, nets, When::Point(p, n), false);
                }
            }
            for d in [0u64, 3, 20] {
                sched_scenario(out, multi, nets, When::After(d), false);
                sched_scenario(out, multi, nets, When::After(d), true);
            }
            sched_scenario(out, multi, nets, When::Sigterm(0), false);
            sched_scenario(out, multi, nets, When::Sigterm(10), true);
        }
    }
    // --- B: real authorities
    let reps = if thorough { 40 } else { 10 };
    for i in 0..reps {
        let nn = 1 + (i % 2);
        let mut cfgs = vec![];
        for k in 0..nn {
            let mut drivers = vec![];
            let nh = rng.below(4) as u8;
            for h in 0..nh {
                drivers.push(hcu(0x4A + h, if rng.chance(1, 3) { Some(0x30 + k as u8) } else { None }));
            }
            for _ in 0..rng.below(3) {
                let d = other(rng);
                if !drivers.iter().any(|x: &DriverCfg| x.da == d.da) {
                    drivers.push(d);
                }
            }
            cfgs.push(NetCfg { address: 0x27 + k as u8, name: [0, 2, 1, 255, 5, 5, 3], drivers });
        }
        let when = match i % 5 {
            0 => When::After(0),
            1 => When::Sigterm(35),
            2 => When::After(25),
            3 => When::Point("spawn", 1 + rng.below(nn as u64) as usize),
            _ => When::Sigterm(0),
        };
        bus_scenario(out, i % 2 == 1, &cfgs, when, i % 3 == 2);
    }
    // --- C: authority-level teardown
    crate::authgen::run_c16_auth(out, tier, rng);
    // --- D: the real daemon
    let offsets: &[u64] = if thorough { &[0, 1, 2, 3, 5, 8, 10, 12, 15, 20, 25, 30, 40, 60, 100, 250] } else { &[0, 7, 30] };
    let mut n = 0;
    for &o in offsets {
        for clients in if thorough { vec![0usize, 1, 3] } else { vec![if o == 0 { 0usize } else { 1 + (o % 2) as usize }] } {
            e2e_scenario(out, n, o, clients, n % 2 == 1, false);
            n += 1;
        }
    }
    // the daemon's surroundings change while it runs: its socket file disappears before the request
    for (o, clients) in if thorough { vec![(0u64, 0usize), (10, 1), (40, 3)] } else { vec![(7u64, 1usize)] } {
        e2e_scenario(out, n, o, clients, false, true);
        n += 1;
    }
}
