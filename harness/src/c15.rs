//! C15: the real `Runtime::schedule_net_service` command task(s) with recording network services whose
//! handler can be held back, and a producer service that hands the real CommandSender to the harness.
use crate::util::*;
use glonax::core::{Engine, EngineState, Object};
use glonax::runtime::{CommandSender, NetworkService, Service, SignalReceiver, SignalSender};
use std::sync::{Arc, Mutex};
use std::time::Duration;
use tokio::sync::Semaphore;

struct Shared {
    handled: Mutex<Vec<Vec<u16>>>,
    /// commands whose handler ran to its end
    completed: Mutex<Vec<Vec<u16>>>,
    gates: Vec<Arc<Semaphore>>,
    sender: Mutex<Option<CommandSender>>,
}

#[derive(Clone)]
struct NetCfg {
    idx: usize,
    shared: Arc<Shared>,
}

#[derive(Clone)]
struct StubNet(NetCfg);

impl NetworkService<NetCfg> for StubNet {
    fn new(config: NetCfg) -> Self {
        StubNet(config)
    }
    async fn recv(&mut self, _signal_tx: SignalSender) {
        std::future::pending::<()>().await
    }
    async fn on_tick(&mut self, _signal_tx: SignalSender) {}
    async fn on_command(&mut self, object: &Object) {
        if let Object::Engine(e) = object {
            self.0.shared.handled.lock().unwrap()[self.0.idx].push(e.rpm);
        }
        // commands that arrive through a client session (scenario `via_session`) are motion commands
        match object {
            Object::Motion(glonax::core::Motion::StraightDrive(v)) => self.0.shared.handled.lock().unwrap()[self.0.idx].push(*v as u16),
            Object::Motion(glonax::core::Motion::StopAll) => self.0.shared.handled.lock().unwrap()[self.0.idx].push(9999),
            _ => {}
        }
        // the handler is "slow": it finishes only when the harness grants a permit
        self.0.shared.gates[self.0.idx].acquire().await.unwrap().forget();
        if let Object::Engine(e) = object {
            self.0.shared.completed.lock().unwrap()[self.0.idx].push(e.rpm);
        }
        match object {
            Object::Motion(glonax::core::Motion::StraightDrive(v)) => self.0.shared.completed.lock().unwrap()[self.0.idx].push(*v as u16),
            Object::Motion(glonax::core::Motion::StopAll) => self.0.shared.completed.lock().unwrap()[self.0.idx].push(9999),
            _ => {}
        }
    }
}

#[derive(Clone)]
struct ProdCfg(Arc<Shared>);
struct Prod(ProdCfg);

impl Service<ProdCfg> for Prod {
    fn new(config: ProdCfg) -> Self {
        Prod(config)
    }
    async fn wait_io_sub(&mut self, command_tx: CommandSender, _signal_rx: SignalReceiver) {
        *self.0 .0.sender.lock().unwrap() = Some(command_tx);
        std::future::pending::<()>().await
    }
}

async fn settle() {
    for _ in 0..64 {
        tokio::task::yield_now().await;
    }
}

#[derive(Clone, Copy)]
enum Act {
    Send,
    /// grant `k` permits to network `i`
    Release(usize, usize),
}

fn scenario(out: &mut Out, networks: usize, acts: &[Act], nontrivial: bool) {
    scenario_at(out, networks, acts, nontrivial, false)
}

/// `early`: the networks are scheduled only after the producer has its sender, and the first acts follow WITHOUT
/// yielding to the executor: a command accepted right after a network was scheduled belongs to that network
/// (its receiver exists from scheduling time on, not from the first poll of its task)
fn scenario_at(out: &mut Out, networks: usize, acts: &[Act], nontrivial: bool, early: bool) {
    scenario_full(out, networks, acts, nontrivial, early, None)
}

/// `slow`: the networks run with this control-cycle interval (ms) and real time passes (4 intervals) after every act
/// while the handlers are held back: a handler may take longer than a cycle
fn scenario_full(out: &mut Out, networks: usize, acts: &[Act], nontrivial: bool, early: bool, slow: Option<u64>) {
    let rt = tokio::runtime::Builder::new_current_thread().enable_all().build().unwrap();
    let shared = Arc::new(Shared {
        handled: Mutex::new(vec![vec![]; networks]),
        completed: Mutex::new(vec![vec![]; networks]),
        gates: (0..networks).map(|_| Arc::new(Semaphore::new(0))).collect(),
        sender: Mutex::new(None),
    });
    let line = rt.block_on(async {
        let mut runtime = glonax::Runtime::default();
        runtime.schedule_io_sub_service::<Prod, ProdCfg>(ProdCfg(shared.clone()));
        if early {
            settle().await;
        }
        for i in 0..networks {
            runtime.schedule_net_service::<StubNet, NetCfg>(NetCfg { idx: i, shared: shared.clone() }, slow.map_or(Duration::from_secs(3600), Duration::from_millis));
        }
        if !early {
            settle().await;
        }
        let tx = shared.sender.lock().unwrap().clone().expect("producer got the command sender");
        let mut toks: Vec<String> = vec![];
        let mut seen = vec![0usize; networks];
        let mut next_id: u16 = 0;
        let observe = |toks: &mut Vec<String>, seen: &mut Vec<usize>| {
            let h = shared.handled.lock().unwrap();
            for i in 0..networks {
                if h[i].len() > seen[i] {
                    toks.push(format!("r:{}:{}", i, h[i].len() - seen[i]));
                    seen[i] = h[i].len();
                }
            }
        };
        for a in acts {
            match a {
                Act::Send => {
                    let _ = tx.send(Object::Engine(Engine { driver_demand: 0, actual_engine: 0, rpm: next_id, state: EngineState::Request }));
                    toks.push(format!("s:{}", next_id));
                    next_id += 1;
                }
                Act::Release(i, k) => shared.gates[*i].add_permits(*k),
            }
            if early && matches!(a, Act::Send) {
                // no yield between the sends of an early burst
                continue;
            }
            settle().await;
            if let Some(ms) = slow {
                tokio::time::sleep(Duration::from_millis(4 * ms)).await;
                settle().await;
            }
            observe(&mut toks, &mut seen);
        }
        // finally every handler is released and drains what is left
        for g in &shared.gates {
            g.add_permits(100_000);
        }
        settle().await;
        settle().await;
        observe(&mut toks, &mut seen);
        let h = shared.handled.lock().unwrap();
        let lists: Vec<String> = h.iter().map(|l| if l.is_empty() { "-".to_string() } else { l.iter().map(|x| x.to_string()).collect::<Vec<_>>().join(",") }).collect();
        // every command whose handler was started has run to its end by now
        let c = shared.completed.lock().unwrap();
        let missing: Vec<String> = (0..networks).filter(|&i| c[i] != h[i]).map(|i| format!("{}:{}", i, h[i].len() as i64 - c[i].len() as i64)).collect();
        (toks.join(" "), if missing.is_empty() { lists.join(";") } else { format!("{} INCOMPLETE:{}", lists.join(";"), missing.join(",")) })
    });
    out.case(&format!("bus {} {}", networks, line.0), &line.1, nontrivial);
}

/// The producer is a real client session (`UnixServer` session task on a scripted transport) holding the runtime's
/// command sender: `burst` drive commands and a final stop-all arrive in one read while network 0's handler is held.
/// Emitted in the ordinary `bus` format: the sends are the frames, in order (ids = the drive values, 9999 = stop-all).
pub fn via_session(out: &mut Out, networks: usize, burst: usize) {
    via_session_sig(out, networks, burst, 0)
}

/// `signals`: that many signals are published to the session before it first runs (more than the signal queue holds: the
/// session's subscriber has been overrun when it starts reading its client's frames - it skips, it does not hang up)
pub fn via_session_sig(out: &mut Out, networks: usize, burst: usize, signals: usize) {
    let (i, o) = via_session_line(networks, burst, signals, 0);
    out.case(&i, &o, true);
    out.count("commands through a real client session");
}

/// `bad_header`: a header the daemon rejects (LXR, right version, payload length 0: exactly ten bytes, the stream stays
/// aligned) sits between the client's commands - the commands after it are commands all the same.  The whole scenario runs on
/// its own thread with a 20 s limit (a session that spins on the rejected header would never give the executor back).
pub fn via_session_bad_header(out: &mut Out, burst: usize) {
    via_session_between(out, burst, 1)
}

/// `between`: 1 = the rejected header; n > 1 = a frame of an unknown type with an n-byte payload (skipped whole, whatever its
/// size up to the payload limit) sits after the client's first command
pub fn via_session_between(out: &mut Out, burst: usize, between: usize) {
    let (tx, rx) = std::sync::mpsc::channel();
    std::thread::spawn(move || {
        let _ = tx.send(via_session_line(1, burst, 0, between));
    });
    match rx.recv_timeout(Duration::from_secs(20)) {
        Ok((i, o)) => out.case(&i, &o, true),
        Err(_) => {
            // nothing came back: the session never returned control (reported as: no command was handled)
            let mut toks: Vec<String> = (0..burst).map(|i| format!("s:{}", 100 + i)).collect();
            toks.push("s:9999".into());
            out.case(&format!("bus 1 {}", toks.join(" ")), "-", true);
        }
    }
    out.count("a rejected header between a client's commands");
}

fn via_session_line(networks: usize, burst: usize, signals: usize, between: usize) -> (String, String) {
    let rt = tokio::runtime::Builder::new_current_thread().enable_all().build().unwrap();
    let shared = Arc::new(Shared {
        handled: Mutex::new(vec![vec![]; networks]),
        completed: Mutex::new(vec![vec![]; networks]),
        gates: (0..networks).map(|_| Arc::new(Semaphore::new(0))).collect(),
        sender: Mutex::new(None),
    });
    let line = rt.block_on(async {
        let mut runtime = glonax::Runtime::default();
        runtime.schedule_io_sub_service::<Prod, ProdCfg>(ProdCfg(shared.clone()));
        for i in 0..networks {
            runtime.schedule_net_service::<StubNet, NetCfg>(NetCfg { idx: i, shared: shared.clone() }, Duration::from_secs(3600));
        }
        settle().await;
        let tx = shared.sender.lock().unwrap().clone().expect("producer got the command sender");
        // every network but the first keeps up
        for g in shared.gates.iter().skip(1) {
            g.add_permits(100_000);
        }
        let mut bytes = vec![];
        let mut toks = vec![];
        for i in 0..burst {
            let v = 100 + i as i16;
            let vb = v.to_be_bytes();
            bytes.extend(crate::sess::frame(0x20, &[0x05, vb[0], vb[1]]));
            toks.push(format!("s:{}", v));
            if between == 1 && i == 0 {
                bytes.extend_from_slice(&[b'L', b'X', b'R', 3, 0x20, 0, 0, 0, 0, 0]);
            } else if between > 1 && i == 0 {
                // a frame of a type the session does not know, `between` payload bytes (each one a would-be header start)
                let body: Vec<u8> = b"LXR\x03\x20\x00\x03\x00\x00\x00".iter().cycle().take(between).cloned().collect();
                bytes.extend(crate::sess::frame(0x7E, &body));
            }
        }
        bytes.extend(crate::sess::frame(0x20, &[0x00]));
        toks.push("s:9999".to_string());
        let (_sig_tx, sig_rx) = tokio::sync::broadcast::channel::<Object>(16);
        let session = tokio::spawn(glonax::service::UnixServer::verif_client_session(crate::sess::Transport::preloaded(bytes), tx.clone(), sig_rx));
        for k in 0..signals {
            let _ = _sig_tx.send(Object::Engine(Engine { driver_demand: 0, actual_engine: 0, rpm: k as u16, state: EngineState::Request }));
        }
        settle().await;
        settle().await;
        // what each network has taken so far, then everything is released
        {
            let h = shared.handled.lock().unwrap();
            for i in 0..networks {
                if !h[i].is_empty() {
                    toks.push(format!("r:{}:{}", i, h[i].len()));
                }
            }
        }
        let seen: Vec<usize> = shared.handled.lock().unwrap().iter().map(|l| l.len()).collect();
        shared.gates[0].add_permits(100_000);
        settle().await;
        settle().await;
        {
            let h = shared.handled.lock().unwrap();
            for i in 0..networks {
                if h[i].len() > seen[i] {
                    toks.push(format!("r:{}:{}", i, h[i].len() - seen[i]));
                }
            }
        }
        session.abort();
        let h = shared.handled.lock().unwrap();
        let lists: Vec<String> = h.iter().map(|l| if l.is_empty() { "-".to_string() } else { l.iter().map(|x| x.to_string()).collect::<Vec<_>>().join(",") }).collect();
        (toks.join(" "), lists.join(";"))
    });
    (format!("bus {} {}", networks, line.0), line.1)
}

/// Several producers AT ONCE through the real server: the real UnixServer scheduled in the real Runtime (its accept loop
/// included), `clients` connections opened one after the other and ALL KEPT OPEN; every client registers and sends one
/// command, the last one a stop-all; every command must reach the network's handler while all of them are still connected.
pub fn via_server(out: &mut Out, clients: usize) {
    via_server_late(out, clients, 0)
}

/// `late`: after the `clients` simultaneous ones have all left, that many more connect one after the other (a server that has
/// been busy once serves the next client like the first)
pub fn via_server_late(out: &mut Out, clients: usize, late: usize) {
    use std::io::Write;
    crate::sess::ensure_instance();
    let rt = tokio::runtime::Builder::new_multi_thread().worker_threads(2).enable_all().build().unwrap();
    let shared = Arc::new(Shared {
        handled: Mutex::new(vec![vec![]; 1]),
        completed: Mutex::new(vec![vec![]; 1]),
        gates: vec![Arc::new(Semaphore::new(1_000_000))],
        sender: Mutex::new(None),
    });
    let dir = std::path::PathBuf::from(format!("/verif/.cache/c15srv-{}", std::process::id()));
    let _ = std::fs::create_dir_all(&dir);
    let path = dir.join("s.sock");
    let _ = std::fs::remove_file(&path);
    let mut toks = vec![];
    let lists = rt.block_on(async {
        let mut runtime = glonax::Runtime::default();
        runtime.schedule_io_sub_service::<glonax::service::UnixServer, glonax::service::UnixServerConfig>(glonax::service::UnixServerConfig { path: path.clone() });
        runtime.schedule_net_service::<StubNet, NetCfg>(NetCfg { idx: 0, shared: shared.clone() }, Duration::from_secs(3600));
        tokio::time::sleep(Duration::from_millis(30)).await;
        let mut conns = vec![];
        for k in 0..clients + late {
            if k >= clients {
                // everybody has left
                conns.clear();
                tokio::time::sleep(Duration::from_millis(60)).await;
            }
            let p2 = path.clone();
            let last = k + 1 == clients + late;
            let v = 100 + k as i16;
            // blocking client on its own thread (connect, register, one command), the connection is handed back and kept open
            let c = tokio::task::spawn_blocking(move || {
                let mut c = std::os::unix::net::UnixStream::connect(&p2).ok()?;
                let mut bytes = crate::sess::frame(0x10, &[0x00, b'c']);
                let vb = v.to_be_bytes();
                bytes.extend(if last { crate::sess::frame(0x20, &[0x00]) } else { crate::sess::frame(0x20, &[0x05, vb[0], vb[1]]) });
                c.write_all(&bytes).ok()?;
                Some(c)
            })
            .await
            .ok()
            .flatten();
            toks.push(if last { "s:9999".to_string() } else { format!("s:{}", v) });
            conns.push(c);
            // what the handler has by now (every client still connected): up to 1 s for this client's command to arrive
            let want = k + 1;
            let t = std::time::Instant::now();
            while t.elapsed() < Duration::from_millis(1000) && shared.handled.lock().unwrap()[0].len() < want {
                tokio::time::sleep(Duration::from_millis(5)).await;
            }
            let have = shared.handled.lock().unwrap()[0].len();
            let before: usize = toks.iter().filter(|t| t.starts_with("r:")).map(|t| t.rsplit(':').next().unwrap().parse::<usize>().unwrap()).sum();
            if have > before {
                toks.push(format!("r:0:{}", have - before));
            }
        }
        let h = shared.handled.lock().unwrap();
        let l: Vec<String> = h.iter().map(|l| if l.is_empty() { "-".to_string() } else { l.iter().map(|x| x.to_string()).collect::<Vec<_>>().join(",") }).collect();
        drop(conns);
        l
    });
    drop(rt);
    let _ = std::fs::remove_dir_all(&dir);
    out.case(&format!("bus 1 {}", toks.join(" ")), &lists.join(";"), true);
    out.count(&format!("{} clients connected at once through the real server{}", clients, if late > 0 { ", then late ones" } else { "" }));
}

/// commands accepted immediately after the networks were scheduled, before any of their tasks has been polled
pub fn early(out: &mut Out) {
    for networks in 1..=2usize {
        for burst in [1usize, 3, 16] {
            let mut acts = vec![Act::Send; burst];
            acts.push(Act::Release(0, 1));
            scenario_at(out, networks, &acts, true, true);
            out.count("commands right after scheduling");
        }
    }
}

pub fn run(out: &mut Out, tier: &str, rng: &mut Rng) {
    let thorough = tier == "thorough";
    for clients in [1usize, 2, 3, 5] {
        via_server(out, clients);
    }
    // as many clients at once as the server is meant for (NETWORK_MAX_CLIENTS = 16) and one more, then late ones
    via_server_late(out, 16, 2);
    via_server_late(out, 17, 1);
    for burst in [2usize, 5] {
        via_session_bad_header(out, burst);
    }
    // a frame the session skips (unknown type), of every size class up to the payload limit, between the commands
    for between in [2usize, 255, 256, 257, 300, 511, 513, 700, 1023, 1024] {
        via_session_between(out, 4, between);
    }
    // a client whose session has been overrun by published signals is still a producer: all its commands are delivered
    for (burst, signals) in [(3usize, 17usize), (8, 17), (8, 40), (12, 16), (12, 100)] {
        via_session_sig(out, 1, burst, signals);
    }
    out.rule = "the real Runtime::schedule_net_service command task(s) (1..3 networks) fed by the real CommandSender obtained through a scheduled producer service; handlers are held back by permits so that producers outrun them: bursts of 1..64 (quick) / 1..200 (thorough) commands sent while a handler is blocked, released at scripted points, interleaved with further sends; random schedules. Observed: the ordered list of commands each network's on_command received. Non-trivial = some burst exceeds the queue capacity of 16".into();
    let max_burst = if thorough { 200 } else { 64 };
    for networks in 1..=3usize {
        for burst in (1..=max_burst).filter(|b| thorough || *b <= 20 || b % 7 == 0 || [31, 32, 33, 40, 41, 64].contains(b)) {
            // burst while every handler is blocked, then release
            let mut acts = vec![Act::Send; burst];
            acts.push(Act::Release(0, 1));
            scenario(out, networks, &acts, burst > 16);
            out.count(&format!("burst networks={}", networks));
            // burst, partial release, second burst
            if burst % 3 == 0 {
                let mut acts = vec![Act::Send; burst];
                acts.push(Act::Release(0, 5));
                acts.extend(vec![Act::Send; 20]);
                if networks > 1 {
                    acts.push(Act::Release(1, 3));
                }
                acts.extend(vec![Act::Send; 3]);
                scenario(out, networks, &acts, true);
                out.count("burst+partial release");
            }
        }
        // commands accepted immediately after scheduling, before any task of the networks has been polled
        for burst in [1usize, 2, 6, 16] {
            let mut acts = vec![Act::Send; burst];
            acts.push(Act::Release(0, 1));
            scenario_at(out, networks, &acts, true, true);
            out.count("commands right after scheduling");
        }
        // the producer is a real client session
        for burst in [1usize, 15, 16, 17, 19, 40] {
            via_session(out, networks, burst);
        }
        // handlers that take longer than a control cycle (5 ms cycles, 20 ms pass after every act while they are held)
        for burst in [1usize, 3, 6] {
            let mut acts = vec![Act::Send; burst];
            acts.push(Act::Release(0, 1));
            acts.push(Act::Send);
            scenario_full(out, networks, &acts, true, false, Some(5));
            out.count("handler slower than a control cycle");
        }
        // the director's emergency burst: six commands per signal, many signals, slow handler
        let mut acts = vec![];
        for _ in 0..10 {
            acts.extend(vec![Act::Send; 6]);
            acts.push(Act::Release(0, 2));
        }
        scenario(out, networks, &acts, true);
        out.count("emergency bursts");
        for _ in 0..(if thorough { 300 } else { 40 }) {
            let n = 1 + rng.below(120) as usize;
            let acts: Vec<Act> = (0..n)
                .map(|_| if rng.chance(3, 4) { Act::Send } else { Act::Release(rng.below(networks as u64) as usize, 1 + rng.below(20) as usize) })
                .collect();
            scenario(out, networks, &acts, true);
            out.count("random schedule");
        }
    }
}
