//! C14: handshake, streaming, lag, version gate.
use crate::sess::{self, Ev};
use crate::sessgen::*;
use crate::util::*;

pub fn run(out: &mut Out, tier: &str, rng: &mut Rng) {
    let thorough = tier == "thorough";
    let inst = sess::set_instance();
    out.rule = "sess: session upgrades with all 32 flag values and names (empty, 64, >64 characters, multi-byte), then signals of all six kinds one at a time, interleaved with command frames cut at arbitrary offsets, and bursts of 1/15/16/17/40 signals published while the session is held inside a payload read (lag); compat: is_compatibile for all 256x256 (major, minor) pairs. Non-trivial = a signal is published to a streaming session or a burst exceeds the queue".into();
    // --- version gate: all (major, minor), a few patches
    for major in 0..=255u16 {
        for minor in 0..=255u16 {
            if !thorough && major > 8 && minor > 8 && (major * 7 + minor) % 13 != 0 {
                continue;
            }
            let patch = rng.byte();
            let r = glonax::is_compatibile((major as u8, minor as u8, patch));
            out.case(&format!("compat {} {} {}", major, minor, patch), if r { "1" } else { "0" }, major == 3);
        }
    }
    out.count_n("compat", 1);
    // the identity record as the client's handshake decodes it: server side `Stream::send_packet(instance)`, client side
    // `read_frame` + `recv_packet::<Instance>` (what `Stream::handshake` does after sending its session frame), for
    // identities with empty / long / multi-byte model and serial strings, every machine type and version bytes
    {
        use glonax::core::{Instance, MachineType};
        let rt = tokio::runtime::Builder::new_current_thread().enable_all().build().unwrap();
        let texts: Vec<String> = vec!["".into(), "a".into(), "LE240".into(), "0.00000.0.00000".into(), "é".repeat(20), "x".repeat(255), "挖掘机".into(), " ".into()];
        let ids = ["00000000-0000-0000-0000-000000000000", "d55bcd75-8d30-49af-ac18-ee7cbce7822f", "ffffffff-ffff-ffff-ffff-ffffffffffff"];
        let types = [MachineType::Excavator, MachineType::WheelLoader, MachineType::Dozer, MachineType::Grader, MachineType::Hauler, MachineType::Forestry];
        let mut k = 0usize;
        // records of exactly 1022 / 1023 / 1024 bytes (24 fixed bytes + the two strings)
        let mut texts = texts;
        for total in [1022usize, 1023, 1024] {
            texts.push("M".repeat(total - 24 - 255));
        }
        for model in &texts {
            for serial in &texts {
                let ty = types[k % types.len()];
                let ver = [(0u8, 0u8, 0u8), (3, 5, 13), (255, 255, 255)][k % 3];
                let inst = Instance::new(ids[k % 3], model.clone(), ty, ver, serial.clone());
                k += 1;
                let tok = |i: &Instance| format!("{}:{}:{}:{}:{}:{}:{}", hex(i.id().as_bytes()), i.ty() as u8, i.version().0, i.version().1, i.version().2, hex(i.model().as_bytes()), hex(i.serial_number().as_bytes()));
                let decoded: Result<Instance, String> = rt.block_on(async {
                    let (a, b) = tokio::io::duplex(4096);
                    let mut server = glonax::protocol::Stream::new(a);
                    let mut client = glonax::protocol::Stream::new(b);
                    server.send_packet(&inst).await.map_err(|e| format!("send:{:?}", e.kind()))?;
                    let frame = client.read_frame().await.map_err(|e| format!("frame:{:?}", e.kind()))?;
                    client.recv_packet::<Instance>(frame.payload_length).await.map_err(|e| format!("ERR:{:?}", e.kind()))
                });
                out.case(&format!("id {}", tok(&inst)), &match decoded { Ok(d) => tok(&d), Err(e) => e }, true);
                out.count("identity decoded by the client");
            }
        }
    }
    // --- all flags x names
    let names = ["", "a", &"n".repeat(64), &"m".repeat(65), &"é".repeat(64), &"€".repeat(70), "verif/😀"];
    for flags in 0..32u8 {
        for name in names.iter() {
            let mut evs = vec![Ev::Bytes(session_frame(flags, name).bytes)];
            for _ in 0..3 {
                evs.push(Ev::Signal(rand_signal(rng)));
            }
            evs.push(Ev::Bytes(sess::frame(0x20, &[0x00])));
            evs.push(Ev::Signal(rand_signal(rng)));
            sess::run_case(out, &inst, "sess", &evs, flags & 1 == 1);
            if flags % 4 == 1 {
                sess::run_case_window(out, &inst, "sess", &evs, true, [1usize, 7, 13][(flags as usize / 4) % 3]);
            }
            out.count(if flags & 1 == 1 { "upgrade streaming" } else { "upgrade not streaming" });
        }
    }
    // --- upgrades with names at and around the payload size limit (1 + name = 1022 / 1023 / 1024 bytes), and the hostile
    // corpus of the session family inside a streaming session: a frame the daemon rejects or drains must not stop the stream
    for total in [1022usize, 1023, 1024] {
        for flags in [0x01u8, 0x11, 0x00] {
            let mut p = vec![b'n'; total];
            p[0] = flags;
            let mut evs = vec![Ev::Bytes(sess::frame(0x10, &p))];
            for _ in 0..2 {
                evs.push(Ev::Signal(rand_signal(rng)));
            }
            sess::run_case(out, &inst, "sess", &evs, flags & 1 == 1);
            out.count("upgrade at the payload size limit");
        }
    }
    for h in crate::sessgen::hostile_corpus(rng) {
        let mut st = session_frame(0x01, "s").bytes;
        st.extend(&h.bytes);
        let evs = vec![Ev::Bytes(st), Ev::Signal(rand_signal(rng)), Ev::Bytes(sess::frame(0x20, &[0x00])), Ev::Signal(rand_signal(rng))];
        sess::run_case(out, &inst, "sess", &evs, true);
        out.count(&format!("hostile corpus in a streaming session: {}", h.class));
    }
    // --- interleavings of command writes with publications
    let n = if thorough { 6000 } else { 600 };
    for _ in 0..n {
        let streaming = rng.chance(3, 4);
        let mut stream = session_frame(if streaming { 0x01 } else { 0x00 } | (rng.below(16) as u8 & 0x1E), "c").bytes;
        let mut bounds = vec![stream.len()];
        for _ in 0..(1 + rng.below(3)) {
            let f = if rng.chance(1, 5) { session_frame(rng.below(32) as u8, "again") } else { rand_frame(rng) };
            if f.bytes.len() > 300 {
                continue;
            }
            stream.extend(f.bytes);
            bounds.push(stream.len());
        }
        let mut cuts: Vec<usize> = (0..(1 + rng.below(4))).map(|_| rng.below(stream.len() as u64) as usize).collect();
        cuts.extend(bounds.iter().cloned());
        cuts.sort();
        cuts.dedup();
        let mut evs = vec![];
        let mut last = 0;
        for &c in &cuts {
            if c > last {
                evs.push(Ev::Bytes(stream[last..c].to_vec()));
                last = c;
                for _ in 0..rng.below(3) {
                    evs.push(Ev::Signal(rand_signal(rng)));
                }
            }
        }
        sess::run_case(out, &inst, "sess", &evs, streaming);
        if streaming {
            sess::run_case_window(out, &inst, "sess", &evs, true, 1 + (evs.len() % 11));
        }
        out.count("interleaving");
    }
    // --- bursts while the session is held inside a payload read
    for &burst in &[1usize, 15, 16, 17, 40] {
        for streaming in [true, false] {
            for rep in 0..(if thorough { 20 } else { 4 }) {
                let up = session_frame(if streaming { 0x01 } else { 0x10 }, "b").bytes;
                let f = sess::frame(0x20, &[0x05, 0x00, 0x64]);
                let hold = 10 + 1 + (rep % 2); // inside the payload
                let mut evs = vec![Ev::Bytes(up), Ev::Bytes(f[..hold].to_vec())];
                for _ in 0..burst {
                    evs.push(Ev::Signal(rand_signal(rng)));
                }
                evs.push(Ev::Bytes(f[hold..].to_vec()));
                evs.push(Ev::Signal(rand_signal(rng)));
                sess::run_case(out, &inst, "sess", &evs, true);
                out.count(&format!("burst {} {}", burst, if streaming { "streaming" } else { "silent" }));
            }
        }
    }
    // --- signal channel closed
    for flags in [0x00u8, 0x01, 0x10, 0x11] {
        let evs = vec![Ev::Bytes(session_frame(flags, "z").bytes), Ev::Signal(rand_signal(rng)), Ev::SignalsClosed, Ev::Bytes(sess::frame(0x20, &[0x01]))];
        sess::run_case(out, &inst, "sess", &evs, true);
        out.count("signals closed");
    }
}
