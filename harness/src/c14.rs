//! C14: handshake, streaming, lag, version gate.
use crate::sess::{self, Ev};
use crate::sessgen::*;
use crate::util::*;

pub fn run(out: &mut Out, tier: &str, rng: &mut Rng) {
    let thorough = tier == "thorough";
    let inst = sess::set_instance();
    out.rule = "sess: session upgrades with all 32 flag values and names (empty, 64, >64 characters, multi-byte), then signals of all six kinds one at a time, interleaved with command frames cut at arbitrary offsets, and bursts of 1/15/16/17/40 signals published while the session is held inside a payload read (lag); compat: is_compatibile for all 256x256 (major, minor) pairs. Non-trivial = a signal is published to a streaming session or a burst exceeds the queue".into();
    // --- version gate: all (major, minor), a few patches
    for major in 0..=255u16 {
        for minor in 0..=255u16 {
            if !thorough && major > 8 && minor > 8 && (major * 7 + minor) % 13 != 0 {
                continue;
            }
            let patch = rng.byte();
            let r = glonax::is_compatibile((major as u8, minor as u8, patch));
            out.case(&format!("compat {} {} {}", major, minor, patch), if r { "1" } else { "0" }, major == 3);
        }
    }
    out.count_n("compat", 1);
    // --- all flags x names
    let names = ["", "a", &"n".repeat(64), &"m".repeat(65), &"é".repeat(64), &"€".repeat(70), "verif/😀"];
    for flags in 0..32u8 {
        for name in names.iter() {
            let mut evs = vec![Ev::Bytes(session_frame(flags, name).bytes)];
            for _ in 0..3 {
                evs.push(Ev::Signal(rand_signal(rng)));
            }
            evs.push(Ev::Bytes(sess::frame(0x20, &[0x00])));
            evs.push(Ev::Signal(rand_signal(rng)));
            sess::run_case(out, &inst, "sess", &evs, flags & 1 == 1);
            out.count(if flags & 1 == 1 { "upgrade streaming" } else { "upgrade not streaming" });
        }
    }
    // --- interleavings of command writes with publications
    let n = if thorough { 6000 } else { 600 };
    for _ in 0..n {
        let streaming = rng.chance(3, 4);
        let mut stream = session_frame(if streaming { 0x01 } else { 0x00 } | (rng.below(16) as u8 & 0x1E), "c").bytes;
        let mut bounds = vec![stream.len()];
        for _ in 0..(1 + rng.below(3)) {
            let f = if rng.chance(1, 5) { session_frame(rng.below(32) as u8, "again") } else { rand_frame(rng) };
            if f.bytes.len() > 300 {
                continue;
            }
            stream.extend(f.bytes);
            bounds.push(stream.len());
        }
        let mut cuts: Vec<usize> = (0..(1 + rng.below(4))).map(|_| rng.below(stream.len() as u64) as usize).collect();
        cuts.extend(bounds.iter().cloned());
        cuts.sort();
        cuts.dedup();
        let mut evs = vec![];
        let mut last = 0;
        for &c in &cuts {
            if c > last {
                evs.push(Ev::Bytes(stream[last..c].to_vec()));
                last = c;
                for _ in 0..rng.below(3) {
                    evs.push(Ev::Signal(rand_signal(rng)));
                }
            }
        }
        sess::run_case(out, &inst, "sess", &evs, streaming);
        out.count("interleaving");
    }
    // --- bursts while the session is held inside a payload read
    for &burst in &[1usize, 15, 16, 17, 40] {
        for streaming in [true, false] {
            for rep in 0..(if thorough { 20 } else { 4 }) {
                let up = session_frame(if streaming { 0x01 } else { 0x10 }, "b").bytes;
                let f = sess::frame(0x20, &[0x05, 0x00, 0x64]);
                let hold = 10 + 1 + (rep % 2); // inside the payload
                let mut evs = vec![Ev::Bytes(up), Ev::Bytes(f[..hold].to_vec())];
                for _ in 0..burst {
                    evs.push(Ev::Signal(rand_signal(rng)));
                }
                evs.push(Ev::Bytes(f[hold..].to_vec()));
                evs.push(Ev::Signal(rand_signal(rng)));
                sess::run_case(out, &inst, "sess", &evs, true);
                out.count(&format!("burst {} {}", burst, if streaming { "streaming" } else { "silent" }));
            }
        }
    }
    // --- signal channel closed
    for flags in [0x00u8, 0x01, 0x10, 0x11] {
        let evs = vec![Ev::Bytes(session_frame(flags, "z").bytes), Ev::Signal(rand_signal(rng)), Ev::SignalsClosed, Ev::Bytes(sess::frame(0x20, &[0x01]))];
        sess::run_case(out, &inst, "sess", &evs, true);
        out.count("signals closed");
    }
}
