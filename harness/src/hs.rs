//! The client side of the handshake through real sockets: every ClientBuilder option combination and the four
//! convenience functions (connect / connect_safe / unix_connect / unix_connect_safe) against a stub daemon that records
//! the session frame it was sent.  Case line: `hs <how> <control> <command> <failsafe> <stream> <name hex> => <flags> <name hex>`
//! (`how`: ub/tb = builder over unix/tcp, u/us/t/ts = the convenience functions, plain and _safe).
use crate::util::{guarded, hex, Out, Rng};
use std::io::{Read, Write};

fn serve<S: Read + Write>(mut s: S) -> Option<(u8, Vec<u8>)> {
    let mut hdr = [0u8; 10];
    s.read_exact(&mut hdr).ok()?;
    let len = ((hdr[5] as usize) << 8) | hdr[6] as usize;
    let mut p = vec![0u8; len];
    s.read_exact(&mut p).ok()?;
    // instance record written out by hand: id(16) type(1) version(3) model-length(2) model serial-length(2) serial
    let mut inst = vec![0xD5u8; 16];
    inst.extend_from_slice(&[1, 3, 5, 0, 0, 1, b'm', 0, 1, b's']);
    let _ = s.write_all(&crate::sess::frame(0x15, &inst));
    if hdr[4] != 0x10 || p.is_empty() {
        return None;
    }
    Some((p[0], p[1..].to_vec()))
}

pub fn run(out: &mut Out, _tier: &str, _rng: &mut Rng) {
    let rt = tokio::runtime::Builder::new_current_thread().enable_all().build().unwrap();
    let dir = std::path::PathBuf::from(format!("/verif/.cache/hs-{}", std::process::id()));
    let _ = std::fs::create_dir_all(&dir);
    let names: Vec<String> = vec!["".into(), "a".into(), "glonax-input/3.5.13".into(), "n".repeat(64), "m".repeat(65), "x".repeat(200)];
    let mut k = 0usize;
    let hows = ["ub", "tb", "u", "us", "t", "ts"];
    for how in hows {
        let combos: Vec<u8> = if how.ends_with('b') { (0..16).collect() } else { vec![0] };
        for bits in combos {
            let (control, command, failsafe, stream) = (bits & 1 != 0, bits & 2 != 0, bits & 4 != 0, bits & 8 != 0);
            let name = names[k % names.len()].clone();
            k += 1;
            let got: Option<(u8, Vec<u8>)> = if how.starts_with('u') {
                let path = dir.join("d.sock");
                let _ = std::fs::remove_file(&path);
                let l = match std::os::unix::net::UnixListener::bind(&path) { Ok(l) => l, Err(_) => continue };
                let th = std::thread::spawn(move || l.accept().ok().and_then(|(s, _)| { let _ = s.set_read_timeout(Some(std::time::Duration::from_secs(2))); serve(s) }));
                let n2 = name.clone();
                let _ = guarded(std::panic::AssertUnwindSafe(|| rt.block_on(async {
                    use glonax::protocol::client::ClientBuilder;
                    match how {
                        "ub" => ClientBuilder::new(n2).control(control).command(command).failsafe(failsafe).stream(stream).unix_connect(&path).await.map(|_| ()),
                        "u" => glonax::protocol::unix_connect(&path, n2).await.map(|_| ()),
                        _ => glonax::protocol::unix_connect_safe(&path, n2).await.map(|_| ()),
                    }
                })));
                th.join().ok().flatten()
            } else {
                let l = match std::net::TcpListener::bind("127.0.0.1:0") { Ok(l) => l, Err(_) => { out.note("tcp loopback unavailable: tcp handshakes not run".into()); continue } };
                let addr = l.local_addr().unwrap();
                let th = std::thread::spawn(move || l.accept().ok().and_then(|(s, _)| { let _ = s.set_read_timeout(Some(std::time::Duration::from_secs(2))); serve(s) }));
                let n2 = name.clone();
                let _ = guarded(std::panic::AssertUnwindSafe(|| rt.block_on(async {
                    use glonax::protocol::client::ClientBuilder;
                    match how {
                        "tb" => ClientBuilder::new(n2).control(control).command(command).failsafe(failsafe).stream(stream).connect(addr).await.map(|_| ()),
                        "t" => glonax::protocol::connect(addr, n2).await.map(|_| ()),
                        _ => glonax::protocol::connect_safe(addr, n2).await.map(|_| ()),
                    }
                })));
                th.join().ok().flatten()
            };
            let o = match got { Some((f, n)) => format!("{} {}", f, hex(&n)), None => "NOSESSION -".into() };
            out.case(&format!("hs {} {} {} {} {} {}", how, control as u8, command as u8, failsafe as u8, stream as u8, hex(name.as_bytes())), &o, true);
            out.count(&format!("client handshake via {}", how));
        }
    }
    let _ = std::fs::remove_dir_all(&dir);
}
