//! Shared helpers: PRNG (every random choice derives from one SplitMix64 state), statistics.
use std::collections::BTreeMap;
use std::io::Write;

pub struct Rng(pub u64);

impl Rng {
    pub fn new(seed: u64) -> Self {
        Rng(seed ^ 0x9E37_79B9_7F4A_7C15)
    }
    pub fn next(&mut self) -> u64 {
        self.0 = self.0.wrapping_add(0x9E37_79B9_7F4A_7C15);
        let mut z = self.0;
        z = (z ^ (z >> 30)).wrapping_mul(0xBF58_476D_1CE4_E5B9);
        z = (z ^ (z >> 27)).wrapping_mul(0x94D0_49BB_1331_11EB);
        z ^ (z >> 31)
    }
    pub fn below(&mut self, n: u64) -> u64 {
        if n == 0 {
            0
        } else {
            self.next() % n
        }
    }
    pub fn range(&mut self, lo: i64, hi: i64) -> i64 {
        lo + self.below((hi - lo + 1) as u64) as i64
    }
    pub fn chance(&mut self, num: u64, den: u64) -> bool {
        self.below(den) < num
    }
    pub fn pick<'a, T>(&mut self, xs: &'a [T]) -> &'a T {
        &xs[self.below(xs.len() as u64) as usize]
    }
    pub fn byte(&mut self) -> u8 {
        self.next() as u8
    }
}

/// Case writer + distribution statistics. Statistics go to `<out>.stats.json`.
pub struct Out {
    w: std::io::BufWriter<std::fs::File>,
    pub prop: &'static str,
    pub cases: u64,
    pub nontrivial: std::collections::HashSet<u64>,
    pub dist: BTreeMap<String, u64>,
    pub samples: Vec<String>,
    pub notes: Vec<String>,
    pub exhaustive: bool,
    pub rule: String,
    stats_path: String,
}

fn fnv(s: &str) -> u64 {
    let mut h = 0xcbf29ce484222325u64;
    for b in s.bytes() {
        h ^= b as u64;
        h = h.wrapping_mul(0x100000001b3);
    }
    h
}

impl Out {
    pub fn new(prop: &'static str, path: &str) -> Self {
        let f = std::fs::File::create(path).expect("create case file");
        Out {
            w: std::io::BufWriter::with_capacity(1 << 20, f),
            prop,
            cases: 0,
            nontrivial: Default::default(),
            dist: BTreeMap::new(),
            samples: vec![],
            notes: vec![],
            exhaustive: false,
            rule: String::new(),
            stats_path: format!("{}.stats.json", path),
        }
    }
    /// Emit one case. `nontrivial` by the per-property rule; distinctness by hash of the line.
    pub fn case(&mut self, input: &str, output: &str, nontrivial: bool) {
        let line = format!("{} {} => {}", self.prop, input, output);
        self.cases += 1;
        PROGRESS.fetch_add(1, std::sync::atomic::Ordering::Relaxed);
        if self.cases % 64 == 0 || line.len() < 400 {
            if let Ok(mut l) = LAST_CASE.try_lock() {
                l.clear();
                l.push_str(&line[..line.len().min(2000)]);
            }
        }
        if nontrivial {
            self.nontrivial.insert(fnv(&line));
        }
        let n = self.cases;
        // keep a spread of samples: first 3 then powers of 4
        if self.samples.len() < 12 && (n <= 3 || (n & (n - 1)) == 0 && n.trailing_zeros() % 2 == 0) {
            self.samples.push(line.clone());
        }
        self.w.write_all(line.as_bytes()).unwrap();
        self.w.write_all(b"\n").unwrap();
    }
    pub fn count(&mut self, key: &str) {
        *self.dist.entry(key.to_string()).or_insert(0) += 1;
    }
    pub fn count_n(&mut self, key: &str, n: u64) {
        *self.dist.entry(key.to_string()).or_insert(0) += n;
    }
    pub fn note(&mut self, s: String) {
        self.notes.push(s);
    }
    pub fn finish(mut self) {
        self.w.flush().unwrap();
        let esc = |s: &str| {
            let mut o = String::new();
            for c in s.chars() {
                match c {
                    '"' => o.push_str("\\\""),
                    '\\' => o.push_str("\\\\"),
                    '\n' => o.push_str("\\n"),
                    c if (c as u32) < 0x20 => o.push_str(&format!("\\u{:04x}", c as u32)),
                    c => o.push(c),
                }
            }
            o
        };
        let mut s = String::from("{\n");
        s.push_str(&format!(" \"evaluations\": {},\n", self.cases));
        s.push_str(&format!(" \"distinct_nontrivial\": {},\n", self.nontrivial.len()));
        s.push_str(&format!(" \"exhaustive\": {},\n", self.exhaustive));
        s.push_str(&format!(" \"rule\": \"{}\",\n", esc(&self.rule)));
        s.push_str(" \"distribution\": {");
        let mut first = true;
        for (k, v) in &self.dist {
            if !first {
                s.push(',');
            }
            first = false;
            s.push_str(&format!("\n  \"{}\": {}", esc(k), v));
        }
        s.push_str("\n },\n \"samples\": [");
        for (i, l) in self.samples.iter().enumerate() {
            if i > 0 {
                s.push(',');
            }
            s.push_str(&format!("\n  \"{}\"", esc(l)));
        }
        s.push_str("\n ],\n \"notes\": [");
        for (i, l) in self.notes.iter().enumerate() {
            if i > 0 {
                s.push(',');
            }
            s.push_str(&format!("\n  \"{}\"", esc(l)));
        }
        s.push_str("\n ]\n}\n");
        std::fs::write(&self.stats_path, s).unwrap();
    }
}

pub fn hex(bs: &[u8]) -> String {
    if bs.is_empty() {
        return "-".into();
    }
    let mut s = String::with_capacity(bs.len() * 2);
    for b in bs {
        s.push_str(&format!("{:02x}", b));
    }
    s
}

/// Run `f` under catch_unwind with the panic message silenced.
pub fn guarded<T>(f: impl FnOnce() -> T + std::panic::UnwindSafe) -> Option<T> {
    std::panic::catch_unwind(f).ok()
}

/// A logger that formats every record at every level and throws the text away: `glonaxd --daemon` runs at Debug,
/// so a panic inside a `Display` used only by a log line is a crash of the real daemon too.
struct FormatEverything;
impl log::Log for FormatEverything {
    fn enabled(&self, _: &log::Metadata) -> bool {
        true
    }
    fn log(&self, record: &log::Record) {
        use std::fmt::Write;
        let mut sink = String::new();
        let _ = write!(sink, "{}", record.args());
        std::hint::black_box(&sink);
        // ... and through the logger the deployed daemon installs (`glonaxd --daemon`): it prints to stdout, which this process
        // has pointed at /dev/null (error records go to stderr there: left out to keep the check's diagnostics readable)
        if record.level() != log::Level::Error {
            log::Log::log(&glonax::logger::SystemdLogger, record);
        }
    }
    fn flush(&self) {}
}

pub fn log_everything() {
    static L: FormatEverything = FormatEverything;
    // nothing this process has to say goes to stdout (cases go to the case file, diagnostics to stderr)
    unsafe {
        let devnull = libc::open(b"/dev/null\0".as_ptr() as *const libc::c_char, libc::O_WRONLY);
        if devnull >= 0 {
            libc::dup2(devnull, 1);
            libc::close(devnull);
        }
    }
    let _ = log::set_logger(&L);
    log::set_max_level(log::LevelFilter::Trace);
}

static PROGRESS: std::sync::atomic::AtomicU64 = std::sync::atomic::AtomicU64::new(0);
static LAST_CASE: std::sync::Mutex<String> = std::sync::Mutex::new(String::new());

/// If no case has been completed for `stall_secs` the implementation under test is stuck inside a call (an endless
/// loop cannot be interrupted in-process): record the last completed case next to the case file and give up with
/// exit code 97 so that the check can report it instead of waiting for its own time limit.
pub fn start_watchdog(case_file: &str, stall_secs: u64) {
    let path = format!("{}.hang", case_file);
    let _ = std::fs::remove_file(&path);
    std::thread::spawn(move || {
        let mut last = PROGRESS.load(std::sync::atomic::Ordering::Relaxed);
        let mut idle = 0u64;
        loop {
            std::thread::sleep(std::time::Duration::from_secs(5));
            let now = PROGRESS.load(std::sync::atomic::Ordering::Relaxed);
            if now == last {
                idle += 5;
            } else {
                idle = 0;
                last = now;
            }
            if idle >= stall_secs {
                let l = LAST_CASE.lock().map(|l| l.clone()).unwrap_or_default();
                let _ = std::fs::write(&path, format!("no case completed for {} s; last completed case ({} so far): {}\n", stall_secs, now, l));
                std::process::exit(97);
            }
        }
    });
}

pub fn silence_panics() {
    if std::env::var_os("VERIF_SHOW_PANICS").is_none() {
        std::panic::set_hook(Box::new(|_| {}));
    }
}
