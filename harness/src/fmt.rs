//! Canonical text forms shared with the Lean driver.
use crate::util::*;
use glonax::core::{Actuator, Control, Engine, EngineState, Motion, Object, Target};
use glonax::j1939::Frame;

pub fn frame(f: &Frame) -> String {
    format!("{:08X}#{}", f.id().as_raw(), hex(f.pdu()))
}

pub fn frames(fs: &[Frame]) -> String {
    if fs.is_empty() {
        "-".into()
    } else {
        fs.iter().map(frame).collect::<Vec<_>>().join(",")
    }
}

pub const ACTUATORS: [Actuator; 6] = [
    Actuator::Boom,
    Actuator::Slew,
    Actuator::LimpRight,
    Actuator::LimpLeft,
    Actuator::Arm,
    Actuator::Attachment,
];

pub fn motion(m: &Motion) -> String {
    match m {
        Motion::StopAll => "stop".into(),
        Motion::ResumeAll => "resume".into(),
        Motion::ResetAll => "reset".into(),
        Motion::StraightDrive(v) => format!("straight:{}", v),
        Motion::Change(cs) => format!(
            "change:{}",
            cs.iter().map(|c| format!("{}={}", c.actuator as u8, c.value)).collect::<Vec<_>>().join(",")
        ),
    }
}

pub const BOUNDARY_I16: [i16; 13] = [0, 1, -1, 2, -2, 255, 256, -255, -256, 32767, -32768, 32766, -32767];

pub fn rand_i16(rng: &mut Rng) -> i16 {
    match rng.below(4) {
        0 => *rng.pick(&BOUNDARY_I16),
        1 => rng.range(-300, 300) as i16,
        _ => rng.next() as i16,
    }
}

pub fn rand_motion(rng: &mut Rng) -> Motion {
    match rng.below(10) {
        0 => Motion::StopAll,
        1 => Motion::ResumeAll,
        2 => Motion::ResetAll,
        3 => Motion::StraightDrive(rand_i16(rng)),
        _ => {
            let n = match rng.below(12) {
                0 => 0,
                1 => 32,
                2 => rng.below(33),
                _ => 1 + rng.below(6),
            };
            Motion::Change(
                (0..n)
                    .map(|_| glonax::core::Motion::new(*rng.pick(&ACTUATORS), rand_i16(rng)))
                    .flat_map(|m| if let Motion::Change(c) = m { c } else { vec![] })
                    .collect(),
            )
        }
    }
}

/// A non-motion object of a random kind; returns the object and the kind tag.
pub fn rand_other_object(rng: &mut Rng) -> (Object, &'static str) {
    match rng.below(5) {
        0 => (
            Object::Engine(Engine {
                driver_demand: rng.byte(),
                actual_engine: rng.byte(),
                rpm: rng.next() as u16,
                state: *rng.pick(&[EngineState::NoRequest, EngineState::Starting, EngineState::Stopping, EngineState::Request]),
            }),
            "engine",
        ),
        1 => (
            Object::Control(*rng.pick(&[
                Control::HydraulicLock(true),
                Control::HydraulicLock(false),
                Control::HydraulicBoost(true),
                Control::HydraulicReset,
                Control::MachineShutdown,
                Control::MachineHorn(true),
                Control::MachineTravelAlarm(false),
            ])),
            "control",
        ),
        2 => (Object::Target(Target::from_point(rng.range(-50, 50) as f32, 1.5, -2.25)), "target"),
        3 => (
            Object::Rotator(glonax::core::Rotator::relative(
                rng.byte(),
                nalgebra::Rotation3::from_euler_angles(0.1, 0.2, 0.3),
            )),
            "rotator",
        ),
        _ => (
            Object::ModuleStatus(glonax::core::ModuleStatus::healthy(format!("unit{}", rng.below(4)))),
            "status",
        ),
    }
}
