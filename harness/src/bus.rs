//! The harness as one more node on the emulated CAN bus (hook H1, GLONAX_VERIF_BUS).
//! A background thread drains the harness socket continuously, so bursts are never lost to the small
//! default queue length of Unix datagram sockets.
use std::os::unix::net::UnixDatagram;
use std::path::PathBuf;
use std::sync::atomic::{AtomicBool, Ordering};
use std::sync::{Arc, Mutex};
use std::time::Duration;

pub struct Bus {
    pub dir: PathBuf,
    pub iface: String,
    sock: Arc<UnixDatagram>,
    marker_sock: UnixDatagram,
    own: PathBuf,
    inbox: Arc<Mutex<Vec<[u8; 16]>>>,
    stop: Arc<AtomicBool>,
    reader: Option<std::thread::JoinHandle<()>>,
    /// peers that never read (the tick / command clones of an authority under a rig): once their queue is full a frame
    /// for them is dropped at once instead of after the write timeout (only when `impatient`)
    stale: Mutex<std::collections::HashSet<PathBuf>>,
    pub impatient: bool,
}

static mut BUS_ROOT: Option<PathBuf> = None;

/// Create the bus root (once per process) and export GLONAX_VERIF_BUS.
pub fn root() -> PathBuf {
    unsafe {
        #[allow(static_mut_refs)]
        if let Some(p) = &BUS_ROOT {
            return p.clone();
        }
        let p = PathBuf::from(format!("/verif/.cache/bus/{}", std::process::id()));
        let _ = std::fs::remove_dir_all(&p);
        std::fs::create_dir_all(&p).unwrap();
        std::env::set_var("GLONAX_VERIF_BUS", &p);
        // the clones of one network service do not hear each other: what the receive clone processes is then
        // exactly what the harness injects (deterministic histories)
        std::env::set_var("GLONAX_VERIF_BUS_LOOPBACK", "0");
        BUS_ROOT = Some(p.clone());
        p
    }
}

pub fn cleanup() {
    unsafe {
        #[allow(static_mut_refs)]
        if let Some(p) = &BUS_ROOT {
            let _ = std::fs::remove_dir_all(p);
        }
    }
}

impl Bus {
    pub fn attach(iface: &str) -> Self {
        Self::attach_at(&root(), iface)
    }

    /// Attach to a bus below another root (the bus of a child process).
    pub fn attach_at(root: &std::path::Path, iface: &str) -> Self {
        let dir = root.join(iface);
        std::fs::create_dir_all(&dir).unwrap();
        let own = dir.join("harness.sock");
        let _ = std::fs::remove_file(&own);
        let sock = Arc::new(UnixDatagram::bind(&own).unwrap());
        sock.set_read_timeout(Some(Duration::from_millis(20))).unwrap();
        sock.set_write_timeout(Some(Duration::from_millis(5))).unwrap();
        let inbox = Arc::new(Mutex::new(vec![]));
        let stop = Arc::new(AtomicBool::new(false));
        let (s2, i2, st2) = (sock.clone(), inbox.clone(), stop.clone());
        let reader = std::thread::spawn(move || {
            let mut buf = [0u8; 64];
            while !st2.load(Ordering::SeqCst) {
                if let Ok(16) = s2.recv(&mut buf) {
                    let mut r = [0u8; 16];
                    r.copy_from_slice(&buf[..16]);
                    i2.lock().unwrap().push(r);
                }
            }
        });
        let marker_sock = UnixDatagram::unbound().unwrap();
        marker_sock.set_nonblocking(true).unwrap();
        Bus { dir, iface: iface.to_string(), sock, marker_sock, own, inbox, stop, reader: Some(reader), stale: Mutex::new(Default::default()), impatient: false }
    }

    /// Put a raw 16-byte can_frame on the bus (delivered to every other socket).
    pub fn inject(&self, raw: &[u8; 16]) -> usize {
        let mut n = 0;
        let mut peers: Vec<_> = std::fs::read_dir(&self.dir).unwrap().filter_map(|e| e.ok()).map(|e| e.path()).collect();
        peers.sort();
        for p in peers {
            if p == self.own || p.extension().map(|e| e != "sock").unwrap_or(true) {
                continue;
            }
            if self.impatient && self.stale.lock().unwrap().contains(&p) {
                // non-blocking: the marker socket is unbound and non-blocking (the sender address plays no role)
                if self.marker_sock.send_to(raw, &p).is_ok() {
                    n += 1;
                }
                continue;
            }
            if self.sock.send_to(raw, &p).is_ok() {
                n += 1;
            } else if self.impatient {
                self.stale.lock().unwrap().insert(p);
            }
        }
        n
    }

    /// Build a raw can_frame: id (with flags as given), dlc, data.
    pub fn raw(can_id: u32, dlc: u8, data: &[u8]) -> [u8; 16] {
        let mut r = [0u8; 16];
        r[0..4].copy_from_slice(&can_id.to_le_bytes());
        r[4] = dlc;
        for (i, b) in data.iter().take(8).enumerate() {
            r[8 + i] = *b;
        }
        r
    }

    fn take(&self) -> Vec<[u8; 16]> {
        std::mem::take(&mut *self.inbox.lock().unwrap())
    }

    /// Next frame seen on the bus, if any arrives within ~200 ms.
    pub fn next(&self) -> Option<[u8; 16]> {
        for _ in 0..2000 {
            {
                let mut b = self.inbox.lock().unwrap();
                if !b.is_empty() {
                    return Some(b.remove(0));
                }
            }
            std::thread::sleep(Duration::from_micros(100));
        }
        None
    }

    /// Everything that was put on the bus before this call.  Sends on the emulated bus are synchronous
    /// (the datagram is in our queue when the sender returns) and a Unix datagram queue is FIFO, so a
    /// marker sent to ourselves now arrives after all of it: no timing assumption.
    pub fn sync(&self) -> Vec<[u8; 16]> {
        static SEQ: std::sync::atomic::AtomicU64 = std::sync::atomic::AtomicU64::new(1);
        let seq = SEQ.fetch_add(1, Ordering::SeqCst);
        let mut marker = [0u8; 16];
        marker[0..4].copy_from_slice(&0xFFFF_FFFFu32.to_le_bytes());
        marker[8..16].copy_from_slice(&seq.to_le_bytes());
        let mut sent = false;
        for _ in 0..20000 {
            if self.marker_sock.send_to(&marker, &self.own).is_ok() {
                sent = true;
                break;
            }
            std::thread::sleep(Duration::from_micros(50));
        }
        if !sent {
            return self.drain(20);
        }
        let mut out = vec![];
        for _ in 0..50000 {
            let got = self.take();
            let mut done = false;
            for r in got {
                if r == marker {
                    done = true;
                } else if r[0..4] != 0xFFFF_FFFFu32.to_le_bytes() {
                    out.push(r);
                }
            }
            if done {
                return out;
            }
            std::thread::sleep(Duration::from_micros(50));
        }
        out
    }

    /// Everything that arrives until the bus has been quiet for `quiet_ms`.
    pub fn drain(&self, quiet_ms: u64) -> Vec<[u8; 16]> {
        let mut out = vec![];
        let mut quiet = 0u64;
        while quiet < quiet_ms * 10 {
            let got = self.take();
            if got.is_empty() {
                std::thread::sleep(Duration::from_micros(100));
                quiet += 1;
            } else {
                out.extend(got.into_iter().filter(|r| r[0..4] != 0xFFFF_FFFFu32.to_le_bytes()));
                quiet = 0;
            }
        }
        out
    }
}

impl Drop for Bus {
    fn drop(&mut self) {
        self.stop.store(true, Ordering::SeqCst);
        if let Some(h) = self.reader.take() {
            let _ = h.join();
        }
        let _ = std::fs::remove_file(&self.own);
    }
}
