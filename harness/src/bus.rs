//! The harness as one more node on the emulated CAN bus (hook H1, GLONAX_VERIF_BUS).
use std::os::unix::net::UnixDatagram;
use std::path::PathBuf;
use std::time::Duration;

pub struct Bus {
    pub dir: PathBuf,
    pub iface: String,
    sock: UnixDatagram,
    own: PathBuf,
}

static mut BUS_ROOT: Option<PathBuf> = None;

/// Create the bus root (once per process) and export GLONAX_VERIF_BUS.
pub fn root() -> PathBuf {
    unsafe {
        #[allow(static_mut_refs)]
        if let Some(p) = &BUS_ROOT {
            return p.clone();
        }
        let p = PathBuf::from(format!("/verif/.cache/bus/{}", std::process::id()));
        let _ = std::fs::remove_dir_all(&p);
        std::fs::create_dir_all(&p).unwrap();
        std::env::set_var("GLONAX_VERIF_BUS", &p);
        BUS_ROOT = Some(p.clone());
        p
    }
}

pub fn cleanup() {
    unsafe {
        #[allow(static_mut_refs)]
        if let Some(p) = &BUS_ROOT {
            let _ = std::fs::remove_dir_all(p);
        }
    }
}

impl Bus {
    pub fn attach(iface: &str) -> Self {
        let dir = root().join(iface);
        std::fs::create_dir_all(&dir).unwrap();
        let own = dir.join("harness.sock");
        let _ = std::fs::remove_file(&own);
        let sock = UnixDatagram::bind(&own).unwrap();
        sock.set_read_timeout(Some(Duration::from_millis(200))).unwrap();
        Bus { dir, iface: iface.to_string(), sock, own }
    }

    /// Put a raw 16-byte can_frame on the bus (delivered to every other socket).
    pub fn inject(&self, raw: &[u8; 16]) -> usize {
        let mut n = 0;
        let mut peers: Vec<_> = std::fs::read_dir(&self.dir).unwrap().filter_map(|e| e.ok()).map(|e| e.path()).collect();
        peers.sort();
        for p in peers {
            if p == self.own || p.extension().map(|e| e != "sock").unwrap_or(true) {
                continue;
            }
            if self.sock.send_to(raw, &p).is_ok() {
                n += 1;
            }
        }
        n
    }

    /// Build a raw can_frame: id (with flags as given), dlc, data.
    pub fn raw(can_id: u32, dlc: u8, data: &[u8]) -> [u8; 16] {
        let mut r = [0u8; 16];
        r[0..4].copy_from_slice(&can_id.to_le_bytes());
        r[4] = dlc;
        for (i, b) in data.iter().take(8).enumerate() {
            r[8 + i] = *b;
        }
        r
    }

    /// Next frame seen on the bus, if any arrives within the read timeout.
    pub fn next(&self) -> Option<[u8; 16]> {
        let mut buf = [0u8; 64];
        match self.sock.recv(&mut buf) {
            Ok(16) => {
                let mut r = [0u8; 16];
                r.copy_from_slice(&buf[..16]);
                Some(r)
            }
            _ => None,
        }
    }

    /// Everything currently queued (non-blocking after the first short wait).
    pub fn drain(&self, wait_ms: u64) -> Vec<[u8; 16]> {
        let mut out = vec![];
        self.sock.set_read_timeout(Some(Duration::from_millis(wait_ms.max(1)))).unwrap();
        while let Some(f) = self.next() {
            out.push(f);
            self.sock.set_read_timeout(Some(Duration::from_millis(2))).unwrap();
        }
        self.sock.set_read_timeout(Some(Duration::from_millis(200))).unwrap();
        out
    }
}

impl Drop for Bus {
    fn drop(&mut self) {
        let _ = std::fs::remove_file(&self.own);
    }
}
