//! Generators of client byte streams and event lists for the session properties (C03 C04 C05 C14).
use crate::c13;
use crate::fmt;
use crate::sess::{frame, Close, Ev};
use crate::util::*;
use glonax::core::{Control, Engine, EngineState, ModuleStatus, Motion, Object, Rotator, Target};
use glonax::protocol::Packetize;

/// One client frame with a description of its class (for the distribution statistics).
pub struct GenFrame {
    pub bytes: Vec<u8>,
    pub class: &'static str,
}

pub fn session_frame(flags: u8, name: &str) -> GenFrame {
    // written out by hand (flags byte + the name's bytes, at most 64 characters as a client sends them): the generator
    // must not run the code under test
    let name: String = name.chars().take(64).collect();
    let mut payload = vec![flags];
    payload.extend_from_slice(name.as_bytes());
    GenFrame { bytes: frame(0x10, &payload), class: if flags & 0xE0 != 0 { "session-invalid" } else { "session" } }
}

pub fn command_frame(rng: &mut Rng) -> GenFrame {
    match rng.below(4) {
        0 => {
            let e = Engine { driver_demand: rng.byte(), actual_engine: rng.byte(), rpm: rng.next() as u16, state: *rng.pick(&[EngineState::NoRequest, EngineState::Starting, EngineState::Stopping, EngineState::Request]) };
            GenFrame { bytes: frame(0x43, &e.to_bytes()), class: "engine" }
        }
        1 => GenFrame { bytes: frame(0x20, &fmt::rand_motion(rng).to_bytes()), class: "motion" },
        2 => GenFrame { bytes: frame(0x45, &rng.pick(&c13::CONTROLS).to_bytes()), class: "control" },
        _ => {
            let t = Target::from_point(rng.range(-100, 100) as f32 / 4.0, rng.range(-100, 100) as f32, 0.5);
            GenFrame { bytes: frame(0x44, &t.to_bytes()), class: "target" }
        }
    }
}

/// A well-formed frame the daemon cannot use.
pub fn useless_frame(rng: &mut Rng) -> GenFrame {
    let len = match rng.below(8) {
        0 => 1,
        1 => 2,
        2 => 1023,
        3 => 1024,
        4 => 10,
        5 => 20,
        _ => 1 + rng.below(40) as usize,
    };
    let payload: Vec<u8> = (0..len).map(|_| match rng.below(3) { 0 => b'L', 1 => 0, _ => rng.byte() }).collect();
    match rng.below(5) {
        // unknown type code (anything the server does not dispatch on)
        0 | 1 => {
            let mut ty = rng.byte();
            while [0x10u8, 0x43, 0x20, 0x44, 0x45].contains(&ty) {
                ty = rng.byte();
            }
            GenFrame { bytes: frame(ty, &payload), class: "unknown-type" }
        }
        // fixed-size type announced with another size
        2 => {
            let (ty, fixed) = *rng.pick(&[(0x43u8, 5usize), (0x44, 25), (0x45, 2)]);
            let mut l = len;
            if l == fixed {
                l += 1;
            }
            GenFrame { bytes: frame(ty, &payload[..l.min(payload.len())].to_vec().iter().cloned().chain(std::iter::repeat(7)).take(l).collect::<Vec<u8>>()), class: "ill-sized" }
        }
        // right size, undecodable content
        3 => match rng.below(4) {
            0 => GenFrame { bytes: frame(0x43, &[1, 2, 3, 4, 0x77]), class: "undecodable" },
            1 => GenFrame { bytes: frame(0x45, &[0xEE, 1]), class: "undecodable" },
            2 => {
                let mut p = Target::from_point(1.0, 2.0, 3.0).to_bytes();
                p[24] = 9;
                GenFrame { bytes: frame(0x44, &p), class: "undecodable" }
            }
            _ => GenFrame { bytes: frame(0x20, &[0x10, 2, 0, 0, 0, 1]), class: "undecodable" },
        },
        // a payload that looks like a header followed by a stop-all
        _ => {
            let mut p = frame(0x20, &[0x00]);
            p.extend_from_slice(&[1, 2, 3]);
            let mut ty = rng.byte();
            while [0x10u8, 0x43, 0x20, 0x44, 0x45].contains(&ty) {
                ty = rng.byte();
            }
            GenFrame { bytes: frame(ty, &p), class: "unknown-type-header-lookalike" }
        }
    }
}

/// Frames every property of the session family must survive and frame correctly (collected from the seeded
/// mutations of all of them): payloads at the size limit on the variable-size types, every one-byte payload and every
/// correctly framed prefix of a valid payload for each accepted type, special float words in a Target.
pub fn hostile_corpus(rng: &mut Rng) -> Vec<GenFrame> {
    let mut v = vec![];
    for ty in [0x10u8, 0x20] {
        for len in [257usize, 1022, 1023, 1024] {
            let mut p = vec![b'a'; len];
            p[0] = if ty == 0x10 { 0x10 } else { 0x00 };
            v.push(GenFrame { bytes: frame(ty, &p), class: "at-size-limit" });
        }
    }
    let valid: Vec<(u8, Vec<u8>)> = vec![
        (0x10, vec![0x10, b'a', b'b']),
        (0x43, vec![1, 2, 0x05, 0xDC, 0x10]),
        (0x20, vec![0x10, 2, 0, 0, 0, 100, 0, 4, 0xFF, 0x38]),
        (0x20, vec![0x05, 0x7F, 0xFF]),
        (0x44, { let mut p = vec![0u8; 25]; p[0] = 0x3F; p[1] = 0x80; p }),
        (0x45, vec![0x1E, 1]),
    ];
    for (ty, payload) in &valid {
        for k in 1..payload.len() {
            v.push(GenFrame { bytes: frame(*ty, &payload[..k]), class: "payload-prefix" });
        }
    }
    for ty in [0x10u8, 0x43, 0x20, 0x44, 0x45] {
        for b in 0..=255u8 {
            if b % 4 == 0 || b < 0x40 || b > 0xF0 {
                v.push(GenFrame { bytes: frame(ty, &[b]), class: "one-byte" });
            }
        }
        v.push(GenFrame { bytes: frame(ty, &[rng.byte(), rng.byte()]), class: "two-byte" });
    }
    // headers that must be REJECTED, one defect at a time, on frames that would change the session if they were accepted (a
    // disarming / arming registration, a resume-all): each padding byte alone, each magic byte, the version, length 0 and 1025
    for (ty, payload) in [(0x10u8, vec![0x00u8, b'x']), (0x10, vec![0x10, b'x']), (0x20, vec![0x01])] {
        let good = frame(ty, &payload);
        for pos in [0usize, 1, 2, 3, 7, 8, 9] {
            for val in [0x01u8, 0x80, 0xFF] {
                let mut f = good.clone();
                if f[pos] == val {
                    continue;
                }
                f[pos] = val;
                v.push(GenFrame { bytes: f, class: "bad-header-one-byte" });
            }
        }
        let mut f = good.clone();
        f[5] = 0;
        f[6] = 0;
        v.push(GenFrame { bytes: f, class: "bad-header-length" });
        let mut f = good.clone();
        f[5] = 0x04;
        f[6] = 0x01;
        v.push(GenFrame { bytes: f, class: "bad-header-length" });
    }
    // frames the daemon must SKIP (unknown type, fixed-size type announced with another size) with payloads of every size
    // class up to the limit; the payload carries well-formed frames (a disarming registration, a stop-all) at its tail and
    // at offset 256, which must NOT be read as frames
    for ty in [0x7Fu8, 0x00, 0x15, 0x43, 0x44, 0x45] {
        for len in [255usize, 256, 257, 268, 300, 511, 512, 513, 1023, 1024] {
            let mut p = vec![b'z'; len];
            let mut inner = frame(0x10, &[0x00, b'x']);
            inner.extend(frame(0x20, &[0x00]));
            if len >= 256 + inner.len() {
                p[256..256 + inner.len()].copy_from_slice(&inner);
            }
            let tail = frame(0x10, &[0x00, b'y']);
            let n = tail.len();
            if len >= 256 + inner.len() + n || (len >= n && len < 256) {
                p[len - n..].copy_from_slice(&tail);
            }
            v.push(GenFrame { bytes: frame(ty, &p), class: "skipped-large" });
        }
    }
    // session (re-)registrations with names at and past the 64-character cap: ASCII, multi-byte characters straddling
    // byte 64, invalid UTF-8 (replaced by a 3-byte U+FFFD each), 4-byte characters
    let mut names: Vec<Vec<u8>> = vec![vec![b'n'; 64], vec![b'n'; 65], vec![b'n'; 300]];
    for lead in 60..=66usize {
        let mut n = vec![b'a'; lead];
        n.extend_from_slice("é€😀é€😀".as_bytes());
        names.push(n);
    }
    names.push("é".repeat(40).into_bytes());
    names.push("€".repeat(70).into_bytes());
    names.push("😀".repeat(64).into_bytes());
    for k in [21usize, 22, 23, 64, 65] {
        names.push(vec![0xFF; k]);
    }
    for n in &names {
        for flags in [0x10u8, 0x01, 0x00] {
            let mut p = vec![flags];
            p.extend_from_slice(n);
            v.push(GenFrame { bytes: frame(0x10, &p), class: "session-long-name" });
        }
    }
    for w in [0x7FC0_0000u32, 0x7F80_0000, 0xFF80_0000, 0xFFFF_FFFF] {
        for pos in [0usize, 3, 5] {
            let mut p = vec![0u8; 25];
            p[4 * pos..4 * pos + 4].copy_from_slice(&w.to_be_bytes());
            v.push(GenFrame { bytes: frame(0x44, &p), class: "special-float" });
        }
    }
    v
}

pub fn rand_frame(rng: &mut Rng) -> GenFrame {
    match rng.below(10) {
        0 => session_frame(rng.below(32) as u8, "cli"),
        1 => session_frame(rng.byte(), "x"),
        2 | 3 | 4 => useless_frame(rng),
        _ => command_frame(rng),
    }
}

pub fn rand_signal(rng: &mut Rng) -> Object {
    match rng.below(6) {
        0 => Object::Engine(Engine { driver_demand: rng.byte(), actual_engine: rng.byte(), rpm: rng.next() as u16, state: EngineState::Request }),
        1 => Object::Motion(if rng.chance(1, 2) { Motion::StopAll } else { Motion::ResumeAll }),
        2 => Object::Rotator(Rotator::relative(rng.byte(), nalgebra::Rotation3::from_euler_angles(0.25, -0.5, 0.125))),
        // every health state a unit can be published with: healthy, and faulty with each error kind
        3 => {
            let name = format!("laixer:hcu:0x27:0x{:X}", rng.byte());
            Object::ModuleStatus(match rng.below(6) {
                0 => ModuleStatus::healthy(name),
                1 => ModuleStatus::faulty(name, glonax::core::ModuleError::InvalidConfiguration),
                2 => ModuleStatus::faulty(name, glonax::core::ModuleError::VersionMismatch),
                3 => ModuleStatus::faulty(name, glonax::core::ModuleError::CommunicationTimeout),
                4 => ModuleStatus::faulty(name, glonax::core::ModuleError::GenericCommunicationError),
                _ => ModuleStatus::faulty(name, glonax::core::ModuleError::IOError),
            })
        }
        4 => Object::Control(Control::MachineHorn(rng.chance(1, 2))),
        _ => Object::Target(Target::from_point(1.0, 2.0, rng.range(0, 9) as f32)),
    }
}

/// Cut a byte stream at the given sorted offsets into Bytes events.
pub fn chunks(stream: &[u8], cuts: &[usize]) -> Vec<Ev> {
    let mut evs = vec![];
    let mut last = 0;
    for &c in cuts.iter().chain(std::iter::once(&stream.len())) {
        if c > last && c <= stream.len() {
            evs.push(Ev::Bytes(stream[last..c].to_vec()));
            last = c;
        }
    }
    evs
}

pub fn all_closes() -> [Close; 4] {
    Close::ALL
}
