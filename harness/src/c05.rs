//! C05: hostile byte streams against the real session.
use crate::sess::{self, Close, Ev};
use crate::sessgen::*;
use crate::util::*;
use glonax::core::{Engine, EngineState, Object};

fn garbage(rng: &mut Rng, len: usize) -> Vec<u8> {
    (0..len)
        .map(|_| match rng.below(6) {
            0 => b'L',
            1 => b'X',
            2 => 0,
            3 => *rng.pick(&[0x10u8, 0x20, 0x43, 0x44, 0x45, 3]),
            _ => rng.byte(),
        })
        .collect()
}

/// A client that takes its TIME inside a frame (seconds to an hour between two parts of a payload, between header and payload,
/// between frames), then goes on: every frame is still a frame.
pub fn slow(out: &mut Out, inst: &str, with_death: bool) {
    for flags in [0x10u8, 0x11, 0x00] {
        for ms in [50u64, 4_900, 5_500, 31_000, 3_600_000] {
            for cut in [10usize, 11, 13, 15] {
                let motion = sess::frame(0x20, &[0x10, 1, 0, 0, 0x12, 0x34]);
                let sf = session_frame(flags, "slow-client-name").bytes;
                let mut tail = motion[cut..].to_vec();
                for _ in 0..3 {
                    tail.extend(sess::frame(0x20, &[0x00]));
                }
                // also a session frame delivered in two parts with time in between
                let mut evs = vec![Ev::Bytes(sf[..14].to_vec()), Ev::Bytes(sf[14..].to_vec()), Ev::Bytes(motion[..cut].to_vec()), Ev::Bytes(tail)];
                if with_death {
                    evs.push(Ev::Close(Close::Eof));
                }
                sess::run_case_stalls(out, inst, "sess", &evs, &[(0, ms), (2, ms)]);
            }
        }
    }
}

/// A client that stalls inside a frame while its session's signal subscription is overrun, then dies.
pub fn stalled(out: &mut Out, inst: &str) {
    // a client that stalls INSIDE a frame (header and part of the payload, the rest later) while signals are published:
    // the session sits in its payload read and its signal subscription is overrun (more than the queue holds); whatever
    // the session does about that, it still ends through its normal termination path (failsafe included)
    for flags in [0x11u8, 0x13, 0x15, 0x17, 0x10, 0x01, 0x00] {
        for k in [0usize, 1, 15, 16, 17, 18, 40] {
            for cut in [1usize, 2, 5] {
                let motion = sess::frame(0x20, &[0x10, 1, 0, 0, 0x12, 0x34]);
                let mut evs = vec![Ev::Bytes(session_frame(flags, "demo").bytes), Ev::Bytes(motion[..10 + cut].to_vec())];
                for i in 0..k {
                    evs.push(Ev::Signal(Object::Engine(Engine { driver_demand: 0, actual_engine: 0, rpm: 800 + i as u16, state: EngineState::Request })));
                }
                evs.push(Ev::Bytes(motion[10 + cut..].to_vec()));
                evs.push(Ev::Close(if k % 2 == 0 { Close::Eof } else { Close::Reset }));
                sess::run_case(out, inst, "sess", &evs, true);
                out.count("stalled inside a frame while signals are published");
            }
        }
    }
}

pub fn run(out: &mut Out, tier: &str, rng: &mut Rng) {
    let thorough = tier == "thorough";
    let inst = sess::set_instance();
    out.rule = "for each accepted message type (Session, Engine, Motion, Target, Control): every value 0..255 of every payload byte of a valid encoding (one byte at a time), every declared length 1..64 and 1023..1025 with random payloads, truncation at every offset followed by a death; plus mostly-valid streams with corrupted headers and pure random garbage; each case ends with a termination so that the failsafe path is exercised. Non-trivial = all (every case carries hostile bytes)".into();
    let valid: Vec<(u8, Vec<u8>)> = vec![
        (0x10, vec![0x10, b'a', b'b']),
        (0x43, vec![1, 2, 0x05, 0xDC, 0x10]),
        (0x20, vec![0x10, 2, 0, 0, 0, 100, 0, 4, 0xFF, 0x38]),
        (0x20, vec![0x05, 0x7F, 0xFF]),
        (0x44, {
            let mut p = vec![0u8; 25];
            p[0] = 0x3F;
            p[1] = 0x80;
            p
        }),
        (0x45, vec![0x1E, 1]),
    ];
    // every value of every payload byte
    for (ty, payload) in &valid {
        for pos in 0..payload.len() {
            for v in 0..=255u8 {
                let mut p = payload.clone();
                p[pos] = v;
                let mut s = session_frame(0x10, "h").bytes;
                s.extend(sess::frame(*ty, &p));
                s.extend(sess::frame(0x45, &[0x1E, 1]));
                if v % 16 == 7 {
                    sess::run_case_wfail(out, &inst, "sess", &[Ev::Bytes(s.clone()), Ev::Close(Close::Eof)], true);
                }
                sess::run_case(out, &inst, "sess", &[Ev::Bytes(s), Ev::Close(Close::Eof)], true);
                out.count(&format!("byte-sweep type {:#x}", ty));
            }
        }
        // every value of the header's type / length bytes around this frame
        for l in (0..=64usize).chain([1023, 1024, 1025]) {
            let body = garbage(rng, l.min(1100));
            let mut s = vec![b'L', b'X', b'R', 3, *ty, (l >> 8) as u8, l as u8, 0, 0, 0];
            s.extend(body);
            s.extend(sess::frame(0x20, &[0x00]));
            sess::run_case(out, &inst, "sess", &[Ev::Bytes(s), Ev::Close(*rng.pick(&Close::ALL))], true);
            out.count(&format!("length-sweep type {:#x}", ty));
        }
        // every proper prefix of the payload, framed correctly (a well-formed frame whose content stops early)
        for k in 1..payload.len() {
            let mut s = session_frame(0x10, "p").bytes;
            s.extend(sess::frame(*ty, &payload[..k]));
            s.extend(sess::frame(0x45, &[0x1E, 1]));
            sess::run_case(out, &inst, "sess", &[Ev::Bytes(s), Ev::Close(*rng.pick(&Close::ALL))], true);
            out.count("payload prefix, correctly framed");
        }
        // every one-byte and a sample of two-byte payloads
        for v in 0..=255u8 {
            let mut s = session_frame(0x10, "o").bytes;
            s.extend(sess::frame(*ty, &[v]));
            s.extend(sess::frame(*ty, &[v, rng.byte()]));
            s.extend(sess::frame(0x45, &[0x1E, 1]));
            sess::run_case(out, &inst, "sess", &[Ev::Bytes(s), Ev::Close(Close::Eof)], true);
            out.count("one- and two-byte payloads");
        }
        // truncation at every offset
        let f = sess::frame(*ty, payload);
        for cut in 0..f.len() {
            let mut s = session_frame(0x10, "t").bytes;
            s.extend(&f[..cut]);
            sess::run_case(out, &inst, "sess", &[Ev::Bytes(s), Ev::Close(*rng.pick(&Close::ALL))], true);
            out.count("truncation");
        }
    }
    // special IEEE-754 words in every float field of a Target (NaN, infinities, all-ones, denormal, max)
    for pos in 0..6usize {
        for w in [0x7FC0_0000u32, 0x7F80_0000, 0xFF80_0000, 0xFFFF_FFFF, 0x0000_0001, 0x7F7F_FFFF, 0x8000_0000] {
            for constraint in [0u8, 1, 20] {
                let mut p = vec![0u8; 25];
                p[0] = 0x3F;
                p[1] = 0x80;
                p[4 * pos..4 * pos + 4].copy_from_slice(&w.to_be_bytes());
                p[24] = constraint;
                let mut s = session_frame(0x10, "n").bytes;
                s.extend(sess::frame(0x44, &p));
                s.extend(sess::frame(0x45, &[0x1E, 1]));
                sess::run_case(out, &inst, "sess", &[Ev::Bytes(s), Ev::Close(Close::Eof)], true);
                out.count("special float words in a Target");
            }
        }
    }
    // the hostile corpus shared by the session family
    for h in hostile_corpus(rng) {
        let mut st = session_frame(0x10, "h").bytes;
        st.extend(&h.bytes);
        st.extend(sess::frame(0x45, &[0x1E, 1]));
        sess::run_case(out, &inst, "sess", &[Ev::Bytes(st), Ev::Close(*rng.pick(&Close::ALL))], true);
        out.count(&format!("hostile corpus: {}", h.class));
    }
    // all 256 type codes with a small payload
    for ty in 0..=255u8 {
        let gl = 1 + rng.below(30) as usize;
        let mut s = sess::frame(ty, &garbage(rng, gl));
        s.extend(sess::frame(0x20, &[0x00]));
        sess::run_case(out, &inst, "sess", &[Ev::Bytes(s), Ev::Close(Close::Reset)], true);
        out.count("type-sweep");
    }
    stalled(out, &inst);
    slow(out, &inst, true);
    // mostly valid streams with a corrupted byte somewhere, and pure garbage
    let n = if thorough { 20_000 } else { 2_000 };
    for i in 0..n {
        let mut stream = vec![];
        if i % 3 != 2 {
            for _ in 0..(1 + rng.below(4)) {
                stream.extend(rand_frame(rng).bytes);
            }
            if stream.len() > 600 {
                stream.truncate(600);
            }
            for _ in 0..(1 + rng.below(3)) {
                let k = rng.below(stream.len() as u64) as usize;
                stream[k] = rng.byte();
            }
            out.count("stream corrupted");
        } else {
            let gl = 1 + rng.below(200) as usize;
            stream = garbage(rng, gl);
            out.count("stream garbage");
        }
        let mut evs = chunks(&stream, &[rng.below(stream.len() as u64 + 1) as usize]);
        // a signal is published only while the session idles in its select! (before any byte): queued signals
        // at a frame end or at the death would make both select! branches ready (random order in tokio)
        if rng.chance(1, 4) {
            evs.insert(0, Ev::Signal(rand_signal(rng)));
        }
        if rng.chance(1, 10) {
            evs.push(Ev::SignalsClosed);
        } else {
            evs.push(Ev::Close(*rng.pick(&Close::ALL)));
        }
        sess::run_case(out, &inst, "sess", &evs, true);
    }
}
