//! C09: the real Director fed through real broadcast channels, one signal at a time.
use crate::sess;
use crate::sessgen::rand_signal;
use crate::util::*;
use glonax::core::{Engine, EngineState, Object, Rotator};
use glonax::runtime::{NullConfig, Service};
use glonax::service::Director;
use nalgebra::Rotation3;
use tokio::sync::broadcast;

struct Dir {
    d: Director,
    rt: tokio::runtime::Runtime,
    cmd_tx: broadcast::Sender<Object>,
    cmd_rx: broadcast::Receiver<Object>,
}

impl Dir {
    fn new() -> Self {
        let (cmd_tx, cmd_rx) = broadcast::channel(1024);
        Dir { d: Director::new(NullConfig), rt: tokio::runtime::Builder::new_current_thread().enable_all().build().unwrap(), cmd_tx, cmd_rx }
    }
    /// Publish one signal, let the director process it (the sender is dropped so wait_io_sub returns).
    fn feed(&mut self, o: &Object) -> String {
        let (tx, rx) = broadcast::channel::<Object>(glonax::consts::QUEUE_SIZE_SIGNAL);
        tx.send(o.clone()).unwrap();
        drop(tx);
        let cmd_tx = self.cmd_tx.clone();
        let d = &mut self.d;
        let r = guarded(std::panic::AssertUnwindSafe(|| self.rt.block_on(d.wait_io_sub(cmd_tx, rx))));
        if r.is_none() {
            return "PANIC".into();
        }
        let mut cmds = vec![];
        while let Ok(c) = self.cmd_rx.try_recv() {
            cmds.push(sess::object_tok(&c));
        }
        if cmds.is_empty() { "-".into() } else { cmds.join(";") }
    }
}

pub fn sig_tok(o: &Object) -> String {
    match o {
        Object::Engine(e) => format!("E:{}", e.rpm),
        Object::Rotator(r) => {
            // exactly what the director computes: rotation.euler_angles()
            let (a, b, c) = r.rotator.euler_angles();
            format!("R:{}:{}:{}:{}", r.source, a.to_bits(), b.to_bits(), c.to_bits())
        }
        _ => "O:x".into(),
    }
}

fn history(out: &mut Out, sigs: &[Object], nontrivial: bool) {
    // the director runs as the daemon runs it (real Runtime, scheduled with schedule_io_sub_service, its commands taken from the
    // real command task of a recording network): one signal at a time, the executor run until idle after each
    let groups: Vec<Vec<Object>> = sigs.iter().map(|s| vec![s.clone()]).collect();
    crate::dirrt::run_groups_as(out, "dir", &groups, &sig_tok, nontrivial);
}

/// An engine reading with every reported state in turn: the director's verdict is a function of the speed alone
/// (the token carries only the speed; a verdict that starts to depend on the state shows as a disagreement).
pub fn engine(rpm: u16) -> Object {
    use std::sync::atomic::{AtomicUsize, Ordering};
    static K: AtomicUsize = AtomicUsize::new(0);
    let k = K.fetch_add(1, Ordering::Relaxed);
    let state = [EngineState::Request, EngineState::Stopping, EngineState::NoRequest, EngineState::Starting, EngineState::Request][k % 5];
    Object::Engine(Engine { driver_demand: (k % 3) as u8, actual_engine: (k % 7) as u8, rpm, state })
}

pub fn rot(source: u8, roll_deg: f32, pitch_deg: f32, yaw_deg: f32, absolute: bool) -> Object {
    let r = Rotation3::from_euler_angles(roll_deg.to_radians(), pitch_deg.to_radians(), yaw_deg.to_radians());
    Object::Rotator(if absolute { Rotator::absolute(source, r) } else { Rotator::relative(source, r) })
}

pub fn run(out: &mut Out, tier: &str, rng: &mut Rng) {
    let thorough = tier == "thorough";
    out.rule = "real Director::wait_io_sub fed one signal at a time through real broadcast channels: all 65536 rpm values; rotators from every source 0..255 with Euler angles on a grid across and beyond +-35/45/60/90 degrees (built with nalgebra, the bit patterns of euler_angles() handed to the model), incl. non-zero yaw; every other signal kind; random histories of up to 200 signals. Non-trivial = a history containing an emergency condition or a threshold-crossing reading".into();
    // corpus: the defect found on the pinned tree (50 degrees of roll, then 2300 rpm)
    history(out, &[rot(0x7A, 50.0, 0.0, 0.0, true), engine(2300), rot(0x7A, 10.0, 0.0, 0.0, true), engine(1500)], true);
    // all rpm values (in chunks of one director each, emergency toggling along the way)
    let mut chunk = vec![];
    for rpm in 0..=65535u32 {
        chunk.push(engine(rpm as u16));
        if chunk.len() == 64 {
            history(out, &chunk, true);
            chunk.clear();
        }
    }
    out.count_n("signal engine (all rpm)", 65536);
    // angle grid x sources
    let angles: Vec<f32> = {
        let mut v: Vec<f32> = vec![-100.0, -90.0, -60.0, -46.0, -45.0, -44.0, -36.0, -35.0, -34.0, -1.0, 0.0, 1.0, 34.0, 34.9, 35.0, 35.1, 36.0, 44.0, 44.9, 44.999, 45.0, 45.001, 45.1, 46.0, 59.0, 60.0, 61.0, 89.0, 89.9, 90.0, 91.0, 100.0, 135.0, 179.0];
        if thorough {
            for i in 0..360 {
                v.push(i as f32 * 0.5 - 90.0);
            }
        }
        v
    };
    let sources: Vec<u8> = if thorough { (0..=255).collect() } else { vec![0x7A, 0x6A, 0x6B, 0x6C, 0x6D, 0x00, 0x79, 0x7B, 0xFF] };
    for &src in &sources {
        let mut sigs = vec![];
        for &a in &angles {
            for &b in &[0.0f32, 10.0, 50.0, -50.0] {
                sigs.push(rot(src, a, b, 0.0, src == 0x7A));
                sigs.push(rot(src, b, a, 0.0, src == 0x7A));
            }
            sigs.push(rot(src, a, 0.0, 0.5, true));
            sigs.push(rot(src, 0.0, a, -3.0, false));
        }
        out.count_n(&format!("signal rotator source {:#x}", src), sigs.len() as u64);
        for c in sigs.chunks(48) {
            history(out, c, src == 0x7A);
        }
    }
    // random histories mixing everything
    for _ in 0..(if thorough { 3000 } else { 300 }) {
        let n = 1 + rng.below(200) as usize;
        let mut sigs = vec![];
        for _ in 0..n {
            sigs.push(match rng.below(10) {
                0 | 1 => engine(*rng.pick(&[0u16, 899, 900, 1500, 2199, 2200, 2201, 2500, 65535])),
                2 => engine(rng.next() as u16),
                3 | 4 => rot(0x7A, *rng.pick(&[0.0f32, 30.0, 36.0, 44.0, 46.0, 50.0, 80.0, -50.0]), *rng.pick(&[0.0f32, 5.0, 40.0, 47.0, -47.0]), *rng.pick(&[0.0f32, 0.0, 0.0, 1.0]), true),
                5 => rot(*rng.pick(&[0x6Au8, 0x6B, 0x6C, 0x6D]), 0.0, rng.range(-90, 90) as f32, 0.0, false),
                6 => rot(rng.byte(), rng.range(-90, 90) as f32, rng.range(-90, 90) as f32, 0.0, rng.chance(1, 2)),
                _ => {
                    let s = rand_signal(rng);
                    match s {
                        Object::Engine(_) | Object::Rotator(_) => Object::Motion(glonax::core::Motion::ResumeAll),
                        s => s,
                    }
                }
            });
        }
        history(out, &sigs, true);
        out.count("random history");
    }
}


/// The director as the daemon runs it (real Runtime, re-entry after an overrun of its signal receiver, commands through the
/// real command task): small groups of signals, and groups longer than the signal queue (17..40) that the director loses
/// as a whole - before, between and after emergency readings.  At most two signals are processed while an emergency is
/// pending in any one group, so that the six-command sequences never overrun the command queue.
pub fn run_runtime(out: &mut Out, tier: &str, rng: &mut Rng) {
    let other = || Object::Motion(glonax::core::Motion::ResumeAll);
    let lag = |n: usize, with: Option<Object>| -> Vec<Object> {
        let mut v: Vec<Object> = (0..n).map(|_| other()).collect();
        if let Some(o) = with {
            let k = v.len() / 2;
            v[k] = o;
        }
        v
    };
    let mut cases: Vec<Vec<Vec<Object>>> = vec![
        vec![vec![engine(2300)], vec![other()], vec![engine(1500)], vec![other()]],
        // an emergency is pending, the receiver is overrun, the next signal must still be answered with the sequence
        vec![vec![engine(2300)], lag(17, None), vec![other()], vec![engine(1000)], vec![other()]],
        vec![vec![rot(0x7A, 50.0, 0.0, 0.0, true)], lag(40, None), vec![other()], lag(17, None), vec![other()]],
        // the emergency reading itself is inside a lost group: it was never processed
        vec![vec![engine(1500)], lag(17, Some(engine(2300))), vec![other()], vec![engine(2300)], vec![other()]],
        // the reading that ends the emergency is inside a lost group: the emergency stands
        vec![vec![engine(2300)], lag(18, Some(engine(1500))), vec![other()], vec![engine(1500)], vec![other()]],
        // exactly the queue size is not an overrun
        vec![vec![engine(1500)], { let mut g = lag(16, None); g[15] = engine(2300); g }, vec![other()]],
        vec![lag(17, None), vec![engine(2300)], vec![other()]],
        // several signals queued together and processed in one go: each of them gets its own decision (two sequences while
        // the emergency is pending; one for a reading that starts it followed at once by the reading that ends it)
        vec![vec![engine(2300)], vec![other(), other()], vec![engine(1500)], vec![other(), other()]],
        vec![vec![engine(2300), engine(1500)], vec![other()], vec![engine(1500), engine(2300)], vec![other()]],
        vec![vec![rot(0x7A, 50.0, 0.0, 0.0, true), rot(0x7A, 10.0, 0.0, 0.0, true)], vec![other(), engine(2201)], vec![other()]],
    ];
    for _ in 0..(if tier == "thorough" { 60 } else { 10 }) {
        let mut groups = vec![];
        for _ in 0..(2 + rng.below(6)) {
            groups.push(match rng.below(6) {
                0 => lag(17 + rng.below(24) as usize, if rng.chance(1, 2) { Some(engine(*rng.pick(&[1500u16, 2300]))) } else { None }),
                1 => vec![engine(2300)],
                2 => vec![engine(*rng.pick(&[900u16, 1500, 2200]))],
                3 => vec![rot(0x7A, *rng.pick(&[10.0f32, 50.0]), 0.0, 0.0, true)],
                4 => vec![other(), engine(*rng.pick(&[1500u16, 2201]))],
                _ => vec![other()],
            });
        }
        cases.push(groups);
    }
    for g in &cases {
        crate::dirrt::run_groups(out, g, &sig_tok, true);
    }
    // a pending emergency does not go away by itself: seconds of REAL silence after the reading that raised it, then signals
    // that do not bear on it (quick: one overspeed history with 5.3 s; thorough: tilt as well, and 11 s)
    let mut silent: Vec<(Vec<Vec<Object>>, u64)> = vec![(vec![vec![engine(2500)], vec![other()], vec![rot(0x7A, 1.0, 0.0, 0.0, true)], vec![other()], vec![engine(1500)], vec![other()]], 5_300)];
    if tier == "thorough" {
        silent.push((vec![vec![rot(0x7A, 50.0, 0.0, 0.0, true)], vec![other()], vec![engine(1500)], vec![other()]], 5_300));
        silent.push((vec![vec![engine(2500)], vec![other()], vec![other()]], 11_000));
    }
    for (g, ms) in &silent {
        crate::dirrt::run_groups_paused(out, "dirq", g, &sig_tok, true, &[(0, *ms)]);
        out.count("director: seconds of real silence while an emergency is pending");
    }
}
