//! Generators for the authority-level properties (C10, C20, authority parts of C06 and C16).
use crate::auth::*;
use crate::drv::{frame8, make_id};
use crate::fmt;
use crate::util::*;
use glonax::core::{Engine, EngineState, Motion, Object};

fn known_driver(rng: &mut Rng, timeout: Option<u64>) -> DriverCfg {
    let (v, p, da): (&str, &str, u8) = *rng.pick(&[
        ("laixer", "hcu", 0x4A), ("laixer", "vcu", 0x12), ("volvo", "d7e", 0x00), ("kübler", "inclinometer", 0x7A),
        ("kübler", "encoder", 0x6A), ("kübler", "encoder", 0x6B), ("kübler", "encoder", 0x6C), ("kübler", "encoder", 0x6D),
        ("j1939", "ecu", 0x3C), ("j1939", "ecm", 0x01),
    ]);
    DriverCfg { da, sa: if rng.chance(1, 4) { Some(rng.byte()) } else { None }, timeout, vendor: v.into(), product: p.into() }
}

/// A frame the unit's driver accepts as a sign of life (or a measurement).
fn frame_from_unit(rng: &mut Rng, d: &DriverCfg) -> [u8; 16] {
    let full = frame_from_unit_full(rng, d);
    // now and then the unit's frame arrives SHORT (DLC 0..7): the network pads it with 0xFF ("not available") before any driver
    // sees it, and what is decoded from it must be what is decoded from the padded frame
    if rng.chance(1, 6) {
        let id = u32::from_le_bytes([full[0], full[1], full[2], full[3]]);
        let k = rng.below(8) as usize;
        let mut data = [0u8; 8];
        data[..k].copy_from_slice(&full[8..8 + k]);
        return crate::bus::Bus::raw(id, k as u8, &data);
    }
    full
}

fn mgmt_frame(rng: &mut Rng, da: u8) -> [u8; 16] {
    match rng.below(5) {
            0 => raw_of(make_id(6, 60928, 0xFF, 0x27), &[0u8; 8]),
            1 => raw_of(make_id(6, 60928, 0xFF, 0x27), &[0xFF, 0xFF, 0xFF, 0xFF, 0xFF, 0xFF, 0xFF, *rng.pick(&[0xFFu8, 0x7F])]),
            2 => raw_of(make_id(7, 60416, 0xFF, da), &[0x20, 20, 0, 1 + rng.below(4) as u8, 0xFF, 0xDA, 0xFE, 0x00]),
            3 => raw_of(make_id(7, 60160, *rng.pick(&[0xFFu8, 0x27, da]), *rng.pick(&[0x55u8, 0x27, da])), &[1 + rng.below(4) as u8, 1, 2, 3, 4, 5, 6, 7]),
            _ => raw_of(make_id(6, 60928, 0xFF, *rng.pick(&[0x27u8, 0x55])), &[rng.byte(), rng.byte(), rng.byte(), rng.byte(), rng.byte(), rng.byte(), rng.byte(), rng.byte()]),
    }
}

fn frame_from_unit_full(rng: &mut Rng, d: &DriverCfg) -> [u8; 16] {
    let da = d.da;
    // network management and transport traffic: another node claiming the daemon's own address (with a NAME that would win or
    // lose an arbitration), multi-packet announcements from this unit, data packets from this unit / a stranger / the own address
    if rng.chance(1, 10) {
        return mgmt_frame(rng, da);
    }
    // any parameter group any driver inspects, from this unit's address (whether its own driver accepts it is for the
    // model to say)
    if rng.chance(1, 4) {
        let mut data = [0u8; 8];
        for b in data.iter_mut() {
            *b = match rng.below(4) { 0 => 0xFF, 1 => 0, _ => rng.byte() };
        }
        return raw_of(make_id(*rng.pick(&[3u8, 6]), *rng.pick(&crate::drv::PGNS), *rng.pick(&[0x27u8, 0xFF]), da), &data);
    }
    match d.product.as_str() {
        "hcu" | "vcu" => {
            if rng.chance(1, 2) {
                // nominal, ident, and the two faulty states (the driver reports an error AND a lock signal)
                raw_of(make_id(6, 65288, 0, da), &[*rng.pick(&[0x14u8, 0x16, 0x14, 0x16, 0xFA, 0xFB]), 0xFF, rng.below(2) as u8, 0xFF, 1, 0, 0, 0])
            } else {
                raw_of(make_id(6, 60928, 0xFF, da), &[1, 2, 3, 4, 5, 6, 7, 8])
            }
        }
        "d7e" | "ecm" => {
            if rng.chance(2, 3) {
                let raw = (*rng.pick(&[0u16, 300, 1500]) * 8).to_le_bytes();
                raw_of(make_id(3, 61444, 0, da), &[0xF0, 0x7D, 0x80, raw[0], raw[1], 0xFF, 0xFF, 0xFF])
            } else {
                raw_of(make_id(6, 65262, 0, da), &[0x50, 0x60, 0xFF, 0xFF, 0xFF, 0xFF, 0xFF, 0xFF])
            }
        }
        // sometimes with an error status / state word: a measurement is still published and the unit is alive
        "inclinometer" => raw_of(make_id(6, 65451, 0, da), &[10, 0, 0xF6, 0xFF, 0xFA, 0, if rng.chance(1, 4) { *rng.pick(&[1u8, 2, 0x80, 0xFF]) } else { 0 }, 0]),
        "encoder" => {
            let p = (rng.below(6283) as u32).to_le_bytes();
            let st: [u8; 2] = if rng.chance(1, 4) { *rng.pick(&[[0x00u8, 0xEE], [0x01, 0xEE], [0x04, 0xEE], [0x02, 0xEE]]) } else { [0, 0] };
            raw_of(make_id(6, 65450, 0, da), &[p[0], p[1], p[2], p[3], 0, 0, st[0], st[1]])
        }
        _ => raw_of(make_id(6, 60928, 0xFF, da), &[1, 2, 3, 4, 5, 6, 7, 8]),
    }
}

struct Hist<'a> {
    rig: &'a mut Rig,
    ins: Vec<String>,
    outs: Vec<String>,
}

impl<'a> Hist<'a> {
    fn echo(&mut self) {
        for (e, o) in self.rig.echoes() {
            self.ins.push(e);
            self.outs.push(o);
        }
    }
    fn setup(&mut self) {
        let o = self.rig.setup();
        self.ins.push("U".into());
        self.outs.push(o);
    }
    fn frame(&mut self, raw: &[u8; 16]) {
        let o = self.rig.frame(raw);
        self.ins.push(format!("F:{}", raw_to_frame_tok(raw, 0)));
        self.outs.push(o);
    }
    /// a raw frame whose length code is above 8 (not a classic CAN frame; whatever happens, no unit may be credited)
    fn overlong(&mut self, id: u32, dlc: u8) {
        let o = self.rig.frame(&crate::bus::Bus::raw(id | 0x8000_0000, dlc, &[1, 2, 3, 4, 5, 6, 7, 8]));
        self.ins.push(format!("X:{:08X}#{}", id & 0x1FFF_FFFF, dlc));
        self.outs.push(o);
    }
    fn cycle(&mut self) {
        let o = self.rig.cycle();
        self.ins.push("Y".into());
        self.outs.push(o);
        self.echo();
    }
    fn motion(&mut self, m: &Motion) {
        let o = self.rig.command(&Object::Motion(m.clone()));
        self.ins.push(format!("M:{}", fmt::motion(m)));
        self.outs.push(o);
        self.echo();
    }
    fn engine(&mut self, e: &Engine) {
        let o = self.rig.command(&Object::Engine(*e));
        self.ins.push(format!("E:{}:{}:{}:{}", e.driver_demand, e.actual_engine, e.rpm, e.state as u8));
        self.outs.push(o);
        self.echo();
    }
    fn wait(&mut self, ms: u64) {
        std::thread::sleep(std::time::Duration::from_millis(ms));
        self.ins.push(format!("W:{}", ms));
        self.outs.push("-/-/-".into());
    }
    fn teardown(&mut self) {
        let o = self.rig.teardown();
        self.ins.push("D".into());
        self.outs.push(o);
    }
}

fn default_name() -> [u32; 7] {
    [0, 2, 1, 255, 5, 5, 3]
}

pub fn run_c10(out: &mut Out, tier: &str, rng: &mut Rng) {
    let thorough = tier == "thorough";
    out.rule = "real NetworkAuthority (receive / tick / command clones) on the emulated bus; driver sets of 1..4 known units with timeouts absent / 3600000 ms (never expiring) / 0 ms (already expired) in the quick tier, plus 1500 ms with real 2000 ms silences in the thorough tier; random histories of up to 60 events over {frame accepted from a unit, frame from another unit, cycle}; the frames the tick clone sends loop back to the receive clone as on a real bus and appear as explicit F: events. Observed: ModuleStatus objects on the signal channel per cycle. Non-trivial = a history with at least one accepted frame and ten cycles".into();
    let n = if thorough { 1600 } else { 240 };
    for i in 0..n {
        let timed = thorough && i % 32 == 0;
        let nd = 1 + rng.below(4) as usize;
        let mut drivers = vec![];
        for _ in 0..nd {
            let t = if timed { Some(1500) } else { *rng.pick(&[None, Some(3_600_000u64), Some(0)]) };
            // an entry with an unknown (vendor, product) pair and its own timeout anywhere in the list: it is no unit, and the
            // timeouts of the entries around it are theirs
            if !timed && rng.chance(1, 4) {
                drivers.push(DriverCfg { da: 0x30 + drivers.len() as u8, sa: None, timeout: *rng.pick(&[None, Some(3_600_000u64), Some(0)]), vendor: "acme".into(), product: "widget".into() });
            }
            let d = known_driver(rng, t);
            if drivers.iter().any(|x: &DriverCfg| x.da == d.da) {
                continue;
            }
            drivers.push(d);
        }
        if drivers.is_empty() {
            continue;
        }
        let cfg = NetCfg { address: 0x27, name: default_name(), drivers: drivers.clone() };
        let mut rig = match Rig::new(&cfg) {
            Ok(r) => r,
            Err(()) => {
                out.case(&format!("new {}", cfg.tok()), "PANIC 0", true);
                continue;
            }
        };
        let mut h = Hist { rig: &mut rig, ins: vec![], outs: vec![] };
        h.setup();
        let len = if timed { 8 + rng.below(14) as usize } else { 10 + rng.below(50) as usize };
        let mut accepted = 0;
        let mut cycles = 0;
        let mut waits = 0;
        for _ in 0..len {
            match rng.below(10) {
                0..=2 => {
                    let d = rng.pick(&drivers).clone();
                    let raw = frame_from_unit(rng, &d);
                    h.frame(&raw);
                    accepted += 1;
                    out.count(&format!("event frame from unit ({})", d.product));
                }
                3 => {
                    // what a configured unit sends (any parameter group a driver inspects), from an address nobody is
                    // configured for, from the daemon's own address, from a neighbouring address or from ANOTHER configured unit
                    let d = rng.pick(&drivers).clone();
                    let mut raw = frame_from_unit(rng, &d);
                    let other = rng.pick(&drivers).da;
                    raw[0] = *rng.pick(&[0x99u8, 0x17, 0x27, d.da.wrapping_add(1), other]);
                    h.frame(&raw);
                    out.count("event frame from another unit");
                }
                4 if timed && waits < 2 => {
                    h.wait(2000);
                    waits += 1;
                    out.count("event silence longer than the timeout");
                }
                _ => {
                    h.cycle();
                    cycles += 1;
                    out.count("event cycle");
                }
            }
        }
        // always end with eleven cycles so that the every-tenth refresh is observed
        for _ in 0..11 {
            h.cycle();
        }
        let (ins, outs) = (h.ins.join(" "), h.outs.join(" "));
        out.case(&format!("auth {} {}", cfg.tok(), ins), &outs, accepted > 0 && cycles + 11 >= 10);
    }
}

/// "Healthy only if a message FROM THE UNIT has been accepted", systematically: for every known unit kind alone on the bus
/// (never-expiring timeout, never heard), every parameter group any driver inspects arriving from an address that is not
/// the unit's, each followed by a cycle; then the same groups from the unit itself.  One wrongly accepted group shows as
/// a Healthy status the model does not publish.
pub fn run_c10_foreign(out: &mut Out, _tier: &str, rng: &mut Rng) {
    let kinds: [(&str, &str, u8); 7] = [("laixer", "hcu", 0x4A), ("laixer", "vcu", 0x12), ("volvo", "d7e", 0x00), ("kübler", "inclinometer", 0x7A), ("kübler", "encoder", 0x6A), ("j1939", "ecu", 0x3C), ("j1939", "ecm", 0x01)];
    for (v, p, da) in kinds {
        for src in [0x99u8, 0x17, 0x27, da.wrapping_add(1)] {
            for timeout in [Some(3_600_000u64), None] {
                let cfg = NetCfg { address: 0x27, name: default_name(), drivers: vec![DriverCfg { da, sa: None, timeout, vendor: v.into(), product: p.into() }] };
                let mut rig = match Rig::new(&cfg) {
                    Ok(r) => r,
                    Err(()) => continue,
                };
                let mut h = Hist { rig: &mut rig, ins: vec![], outs: vec![] };
                h.setup();
                h.cycle();
                for pgn in crate::drv::PGNS {
                    let mut data = [0u8; 8];
                    for b in data.iter_mut() {
                        *b = match rng.below(4) { 0 => 0xFF, 1 => 0, _ => rng.byte() };
                    }
                    h.frame(&raw_of(make_id(6, pgn, *rng.pick(&[0x27u8, 0xFF]), src), &data));
                    h.cycle();
                }
                for pgn in crate::drv::PGNS {
                    h.frame(&raw_of(make_id(6, pgn, 0xFF, da), &[0x14, 0xFF, 1, 0xFF, 1, 0, 0, 0]));
                    h.cycle();
                }
                let (ins, outs) = (h.ins.join(" "), h.outs.join(" "));
                out.case(&format!("auth {} {}", cfg.tok(), ins), &outs, true);
                out.count(&format!("every inspected group from a foreign address, unit kind {}", p));
            }
        }
    }
}

/// "Once it has been silent longer than the timeout the next cycle publishes Faulty, and when it speaks again Healthy is
/// published again" with REAL time, also in the quick tier: per unit kind, timeout 300 ms, silences of 450 ms; the unit
/// speaks again with THE SAME frame it sent before (and with a different one).  Frames are always followed by a cycle at
/// once, so only a stall of 300 ms between two statements of the harness could disturb a case.
pub fn run_c10_timed(out: &mut Out, tier: &str, rng: &mut Rng) {
    let kinds: [(&str, &str, u8); 6] = [("laixer", "hcu", 0x4A), ("laixer", "vcu", 0x12), ("volvo", "d7e", 0x00), ("kübler", "inclinometer", 0x7A), ("kübler", "encoder", 0x6A), ("j1939", "ecu", 0x3C)];
    for (n, (v, p, da)) in kinds.iter().enumerate() {
        if tier != "thorough" && n % 2 == 1 {
            continue;
        }
        let d = DriverCfg { da: *da, sa: None, timeout: Some(300), vendor: (*v).into(), product: (*p).into() };
        let cfg = NetCfg { address: 0x27, name: default_name(), drivers: vec![d.clone()] };
        let mut rig = match Rig::new(&cfg) {
            Ok(r) => r,
            Err(()) => continue,
        };
        let mut h = Hist { rig: &mut rig, ins: vec![], outs: vec![] };
        h.setup();
        // a frame this unit's driver accepts as a sign of life: its status / measurement frame, written out per kind
        let f1: [u8; 16] = match *p {
            "hcu" | "vcu" => raw_of(make_id(6, 65288, 0, *da), &[0x14, 0xFF, 1, 0xFF, 1, 0, 0, 0]),
            "d7e" => raw_of(make_id(3, 61444, 0, *da), &[0xF0, 0x7D, 0x80, 0xE0, 0x2E, 0xFF, 0xFF, 0xFF]),
            "inclinometer" => raw_of(make_id(6, 65451, 0, *da), &[10, 0, 0xF6, 0xFF, 0xFA, 0, 0, 0]),
            "encoder" => raw_of(make_id(6, 65450, 0, *da), &[0x10, 0x27, 0, 0, 0, 0, 0, 0]),
            _ => raw_of(make_id(6, 65242, 0, *da), &[1, 1, 2, 3, b'*', 0xFF, 0xFF, 0xFF]),
        };
        let _ = &rng;
        h.frame(&f1);
        h.cycle();
        h.wait(450);
        h.cycle();
        h.frame(&f1);
        h.cycle();
        h.wait(450);
        h.cycle();
        h.frame(&raw_of(make_id(6, 60928, 0xFF, *da), &[1, 2, 3, 4, 5, 6, 7, 8]));
        h.cycle();
        h.frame(&f1);
        h.cycle();
        let (ins, outs) = (h.ins.join(" "), h.outs.join(" "));
        out.case(&format!("auth {} {}", cfg.tok(), ins), &outs, true);
        out.count(&format!("timed history (300 ms timeout, 450 ms silences), unit kind {}", p));
    }
}

/// Transport-protocol traffic, deterministically: a configured unit announces a multi-packet message and falls silent past its
/// timeout; data packets from a stranger, from the daemon's own address and addressed elsewhere do not speak for it.
pub fn run_transport_timed(out: &mut Out) {
    for (v, p, da) in [("laixer", "vcu", 0x12u8), ("laixer", "hcu", 0x4A)] {
        let d = DriverCfg { da, sa: None, timeout: Some(300), vendor: v.into(), product: p.into() };
        let other = DriverCfg { da: 0x6A, sa: None, timeout: Some(300), vendor: "kübler".into(), product: "encoder".into() };
        let cfg = NetCfg { address: 0x27, name: default_name(), drivers: vec![d.clone(), other] };
        let mut rig = match Rig::new(&cfg) {
            Ok(r) => r,
            Err(()) => continue,
        };
        let mut h = Hist { rig: &mut rig, ins: vec![], outs: vec![] };
        h.setup();
        h.cycle();
        h.frame(&raw_of(make_id(6, 65288, 0, da), &[0x14, 0xFF, 1, 0xFF, 1, 0, 0, 0]));
        h.frame(&raw_of(make_id(7, 60416, 0xFF, da), &[0x20, 20, 0, 3, 0xFF, 0xDA, 0xFE, 0x00]));
        h.cycle();
        h.wait(450);
        h.cycle();
        h.frame(&raw_of(make_id(7, 60160, 0xFF, 0x55), &[1, 1, 2, 3, 4, 5, 6, 7]));
        h.cycle();
        h.frame(&raw_of(make_id(7, 60160, 0x4A, 0x27), &[2, 1, 2, 3, 4, 5, 6, 7]));
        h.cycle();
        h.frame(&raw_of(make_id(7, 60160, 0xFF, 0x6B), &[3, 1, 2, 3, 4, 5, 6, 7]));
        for _ in 0..10 {
            h.cycle();
        }
        let (ins, outs) = (h.ins.join(" "), h.outs.join(" "));
        out.case(&format!("auth {} {}", cfg.tok(), ins), &outs, true);
        out.count("timed history with transport-protocol traffic");
    }
}

/// Reception after a LONG silence (thorough tier only: it really waits): a unit that has been quiet for more than a minute
/// speaks again; the frame is received like any other and the network keeps ticking and taking commands.
pub fn run_c06_long_silence(out: &mut Out, tier: &str) {
    if tier != "thorough" {
        return;
    }
    let d = DriverCfg { da: 0x4A, sa: None, timeout: None, vendor: "laixer".into(), product: "hcu".into() };
    let e = DriverCfg { da: 0x6A, sa: None, timeout: None, vendor: "kübler".into(), product: "encoder".into() };
    let cfg = NetCfg { address: 0x27, name: default_name(), drivers: vec![d.clone(), e.clone()] };
    let mut rig = match Rig::new(&cfg) {
        Ok(r) => r,
        Err(()) => return,
    };
    let mut h = Hist { rig: &mut rig, ins: vec![], outs: vec![] };
    h.setup();
    let f1 = raw_of(make_id(6, 65288, 0, 0x4A), &[0x14, 0xFF, 1, 0xFF, 1, 0, 0, 0]);
    let f2 = raw_of(make_id(6, 65450, 0, 0x6A), &[0x10, 0x27, 0, 0, 0, 0, 0, 0]);
    h.frame(&f1);
    h.frame(&f2);
    h.frame(&f1);
    h.cycle();
    h.wait(66_000);
    h.frame(&f1);
    h.frame(&f2);
    h.cycle();
    h.motion(&Motion::StopAll);
    h.cycle();
    h.frame(&f1);
    h.cycle();
    let (ins, outs) = (h.ins.join(" "), h.outs.join(" "));
    out.case(&format!("auth {} {}", cfg.tok(), ins), &outs, true);
    out.count("authority history with 66 s of real silence");
}

/// C01 at the authority level: the latest motion command governs what every hydraulic unit is sent, whatever the
/// bus traffic and whether or not the unit is currently heard (timeouts absent / expired / far away).
pub fn run_c01_auth(out: &mut Out, tier: &str, rng: &mut Rng) {
    let thorough = tier == "thorough";
    for rep in 0..(if thorough { 1200 } else { 160 }) {
        let mut drivers = vec![];
        let nh = 1 + rng.below(2);
        for k in 0..nh {
            let timeout = *rng.pick(&[None, Some(0u64), Some(3_600_000)]);
            drivers.push(DriverCfg { da: 0x4A + k as u8, sa: if rng.chance(1, 4) { Some(0x31) } else { None }, timeout, vendor: "laixer".into(), product: "hcu".into() });
        }
        if rng.chance(1, 2) {
            drivers.push(DriverCfg { da: 0x12, sa: None, timeout: Some(0), vendor: "laixer".into(), product: "vcu".into() });
        }
        // the other units of the shipped network share the bus (and must not share anything else) with the hydraulic unit:
        // the engine driver, which stores ITS commands, and any other known unit
        if rng.chance(1, 2) {
            drivers.push(DriverCfg { da: 0x00, sa: Some(0x11), timeout: *rng.pick(&[None, Some(3_600_000u64)]), vendor: "volvo".into(), product: "d7e".into() });
        }
        if rng.chance(1, 3) {
            let d = known_driver(rng, None);
            if !drivers.iter().any(|x: &DriverCfg| x.da == d.da) {
                drivers.push(d);
            }
        }
        let cfg = NetCfg { address: 0x27, name: default_name(), drivers };
        let mut rig = match Rig::new(&cfg) {
            Ok(r) => r,
            Err(()) => continue,
        };
        let mut h = Hist { rig: &mut rig, ins: vec![], outs: vec![] };
        h.setup();
        if rep % 4 != 0 {
            h.cycle();
        }
        if rep % 4 == 1 {
            // deterministic: a contender for the own address (lowest / highest NAME) before the first command
            h.frame(&raw_of(make_id(6, 60928, 0xFF, 0x27), &[if rep % 8 == 1 { 0u8 } else { 0xFF }; 8]));
        }
        let len = 4 + rng.below(if thorough { 40 } else { 16 });
        for _ in 0..len {
            match rng.below(8) {
                0 | 1 => h.cycle(),
                2 | 3 => {
                    let m = match rng.below(5) {
                        0 => Motion::StopAll,
                        1 => Motion::ResumeAll,
                        2 => Motion::ResetAll,
                        _ => fmt::rand_motion(rng),
                    };
                    h.motion(&m);
                    out.count("authority history: motion command");
                }
                4 => {
                    // the unit reports its own lock state (which must not override the command)
                    let d = cfg.drivers[0].clone();
                    let raw = raw_of(make_id(6, 65288, 0, d.da), &[*rng.pick(&[0x14u8, 0x16]), 0xFF, rng.below(2) as u8, 0xFF, 1, 0, 0, 0]);
                    h.frame(&raw);
                    out.count("authority history: unit status frame");
                }
                5 => {
                    let raw = if rng.chance(1, 2) {
                        raw_of(make_id(6, *rng.pick(&[65288u32, 61444, 45824, 40960]), 0x27, *rng.pick(&[0x99u8, 0x27, 0x4B])), &[rng.byte(), rng.byte(), rng.byte(), rng.byte(), 0, 0, 0, 0])
                    } else {
                        // network management / transport traffic (another node claiming the daemon's address with a winning or a
                        // losing NAME, announcements and data packets): received bus traffic never alters what is re-asserted
                        mgmt_frame(rng, cfg.drivers[0].da)
                    };
                    h.frame(&raw);
                    out.count("authority history: foreign / management frame");
                }
                6 => h.engine(&Engine { driver_demand: 0, actual_engine: 0, rpm: *rng.pick(&[0u16, 1000, 1500, 2300]), state: *rng.pick(&[EngineState::Request, EngineState::NoRequest]) }),
                _ => h.cycle(),
            }
        }
        h.cycle();
        h.cycle();
        let (ins, outs) = (h.ins.join(" "), h.outs.join(" "));
        out.case(&format!("auth {} {}", cfg.tok(), ins), &outs, true);
    }
}

/// The same properties one layer up: random configurations of known units under the real NetworkAuthority (receive /
/// tick / command clones), random histories of unit frames, foreign frames, cycles, motion and engine commands.
/// Used by the driver-level properties (C02, C08, C11, C12) so that the path through the authority is tied as well.
pub fn run_generic_auth(out: &mut Out, tier: &str, rng: &mut Rng, what: &str) {
    let thorough = tier == "thorough";
    for _ in 0..(if thorough { 600 } else { 96 }) {
        let mut drivers: Vec<DriverCfg> = vec![];
        for _ in 0..(1 + rng.below(4)) {
            let t = *rng.pick(&[None, Some(0u64), Some(3_600_000)]);
            let d = known_driver(rng, t);
            if !drivers.iter().any(|x| x.da == d.da) {
                drivers.push(d);
            }
        }
        let cfg = NetCfg { address: 0x27, name: default_name(), drivers };
        let mut rig = match Rig::new(&cfg) {
            Ok(r) => r,
            Err(()) => continue,
        };
        let mut h = Hist { rig: &mut rig, ins: vec![], outs: vec![] };
        h.setup();
        h.cycle();
        for _ in 0..(6 + rng.below(if thorough { 40 } else { 18 })) {
            match rng.below(10) {
                0 | 1 | 2 => {
                    let d = rng.pick(&cfg.drivers).clone();
                    let raw = frame_from_unit(rng, &d);
                    h.frame(&raw);
                    // right after a frame that was credited to a unit: a malformed raw frame (length code above 8) from
                    // anywhere - it must not be credited to anybody, in particular not to the unit that spoke last
                    if rng.chance(1, 8) {
                        let pgn = *rng.pick(&crate::drv::PGNS);
                        h.overlong(make_id(6, pgn, 0xFF, *rng.pick(&[0x99u8, 0x27, d.da])), *rng.pick(&[9u8, 15, 64, 255]));
                    }
                }
                3 => {
                    // the same kind of frame from a node that is not the unit
                    let d = rng.pick(&cfg.drivers).clone();
                    let mut raw = frame_from_unit(rng, &d);
                    raw[0] = *rng.pick(&[0x99u8, 0x27, d.da.wrapping_add(1)]);
                    h.frame(&raw);
                }
                4 => {
                    let mut data = [0u8; 8];
                    for b in data.iter_mut() {
                        *b = rng.byte();
                    }
                    let pgn = *rng.pick(&crate::drv::PGNS);
                    h.frame(&raw_of(make_id(rng.below(8) as u8, pgn, *rng.pick(&[0x27u8, 0xFF]), rng.byte()), &data));
                }
                5 | 6 => h.cycle(),
                7 => {
                    // now and then the degenerate commands: an empty change set, the same actuator twice
                    let m = match rng.below(6) {
                        0 => Motion::Change(vec![]),
                        1 => {
                            let a = glonax::core::Actuator::Boom;
                            let mut c = vec![];
                            for v in [rng.range(-32768, 32767) as i16, 0] {
                                if let Motion::Change(mut x) = Motion::new(a, v) {
                                    c.append(&mut x);
                                }
                            }
                            Motion::Change(c)
                        }
                        _ => fmt::rand_motion(rng),
                    };
                    h.motion(&m);
                    h.cycle();
                }
                8 => h.engine(&Engine { driver_demand: 0, actual_engine: 0, rpm: *rng.pick(&[0u16, 700, 805, 1234, 1500, 1999, 2100, 3000]), state: *rng.pick(&[EngineState::NoRequest, EngineState::Starting, EngineState::Stopping, EngineState::Request]) }),
                _ => h.motion(&Motion::StopAll),
            }
        }
        h.cycle();
        let (ins, outs) = (h.ins.join(" "), h.outs.join(" "));
        out.case(&format!("auth {} {}", cfg.tok(), ins), &outs, true);
        out.count(&format!("authority-level history ({})", what));
    }
}

pub fn run_c06_auth(out: &mut Out, tier: &str, rng: &mut Rng) {
    // raw can_frames with every DLC 0..8 into the real NetworkAuthority::recv, then a cycle and a command
    let thorough = tier == "thorough";
    let cfg = NetCfg {
        address: 0x27,
        name: default_name(),
        drivers: vec![
            // timeouts that cannot expire during the run: the model clock does not advance in these histories
            DriverCfg { da: 0x4A, sa: None, timeout: Some(3_600_000), vendor: "laixer".into(), product: "hcu".into() },
            DriverCfg { da: 0x12, sa: None, timeout: None, vendor: "laixer".into(), product: "vcu".into() },
            DriverCfg { da: 0x00, sa: Some(0x11), timeout: None, vendor: "volvo".into(), product: "d7e".into() },
            DriverCfg { da: 0x7A, sa: None, timeout: None, vendor: "kübler".into(), product: "inclinometer".into() },
            DriverCfg { da: 0x6B, sa: None, timeout: None, vendor: "kübler".into(), product: "encoder".into() },
        ],
    };
    for rep in 0..(if thorough { 800 } else { 120 }) {
        let mut rig = Rig::new(&cfg).expect("authority");
        let mut h = Hist { rig: &mut rig, ins: vec![], outs: vec![] };
        h.setup();
        h.cycle();
        for _ in 0..12 {
            let dlc = rng.below(9) as u8;
            let pgn = *rng.pick(&crate::drv::PGNS);
            let src = *rng.pick(&[0x4Au8, 0x12, 0x00, 0x7A, 0x6B, 0x99, 0x27]);
            let mut data = [0u8; 8];
            for b in data.iter_mut() {
                *b = match rng.below(4) { 0 => 0xFF, 1 => 0x14, _ => rng.byte() };
            }
            let id = make_id(rng.below(8) as u8, pgn, *rng.pick(&[0x27u8, 0xFF, 0x4A]), src);
            let raw = crate::bus::Bus::raw(id | 0x8000_0000, dlc, &data);
            h.frame(&raw);
            out.count(&format!("auth frame dlc={}", dlc));
        }
        // frames a configured unit really sends (and requests to the daemon itself), cut short at every length:
        // each short frame is followed by the same frame written out with its 0xFF padding — the two must be
        // handled identically (clause short_frame_as_padded)
        for _ in 0..6 {
            let full: [u8; 16] = if rng.chance(1, 4) {
                let req = *rng.pick(&[60928u32, 65242, 65254]);
                raw_of(make_id(6, 59904, 0x27, *rng.pick(&[0x10u8, 0x4A])), &[(req & 0xFF) as u8, (req >> 8) as u8, (req >> 16) as u8, 0xFF, 0xFF, 0xFF, 0xFF, 0xFF])
            } else {
                let d = rng.pick(&cfg.drivers).clone();
                frame_from_unit_full(rng, &d)
            };
            let id = u32::from_le_bytes([full[0], full[1], full[2], full[3]]);
            let k = rng.below(8) as usize;
            let mut short = [0u8; 8];
            short[..k].copy_from_slice(&full[8..8 + k]);
            let mut padded = [0xFFu8; 8];
            padded[..k].copy_from_slice(&full[8..8 + k]);
            h.frame(&crate::bus::Bus::raw(id, k as u8, &short));
            h.frame(&crate::bus::Bus::raw(id, 8, &padded));
            out.count(&format!("auth unit frame cut to dlc={}", k));
        }
        h.cycle();
        h.motion(&if rep % 2 == 0 { Motion::StopAll } else { fmt::rand_motion(rng) });
        h.engine(&Engine { driver_demand: 0, actual_engine: 0, rpm: 1200, state: EngineState::Request });
        h.cycle();
        let (ins, outs) = (h.ins.join(" "), h.outs.join(" "));
        out.case(&format!("auth {} {}", cfg.tok(), ins), &outs, true);
    }
}

/// Requests (PGN 59904) to the daemon for EVERY parameter group number: the responder of NetworkAuthority::recv looks at the
/// requested number, so the sweep is over all of them (quick: all 65536 of data page 0; thorough: all 2^18), to the
/// daemon's own address, to the broadcast address and to another node, each followed now and then by a cycle so that
/// "keeps ticking" is observed too.
pub fn run_c06_requests(out: &mut Out, tier: &str, rng: &mut Rng) {
    let thorough = tier == "thorough";
    let cfg = NetCfg {
        address: 0x27,
        name: default_name(),
        drivers: vec![DriverCfg { da: 0x4A, sa: None, timeout: None, vendor: "laixer".into(), product: "hcu".into() }],
    };
    let top: u32 = if thorough { 0x4_0000 } else { 0x1_0000 };
    let chunk = 1024u32;
    let mut base = 0u32;
    while base < top {
        let mut rig = Rig::new(&cfg).expect("authority");
        let mut h = Hist { rig: &mut rig, ins: vec![], outs: vec![] };
        h.setup();
        h.cycle();
        let dest = match (base / chunk) % 8 { 6 => 0xFFu8, 7 => 0x4A, _ => 0x27 };
        for req in base..base + chunk {
            let tail = if req % 3 == 0 { 0x00u8 } else { 0xFF };
            h.frame(&raw_of(make_id(6, 59904, dest, *rng.pick(&[0x10u8, 0x4A, 0xFE])), &[(req & 0xFF) as u8, (req >> 8) as u8, (req >> 16) as u8, tail, tail, tail, tail, tail]));
        }
        h.cycle();
        h.motion(&Motion::StopAll);
        let (ins, outs) = (h.ins.join(" "), h.outs.join(" "));
        out.case(&format!("auth {} {}", cfg.tok(), ins), &outs, true);
        out.count(&format!("request sweep chunk to {:#04x}", dest));
        base += chunk;
    }
    run_request_pages(out, tier, rng);
}

/// Every parameter group any driver (or the authority) inspects, from EVERY source address 0..=255 (the null and the global
/// address included), to the own address and to the broadcast address, through the real NetworkAuthority with the shipped set
/// of units; a cycle now and then.  (The driver-level sweeps already cover all sources; this one covers what the authority
/// itself does with a frame before and after the drivers see it.)
pub fn run_c06_sources(out: &mut Out, _tier: &str, rng: &mut Rng) {
    let cfg = NetCfg {
        address: 0x27,
        name: default_name(),
        drivers: vec![
            DriverCfg { da: 0x4A, sa: None, timeout: Some(3_600_000), vendor: "laixer".into(), product: "hcu".into() },
            DriverCfg { da: 0x12, sa: None, timeout: None, vendor: "laixer".into(), product: "vcu".into() },
            DriverCfg { da: 0x00, sa: Some(0x11), timeout: None, vendor: "volvo".into(), product: "d7e".into() },
            DriverCfg { da: 0x7A, sa: None, timeout: None, vendor: "kübler".into(), product: "inclinometer".into() },
            DriverCfg { da: 0x6B, sa: None, timeout: None, vendor: "kübler".into(), product: "encoder".into() },
        ],
    };
    let mut all: Vec<[u8; 16]> = vec![];
    for pgn in crate::drv::PGNS {
        for src in 0..=255u8 {
            let dest = if src % 2 == 0 { 0xFFu8 } else { 0x27 };
            let mut data = [0u8; 8];
            for b in data.iter_mut() {
                *b = match rng.below(4) { 0 => 0xFF, 1 => 0, _ => rng.byte() };
            }
            all.push(raw_of(make_id(6, pgn, dest, src), &data));
        }
    }
    for part in all.chunks(1536) {
        let mut rig = Rig::new(&cfg).expect("authority");
        let mut h = Hist { rig: &mut rig, ins: vec![], outs: vec![] };
        h.setup();
        h.cycle();
        for (i, raw) in part.iter().enumerate() {
            h.frame(raw);
            if i % 256 == 255 {
                h.cycle();
            }
        }
        h.motion(&Motion::StopAll);
        h.cycle();
        let (ins, outs) = (h.ins.join(" "), h.outs.join(" "));
        out.case(&format!("auth {} {}", cfg.tok(), ins), &outs, true);
        out.count("every inspected group from every source address 0..255 through the authority");
    }
}

/// Engine status frames over the whole speed range (dense around the speeds anything downstream compares with) x starter
/// modes, each followed by a control cycle and now and then an engine command: no reported speed may stop the tick or the
/// command path of the engine unit.
pub fn run_c06_engine_speeds(out: &mut Out, tier: &str, rng: &mut Rng) {
    let cfg = NetCfg {
        address: 0x27,
        name: default_name(),
        drivers: vec![DriverCfg { da: 0x00, sa: Some(0x11), timeout: None, vendor: "volvo".into(), product: "d7e".into() }],
    };
    let mut rpms: Vec<u16> = (0..=8031u16).step_by(if tier == "thorough" { 1 } else { 23 }).collect();
    for c in [0u16, 1, 499, 500, 501, 549, 550, 551, 799, 800, 801, 899, 900, 2099, 2100, 2101, 2199, 2200, 2201, 8030, 8031] {
        rpms.push(c);
    }
    let mut events: Vec<(u16, u8)> = vec![];
    for r in rpms {
        for nib in [0x0Fu8, 0x03, 0x01, 0x00] {
            if nib != 0x0F && r % 7 != 0 && !(490..=560).contains(&r) {
                continue;
            }
            events.push((r, nib));
        }
    }
    for part in events.chunks(400) {
        let mut rig = Rig::new(&cfg).expect("authority");
        let mut h = Hist { rig: &mut rig, ins: vec![], outs: vec![] };
        h.setup();
        h.cycle();
        for (i, (r, nib)) in part.iter().enumerate() {
            let raw = (*r as u32 * 8).min(0xFAFF) as u16;
            let b = raw.to_le_bytes();
            h.frame(&raw_of(make_id(3, 61444, 0, 0x00), &[0xF0, 0x7D, 0x80, b[0], b[1], 0xFF, 0xF0 | nib, 0xFF]));
            h.cycle();
            if i % 16 == 7 {
                h.engine(&Engine { driver_demand: 0, actual_engine: 0, rpm: *rng.pick(&[0u16, 900, 1500, 2300]), state: EngineState::Request });
            }
        }
        let (ins, outs) = (h.ins.join(" "), h.outs.join(" "));
        out.case(&format!("auth {} {}", cfg.tok(), ins), &outs, true);
        out.count("engine status frames over the speed range, each followed by a cycle");
    }
}

/// Requests to the own address at a coarser grain but over ALL data pages and third-byte values: every PDU2 number and every
/// PDU1 format on pages 0..3; the served groups (and neighbours) with every value of the third request byte (the bits above
/// the 18-bit number included); the same cut to 2, 1 and 0 data bytes (0xFF padding takes the place of the missing bytes).
pub fn run_request_pages(out: &mut Out, _tier: &str, rng: &mut Rng) {
    let cfg = NetCfg {
        address: 0x27,
        name: default_name(),
        drivers: vec![DriverCfg { da: 0x4A, sa: None, timeout: None, vendor: "laixer".into(), product: "hcu".into() }],
    };
    let mut reqs: Vec<(u8, [u8; 3])> = vec![];
    for dp in 0..4u32 {
        for pf in 0..=255u32 {
            let ps_list: Vec<u32> = if pf >= 240 { (0..=255).collect() } else { vec![0] };
            for ps in ps_list {
                let req = (dp << 16) | (pf << 8) | ps;
                reqs.push((3, [(req & 0xFF) as u8, (req >> 8) as u8, (req >> 16) as u8]));
            }
        }
    }
    for low in [0xEE00u32, 0xFEDA, 0xFEE6, 0xFEEB, 0xEA00, 0xFECA, 0x0000, 0xFFFF] {
        for third in 0..=255u32 {
            reqs.push((3, [(low & 0xFF) as u8, (low >> 8) as u8, third as u8]));
        }
        for dlc in [2u8, 1, 0] {
            reqs.push((dlc, [(low & 0xFF) as u8, (low >> 8) as u8, 0]));
        }
    }
    // the served groups asked for by EVERY source address 0..=255 (the null and the global address included): who asks does not
    // matter, a request addressed to the node is answered
    let mut by_source: Vec<[u8; 16]> = vec![];
    for low in [0xEE00u32, 0xFEDA, 0xFEE6, 0xFEEB] {
        for src in 0..=255u8 {
            by_source.push(raw_of(make_id(6, 59904, 0x27, src), &[(low & 0xFF) as u8, (low >> 8) as u8, 0, 0xFF, 0xFF, 0xFF, 0xFF, 0xFF]));
        }
    }
    {
        let mut rig = Rig::new(&cfg).expect("authority");
        let mut h = Hist { rig: &mut rig, ins: vec![], outs: vec![] };
        h.setup();
        for raw in &by_source {
            h.frame(raw);
        }
        h.cycle();
        let (ins, outs) = (h.ins.join(" "), h.outs.join(" "));
        out.case(&format!("auth {} {}", cfg.tok(), ins), &outs, true);
        out.count("request sweep: served groups from every source address 0..255");
    }
    for part in reqs.chunks(2048) {
        let mut rig = Rig::new(&cfg).expect("authority");
        let mut h = Hist { rig: &mut rig, ins: vec![], outs: vec![] };
        h.setup();
        for (dlc, b) in part {
            let id = make_id(6, 59904, 0x27, *rng.pick(&[0x10u8, 0x4A])) | 0x8000_0000;
            let mut data = [0u8; 8];
            data[..(*dlc as usize).min(3)].copy_from_slice(&b[..(*dlc as usize).min(3)]);
            if *dlc == 3 {
                h.frame(&raw_of(id & 0x1FFF_FFFF, &[b[0], b[1], b[2], 0xFF, 0xFF, 0xFF, 0xFF, 0xFF]));
            } else {
                h.frame(&crate::bus::Bus::raw(id, *dlc, &data));
            }
        }
        h.cycle();
        let (ins, outs) = (h.ins.join(" "), h.outs.join(" "));
        out.case(&format!("auth {} {}", cfg.tok(), ins), &outs, true);
        out.count("request sweep: pages 0..3, third-byte values and short requests to the own address");
    }
}

pub fn run_c16_auth(out: &mut Out, tier: &str, rng: &mut Rng) {
    // teardown of authorities with zero, one or several hydraulic units, at any point of their life
    let thorough = tier == "thorough";
    for rep in 0..(if thorough { 480 } else { 96 }) {
        let mut drivers = vec![];
        // an entry with an unknown (vendor, product) pair - a typo in the configuration - anywhere in the list: the units
        // listed after it are units all the same
        if rng.chance(1, 3) {
            drivers.push(DriverCfg { da: 0x33, sa: None, timeout: None, vendor: "kuebler".into(), product: "encoder".into() });
        }
        for k in 0..rng.below(4) {
            // silent units too: a 0 ms timeout has always expired when teardown runs
            let timeout = *rng.pick(&[Some(3_600_000u64), Some(0), None]);
            drivers.push(DriverCfg { da: 0x4A + k as u8, sa: if rng.chance(1, 3) { Some(0x30) } else { None }, timeout, vendor: "laixer".into(), product: "hcu".into() });
        }
        for _ in 0..rng.below(3) {
            let d = known_driver(rng, Some(3_600_000));
            if d.product != "hcu" && !drivers.iter().any(|x: &DriverCfg| x.da == d.da) {
                drivers.push(d);
            }
            if rng.chance(1, 4) {
                drivers.push(DriverCfg { da: 0x34, sa: None, timeout: Some(1000), vendor: "acme".into(), product: "widget".into() });
                drivers.push(DriverCfg { da: 0x4E, sa: None, timeout: None, vendor: "laixer".into(), product: "hcu".into() });
            }
        }
        let cfg = NetCfg { address: 0x27, name: default_name(), drivers };
        let mut rig = match Rig::new(&cfg) {
            Ok(r) => r,
            Err(()) => continue,
        };
        let mut h = Hist { rig: &mut rig, ins: vec![], outs: vec![] };
        h.setup();
        // shutdown before the first cycle / after some cycles / in the middle of commands
        match rep % 3 {
            0 => {}
            1 => {
                for _ in 0..(1 + rng.below(4)) {
                    h.cycle();
                }
            }
            _ => {
                h.cycle();
                h.motion(&fmt::rand_motion(rng));
                h.motion(&fmt::rand_motion(rng));
            }
        }
        // bus traffic before the request: what the units send, and the same frames cut short (DLC 0..7) - the receive
        // task is the one that runs the teardown, so whatever it received it must still be there to run it
        if rep % 2 == 1 && !cfg.drivers.is_empty() {
            for _ in 0..(1 + rng.below(5)) {
                let d = rng.pick(&cfg.drivers).clone();
                let full = if rng.chance(1, 4) {
                    let req = *rng.pick(&[60928u32, 65242, 65254]);
                    raw_of(make_id(6, 59904, 0x27, 0x10), &[(req & 0xFF) as u8, (req >> 8) as u8, (req >> 16) as u8, 0xFF, 0xFF, 0xFF, 0xFF, 0xFF])
                } else if rng.chance(1, 3) {
                    raw_of(make_id(6, *rng.pick(&[45824u32, 45312, 40960, 41216]), *rng.pick(&[d.da, 0xFF]), 0x27), &[0x5A, 0x43, 0xFF, 0, 0xFF, 0xFF, 0xFF, 0xFF])
                } else {
                    frame_from_unit_full(rng, &d)
                };
                let id = u32::from_le_bytes([full[0], full[1], full[2], full[3]]);
                let k = rng.below(9) as usize;
                let mut data = [0u8; 8];
                data[..k].copy_from_slice(&full[8..8 + k]);
                h.frame(&crate::bus::Bus::raw(id, k as u8, &data));
                out.count(&format!("frame before the request, dlc={}", k));
            }
        }
        h.teardown();
        let (ins, outs) = (h.ins.join(" "), h.outs.join(" "));
        out.case(&format!("auth {} {}", cfg.tok(), ins), &outs, true);
        out.count(&format!("teardown point {}", ["before first cycle", "after cycles", "mid commands"][rep % 3]));
    }
}

pub fn run_c20(out: &mut Out, tier: &str, rng: &mut Rng) {
    let thorough = tier == "thorough";
    out.rule = "real NetworkAuthority on the emulated bus: NAME fields at boundaries (0, max, max+1, random) x own addresses; address claim on setup; request frames for every PGN any driver inspects plus AddressClaimed / SoftwareIdentification / TimeDate / others x destination {own, broadcast, other}; driver lists of 0..6 entries drawn from known and unknown (vendor, product) pairs with and without sa override and timeout (construction incl. the two clones, first-cycle setup requests, status names); the shipped contrib/etc/glonax.conf loaded with the real from_file into the server's Config and brought up on two emulated buses. Non-trivial = all".into();
    // --- NAME fields x addresses
    let bounds: [[u32; 3]; 7] = [[0, 2047, 2048], [0, 31, 32], [0, 7, 8], [0, 255, 128], [0, 127, 255], [0, 15, 16], [0, 7, 9]];
    let reps = if thorough { 1200 } else { 180 };
    for i in 0..reps {
        let mut name = default_name();
        for k in 0..7 {
            name[k] = match rng.below(4) {
                0 => bounds[k][rng.below(3) as usize],
                1 => name[k],
                _ => (rng.next() as u32) % (bounds[k][1] + 1).max(1),
            };
        }
        // the configuration types bound the fields: u16 manufacturer code, u8 others
        name[0] = name[0].min(65535);
        for k in 1..7 {
            name[k] = name[k].min(255);
        }
        let address = if i < 4 { [0u8, 1, 0xFE, 0xFF][i] } else { rng.byte() };
        let cfg = NetCfg { address, name, drivers: vec![DriverCfg { da: 0x4A, sa: None, timeout: None, vendor: "laixer".into(), product: "hcu".into() }] };
        let mut rig = Rig::new(&cfg).expect("authority");
        let mut h = Hist { rig: &mut rig, ins: vec![], outs: vec![] };
        h.setup();
        // requests
        for _ in 0..8 {
            let req: u32 = *rng.pick(&[60928u32, 65242, 65254, 65259, 59904, 61444, 0, 65226, 0x3FFFF, 65288]);
            let dest = *rng.pick(&[address, address, 0xFF, address.wrapping_add(1)]);
            let b = req.to_le_bytes();
            let dlc = if rng.chance(1, 6) { 8 } else { 3 };
            let raw = crate::bus::Bus::raw(make_id(6, 59904, dest, rng.byte()) | 0x8000_0000, dlc, &[b[0], b[1], b[2], 0xFF, 0xFF, 0xFF, 0xFF, 0xFF]);
            h.frame(&raw);
            out.count(&format!("request pgn {} to {}", req, if dest == address { "own" } else if dest == 0xFF { "broadcast" } else { "other" }));
        }
        let (ins, outs) = (h.ins.join(" "), h.outs.join(" "));
        out.case(&format!("auth {} {}", cfg.tok(), ins), &outs, true);
    }
    // --- driver lists from known and unknown pairs
    let unknown = [("laixer", "hcu2"), ("volvo", "d6"), ("kubler", "encoder"), ("", ""), ("j1939", "engine"), ("Laixer", "hcu")];
    for _ in 0..(if thorough { 1500 } else { 240 }) {
        let mut drivers = vec![];
        for _ in 0..rng.below(7) {
            if rng.chance(1, 4) {
                let (v, p) = *rng.pick(&unknown);
                drivers.push(DriverCfg { da: rng.byte(), sa: None, timeout: None, vendor: v.into(), product: p.into() });
            } else {
                let t = *rng.pick(&[None, Some(1000u64)]);
                let mut d = known_driver(rng, t);
                if rng.chance(1, 12) && d.product == "encoder" {
                    d.da = 0x70; // an encoder at an address the driver has no converter for
                }
                drivers.push(d);
            }
        }
        let cfg = NetCfg { address: rng.byte(), name: default_name(), drivers };
        match Rig::new(&cfg) {
            Err(()) => {
                out.count("construction panicked");
                out.case(&format!("new {}", cfg.tok()), "PANIC 0", true);
            }
            Ok(mut rig) => {
                let mut h = Hist { rig: &mut rig, ins: vec![], outs: vec![] };
                h.setup();
                // every other configuration: the units are ALREADY TALKING when the daemon comes up (their power-up address
                // claims and first frames arrive before the first control cycle) - they are identified all the same
                if rng.chance(1, 2) {
                    for d in cfg.drivers.clone() {
                        if rng.chance(2, 3) {
                            h.frame(&raw_of(make_id(6, 60928, 0xFF, d.da), &[1, 2, 3, 4, 5, 6, 7, 8]));
                        }
                        if rng.chance(1, 2) {
                            let raw = frame_from_unit(rng, &d);
                            h.frame(&raw);
                        }
                    }
                }
                h.cycle();
                // make every unit speak once so that its status (and canonical name) is published
                for d in cfg.drivers.clone() {
                    if ["hcu", "vcu", "d7e", "inclinometer", "encoder", "ecu", "ecm"].contains(&d.product.as_str()) && ["laixer", "volvo", "kübler", "j1939"].contains(&d.vendor.as_str()) {
                        let raw = frame_from_unit(rng, &d);
                        h.frame(&raw);
                    }
                }
                h.cycle();
                let (ins, outs) = (h.ins.join(" "), h.outs.join(" "));
                out.case(&format!("auth {} {}", cfg.tok(), ins), &outs, true);
                out.count("driver list brought up");
            }
        }
    }
    // --- the shipped example configuration
    let conf: Result<crate::server_config::Config, _> = glonax::from_file("/repo/contrib/etc/glonax.conf");
    match conf {
        Err(e) => {
            out.note(format!("shipped configuration rejected: {:?}", e));
            out.case("shipped glonax.conf", "REJECTED", true);
        }
        Ok(conf) => {
            out.count_n("shipped configuration networks", conf.j1939.len() as u64);
            for net in &conf.j1939 {
                let cfg = NetCfg {
                    address: net.address,
                    name: [net.name.manufacturer_code as u32, net.name.function_instance as u32, net.name.ecu_instance as u32, net.name.function as u32, net.name.vehicle_system as u32, net.name.vehicle_system_instance as u32, net.name.industry_group as u32],
                    drivers: net.driver.iter().map(|d| DriverCfg { da: d.da, sa: d.sa, timeout: d.timeout, vendor: d.vendor.clone(), product: d.product.clone() }).collect(),
                };
                // construction (with the two clones) of the configuration exactly as shipped
                match Rig::new(&cfg) {
                    Err(()) => out.case(&format!("new {}", cfg.tok()), "PANIC 0", true),
                    Ok(_) => out.case(&format!("new {}", cfg.tok()), &format!("ok {}", cfg.drivers.len()), true),
                }
                // the history runs with the shipped timeouts (250 / 1000 ms) stretched so that they cannot expire under
                // load: the model clock does not advance in this history
                let mut cfg = cfg;
                for d in cfg.drivers.iter_mut() {
                    d.timeout = d.timeout.map(|_| 3_600_000);
                }
                match Rig::new(&cfg) {
                    Err(()) => out.case(&format!("new {}", cfg.tok()), "PANIC 0", true),
                    Ok(mut rig) => {
                        let mut h = Hist { rig: &mut rig, ins: vec![], outs: vec![] };
                        h.setup();
                        h.cycle();
                        for d in cfg.drivers.clone() {
                            let raw = frame_from_unit(rng, &d);
                            h.frame(&raw);
                        }
                        h.cycle();
                        h.motion(&Motion::StopAll);
                        h.teardown();
                        let (ins, outs) = (h.ins.join(" "), h.outs.join(" "));
                        out.case(&format!("auth {} {}", cfg.tok(), ins), &outs, true);
                    }
                }
            }
        }
    }
    let _ = frame8;
}
