//! C17: raw can_frame marshalling through the real CANSocket/ControlNetwork on the emulated bus,
//! and Filter::matches against all small filter lists.
use crate::bus::Bus;
use crate::fmt;
use crate::util::*;
use glonax::j1939::{FrameBuilder, Id, NameBuilder};
use glonax::net::{ControlNetwork, Filter, FilterItem};

fn ids(rng: &mut Rng, n: usize) -> Vec<u32> {
    let mut v = vec![0u32, 0x1FFF_FFFF, 0x0CB3_4A27, 0x18FE_CA00, 0x18EA_FF27, 0x18EF_0000, 0x18F0_0000, 0x1CEC_20FB, 0x0CFF_0227, 0x00FF_FFFF, 0x1000_0000];
    for _ in 0..n {
        v.push(match rng.below(3) {
            0 => ((rng.below(8) as u32) << 26) | ((rng.below(240) as u32) << 16) | (rng.next() as u32 & 0xFFFF),
            1 => ((rng.below(8) as u32) << 26) | ((240 + rng.below(16) as u32) << 16) | (rng.next() as u32 & 0xFFFF),
            _ => rng.next() as u32 & 0x1FFF_FFFF,
        });
    }
    v
}

pub fn run(out: &mut Out, tier: &str, rng: &mut Rng) {
    let thorough = tier == "thorough";
    out.rule = "tx: J1939 frames (id classes x len 0..8 x data) sent by the real ControlNetwork::send, the raw 16-byte can_frame read from the emulated bus; rx: raw can_frames with DLC 0..8, id classes incl. bits 29-31 set, delivered to the real ControlNetwork::recv; flt: every filter list of 0..2 entries (quick; 0..3 thorough) over all 16 field-presence masks with field values drawn from the probe identifier or a near miss, accept and reject mode, against PDU1/PDU2 identifiers, via the real Filter::matches. Non-trivial = tx/rx with len>0, filter lists with at least one entry".into();
    let rt = tokio::runtime::Builder::new_current_thread().enable_all().build().unwrap();
    let bus = Bus::attach("vcan17");
    let name = NameBuilder::default().identity_number(1).build();
    let n_ids = if thorough { 3000 } else { 300 };
    rt.block_on(async {
        let mut net = ControlNetwork::bind("vcan17", &name).expect("bind on emulated bus");
        // ---- tx ----
        for id in ids(rng, n_ids) {
            for len in 0..=8usize {
                let mut data = vec![0u8; len];
                for b in data.iter_mut() {
                    *b = match rng.below(4) {
                        0 => 0,
                        1 => 0xFF,
                        _ => rng.byte(),
                    };
                }
                let f = FrameBuilder::new(Id::new(id)).copy_from_slice(&data).build();
                let r = net.send(&f).await;
                let raw = bus.next();
                let o = match (r, raw) {
                    (Ok(_), Some(raw)) => hex(&raw),
                    (Err(e), _) => format!("ERR:{:?}", e.kind()),
                    (_, None) => "NOFRAME".into(),
                };
                out.count(&format!("tx len={}", len));
                out.case(&format!("tx {:08X} {}", id, hex(&data)), &o, len > 0);
            }
        }
        // ---- rx ----
        let mut timeouts = 0usize;
        for id in ids(rng, n_ids) {
            for dlc in 0..=8u8 {
                let flags = match rng.below(4) {
                    0 => 0x8000_0000u32,
                    1 => 0xE000_0000,
                    2 => 0,
                    _ => (rng.next() as u32) & 0xE000_0000,
                };
                let mut data = [0u8; 8];
                for b in data.iter_mut() {
                    *b = rng.byte();
                }
                let raw = Bus::raw(id | flags, dlc, &data);
                // a frame that is never delivered costs a time-out: after 12 of them the point is made
                if timeouts >= 12 {
                    continue;
                }
                bus.inject(&raw);
                let r = tokio::time::timeout(std::time::Duration::from_millis(400), net.recv()).await;
                if r.is_err() {
                    timeouts += 1;
                }
                let o = match r {
                    Ok(Ok(())) => fmt::frame(net.frame().unwrap()),
                    Ok(Err(e)) => format!("ERR:{:?}", e.kind()),
                    Err(_) => "TIMEOUT".into(),
                };
                out.count(&format!("rx dlc={} flags={:X}", dlc, flags >> 29));
                out.case(&format!("rx {}", hex(&raw)), &o, dlc > 0);
            }
        }
    });
    drop(bus);
    // ---- a filter INSTALLED on a network (ControlNetwork::with_filter) decides what recv delivers: accept and reject lists of
    // 0..2 entries that match / miss the probe, the probe frame injected on the emulated bus; "0" = nothing delivered in 300 ms
    {
        let bus = Bus::attach("vcan17f");
        for (k, &idraw) in [0x0CB3_4A27u32, 0x18FE_CA00, 0x18EA_FF27, 0x18EF_2700].iter().enumerate() {
            let id = Id::new(idraw);
            let hit = FilterItem::default().set_pgn(id.pgn_raw());
            let hit2 = FilterItem::default().set_source_address(id.source_address());
            let miss = FilterItem::default().set_pgn(id.pgn_raw() ^ 0x100);
            let miss2 = FilterItem::default().set_source_address(id.source_address().wrapping_add(1));
            let t = |g: u32| format!("*.{}.*.*", g);
            let ts = |a: u8| format!("*.*.{}.*", a);
            let lists: Vec<(Vec<FilterItem>, String)> = vec![
                (vec![], "-".into()),
                (vec![hit], t(id.pgn_raw())),
                (vec![miss], t(id.pgn_raw() ^ 0x100)),
                (vec![miss, hit2], format!("{};{}", t(id.pgn_raw() ^ 0x100), ts(id.source_address()))),
                (vec![miss, miss2], format!("{};{}", t(id.pgn_raw() ^ 0x100), ts(id.source_address().wrapping_add(1)))),
            ];
            for accept in [true, false] {
                for (items, txt) in &lists {
                    // a sample in the quick tier: every list for the first probe, two lists for the others
                    if !thorough && k > 0 && items.len() != 1 {
                        continue;
                    }
                    let mut f = if accept { Filter::accept() } else { Filter::reject() };
                    for it in items {
                        f.push(*it);
                    }
                    let got = rt.block_on(async {
                        let mut net = ControlNetwork::bind("vcan17f", &name).expect("bind on emulated bus").with_filter(f);
                        bus.inject(&Bus::raw(idraw | 0x8000_0000, 8, &[1, 2, 3, 4, 5, 6, 7, 8]));
                        tokio::time::timeout(std::time::Duration::from_millis(400), net.recv()).await.is_ok()
                    });
                    out.count(&format!("fnet {} items={}", if accept { "A" } else { "R" }, items.len()));
                    out.case(&format!("fnet {} {} {:08X}", if accept { "A" } else { "R" }, txt, idraw), if got { "1" } else { "0" }, !items.is_empty());
                }
            }
        }
    }
    // ---- what a FILTERED network delivers: a frame the filter skips, then a frame it passes, both waiting when recv is called
    // once; the delivered frame is the second one, masked and padded as any received frame (whatever the first one carried)
    {
        let bus = Bus::attach("vcan17g");
        let rt = tokio::runtime::Builder::new_current_thread().enable_all().build().unwrap();
        let name = glonax::j1939::NameBuilder::default().identity_number(1).build();
        for (k, (l1, l2)) in [(8u8, 3u8), (8, 0), (5, 2), (3, 8), (8, 8), (0, 1), (7, 6)].iter().enumerate() {
            for accept in [true, false] {
                let (skipped, passed) = (0x18FE_F227u32, 0x18EA_274Au32);
                // accept list on the second frame's source / reject list on the first frame's source
                let (it, txt) = if accept { (FilterItem::with_source_address(0x4A), "*.*.74.*") } else { (FilterItem::with_source_address(0x27), "*.*.39.*") };
                let mut f = if accept { Filter::accept() } else { Filter::reject() };
                f.push(it);
                let d1: Vec<u8> = (0..8).map(|i| 0x11u8.wrapping_mul(i + 1 + k as u8)).collect();
                let d2: Vec<u8> = (0..8).map(|i| 0xA1u8.wrapping_add(i)).collect();
                let (r1, r2) = (Bus::raw(skipped | 0x8000_0000, *l1, &d1), Bus::raw(passed | 0x8000_0000, *l2, &d2));
                let o = rt.block_on(async {
                    let mut net = ControlNetwork::bind("vcan17g", &name).expect("bind on emulated bus").with_filter(f);
                    bus.inject(&r1);
                    bus.inject(&r2);
                    match tokio::time::timeout(std::time::Duration::from_millis(400), net.recv()).await {
                        Ok(Ok(())) => fmt::frame(net.frame().unwrap()),
                        Ok(Err(e)) => format!("ERR:{:?}", e.kind()),
                        Err(_) => "TIMEOUT".into(),
                    }
                });
                out.count("frx: skipped frame then passed frame in one recv");
                out.case(&format!("frx {} {} {} {}", if accept { "A" } else { "R" }, txt, hex(&r1), hex(&r2)), &o, true);
            }
        }
    }
    // ---- filters ----
    let probe_ids: Vec<u32> = {
        let mut v = vec![0x0CB3_4A27u32, 0x18FE_CA00, 0x18EA_FF27, 0x0CFF_0227, 0x18EF_2700, 0x1CF0_0427, 0x18EA_FE27, 0x18EA_0027];
        let extra = if thorough { 20 } else { 4 };
        for _ in 0..extra {
            v.push(rng.next() as u32 & 0x1FFF_FFFF);
        }
        v
    };
    let max_items = if thorough { 3 } else { 2 };
    for &idraw in &probe_ids {
        let id = Id::new(idraw);
        // candidate entries: 16 masks x (all matching values | one field off)
        let mut cands: Vec<(FilterItem, String)> = vec![];
        for mask in 0..16u32 {
            for off in 0..5u32 {
                // off = 0: every specified field equals the id's; off = k: k-th field deliberately differs
                if off > 0 && mask & (1 << (off - 1)) == 0 {
                    continue;
                }
                let mut it = FilterItem::default();
                let mut txt = vec!["*".to_string(); 4];
                if mask & 1 != 0 {
                    let p = if off == 1 { (id.priority() + 1) % 8 } else { id.priority() };
                    it = it.set_priority(p);
                    txt[0] = p.to_string();
                }
                if mask & 2 != 0 {
                    let g = if off == 2 { id.pgn_raw() ^ 0x100 } else { id.pgn_raw() };
                    it = it.set_pgn(g);
                    txt[1] = g.to_string();
                }
                if mask & 4 != 0 {
                    let s = if off == 3 { id.source_address().wrapping_add(1) } else { id.source_address() };
                    it = it.set_source_address(s);
                    txt[2] = s.to_string();
                }
                if mask & 8 != 0 {
                    let d0 = id.destination_address().unwrap_or(id.pdu_specific());
                    let d = if off == 4 { d0.wrapping_add(1) } else { d0 };
                    it = it.set_destination_address(d);
                    txt[3] = d.to_string();
                }
                cands.push((it, txt.join(".")));
            }
        }
        // every constructor of an entry, with boundary values: `with_*` builds what `default().set_*` builds
        for field in 0..4u32 {
            let own: u32 = match field {
                0 => id.priority() as u32,
                1 => id.pgn_raw(),
                2 => id.source_address() as u32,
                _ => id.destination_address().unwrap_or(id.pdu_specific()) as u32,
            };
            let top: u32 = match field { 0 => 7, 1 => 0x3FFFF, _ => 0xFF };
            let mut vals = vec![0u32, 1, top, top - 1, own, own.wrapping_add(1) & top, own.wrapping_sub(1) & top];
            vals.sort();
            vals.dedup();
            for v in vals {
                for ctor in [true, false] {
                    let it = match (field, ctor) {
                        (0, true) => FilterItem::with_priority(v as u8),
                        (0, false) => FilterItem::default().set_priority(v as u8),
                        (1, true) => FilterItem::with_pgn(v),
                        (1, false) => FilterItem::default().set_pgn(v),
                        (2, true) => FilterItem::with_source_address(v as u8),
                        (2, false) => FilterItem::default().set_source_address(v as u8),
                        (_, true) => FilterItem::with_destination_address(v as u8),
                        (_, false) => FilterItem::default().set_destination_address(v as u8),
                    };
                    let mut txt = vec!["*".to_string(); 4];
                    txt[field as usize] = v.to_string();
                    for (accept, dflt) in [(true, false), (true, true), (false, false)] {
                        // `Filter::default()` is an accept list
                        let mut f = if dflt { Filter::default() } else if accept { Filter::accept() } else { Filter::reject() };
                        f.push(it);
                        let r = f.matches(&id);
                        out.count(&format!("flt ctor {}", if ctor { "with" } else { "set" }));
                        out.case(&format!("flt {} {} {:08X}", if accept { "A" } else { "R" }, txt.join("."), idraw), if r { "1" } else { "0" }, true);
                    }
                }
            }
        }
        let nc = cands.len();
        for accept in [true, false] {
            let mode = if accept { "A" } else { "R" };
            // lists of 0..max_items entries (all of length 0,1,2; length 3 sampled/thorough all pairs + random third)
            let mut emit = |out: &mut Out, idxs: &[usize]| {
                let mut f = if accept { Filter::accept() } else { Filter::reject() };
                for &i in idxs {
                    f.push(cands[i].0);
                }
                let r = f.matches(&id);
                let items = if idxs.is_empty() { "-".to_string() } else { idxs.iter().map(|&i| cands[i].1.clone()).collect::<Vec<_>>().join(";") };
                out.count(&format!("flt {} items={}", mode, idxs.len()));
                out.case(&format!("flt {} {} {:08X}", mode, items, idraw), if r { "1" } else { "0" }, !idxs.is_empty());
            };
            emit(out, &[]);
            for a in 0..nc {
                emit(out, &[a]);
            }
            for a in 0..nc {
                for b in 0..nc {
                    emit(out, &[a, b]);
                }
            }
            if max_items >= 3 {
                for a in 0..nc {
                    for b in 0..nc {
                        let c = rng.below(nc as u64) as usize;
                        emit(out, &[a, b, c]);
                    }
                }
            } else {
                for _ in 0..200 {
                    let (a, b, c) = (rng.below(nc as u64) as usize, rng.below(nc as u64) as usize, rng.below(nc as u64) as usize);
                    emit(out, &[a, b, c]);
                }
            }
        }
    }
}
