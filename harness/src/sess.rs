//! Driving the REAL server session (`UnixServer::spawn_client_session`, via hook H2) over a scripted
//! transport, polled by hand: every case is one well-defined event list of M-sess.
use crate::c13;
use crate::fmt;
use crate::util::*;
use glonax::core::{Object};
use glonax::protocol::Packetize;
use std::collections::VecDeque;
use std::future::Future;
use std::pin::Pin;
use std::sync::{Arc, Mutex};
use std::task::{Context, Poll, RawWaker, RawWakerVTable, Waker};
use tokio::io::{AsyncRead, AsyncWrite, ReadBuf};
use tokio::sync::broadcast;

#[derive(Clone, Copy, PartialEq, Eq, Debug)]
pub enum Close {
    Eof,
    Reset,
    TimedOut,
    Aborted,
}

impl Close {
    pub fn tok(&self) -> &'static str {
        match self {
            Close::Eof => "eof",
            Close::Reset => "reset",
            Close::TimedOut => "timedout",
            Close::Aborted => "aborted",
        }
    }
    pub const ALL: [Close; 4] = [Close::Eof, Close::Reset, Close::TimedOut, Close::Aborted];
}

#[derive(Default)]
pub struct Script {
    avail: VecDeque<u8>,
    close: Option<Close>,
    written: Vec<u8>,
    consumed: usize,
    /// number of times the termination was reported to the reader
    close_reports: usize,
    /// when set, poll_write accepts nothing (a client that does not read)
    pub stalled: bool,
    /// when set, every write fails with BrokenPipe (the peer is gone while its bytes are still readable);
    /// what the session TRIED to write is still recorded
    pub wfail: bool,
    /// when non-zero, one write call accepts at most this many bytes (a client whose window is small): a sender that
    /// does not loop until everything is written leaves a torn frame
    pub max_write: usize,
}

pub struct Transport(Arc<Mutex<Script>>);

impl Transport {
    /// A client that has already sent `bytes` and stays connected (reads then pend forever).
    pub fn preloaded(bytes: Vec<u8>) -> Transport {
        let mut sc = Script::default();
        sc.avail.extend(bytes);
        Transport(Arc::new(Mutex::new(sc)))
    }
}

impl AsyncRead for Transport {
    fn poll_read(self: Pin<&mut Self>, _cx: &mut Context<'_>, buf: &mut ReadBuf<'_>) -> Poll<std::io::Result<()>> {
        let mut s = self.0.lock().unwrap();
        if !s.avail.is_empty() {
            let n = buf.remaining().min(s.avail.len());
            for _ in 0..n {
                let b = s.avail.pop_front().unwrap();
                buf.put_slice(&[b]);
            }
            s.consumed += n;
            return Poll::Ready(Ok(()));
        }
        if s.close.is_some() {
            // a session that does not leave its loop on this error kind would spin forever inside one poll:
            // after many reports, pretend the transport is quiet so that the harness gets control back
            s.close_reports += 1;
            if s.close_reports > 2000 {
                return Poll::Pending;
            }
        }
        match s.close {
            None => Poll::Pending,
            Some(Close::Eof) => Poll::Ready(Ok(())),
            Some(Close::Reset) => Poll::Ready(Err(std::io::ErrorKind::ConnectionReset.into())),
            Some(Close::TimedOut) => Poll::Ready(Err(std::io::ErrorKind::TimedOut.into())),
            Some(Close::Aborted) => Poll::Ready(Err(std::io::ErrorKind::ConnectionAborted.into())),
        }
    }
}

impl AsyncWrite for Transport {
    fn poll_write(self: Pin<&mut Self>, _cx: &mut Context<'_>, buf: &[u8]) -> Poll<std::io::Result<usize>> {
        let mut s = self.0.lock().unwrap();
        if s.stalled {
            return Poll::Pending;
        }
        if s.wfail {
            s.written.extend_from_slice(buf);
            return Poll::Ready(Err(std::io::ErrorKind::BrokenPipe.into()));
        }
        let n = if s.max_write > 0 { buf.len().min(s.max_write) } else { buf.len() };
        s.written.extend_from_slice(&buf[..n]);
        Poll::Ready(Ok(n))
    }
    fn poll_flush(self: Pin<&mut Self>, _cx: &mut Context<'_>) -> Poll<std::io::Result<()>> {
        Poll::Ready(Ok(()))
    }
    fn poll_shutdown(self: Pin<&mut Self>, _cx: &mut Context<'_>) -> Poll<std::io::Result<()>> {
        Poll::Ready(Ok(()))
    }
}

fn noop_waker() -> Waker {
    fn clone(_: *const ()) -> RawWaker {
        RawWaker::new(std::ptr::null(), &VTABLE)
    }
    fn noop(_: *const ()) {}
    static VTABLE: RawWakerVTable = RawWakerVTable::new(clone, noop, noop, noop);
    unsafe { Waker::from_raw(RawWaker::new(std::ptr::null(), &VTABLE)) }
}

#[derive(Clone)]
pub enum Ev {
    Bytes(Vec<u8>),
    Signal(Object),
    Close(Close),
    SignalsClosed,
}

/// Token of a published signal: exactly what `send_packet` will encode (Euler angles as `to_bytes` computes them).
pub fn signal_tok(o: &Object) -> String {
    match o {
        Object::Target(t) => {
            let (r, p, y) = t.orientation.euler_angles();
            format!("target~{}:{}:{}:{}:{}:{}:{}", t.point.x.to_bits(), t.point.y.to_bits(), t.point.z.to_bits(), r.to_bits(), p.to_bits(), y.to_bits(), t.constraint as u8)
        }
        _ => object_tok(o),
    }
}

pub fn object_tok(o: &Object) -> String {
    match o {
        Object::Engine(e) => format!("engine~{}", c13::engine_tok(e)),
        Object::Motion(m) => format!("motion~{}", fmt::motion(m)),
        Object::Control(c) => format!("control~{}", c13::control_tok(c)),
        // the orientation went through Euler -> quaternion; its exact decoding is C13's subject, here a wildcard
        Object::Target(t) => format!("target~{}:{}:{}:?:?:?:{}", t.point.x.to_bits(), t.point.y.to_bits(), t.point.z.to_bits(), t.constraint as u8),
        Object::Rotator(r) => {
            let (a, b, c) = r.rotator.euler_angles();
            format!("rotator~{}:{}:{}:{}:{}", r.source, a.to_bits(), b.to_bits(), c.to_bits(), r.reference as u8)
        }
        Object::ModuleStatus(s) => format!("status~{}", c13::status_tok(s)),
    }
}

pub fn ev_tok(e: &Ev) -> String {
    match e {
        Ev::Bytes(b) => format!("B:{}", hex(b)),
        Ev::Signal(o) => format!("S:{}", signal_tok(o)),
        Ev::Close(c) => format!("X:{}", c.tok()),
        Ev::SignalsClosed => "Z".into(),
    }
}

pub struct SessionRun {
    fut: Option<Pin<Box<dyn Future<Output = ()>>>>,
    pub script: Arc<Mutex<Script>>,
    cmd_rx: broadcast::Receiver<Object>,
    _cmd_tx: broadcast::Sender<Object>,
    sig_tx: Option<broadcast::Sender<Object>>,
    pub done: bool,
    pub panicked: bool,
    _guard: tokio::runtime::Runtime,
}

impl SessionRun {
    pub fn new() -> Self {
        let rt = tokio::runtime::Builder::new_current_thread().enable_all().build().unwrap();
        let script = Arc::new(Mutex::new(Script::default()));
        let (cmd_tx, cmd_rx) = broadcast::channel::<Object>(8192);
        let (sig_tx, sig_rx) = broadcast::channel::<Object>(glonax::consts::QUEUE_SIZE_SIGNAL);
        let fut = glonax::service::UnixServer::verif_client_session(Transport(script.clone()), cmd_tx.clone(), sig_rx);
        SessionRun { fut: Some(Box::pin(fut)), script, cmd_rx, _cmd_tx: cmd_tx, sig_tx: Some(sig_tx), done: false, panicked: false, _guard: rt }
    }

    /// The same session on a runtime whose clock stands still until `advance` moves it.
    pub fn new_paused() -> Self {
        let rt = tokio::runtime::Builder::new_current_thread().enable_all().start_paused(true).build().unwrap();
        let script = Arc::new(Mutex::new(Script::default()));
        let (cmd_tx, cmd_rx) = broadcast::channel::<Object>(8192);
        let (sig_tx, sig_rx) = broadcast::channel::<Object>(glonax::consts::QUEUE_SIZE_SIGNAL);
        let fut = {
            let _enter = rt.enter();
            glonax::service::UnixServer::verif_client_session(Transport(script.clone()), cmd_tx.clone(), sig_rx)
        };
        SessionRun { fut: Some(Box::pin(fut)), script, cmd_rx, _cmd_tx: cmd_tx, sig_tx: Some(sig_tx), done: false, panicked: false, _guard: rt }
    }

    /// Let `ms` milliseconds of the runtime's time pass (every timer due by then fires), then run the session until it blocks.
    pub fn advance(&mut self, ms: u64) {
        self._guard.block_on(async {
            tokio::time::advance(std::time::Duration::from_millis(ms)).await;
        });
        self.poll_quiescent();
    }

    fn poll_quiescent(&mut self) {
        let waker = noop_waker();
        let mut cx = Context::from_waker(&waker);
        let _enter = self._guard.enter();
        let mut last = (usize::MAX, usize::MAX, usize::MAX);
        for _ in 0..10_000 {
            if self.done {
                break;
            }
            let fut = self.fut.as_mut().unwrap();
            let r = std::panic::catch_unwind(std::panic::AssertUnwindSafe(|| fut.as_mut().poll(&mut cx)));
            match r {
                Err(_) => {
                    self.panicked = true;
                    self.done = true;
                    self.fut = None;
                }
                Ok(Poll::Ready(())) => {
                    self.done = true;
                    self.fut = None;
                }
                Ok(Poll::Pending) => {}
            }
            let now = {
                let s = self.script.lock().unwrap();
                (s.consumed, s.written.len(), self.cmd_rx.len())
            };
            if now == last {
                break;
            }
            last = now;
        }
    }

    /// Apply one event, run the session until it blocks, return `cmds/written/ended`.
    pub fn event(&mut self, e: &Ev) -> String {
        if !self.done {
            match e {
                Ev::Bytes(b) => self.script.lock().unwrap().avail.extend(b.iter().copied()),
                Ev::Signal(o) => {
                    if let Some(tx) = &self.sig_tx {
                        let _ = tx.send(o.clone());
                    }
                }
                Ev::Close(c) => self.script.lock().unwrap().close = Some(*c),
                Ev::SignalsClosed => self.sig_tx = None,
            }
            self.poll_quiescent();
        }
        let mut cmds = vec![];
        loop {
            match self.cmd_rx.try_recv() {
                Ok(o) => cmds.push(object_tok(&o)),
                Err(broadcast::error::TryRecvError::Lagged(n)) => cmds.push(format!("LAGGED{}", n)),
                Err(_) => break,
            }
        }
        let written = {
            let mut s = self.script.lock().unwrap();
            std::mem::take(&mut s.written)
        };
        format!(
            "{}/{}/{}",
            if cmds.is_empty() { "-".to_string() } else { cmds.join(";") },
            hex(&written),
            if self.panicked { "P" } else if self.done { "1" } else { "0" }
        )
    }
}

/// The daemon identity used by every session case (set once per process).
pub fn set_instance() -> String {
    let inst = glonax::core::Instance::new("d55bcd75-8d30-49af-ac18-ee7cbce7822f", "verif-model", glonax::core::MachineType::Excavator, (3, 5, 13), "SN.0001");
    let tok = format!(
        "{}:{}:{}:{}:{}:{}:{}",
        hex(inst.id().as_bytes()), inst.ty() as u8, inst.version().0, inst.version().1, inst.version().2, hex(inst.model().as_bytes()), hex(inst.serial_number().as_bytes())
    );
    glonax::global::set_instance(inst);
    tok
}

/// The same, for callers that may run after (or without) `set_instance`: sets the identity if none is set yet.
pub fn ensure_instance() {
    static ONCE: std::sync::Once = std::sync::Once::new();
    ONCE.call_once(|| {
        let _ = guarded(|| {
            let _ = set_instance();
        });
    });
}

static HUNG: std::sync::atomic::AtomicUsize = std::sync::atomic::AtomicUsize::new(0);

/// A session that never gives control back (it spins inside one poll) cannot be interrupted in-process: every case
/// runs on its own thread; a case that has not finished after 10 s is reported as `HANG`, its thread is abandoned,
/// and after a few of those no further session cases are produced (the ones written suffice for the report).
fn run_case_opt(out: &mut Out, inst_tok: &str, tag: &str, evs: &[Ev], nontrivial: bool, wfail: bool) {
    run_case_full(out, inst_tok, tag, evs, nontrivial, wfail, 0)
}

/// The same with a client that takes at most `k` bytes per write.
pub fn run_case_window(out: &mut Out, inst_tok: &str, tag: &str, evs: &[Ev], nontrivial: bool, k: usize) {
    run_case_full(out, inst_tok, tag, evs, nontrivial, false, k);
    out.count("transport: small write window");
}

fn run_case_full(out: &mut Out, inst_tok: &str, tag: &str, evs: &[Ev], nontrivial: bool, wfail: bool, max_write: usize) {
    use std::sync::atomic::Ordering;
    if HUNG.load(Ordering::SeqCst) >= 4 {
        return;
    }
    let ins: Vec<String> = evs.iter().map(ev_tok).collect();
    let evs2: Vec<Ev> = evs.to_vec();
    let (tx, rx) = std::sync::mpsc::channel::<Vec<String>>();
    let worker = std::thread::spawn(move || {
        let mut s = SessionRun::new();
        s.script.lock().unwrap().wfail = wfail;
        s.script.lock().unwrap().max_write = max_write;
        let outs: Vec<String> = evs2.iter().map(|e| s.event(e)).collect();
        let _ = tx.send(outs);
    });
    match rx.recv_timeout(std::time::Duration::from_secs(10)) {
        Ok(outs) => {
            let _ = worker.join();
            out.case(&format!("{} {} {}", tag, inst_tok, ins.join(" ")), &outs.join(" "), nontrivial);
        }
        Err(_) => {
            HUNG.fetch_add(1, Ordering::SeqCst);
            out.case(&format!("{} {} {}", tag, inst_tok, ins.join(" ")), "HANG", true);
            out.count("session case that never returned (thread abandoned)");
        }
    }
    if wfail {
        out.count("transport: writes fail (peer gone)");
    }
}

/// A case in which time passes at given points: `stalls` = (index of the event AFTER which it passes, milliseconds). What a
/// session does depends on the bytes, signals and terminations it sees, not on how long its client took.
pub fn run_case_stalls(out: &mut Out, inst_tok: &str, tag: &str, evs: &[Ev], stalls: &[(usize, u64)]) {
    let ins: Vec<String> = evs.iter().map(ev_tok).collect();
    let evs2: Vec<Ev> = evs.to_vec();
    let stalls2: Vec<(usize, u64)> = stalls.to_vec();
    let (tx, rx) = std::sync::mpsc::channel::<Vec<String>>();
    let worker = std::thread::spawn(move || {
        let mut s = SessionRun::new_paused();
        let mut outs = vec![];
        for (i, e) in evs2.iter().enumerate() {
            outs.push(s.event(e));
            for (k, ms) in &stalls2 {
                if *k == i {
                    s.advance(*ms);
                }
            }
        }
        let _ = tx.send(outs);
    });
    match rx.recv_timeout(std::time::Duration::from_secs(10)) {
        Ok(outs) => {
            let _ = worker.join();
            out.case(&format!("{} {} {}", tag, inst_tok, ins.join(" ")), &outs.join(" "), true);
        }
        Err(_) => out.case(&format!("{} {} {}", tag, inst_tok, ins.join(" ")), "HANG", true),
    }
    out.count("session case with time passing inside / between frames");
}

/// Run a whole case and emit it: `<inst> <ev>… => <out>…`.
pub fn run_case(out: &mut Out, inst_tok: &str, tag: &str, evs: &[Ev], nontrivial: bool) {
    run_case_opt(out, inst_tok, tag, evs, nontrivial, false)
}

/// The same with a peer that is already gone: every write the session attempts fails.
pub fn run_case_wfail(out: &mut Out, inst_tok: &str, tag: &str, evs: &[Ev], nontrivial: bool) {
    run_case_opt(out, inst_tok, tag, evs, nontrivial, true)
}

/// Frame bytes: header + payload.
pub fn frame(ty: u8, payload: &[u8]) -> Vec<u8> {
    let mut v = vec![b'L', b'X', b'R', 3, ty, (payload.len() >> 8) as u8, payload.len() as u8, 0, 0, 0];
    v.extend_from_slice(payload);
    v
}
