//! C03: the peer disappears at every byte offset, in every termination mode.
use crate::sess::{self, Close, Ev};
use crate::sessgen::*;
use crate::util::*;

pub fn run(out: &mut Out, tier: &str, rng: &mut Rng) {
    let thorough = tier == "thorough";
    let inst = sess::set_instance();
    out.rule = "frame sequences from a grammar (session upgrades with every flag value 0..31 and invalid ones, motion/engine/control/target commands, useless frames), 1..3 frames (quick) / 1..5 (thorough), cut at EVERY byte offset (inside headers, inside payloads, between frames), then one of the four termination kinds (eof, reset, timed out, aborted); with and without a signal published just before the death, with the bytes delivered whole or in two reads. Non-trivial = the session was armed at the time of death or the cut falls strictly inside a frame".into();
    // all 32 flag values + invalid flags, dying right after the upgrade / after a later command / mid-frame
    for flags in (0u16..=255).filter(|f| *f < 32 || f % 16 == 0 || *f > 250) {
        let up = session_frame(flags as u8, "f").bytes;
        let cmd = sess::frame(0x20, &[0x05, 0x00, 0x64]);
        for close in Close::ALL {
            let mut s = up.clone();
            s.extend(&cmd);
            sess::run_case(out, &inst, "sess", &[Ev::Bytes(s.clone()), Ev::Close(close)], flags & 0x10 != 0);
            sess::run_case(out, &inst, "sess", &[Ev::Bytes(s[..s.len() - 2].to_vec()), Ev::Close(close)], true);
            // the peer is already gone when its (still readable) bytes are processed: the handshake reply cannot be written
            sess::run_case_wfail(out, &inst, "sess", &[Ev::Bytes(s.clone()), Ev::Close(close)], flags & 0x10 != 0);
            if flags % 8 == 0 {
                sess::run_case_window(out, &inst, "sess", &[Ev::Bytes(s.clone()), Ev::Close(close)], flags & 0x10 != 0, 1 + (flags as usize / 8) % 7);
            }
            out.count(&format!("close {}", close.tok()));
        }
    }
    // the client dies INSIDE a large frame (payload of 257..1024 bytes) that would have changed its registration had it been
    // whole: a truncated frame is no frame, the registration at the time of death is the one that counts
    for (first, second) in [(0x10u8, 0x00u8), (0x00, 0x10), (0x11, 0x01), (0x10, 0x10)] {
        for len in [257usize, 301, 512, 1024] {
            let mut big = vec![second];
            big.extend(std::iter::repeat(b'n').take(len - 1));
            let bigf = sess::frame(0x10, &big);
            for cut in [11usize, 12, 10 + len / 2, 10 + len - 1] {
                let mut s = session_frame(first, "a").bytes;
                s.extend(sess::frame(0x20, &[0x10, 1, 0, 0, 0x12, 0x34]));
                s.extend(&bigf[..cut]);
                for close in [Close::Eof, Close::Reset] {
                    sess::run_case(out, &inst, "sess", &[Ev::Bytes(s.clone()), Ev::Close(close)], true);
                }
                out.count("death inside a large upgrade frame");
            }
        }
    }
    // the armed client stalled inside a frame while signals overran its session, then died
    crate::c05::stalled(out, &inst);
    // a valid armed upgrade followed by an invalid one (and vice versa)
    for (a, b) in [(0x10u8, 0xF0u8), (0xF0, 0x10), (0x10, 0x00), (0x00, 0x10), (0x11, 0x31)] {
        let mut s = session_frame(a, "a").bytes;
        s.extend(session_frame(b, "b").bytes);
        s.extend(sess::frame(0x45, &[0x1E, 1]));
        for close in Close::ALL {
            sess::run_case(out, &inst, "sess", &[Ev::Bytes(s.clone()), Ev::Close(close)], true);
        }
    }
    // a malformed 10-byte header somewhere in the stream of an armed session (stale version, zero length, bad magic,
    // bad padding, all ones): the session goes on, and when the client disappears the failsafe stop is issued
    let bad_headers: [[u8; 10]; 6] = [
        [b'L', b'X', b'R', 2, 0x20, 0, 1, 0, 0, 0],
        [b'L', b'X', b'R', 3, 0x20, 0, 0, 0, 0, 0],
        [b'X', b'X', b'R', 3, 0x20, 0, 1, 0, 0, 0],
        [b'L', b'X', b'R', 3, 0x20, 0, 1, 1, 2, 3],
        [0xFF; 10],
        [0; 10],
    ];
    for bad in bad_headers {
        for close in Close::ALL {
            for armed in [0x10u8, 0x00] {
                let mut st = session_frame(armed, "m").bytes;
                st.extend(sess::frame(0x20, &[0x05, 0x00, 0x64]));
                st.extend_from_slice(&bad);
                sess::run_case(out, &inst, "sess", &[Ev::Bytes(st.clone()), Ev::Close(close)], armed != 0);
                // … and with more traffic after it
                st.extend(sess::frame(0x45, &[0x1E, 1]));
                sess::run_case(out, &inst, "sess", &[Ev::Bytes(st), Ev::Close(close)], armed != 0);
                out.count("malformed header before the death");
            }
        }
    }
    // the hostile corpus shared by the session family inside an armed (and an unarmed) session, then the death
    for (i, h) in hostile_corpus(rng).into_iter().enumerate() {
        let armed = if i % 4 == 3 { 0x00u8 } else { 0x10 };
        let mut st = session_frame(armed, "h").bytes;
        st.extend(sess::frame(0x20, &[0x05, 0x00, 0x64]));
        st.extend(&h.bytes);
        st.extend(sess::frame(0x45, &[0x1E, 1]));
        sess::run_case(out, &inst, "sess", &[Ev::Bytes(st), Ev::Close(*rng.pick(&Close::ALL))], armed != 0);
        out.count(&format!("hostile corpus: {}", h.class));
        // the corpus frame as the registration itself (a failsafe registration at the size limit is a registration)
        if h.class == "at-size-limit" && h.bytes[4] == 0x10 {
            let mut st = h.bytes.clone();
            st.extend(sess::frame(0x20, &[0x05, 0x00, 0x64]));
            sess::run_case(out, &inst, "sess", &[Ev::Bytes(st), Ev::Close(*rng.pick(&Close::ALL))], true);
        }
    }
    let n_streams = if thorough { 1500 } else { 120 };
    let maxf = if thorough { 5 } else { 3 };
    for _ in 0..n_streams {
        let nf = 1 + rng.below(maxf) as usize;
        let mut stream = vec![];
        let mut spans: Vec<(usize, usize)> = vec![];
        for i in 0..nf {
            // most sequences register first, half of them with failsafe
            let f = if i == 0 && rng.chance(3, 4) { session_frame((rng.below(32) as u8) | if rng.chance(1, 2) { 0x10 } else { 0 }, "input") } else { rand_frame(rng) };
            out.count(&format!("frame {}", f.class));
            spans.push((stream.len(), stream.len() + f.bytes.len()));
            stream.extend(f.bytes);
        }
        if stream.len() > 400 && !thorough {
            stream.truncate(400);
        }
        let offsets: Vec<usize> = if stream.len() <= 160 || thorough { (0..=stream.len()).collect() } else { (0..=60).chain((0..40).map(|_| rng.below(stream.len() as u64 + 1) as usize)).collect() };
        for &cut in &offsets {
            let close = *rng.pick(&Close::ALL);
            out.count(&format!("close {}", close.tok()));
            let mut evs = vec![];
            if cut > 0 {
                if rng.chance(1, 3) && cut > 1 {
                    let k = 1 + rng.below(cut as u64 - 1) as usize;
                    evs.push(Ev::Bytes(stream[..k].to_vec()));
                    evs.push(Ev::Bytes(stream[k..cut].to_vec()));
                } else {
                    evs.push(Ev::Bytes(stream[..cut].to_vec()));
                }
            }
            // a signal published while the session sits inside a payload read stays queued; at the death both
            // select! branches are then ready and tokio picks one at random (the write goes to a dead peer and
            // is unobservable) - such schedules are not generated
            let in_payload = spans.iter().any(|&(a, b)| a + 10 <= cut && cut < b);
            if rng.chance(1, 4) && !in_payload {
                evs.push(Ev::Signal(rand_signal(rng)));
            }
            evs.push(Ev::Close(close));
            // nothing after death matters: sometimes keep sending
            if rng.chance(1, 8) {
                evs.push(Ev::Bytes(sess::frame(0x20, &[0x01])));
            }
            if rng.chance(1, 6) {
                sess::run_case_wfail(out, &inst, "sess", &evs, true);
            }
            sess::run_case(out, &inst, "sess", &evs, true);
        }
    }
}
