//! A real NetworkAuthority (three clones, as Runtime::schedule_net_service makes them) on the emulated bus.
use crate::bus::Bus;
use crate::c13;
use crate::drv;
use crate::fmt;
use crate::util::*;
use glonax::core::{Object, RotationReference};
use glonax::j1939::{FrameBuilder, Id};
use glonax::runtime::NetworkService;
use glonax::service::{NetworkAuthority, NetworkConfig};
use std::sync::atomic::{AtomicU64, Ordering};
use tokio::sync::broadcast;

static IFACE: AtomicU64 = AtomicU64::new(0);

#[derive(Clone, Debug)]
pub struct DriverCfg {
    pub da: u8,
    pub sa: Option<u8>,
    pub timeout: Option<u64>,
    pub vendor: String,
    pub product: String,
}

#[derive(Clone, Debug)]
pub struct NetCfg {
    pub address: u8,
    /// manufacturer_code, function_instance, ecu_instance, function, vehicle_system, vehicle_system_instance, industry_group
    pub name: [u32; 7],
    pub drivers: Vec<DriverCfg>,
}

impl NetCfg {
    pub fn toml(&self, iface: &str) -> String {
        let mut s = format!("interface = \"{}\"\naddress = {}\ndriver = [\n", iface, self.address);
        for d in &self.drivers {
            s.push_str(&format!("  {{ da = {}, ", d.da));
            if let Some(sa) = d.sa {
                s.push_str(&format!("sa = {}, ", sa));
            }
            if let Some(t) = d.timeout {
                s.push_str(&format!("timeout = {}, ", t));
            }
            s.push_str(&format!("vendor = \"{}\", product = \"{}\" }},\n", d.vendor, d.product));
        }
        s.push_str("]\n[name]\n");
        for (k, v) in ["manufacturer_code", "function_instance", "ecu_instance", "function", "vehicle_system", "vehicle_system_instance", "industry_group"].iter().zip(self.name.iter()) {
            s.push_str(&format!("{} = {}\n", k, v));
        }
        s
    }
    pub fn tok(&self) -> String {
        let ds: Vec<String> = self.drivers.iter().map(|d| format!("{},{},{},{},{}", d.da, d.sa.map_or("-".into(), |x| x.to_string()), d.timeout.map_or("-".into(), |x| x.to_string()), d.vendor, d.product)).collect();
        format!("{};{};{}", self.address, self.name.iter().map(|x| x.to_string()).collect::<Vec<_>>().join(","), if ds.is_empty() { "-".to_string() } else { ds.join("/") })
    }
}

static NOT_RECEIVED: std::sync::atomic::AtomicUsize = std::sync::atomic::AtomicUsize::new(0);

pub struct Rig {
    pub rt: tokio::runtime::Runtime,
    pub bus: Bus,
    pub recv: NetworkAuthority,
    pub tick: NetworkAuthority,
    pub cmd: NetworkAuthority,
    sig_tx: broadcast::Sender<Object>,
    sig_rx: broadcast::Receiver<Object>,
    pub address: u8,
    /// frames the tick / command clones put on the bus that the receive clone has not processed yet
    pub echo: Vec<[u8; 16]>,
}

pub fn raw_to_frame_tok(raw: &[u8; 16], own_addr: u8) -> String {
    let id = u32::from_le_bytes([raw[0], raw[1], raw[2], raw[3]]) & 0x1FFF_FFFF;
    let dlc = raw[4].min(8) as usize;
    let mut data = raw[8..8 + dlc].to_vec();
    // the time/date answer carries the wall clock: identifier and length only
    if (id >> 8) & 0xFFFF == 65254 && (id & 0xFF) as u8 == own_addr {
        for b in data.iter_mut() {
            *b = 0;
        }
    }
    format!("{:08X}#{}", id, hex(&data))
}

impl Rig {
    /// `Err(())` when construction panics (e.g. an encoder at an unknown address).
    pub fn new(cfg: &NetCfg) -> Result<Rig, ()> {
        crate::bus::root();
        let iface = format!("vc{}", IFACE.fetch_add(1, Ordering::SeqCst));
        let mut bus = Bus::attach(&iface);
        // the receive clone is drained one frame at a time; the other two clones never read
        bus.impatient = true;
        let rt = tokio::runtime::Builder::new_current_thread().enable_all().build().unwrap();
        let conf: NetworkConfig = toml::from_str(&cfg.toml(&iface)).expect("network config parses");
        let built = {
            let _g = rt.enter();
            guarded(std::panic::AssertUnwindSafe(|| {
                let a = NetworkAuthority::new(conf);
                let b = a.clone();
                let c = a.clone();
                (a, b, c)
            }))
        };
        let (recv, tick, cmd) = built.ok_or(())?;
        let (sig_tx, sig_rx) = broadcast::channel(1024);
        Ok(Rig { rt, bus, recv, tick, cmd, sig_tx, sig_rx, address: cfg.address, echo: vec![] })
    }

    fn drain_signals(&mut self) -> (Vec<String>, Vec<String>) {
        let mut sigs = vec![];
        let mut stats = vec![];
        while let Ok(o) = self.sig_rx.try_recv() {
            match o {
                Object::ModuleStatus(s) => stats.push(format!("{}|{}", s.name, match (s.state as u8, s.error) {
                    (0xF8, None) => "H".to_string(),
                    (0xFA, Some(glonax::core::ModuleError::CommunicationTimeout)) => "T".to_string(),
                    (st, e) => format!("?{:x}{:?}", st, e),
                })),
                Object::Rotator(r) => sigs.push(format!("{}:{}:ok", if r.reference == RotationReference::Relative { "rotrel" } else { "rotabs" }, r.source)),
                Object::Engine(e) => sigs.push(format!("eng:{}:{}:{}:{}", e.driver_demand, e.actual_engine, e.rpm, e.state as u8)),
                Object::Motion(glonax::core::Motion::StopAll) => sigs.push("motion:stop".into()),
                Object::Motion(glonax::core::Motion::ResumeAll) => sigs.push("motion:resume".into()),
                o => sigs.push(format!("other:{:?}", o).replace(' ', "")),
            }
        }
        (sigs, stats)
    }

    fn frames_out(&mut self, from_other_clone: bool) -> Vec<String> {
        let raws = self.bus.sync();
        // the bus runs without same-process loopback (GLONAX_VERIF_BUS_LOOPBACK=0): the receive clone does not
        // hear the tick / command clones, so nothing loops back
        let _ = from_other_clone;
        raws.iter().map(|r| raw_to_frame_tok(r, self.address)).collect()
    }

    fn out(frames: Vec<String>, sigs: Vec<String>, stats: Vec<String>) -> String {
        let j = |v: Vec<String>, sep: &str| if v.is_empty() { "-".to_string() } else { v.join(sep) };
        format!("{}/{}/{}", j(frames, ","), j(sigs, ";"), j(stats, ";"))
    }

    pub fn setup(&mut self) -> String {
        let r = &mut self.recv;
        let ok = guarded(std::panic::AssertUnwindSafe(|| self.rt.block_on(r.setup()))).is_some();
        if !ok {
            return "PANIC".into();
        }
        let f = self.frames_out(false);
        let (s, st) = self.drain_signals();
        Self::out(f, s, st)
    }

    /// Let the receive clone process exactly one frame that is on its socket.
    fn recv_one(&mut self) -> Option<String> {
        let tx = self.sig_tx.clone();
        let r = &mut self.recv;
        let res = guarded(std::panic::AssertUnwindSafe(|| {
            // a frame that never arrives costs a time-out: after 40 of them in one run the point is made and the wait is cut
            // short (a mutant that drops every frame would otherwise cost hours)
            let ms = if NOT_RECEIVED.load(std::sync::atomic::Ordering::Relaxed) > 40 { 15 } else { 500 };
            self.rt.block_on(async { tokio::time::timeout(std::time::Duration::from_millis(ms), r.recv(tx)).await.is_ok() })
        }));
        if res == Some(false) {
            NOT_RECEIVED.fetch_add(1, std::sync::atomic::Ordering::Relaxed);
        }
        match res {
            None => Some("PANIC".into()),
            Some(false) => None,
            Some(true) => {
                let f = self.frames_out(false);
                let (s, st) = self.drain_signals();
                Some(Self::out(f, s, st))
            }
        }
    }

    /// Inject a raw frame from outside and let the receive clone process it.
    pub fn frame(&mut self, raw: &[u8; 16]) -> String {
        self.bus.inject(raw);
        self.recv_one().unwrap_or_else(|| "NOTRECEIVED".into())
    }

    /// Frames of the tick / command clones loop back to the receive clone (raw CAN delivers a node's frames to
    /// the other sockets of the host): process them, one `F:` event each. Returns (event token, output).
    pub fn echoes(&mut self) -> Vec<(String, String)> {
        let mut v = vec![];
        let pending: Vec<[u8; 16]> = std::mem::take(&mut self.echo);
        for raw in pending {
            let o = self.recv_one().unwrap_or_else(|| "NOTRECEIVED".into());
            v.push((format!("F:{}", raw_to_frame_tok(&raw, self.address)), o));
        }
        v
    }

    pub fn cycle(&mut self) -> String {
        let tx = self.sig_tx.clone();
        let t = &mut self.tick;
        let ok = guarded(std::panic::AssertUnwindSafe(|| self.rt.block_on(t.on_tick(tx)))).is_some();
        if !ok {
            return "PANIC".into();
        }
        let f = self.frames_out(true);
        let (s, st) = self.drain_signals();
        Self::out(f, s, st)
    }

    pub fn command(&mut self, o: &Object) -> String {
        let c = &mut self.cmd;
        let ok = guarded(std::panic::AssertUnwindSafe(|| self.rt.block_on(c.on_command(o)))).is_some();
        if !ok {
            return "PANIC".into();
        }
        let f = self.frames_out(true);
        let (s, st) = self.drain_signals();
        Self::out(f, s, st)
    }

    pub fn teardown(&mut self) -> String {
        let r = &mut self.recv;
        let ok = guarded(std::panic::AssertUnwindSafe(|| self.rt.block_on(r.teardown()))).is_some();
        if !ok {
            return "PANIC".into();
        }
        let f = self.frames_out(false);
        let (s, st) = self.drain_signals();
        Self::out(f, s, st)
    }
}

pub fn raw_of(id: u32, data: &[u8]) -> [u8; 16] {
    Bus::raw(id | 0x8000_0000, data.len().min(8) as u8, data)
}

pub fn frame_tok(id: u32, data: &[u8]) -> String {
    let f = FrameBuilder::new(Id::new(id)).copy_from_slice(data).build();
    fmt::frame(&f)
}

#[allow(dead_code)]
pub fn unused() {
    let _ = (c13::KINDS, drv::KINDS);
}
