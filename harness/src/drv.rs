//! Driver-level correspondence: the real J1939Unit::try_recv / trigger / tick of every driver kind,
//! stepped directly on a NetDriverContext (no bus needed).  Used by C06, C08, C11, C12.
use crate::fmt;
use crate::util::*;
use glonax::core::{Engine, EngineState, Object, ObjectMessage, RotationReference};
use glonax::j1939::{Frame, FrameBuilder, Id};
use glonax::runtime::{J1939Unit, J1939UnitError, NetDriverContext};

pub const KINDS: [(&str, &str, &str); 8] = [
    ("vcu", "laixer", "vcu"),
    ("hcu", "laixer", "hcu"),
    ("sim", "laixer", "simulator"),
    ("d7e", "volvo", "d7e"),
    ("inclino", "kübler", "inclinometer"),
    ("ecm", "j1939", "ecm"),
    ("ecu", "j1939", "ecu"),
    ("encoder", "kübler", "encoder"),
];

pub fn make(kind: &str, da: u8, sa: u8) -> Box<dyn J1939Unit> {
    let (_, v, p) = KINDS.iter().find(|k| k.0 == kind).unwrap();
    glonax::driver::net::verif_driver_factory(v, p, "vcan0", da, sa).expect("known driver")
}

/// PGNs any driver inspects, plus foreign ones.
pub const PGNS: [u32; 36] = [
    0, 45312, 45568, 45824, 40960, 41216, 59904, 60928, 61441, 61443, 61444, 65110, 65213, 65242, 65243, 65247, 65248, 65252, 65257, 65262,
    65263, 65264, 65266, 65269, 65270, 65271, 65288, 65450, 65451, 65282, 65226, 61184, 59392, 65259, 65254, 60160,
];

pub fn make_id(prio: u8, pgn: u32, dest: u8, src: u8) -> u32 {
    let pf = (pgn >> 8) & 0xFF;
    let mut id = ((prio as u32) << 26) | (pgn << 8) | src as u32;
    if pf < 240 {
        id = (id & !0xFF00) | ((dest as u32) << 8);
    }
    id & 0x1FFF_FFFF
}

pub fn frame8(id: u32, data: [u8; 8]) -> Frame {
    FrameBuilder::new(Id::new(id)).copy_from_slice(&data).build()
}

fn err_tok(e: &Result<(), J1939UnitError>) -> &'static str {
    match e {
        Ok(()) => "-",
        Err(J1939UnitError::BusError) => "bus",
        Err(J1939UnitError::SensorError) => "sensor",
        Err(J1939UnitError::InvalidConfiguration) => "config",
        Err(J1939UnitError::HardwareError) => "hardware",
        Err(J1939UnitError::UnknownState) => "unknown",
        Err(_) => "other",
    }
}

fn ulp32(x: f64) -> f64 {
    let a = (x.abs() as f32).max(f32::MIN_POSITIVE);
    (f32::from_bits(a.to_bits() + 1) - a) as f64
}

/// Compare an f32 rotation matrix with an f64 reference.
fn rot_close(m: &nalgebra::Rotation3<f32>, r: &nalgebra::Rotation3<f64>, tol: f64) -> bool {
    m.matrix().iter().zip(r.matrix().iter()).all(|(a, b)| ((*a as f64) - *b).abs() <= tol)
}

/// Independent (f64) reference of what a rotation signal must be, from the integers in the frame.
fn rotation_ok(kind: &str, da: u8, f: &Frame, r: &glonax::core::Rotator, out: &mut Out) -> bool {
    let d = f.pdu();
    match kind {
        "encoder" => {
            let p = if d[0..4] == [0xFF; 4] { 0u32 } else { u32::from_le_bytes([d[0], d[1], d[2], d[3]]) };
            let (axis, offset) = match da {
                0x6A => (nalgebra::Vector3::<f64>::z_axis(), 0.0),
                0x6B => (nalgebra::Vector3::<f64>::y_axis(), 60f64.to_radians()),
                _ => (nalgebra::Vector3::<f64>::y_axis(), 0.0),
            };
            if r.reference != RotationReference::Relative {
                return false;
            }
            if p > 100_000 {
                // |angle| > 100 rad: f32 cannot resolve the angle to better than ~1e-5 rad; counted, not asserted
                out.count("rotation not asserted (position > 100000)");
                return true;
            }
            let angle = -((p as f64) / 1000.0 - offset);
            let reference = nalgebra::Rotation3::from_axis_angle(&axis, angle);
            rot_close(&r.rotator, &reference, 8.0 * ulp32(angle.abs().max(1.0)) + 1e-6)
        }
        "inclino" => {
            let long = if d[0..2] == [0xFF; 2] { 0i16 } else { i16::from_le_bytes([d[0], d[1]]) };
            let lat = if d[2..4] == [0xFF; 2] { 0i16 } else { i16::from_le_bytes([d[2], d[3]]) };
            if r.reference != RotationReference::Absolute {
                return false;
            }
            let reference = nalgebra::Rotation3::from_euler_angles((long as f64 / 10.0).to_radians(), (lat as f64 / 10.0).to_radians(), 0.0);
            rot_close(&r.rotator, &reference, 2e-5)
        }
        // simulator: positions depend on its internal integrator; only the source is modelled
        _ => r.reference == RotationReference::Relative,
    }
}

/// One `try_recv` on a fresh context.
pub fn recv_case(out: &mut Out, kind: &str, da: u8, sa: u8, f: &Frame, nontrivial: bool) {
    let input = format!("recv {} {} {}", kind, da, fmt::frame(f));
    let r = guarded(std::panic::AssertUnwindSafe(|| {
        let drv = make(kind, da, sa);
        let mut ctx = NetDriverContext::default();
        let mut rxq = vec![];
        let before = ctx.rx_count();
        let res = drv.try_recv(&mut ctx, f, &mut rxq);
        (rxq, ctx.rx_count() - before, res, ctx.rx_last_message().is_some())
    }));
    match r {
        None => {
            out.count(&format!("recv {} PANIC", kind));
            out.case(&input, "PANIC", nontrivial);
        }
        Some((rxq, marks, res, rxlast)) => {
            let sigs: Vec<String> = rxq
                .iter()
                .map(|o| match o {
                    Object::Rotator(r) => {
                        let ok = rotation_ok(kind, da, f, r, out);
                        format!("{}:{}:{}", if r.reference == RotationReference::Relative { "rotrel" } else { "rotabs" }, r.source, if ok { "ok" } else { "BAD" })
                    }
                    Object::Engine(e) => format!("eng:{}:{}:{}:{}", e.driver_demand, e.actual_engine, e.rpm, e.state as u8),
                    Object::Motion(glonax::core::Motion::StopAll) => "motion:stop".into(),
                    Object::Motion(glonax::core::Motion::ResumeAll) => "motion:resume".into(),
                    o => format!("other:{:?}", o).replace(' ', ""),
                })
                .collect();
            let o = format!("{}/{}/{}/{}", if sigs.is_empty() { "-".to_string() } else { sigs.join(";") }, marks.min(1), err_tok(&res), rxlast as u8);
            out.count(&format!("recv {} -> {}{}{}", kind, if sigs.is_empty() { "" } else { "signal " }, if marks > 0 { "mark " } else { "" }, if res.is_err() { "err" } else { "" }));
            out.case(&input, &o, nontrivial);
        }
    }
}

pub fn addr_configs(kind: &str) -> Vec<(u8, u8)> {
    match kind {
        "encoder" => vec![(0x6A, 0x27), (0x6B, 0x27), (0x6C, 0x27), (0x6D, 0x10)],
        "hcu" => vec![(0x4A, 0x27), (0x00, 0xFE)],
        "vcu" => vec![(0x11, 0x27), (0xFE, 0x00)],
        "inclino" => vec![(0x7A, 0x27), (0x01, 0x02)],
        "sim" => vec![(0x9E, 0x27)],
        _ => vec![(0x00, 0x27), (0x12, 0x27)],
    }
}

/// Boundary data patterns.
pub fn data_patterns(rng: &mut Rng) -> Vec<[u8; 8]> {
    let mut v = vec![[0u8; 8], [0xFF; 8], [0x5A, 0x43, 0xFF, 0x00, 0xFF, 0xFF, 0xFF, 0xFF], [1, 3, 5, 13, b'*', 0, 0, 0], [0x14, 0xFF, 1, 0xFF, 1, 0, 0, 0]];
    for _ in 0..3 {
        let mut d = [0u8; 8];
        for b in d.iter_mut() {
            *b = rng.byte();
        }
        v.push(d);
    }
    v
}

// ---------------------------------------------------------------------------------------------- C06
/// The deep sweeps of one driver kind (shared by C06 — no panic —, C11 — attribution — and C12 — decoding): per-byte
/// sweeps, extreme 16/32-bit words at aligned and unaligned offsets, and the engine-controller cross product.
pub fn driver_sweeps(out: &mut Out, kind: &'static str, da: u8, sa: u8, thorough: bool, rng: &mut Rng) {
    // per-byte sweeps on the frames each driver decodes most deeply
    let deep: &[u32] = match kind {
        "hcu" | "vcu" | "sim" => &[65288, 45824, 45312, 65242, 40960, 41216],
        "encoder" => &[65450],
        "inclino" => &[65451],
        "d7e" | "ecm" => &[61444, 0, 65262, 65263, 65271],
        _ => &[65242, 60928],
    };
    for &pgn in deep {
        let base = [0x14u8, 0x7D, 0x7D, 0x00, 0x20, 0xFF, 0x03, 0xFF];
        for pos in 0..8 {
            let vals: Vec<u8> = if thorough || pos == 0 || pos == 6 { (0..=255).collect() } else { vec![0, 1, 2, 0x7F, 0x80, 0xFE, 0xFF, rng.byte()] };
            for v in vals {
                let mut d = base;
                d[pos] = v;
                let src = if kind == "sim" { 0x4A } else { da };
                recv_case(out, kind, da, sa, &frame8(make_id(6, pgn, 0xFF, src), d), true);
            }
        }
    }
    // extreme 16- and 32-bit words in every aligned slot (signed minima / maxima, all ones, zero)
    for &pgn in deep {
        let src = if kind == "sim" { 0x4A } else { da };
        for fill in [0xFFu8, 0x00] {
            for slot in 0..4usize {
                for w in [0x8000u16, 0x7FFF, 0x8001, 0xFFFF, 0x0000, 0x0001, 0xFF00, 0x00FF] {
                    let mut d = [fill; 8];
                    d[2 * slot..2 * slot + 2].copy_from_slice(&w.to_le_bytes());
                    for dest in [0xFFu8, da, 0x4A] {
                        recv_case(out, kind, da, sa, &frame8(make_id(3, pgn, dest, src), d), true);
                    }
                }
            }
            for slot in 0..2usize {
                for w in [0x8000_0000u32, 0x7FFF_FFFF, 0xFFFF_FFFF, 0, 1, 0xFFFF_FFFE] {
                    let mut d = [fill; 8];
                    d[4 * slot..4 * slot + 4].copy_from_slice(&w.to_le_bytes());
                    recv_case(out, kind, da, sa, &frame8(make_id(3, pgn, 0xFF, src), d), true);
                }
            }
        }
    }
    // extreme words at UNALIGNED offsets too, and for the engine controller frame the cross product of every
    // starter-mode nibble with "not available" / extreme speeds (fields are decoded together)
    for &pgn in deep {
        let src = if kind == "sim" { 0x4A } else { da };
        for off in [1usize, 3, 5] {
            for w in [0xFFFFu16, 0xFFFE, 0x8000, 0x7FFF, 0x0000] {
                for fill in [0xFFu8, 0x00, 0x7D] {
                    let mut d = [fill; 8];
                    d[off..off + 2].copy_from_slice(&w.to_le_bytes());
                    recv_case(out, kind, da, sa, &frame8(make_id(3, pgn, 0xFF, src), d), true);
                }
            }
        }
        // the last word (status / state words live there): every low byte with the high bytes that start a code range
        for hi in [0x00u8, 0xEE, 0xFF, 0x7F, 0x80, 0xED, 0xEF] {
            for lo in 0..=255u8 {
                if lo > 0x20 && lo < 0xF0 && lo % 16 != 0 {
                    continue;
                }
                recv_case(out, kind, da, sa, &frame8(make_id(3, pgn, 0xFF, src), [0x10, 0x27, 0x00, 0x00, 0x00, 0x00, lo, hi]), true);
            }
        }
        if pgn == 61444 {
            for nib in 0..16u8 {
                for hi in [0xF0u8, 0x00] {
                    for w in [0xFFFFu16, 0xFFFE, 0x0000, 0x0001, 0x8000, 12000] {
                        let b = w.to_le_bytes();
                        recv_case(out, kind, da, sa, &frame8(make_id(3, pgn, 0xFF, src), [0xF0, 0x7D, 0x7D, b[0], b[1], 0x00, hi | nib, 0xFF]), true);
                    }
                }
            }
        }
    }
}

pub fn run_c06(out: &mut Out, tier: &str, rng: &mut Rng) {
    let thorough = tier == "thorough";
    out.rule = "driver level: every driver kind x address configs x every parameter group any driver inspects (+ foreign) x source in {unit, daemon, 0xFF, other} x destination classes x data patterns; each data byte swept 0..255 with the other bytes at a status-like pattern; random frames; all through the real try_recv under catch_unwind. Non-trivial = frame from the unit's own address with an inspected parameter group".into();
    for (kind, _, _) in KINDS {
        for (da, sa) in addr_configs(kind) {
            let pats = data_patterns(rng);
            for &pgn in PGNS.iter() {
                for src in [da, sa, 0xFF, da.wrapping_add(1)] {
                    for dest in [da, 0xFF, da.wrapping_add(3)] {
                        if (pgn >> 8) & 0xFF >= 240 && dest != da {
                            continue;
                        }
                        for d in &pats {
                            recv_case(out, kind, da, sa, &frame8(make_id(6, pgn, dest, src), *d), src == da);
                        }
                    }
                }
            }
            driver_sweeps(out, kind, da, sa, thorough, rng);
            for _ in 0..(if thorough { 20_000 } else { 1_500 }) {
                let mut d = [0u8; 8];
                for b in d.iter_mut() {
                    *b = rng.byte();
                }
                let (r1, r2) = (rng.byte(), rng.byte());
                let id = if rng.chance(1, 2) { make_id(rng.below(8) as u8, *rng.pick(&PGNS), *rng.pick(&[da, 0xFF, r1]), *rng.pick(&[da, sa, r2])) } else { rng.next() as u32 & 0x1FFF_FFFF };
                recv_case(out, kind, da, sa, &frame8(id, d), false);
            }
        }
    }
}

// ---------------------------------------------------------------------------------------------- C11
pub fn run_c11(out: &mut Out, tier: &str, rng: &mut Rng) {
    let thorough = tier == "thorough";
    out.rule = "all 256 source addresses x destination classes {unit, broadcast, other, n/a} x every parameter group any driver inspects plus foreign ones, against every driver kind and address configuration (incl. the addresses of the shipped glonax.conf), data patterns that make each decoder accept; observed: signals, rx_count, rx_last_message of the real driver. Non-trivial = the frame is one the driver would accept from its own unit".into();
    let shipped: [(&str, u8, u8); 8] = [("vcu", 0x11, 0x27), ("hcu", 0x4A, 0x27), ("d7e", 0x00, 0x27), ("inclino", 0x7A, 0x27), ("encoder", 0x6A, 0x27), ("encoder", 0x6B, 0x27), ("encoder", 0x6C, 0x27), ("encoder", 0x6D, 0x27)];
    let mut configs: Vec<(&str, u8, u8)> = shipped.to_vec();
    configs.push(("ecm", 0x00, 0x27));
    configs.push(("ecu", 0x3C, 0x27));
    configs.push(("sim", 0x9E, 0x27));
    configs.push(("hcu", 0xFE, 0x01));
    // every kind at an address that is not the shipped one as well (a guard that does not follow the configuration)
    configs.push(("d7e", 0x3C, 0x27));
    configs.push(("d7e", 0x01, 0x27));
    configs.push(("ecm", 0x11, 0x27));
    configs.push(("vcu", 0x50, 0x27));
    configs.push(("inclino", 0x33, 0x27));
    configs.push(("ecu", 0x77, 0x27));
    let pats: Vec<[u8; 8]> = vec![[0x14, 0xFF, 1, 0xFF, b'*', 0, 0, 0], [1, 3, 5, 13, b'*', 0xFF, 0x03, 0xFF], [0x5A, 0x43, 0xFF, 0x00, 0xFF, 0xFF, 0xFF, 0xFF]];
    for (kind, da, sa) in configs {
        for &pgn in PGNS.iter() {
            for src in 0..=255u8 {
                if !thorough && src != da && src != sa && src % 16 != 5 && src != 0xFF && src != 0xFE && src != 0 {
                    continue;
                }
                // destination classes: the unit, broadcast, the null address next to it, a neighbour, the daemon, zero
                // (thorough: every destination for frames from the unit itself)
                let dests: Vec<u8> = if (pgn >> 8) & 0xFF >= 240 {
                    vec![0]
                } else if thorough && src == da {
                    (0..=255).collect()
                } else {
                    vec![da, 0xFF, 0xFE, da.wrapping_add(1), sa, 0x00]
                };
                for dest in dests {
                    // every accepting data pattern from every selected source: a parser that accepts a message class
                    // without a source check shows only with that class's payload
                    for p in &pats[..] {
                        recv_case(out, kind, da, sa, &frame8(make_id(6, pgn, dest, src), *p), src == da);
                    }
                }
            }
        }
        for _ in 0..(if thorough { 5000 } else { 500 }) {
            let mut d = [0u8; 8];
            for b in d.iter_mut() {
                *b = rng.byte();
            }
            recv_case(out, kind, da, sa, &frame8(rng.next() as u32 & 0x1FFF_FFFF, d), false);
        }
        // the deep sweeps shared with C06 / C12 (every frame of them is attributed too)
        driver_sweeps(out, kind, da, sa, false, rng);
    }
}

// ---------------------------------------------------------------------------------------------- C12
pub fn run_c12(out: &mut Out, tier: &str, rng: &mut Rng) {
    let thorough = tier == "thorough";
    out.rule = "exhaustive over every 16-bit field: inclinometer slopes (long, lat), EEC1 rpm, encoder status word; all 256 values of the EEC1 demand/load/starter bytes, of the inclinometer status byte and of the HCU state/lock bytes; four encoder addresses with boundary positions and sampled 32-bit positions; rotations compared with an independent f64 reference. Non-trivial = all".into();
    // inclinometer: all 65536 values of each slope
    for v in 0..=65535u32 {
        if !thorough && v % 3 != 0 && v > 2000 && v < 63000 && (v < 32000 || v > 33500) {
            continue;
        }
        let b = (v as u16).to_le_bytes();
        let o = (rng.next() as u16).to_le_bytes();
        recv_case(out, "inclino", 0x7A, 0x27, &frame8(make_id(6, 65451, 0, 0x7A), [b[0], b[1], o[0], o[1], 0xFA, 0x00, 0x00, 0x00]), true);
        recv_case(out, "inclino", 0x7A, 0x27, &frame8(make_id(6, 65451, 0, 0x7A), [o[0], o[1], b[0], b[1], 0xFF, 0xFF, 0xFF, 0xFF]), true);
    }
    for st in 0..=255u8 {
        recv_case(out, "inclino", 0x7A, 0x27, &frame8(make_id(6, 65451, 0, 0x7A), [10, 0, 20, 0, 0, 0, st, 0]), true);
    }
    // EEC1: all rpm raw values x starter nibble classes; all demand/load bytes
    for raw in 0..=65535u32 {
        if !thorough && raw % 5 != 0 && raw > 4100 && raw < 64000 {
            continue;
        }
        let b = (raw as u16).to_le_bytes();
        let nib = if raw % 4 == 0 { 0xFF } else { rng.byte() };
        for kind in ["ecm", "d7e"] {
            recv_case(out, kind, 0x00, 0x27, &frame8(make_id(3, 61444, 0, 0x00), [0xF0 | rng.byte(), rng.byte(), rng.byte(), b[0], b[1], 0xFF, nib, 0xFF]), true);
        }
    }
    for nib in 0..=255u8 {
        for rpm in [0u16, 1, 8, 3992, 4000, 12000, 0xFFFF] {
            let b = rpm.to_le_bytes();
            recv_case(out, "ecm", 0x00, 0x27, &frame8(make_id(3, 61444, 0, 0x00), [0, 0x7D, 0x7D, b[0], b[1], 0, nib, 0]), true);
        }
    }
    for v in 0..=255u8 {
        recv_case(out, "d7e", 0x00, 0x27, &frame8(make_id(3, 61444, 0, 0x00), [v, v, v.wrapping_add(7), 0x40, 0x1F, v, 0xFF, 0xFF]), true);
    }
    // HCU status: state byte, lock byte
    for v in 0..=255u8 {
        recv_case(out, "hcu", 0x4A, 0x27, &frame8(make_id(6, 65288, 0, 0x4A), [0x14, 0xFF, v, 0xFF, 1, 0, 0, 0]), true);
        recv_case(out, "hcu", 0x4A, 0x27, &frame8(make_id(6, 65288, 0, 0x4A), [v, 0xFF, 1, 0xFF, 1, 0, 0, 0]), true);
    }
    // encoders: status words exhaustive, positions boundary + sampled
    for w in 0..=65535u32 {
        if !thorough && w % 7 != 0 && !(0xEDF0..=0xEE10).contains(&w) && w > 16 && w < 0xFFF0 {
            continue;
        }
        let b = (w as u16).to_le_bytes();
        recv_case(out, "encoder", 0x6A, 0x27, &frame8(make_id(6, 65450, 0, 0x6A), [0x54, 0x06, 0, 0, 0, 0, b[0], b[1]]), true);
    }
    for da in [0x6Au8, 0x6B, 0x6C, 0x6D] {
        let mut ps: Vec<u32> = vec![0, 1, 999, 1000, 1047, 1620, 3141, 3142, 6283, 6284, 65535, 65536, 99_999, 100_000, 100_001, 0x00FF_FFFF, 0xFFFF_FFFE, 0xFFFF_FFFF];
        for _ in 0..(if thorough { 100_000 } else { 4_000 }) {
            ps.push(if rng.chance(3, 4) { rng.below(7000) as u32 } else { rng.next() as u32 });
        }
        for p in ps {
            let b = p.to_le_bytes();
            recv_case(out, "encoder", da, 0x27, &frame8(make_id(6, 65450, 0, da), [b[0], b[1], b[2], b[3], 0, 0, 0, 0]), true);
        }
    }
    // the deep sweeps shared with C06 / C11: whatever a frame carries, what is decoded from it is what the model decodes
    for (kind, da, sa) in [("hcu", 0x4Au8, 0x27u8), ("vcu", 0x12, 0x27), ("d7e", 0x00, 0x27), ("ecm", 0x00, 0x27), ("inclino", 0x7A, 0x27), ("encoder", 0x6A, 0x27), ("encoder", 0x6B, 0x27), ("ecu", 0x3C, 0x27)] {
        driver_sweeps(out, kind, da, sa, false, rng);
    }
}

// ---------------------------------------------------------------------------------------------- C08
fn engine_cmd_tok(e: &Engine) -> String {
    format!("C:{}:{}:{}:{}", e.driver_demand, e.actual_engine, e.rpm, e.state as u8)
}

/// One history on the real VolvoD7E + context. Alphabet classes as in the property.
pub fn volvo_history(out: &mut Out, ops: &[u8], rng: &mut Rng) {
    let (da, sa) = (0x00u8, 0x27u8);
    let drv = make("d7e", da, sa);
    let mut ctx = NetDriverContext::default();
    let mut ins = vec![];
    let mut outs = vec![];
    let states = [EngineState::NoRequest, EngineState::Starting, EngineState::Stopping, EngineState::Request];
    let mut age_ms: u64 = 0; // time since the stored command, as simulated
    for &op in ops {
        match op % 5 {
            0 => {
                // status frame: rpm class x starter nibble class
                let rpm: u16 = *rng.pick(&[0u16, 300, 1500, 499, 500, 8031]);
                let nib: u8 = *rng.pick(&[0xFFu8, 0x0, 0x1, 0x2, 0x3, 0x4, 0xC, 0xD]);
                let raw = (rpm as u32 * 8).min(0xFFFE) as u16;
                let b = raw.to_le_bytes();
                let f = frame8(make_id(3, 61444, 0, da), [0xF0, 0x7D, 0x80, b[0], b[1], 0xFF, 0xF0 | (nib & 0x0F), 0xFF]);
                let mut rxq = vec![];
                let _ = drv.try_recv(&mut ctx, &f, &mut rxq);
                ins.push(format!("S:{}", fmt::frame(&f)));
                outs.push("-".to_string());
                out.count("op status");
            }
            1 => {
                let e = Engine { driver_demand: 0, actual_engine: 0, rpm: *rng.pick(&[0u16, 500, 1500, 3000, 799, 800, 2100, 2101, 65535, 805, 1009, 1234, 1555, 1999, 2095]), state: *rng.pick(&states) };
                let mut txq = vec![];
                let _ = drv.trigger(&mut ctx, &mut txq, &Object::Engine(e));
                age_ms = 0;
                ins.push(engine_cmd_tok(&e));
                outs.push(fmt::frames(&txq));
                out.count(&format!("op cmd rpm{} {:?}", if e.rpm == 0 { "=0" } else { ">0" }, e.state));
            }
            2 => {
                let (o, _) = fmt::rand_other_object(rng);
                let o = if let Object::Engine(_) = o { Object::Motion(glonax::core::Motion::StopAll) } else { o };
                let mut txq = vec![];
                let _ = drv.trigger(&mut ctx, &mut txq, &o);
                ins.push("O".into());
                outs.push(fmt::frames(&txq));
                out.count("op other command");
            }
            3 => {
                let mut txq = vec![];
                let _ = drv.tick(&mut ctx, &mut txq);
                ins.push("T".into());
                outs.push(fmt::frames(&txq));
                out.count("op tick");
            }
            _ => {
                // wait: age the stored command by rewriting its timestamp (no sleeping); well away from the deadline
                // (also ages past one and two minutes: a command does not become young again)
                let mut ms: u64 = *rng.pick(&[100u64, 500, 1500, 2600, 5000, 500, 2600, 64_000, 66_000, 131_500]);
                // keep the simulated age at least 150 ms away from the 2000 ms transition timeout
                if (1850..=2150).contains(&(age_ms + ms)) {
                    ms += 400;
                }
                // (a machine that has been up for less than the age cannot represent it: the wait is then left out)
                let mut representable = true;
                if let Some(m) = ctx.tx_last_message() {
                    match m.timestamp.checked_sub(std::time::Duration::from_millis(ms)) {
                        Some(t) => ctx.set_tx_last_message(ObjectMessage { object: m.object, object_type: m.object_type, timestamp: t }),
                        None => representable = false,
                    }
                }
                if representable {
                    age_ms += ms;
                    ins.push(format!("W:{}", ms));
                    outs.push("-".to_string());
                    out.count("op wait");
                }
            }
        }
    }
    out.case(&format!("volvo {} {} {}", da, sa, ins.join(" ")), &outs.join(" "), ops.iter().any(|o| o % 5 == 3));
}

pub fn run_c08(out: &mut Out, tier: &str, rng: &mut Rng) {
    let thorough = tier == "thorough";
    out.rule = "histories over {status frame (rpm classes x starter-mode classes), engine command (rpm classes x 4 states), non-engine command, cycle, wait (100..5000 ms, simulated by ageing the stored command's timestamp)} on the real VolvoD7E driver with one context: every op sequence up to depth 5 (quick) / 7 (thorough) over the five op kinds (parameters drawn per op), plus random histories of length 30. Waits are cumulative; ages within 150 ms of the 2000 ms deadline are not generated. Non-trivial = contains a cycle".into();
    // the witness of the defect found on the pinned tree first
    {
        let (da, sa) = (0x00u8, 0x27u8);
        let drv = make("d7e", da, sa);
        let mut ctx = NetDriverContext::default();
        let raw = (1500u16 * 8).to_le_bytes();
        let f = frame8(make_id(3, 61444, 0, da), [0xF0, 0x7D, 0x80, raw[0], raw[1], 0xFF, 0xFF, 0xFF]);
        let mut rxq = vec![];
        let _ = drv.try_recv(&mut ctx, &f, &mut rxq);
        let e = Engine { driver_demand: 0, actual_engine: 0, rpm: 0, state: EngineState::Request };
        let mut t1 = vec![];
        let _ = drv.trigger(&mut ctx, &mut t1, &Object::Engine(e));
        let mut t2 = vec![];
        let _ = drv.tick(&mut ctx, &mut t2);
        out.case(&format!("volvo {} {} S:{} {} T", da, sa, fmt::frame(&f), engine_cmd_tok(&e)), &format!("- {} {}", fmt::frames(&t1), fmt::frames(&t2)), true);
    }
    // the speed encoding itself: every requested speed around and inside [idle, max] on a running engine, as sent
    // at acceptance and re-sent by the next cycle (the frame carries rpm / 10, truncated)
    {
        let (da, sa) = (0x00u8, 0x27u8);
        for rpm in (780u16..=2120).chain([0u16, 1, 9, 10, 799, 2559, 2560, 65535]) {
            let drv = make("d7e", da, sa);
            let mut ctx = NetDriverContext::default();
            let raw = (1500u16 * 8).to_le_bytes();
            let f = frame8(make_id(3, 61444, 0, da), [0xF0, 0x7D, 0x80, raw[0], raw[1], 0xFF, 0xFF, 0xFF]);
            let mut rxq = vec![];
            let _ = drv.try_recv(&mut ctx, &f, &mut rxq);
            let e = Engine { driver_demand: 0, actual_engine: 0, rpm, state: EngineState::Request };
            let mut t1 = vec![];
            let _ = drv.trigger(&mut ctx, &mut t1, &Object::Engine(e));
            let mut t2 = vec![];
            let _ = drv.tick(&mut ctx, &mut t2);
            out.case(&format!("volvo {} {} S:{} {} T", da, sa, fmt::frame(&f), engine_cmd_tok(&e)), &format!("- {} {}", fmt::frames(&t1), fmt::frames(&t2)), true);
            out.count("speed sweep on a running engine");
        }
    }
    // which slots of the shared context each handler touches (see C01): the stored command at most once per handler
    {
        use glonax::runtime::verif_access;
        let (da, sa) = (0x00u8, 0x27u8);
        for i in 0..(if thorough { 400 } else { 80 }) {
            let drv = make("d7e", da, sa);
            let mut ctx = NetDriverContext::default();
            let raw = (*rng.pick(&[0u16, 300, 1500]) * 8).to_le_bytes();
            let f = frame8(make_id(3, 61444, 0, da), [0xF0, 0x7D, 0x80, raw[0], raw[1], 0xFF, 0xFF, 0xFF]);
            let mut rxq = vec![];
            if i % 2 == 0 {
                let _ = drv.try_recv(&mut ctx, &f, &mut rxq);
            }
            if i % 3 != 0 {
                let mut t = vec![];
                let _ = drv.trigger(&mut ctx, &mut t, &Object::Engine(Engine { driver_demand: 0, actual_engine: 0, rpm: 1200, state: EngineState::Request }));
            }
            let _ = verif_access::take();
            let kind = ["tick", "cmd-engine", "cmd-other", "rx"][i % 4];
            let mut t = vec![];
            match kind {
                "tick" => {
                    let _ = drv.tick(&mut ctx, &mut t);
                }
                "cmd-engine" => {
                    let _ = drv.trigger(&mut ctx, &mut t, &Object::Engine(Engine { driver_demand: 0, actual_engine: 0, rpm: *rng.pick(&[0u16, 900, 1555]), state: *rng.pick(&[EngineState::NoRequest, EngineState::Starting, EngineState::Stopping, EngineState::Request]) }));
                }
                "cmd-other" => {
                    let _ = drv.trigger(&mut ctx, &mut t, &Object::Motion(glonax::core::Motion::StopAll));
                }
                _ => {
                    let _ = drv.try_recv(&mut ctx, &f, &mut rxq);
                }
            }
            let tr = verif_access::take();
            out.case(&format!("acc {}", kind), &if tr.is_empty() { "-".to_string() } else { tr.join(",") }, true);
            out.count(&format!("access trace of {}", kind));
        }
    }
    let depth = if thorough { 7 } else { 5 };
    for len in 1..=depth {
        let total = 5usize.pow(len as u32);
        for code in 0..total {
            let mut c = code;
            let ops: Vec<u8> = (0..len).map(|_| { let o = (c % 5) as u8; c /= 5; o }).collect();
            // cumulative waits must not land near the deadline: the wait values are chosen so that sums are
            // <= 1600 or >= 2600 for up to two waits; longer wait chains always exceed it
            volvo_history(out, &ops, rng);
        }
    }
    for _ in 0..(if thorough { 20_000 } else { 3_000 }) {
        let ops: Vec<u8> = (0..30).map(|_| rng.below(5) as u8).collect();
        volvo_history(out, &ops, rng);
    }
}
