//! C01: histories of commands / received frames / ticks against the real HCU driver + context.
use crate::fmt;
use crate::util::*;
use glonax::core::{Motion, Object};
use glonax::driver::HydraulicControlUnit;
use glonax::j1939::{Frame, FrameBuilder, Id};
use glonax::runtime::{J1939Unit, NetDriverContext};

fn rand_rx_frame(rng: &mut Rng, da: u8, sa: u8) -> Frame {
    let raw_id: u32 = match rng.below(8) {
        // status frame from the unit (PGN 65288)
        0 | 1 | 2 => (6 << 26) | (65_288 << 8) | da as u32,
        // address claimed / software identification from the unit
        3 => (6 << 26) | (60_928 << 8) | (0xFF << 8) | da as u32,
        4 => (6 << 26) | (65_242 << 8) | da as u32,
        // actuator / motion config frames echoed from some node
        5 => (3 << 26) | ((*rng.pick(&[40_960u32, 41_216, 45_824])) << 8) | ((da as u32) << 8) | rng.byte() as u32,
        // same PGNs from a foreign source
        6 => (6 << 26) | (65_288 << 8) | rng.byte() as u32,
        _ => (rng.next() as u32) & 0x1FFF_FFFF,
    };
    let _ = sa;
    let mut data = [0u8; 8];
    for b in data.iter_mut() {
        *b = rng.byte();
    }
    // status byte: mostly one of the four known codes
    if rng.chance(9, 10) {
        data[0] = *rng.pick(&[0x14u8, 0x16, 0xFA, 0xFB]);
    }
    if rng.chance(1, 2) {
        data[2] = rng.below(2) as u8;
    }
    if rng.chance(1, 3) {
        data[4] = b'*';
    }
    FrameBuilder::new(Id::new(raw_id)).copy_from_slice(&data).build()
}

pub fn history(out: &mut Out, rng: &mut Rng, da: u8, sa: u8, len: usize) {
    let hcu = HydraulicControlUnit::new("vcan0", da, sa);
    let mut ctx = NetDriverContext::default();
    let mut ops: Vec<String> = vec![];
    let mut outs: Vec<String> = vec![];
    let mut nontrivial = false;
    let mut had_motion = false;
    for _ in 0..len {
        match rng.below(20) {
            0..=6 => {
                let mut txq = vec![];
                let r = guarded(std::panic::AssertUnwindSafe(|| {
                    let _ = hcu.tick(&mut ctx, &mut txq);
                }));
                ops.push("T".into());
                outs.push(if r.is_none() { "PANIC".into() } else { fmt::frames(&txq) });
                out.count("op tick");
                if had_motion {
                    nontrivial = true;
                }
            }
            7..=12 => {
                let m = fmt::rand_motion(rng);
                let mut txq = vec![];
                let r = guarded(std::panic::AssertUnwindSafe(|| {
                    let _ = hcu.trigger(&mut ctx, &mut txq, &Object::Motion(m.clone()));
                }));
                ops.push(format!("M:{}", fmt::motion(&m)));
                outs.push(if r.is_none() { "PANIC".into() } else { fmt::frames(&txq) });
                out.count(match m {
                    Motion::StopAll => "op cmd stop",
                    Motion::ResumeAll => "op cmd resume",
                    Motion::ResetAll => "op cmd reset",
                    Motion::StraightDrive(_) => "op cmd straight",
                    Motion::Change(_) => "op cmd change",
                });
                had_motion = true;
            }
            13..=15 => {
                let (o, kind) = fmt::rand_other_object(rng);
                let mut txq = vec![];
                let r = guarded(std::panic::AssertUnwindSafe(|| {
                    let _ = hcu.trigger(&mut ctx, &mut txq, &o);
                }));
                ops.push(format!("O:{}", kind));
                outs.push(if r.is_none() { "PANIC".into() } else { fmt::frames(&txq) });
                out.count(&format!("op cmd other {}", kind));
            }
            _ => {
                let f = rand_rx_frame(rng, da, sa);
                let mut rxq = vec![];
                let r = guarded(std::panic::AssertUnwindSafe(|| {
                    let _ = hcu.try_recv(&mut ctx, &f, &mut rxq);
                }));
                ops.push(format!("R:{}", fmt::frame(&f)));
                // what try_recv reports is the business of C06/C11/C12; here only: nothing is emitted
                outs.push("-".into());
                out.count(if r.is_none() { "op rx (try_recv panicked; see C06)" } else { "op rx" });
            }
        }
    }
    out.case(&format!("{} {} {}", da, sa, ops.join(" ")), &outs.join(" "), nontrivial);
}

pub fn run(out: &mut Out, tier: &str, rng: &mut Rng) {
    let (n, maxlen) = if tier == "thorough" { (50_000, 400) } else { (2_000, 40) };
    out.rule = format!("{} random histories of up to {} ops over {{tick, motion command (all variants, empty/duplicate/32-entry change sets), non-motion command of every other object kind, received frame (status/claim/ident from the unit, echoes, foreign, random)}} stepped on the real HydraulicControlUnit with one NetDriverContext; non-trivial = contains a tick after a motion command", n, maxlen);
    // corpus: the defining situations first
    for (da, sa) in [(0x4Au8, 0x27u8), (0xFF, 0x00), (0x00, 0xFF)] {
        history(out, &mut Rng::new(da as u64 * 256 + sa as u64), da, sa, 12);
    }
    for i in 0..n {
        let (da, sa) = if i % 3 == 0 { (0x4A, 0x27) } else { (rng.byte(), rng.byte()) };
        let len = 1 + rng.below(maxlen as u64) as usize;
        history(out, rng, da, sa, len);
    }
}
