//! C01: histories of commands / received frames / ticks against the real HCU driver + context.
use crate::fmt;
use crate::util::*;
use glonax::core::{Motion, Object};
use glonax::driver::HydraulicControlUnit;
use glonax::j1939::{Frame, FrameBuilder, Id};
use glonax::runtime::{J1939Unit, NetDriverContext};

fn rand_rx_frame(rng: &mut Rng, da: u8, sa: u8) -> Frame {
    let raw_id: u32 = match rng.below(8) {
        // status frame from the unit (PGN 65288)
        0 | 1 | 2 => (6 << 26) | (65_288 << 8) | da as u32,
        // address claimed / software identification from the unit
        3 => (6 << 26) | (60_928 << 8) | (0xFF << 8) | da as u32,
        4 => (6 << 26) | (65_242 << 8) | da as u32,
        // actuator / motion config frames echoed from some node
        5 => (3 << 26) | ((*rng.pick(&[40_960u32, 41_216, 45_824])) << 8) | ((da as u32) << 8) | rng.byte() as u32,
        // same PGNs from a foreign source
        6 => (6 << 26) | (65_288 << 8) | rng.byte() as u32,
        _ => (rng.next() as u32) & 0x1FFF_FFFF,
    };
    let _ = sa;
    let mut data = [0u8; 8];
    for b in data.iter_mut() {
        *b = rng.byte();
    }
    // status byte: mostly one of the four known codes
    if rng.chance(9, 10) {
        data[0] = *rng.pick(&[0x14u8, 0x16, 0xFA, 0xFB]);
    }
    if rng.chance(1, 2) {
        data[2] = rng.below(2) as u8;
    }
    if rng.chance(1, 3) {
        data[4] = b'*';
    }
    FrameBuilder::new(Id::new(raw_id)).copy_from_slice(&data).build()
}

pub fn history(out: &mut Out, rng: &mut Rng, da: u8, sa: u8, len: usize) {
    let hcu = HydraulicControlUnit::new("vcan0", da, sa);
    let mut ctx = NetDriverContext::default();
    let mut ops: Vec<String> = vec![];
    let mut outs: Vec<String> = vec![];
    let mut nontrivial = false;
    let mut had_motion = false;
    for _ in 0..len {
        match rng.below(20) {
            0..=6 => {
                let mut txq = vec![];
                let r = guarded(std::panic::AssertUnwindSafe(|| {
                    let _ = hcu.tick(&mut ctx, &mut txq);
                }));
                ops.push("T".into());
                outs.push(if r.is_none() { "PANIC".into() } else { fmt::frames(&txq) });
                out.count("op tick");
                if had_motion {
                    nontrivial = true;
                }
            }
            7..=12 => {
                let m = fmt::rand_motion(rng);
                let mut txq = vec![];
                let r = guarded(std::panic::AssertUnwindSafe(|| {
                    let _ = hcu.trigger(&mut ctx, &mut txq, &Object::Motion(m.clone()));
                }));
                ops.push(format!("M:{}", fmt::motion(&m)));
                outs.push(if r.is_none() { "PANIC".into() } else { fmt::frames(&txq) });
                out.count(match m {
                    Motion::StopAll => "op cmd stop",
                    Motion::ResumeAll => "op cmd resume",
                    Motion::ResetAll => "op cmd reset",
                    Motion::StraightDrive(_) => "op cmd straight",
                    Motion::Change(_) => "op cmd change",
                });
                had_motion = true;
            }
            13..=15 => {
                let (o, kind) = fmt::rand_other_object(rng);
                let mut txq = vec![];
                let r = guarded(std::panic::AssertUnwindSafe(|| {
                    let _ = hcu.trigger(&mut ctx, &mut txq, &o);
                }));
                ops.push(format!("O:{}", kind));
                outs.push(if r.is_none() { "PANIC".into() } else { fmt::frames(&txq) });
                out.count(&format!("op cmd other {}", kind));
            }
            _ => {
                let f = rand_rx_frame(rng, da, sa);
                let mut rxq = vec![];
                let r = guarded(std::panic::AssertUnwindSafe(|| {
                    let _ = hcu.try_recv(&mut ctx, &f, &mut rxq);
                }));
                ops.push(format!("R:{}", fmt::frame(&f)));
                // what try_recv reports is the business of C06/C11/C12; here only: nothing is emitted
                outs.push("-".into());
                out.count(if r.is_none() { "op rx (try_recv panicked; see C06)" } else { "op rx" });
            }
        }
    }
    out.case(&format!("{} {} {}", da, sa, ops.join(" ")), &outs.join(" "), nontrivial);
}

/// Which shared slots of the driver context each handler touches (hook `verif_access`): the three tasks of a network
/// run these handlers concurrently on clones of one context whose accessors lock one at a time, so a handler is atomic
/// with respect to the stored command exactly when it touches that slot at most once.
fn access_cases(out: &mut Out, rng: &mut Rng, n: usize) {
    use glonax::runtime::verif_access;
    for i in 0..n {
        let (da, sa) = (0x4Au8, 0x27u8);
        let hcu = HydraulicControlUnit::new("vcan0", da, sa);
        let mut ctx = NetDriverContext::default();
        if i % 3 != 0 {
            let mut txq = vec![];
            let _ = hcu.trigger(&mut ctx, &mut txq, &Object::Motion(fmt::rand_motion(rng)));
        }
        let _ = verif_access::take();
        let kind = ["tick", "cmd-motion", "cmd-other", "rx-status", "rx-other"][i % 5];
        let mut txq = vec![];
        let mut rxq = vec![];
        match kind {
            "tick" => {
                let _ = hcu.tick(&mut ctx, &mut txq);
            }
            "cmd-motion" => {
                let _ = hcu.trigger(&mut ctx, &mut txq, &Object::Motion(fmt::rand_motion(rng)));
            }
            "cmd-other" => {
                let (o, _) = fmt::rand_other_object(rng);
                let _ = hcu.trigger(&mut ctx, &mut txq, &o);
            }
            "rx-status" => {
                let f = FrameBuilder::new(Id::new((6 << 26) | (65_288 << 8) | da as u32)).copy_from_slice(&[*rng.pick(&[0x14u8, 0x16]), 0xFF, rng.below(2) as u8, 0xFF, 1, 0, 0, 0]).build();
                let _ = hcu.try_recv(&mut ctx, &f, &mut rxq);
            }
            _ => {
                let f = rand_rx_frame(rng, da, sa);
                let _ = guarded(std::panic::AssertUnwindSafe(|| {
                    let _ = hcu.try_recv(&mut ctx, &f, &mut rxq);
                }));
            }
        }
        let tr = verif_access::take();
        out.case(&format!("acc {}", kind), &if tr.is_empty() { "-".to_string() } else { tr.join(",") }, true);
        out.count(&format!("access trace of {}", kind));
    }
}

/// Two real threads on clones of one context: one re-asserts (tick) as fast as it can, the other accepts commands that
/// alternate between driving and stop-all and ends with stop-all. Whatever the interleaving, once both are done the
/// next cycle must lock. Cannot raise a false alarm: the order of commands is that of the single command thread.
fn stress(out: &mut Out, rounds: usize) {
    use std::sync::atomic::{AtomicBool, AtomicU64, Ordering};
    use std::sync::Arc;
    let (da, sa) = (0x4Au8, 0x27u8);
    let mut violations = 0usize;
    let mut checks = 0u64;
    let ctx = NetDriverContext::default();
    let stop = Arc::new(AtomicBool::new(false));
    let ticks = Arc::new(AtomicU64::new(0));
    let (mut c1, st1, tk1) = (ctx.clone(), stop.clone(), ticks.clone());
    let ticker = std::thread::spawn(move || {
        let hcu = HydraulicControlUnit::new("vcan0", da, sa);
        let mut txq = vec![];
        while !st1.load(Ordering::Relaxed) {
            txq.clear();
            let _ = hcu.tick(&mut c1, &mut txq);
            tk1.fetch_add(1, Ordering::Release);
        }
    });
    let mut c2 = ctx.clone();
    let hcu = HydraulicControlUnit::new("vcan0", da, sa);
    let mut txq = vec![];
    let is_lock = |f: &Vec<Frame>| f.len() == 1 && f[0].id().pgn_raw() == 45_824 && f[0].pdu()[3] == 0x00;
    let started = std::time::Instant::now();
    let mut done_rounds = 0usize;
    for r in 0..rounds {
        // bounded in time whatever the machine is doing (the count of checks made is in the evidence)
        if started.elapsed() > std::time::Duration::from_secs(8) {
            break;
        }
        done_rounds += 1;
        txq.clear();
        let _ = hcu.trigger(&mut c2, &mut txq, &Object::Motion(Motion::StraightDrive(1000 + (r % 100) as i16)));
        // let the other thread get into its cycle with the driving command
        let t0 = ticks.load(Ordering::Acquire);
        while ticks.load(Ordering::Acquire) < t0 + 1 {
            std::thread::yield_now();
        }
        txq.clear();
        let _ = hcu.trigger(&mut c2, &mut txq, &Object::Motion(Motion::StopAll));
        // stop-all is now the latest command: after the cycles that were under way have finished, a cycle must lock
        let t1 = ticks.load(Ordering::Acquire);
        while ticks.load(Ordering::Acquire) < t1 + 2 {
            std::thread::yield_now();
        }
        let mut last = vec![];
        let _ = hcu.tick(&mut c2, &mut last);
        checks += 1;
        if !is_lock(&last) {
            violations += 1;
        }
    }
    stop.store(true, Ordering::Relaxed);
    let _ = ticker.join();
    let _ = checks;
    out.case(&format!("stress {}", rounds), &violations.to_string(), true);
    out.count_n("two-thread stress: stop-all checked after concurrent cycles", done_rounds as u64);
}

pub fn run(out: &mut Out, tier: &str, rng: &mut Rng) {
    let (n, maxlen) = if tier == "thorough" { (50_000, 400) } else { (2_000, 40) };
    out.rule = format!("{} random histories of up to {} ops over {{tick, motion command (all variants, empty/duplicate/32-entry change sets), non-motion command of every other object kind, received frame (status/claim/ident from the unit, echoes, foreign, random)}} stepped on the real HydraulicControlUnit with one NetDriverContext; non-trivial = contains a tick after a motion command", n, maxlen);
    // corpus: the defining situations first
    for (da, sa) in [(0x4Au8, 0x27u8), (0xFF, 0x00), (0x00, 0xFF)] {
        history(out, &mut Rng::new(da as u64 * 256 + sa as u64), da, sa, 12);
    }
    for i in 0..n {
        let (da, sa) = if i % 3 == 0 { (0x4A, 0x27) } else { (rng.byte(), rng.byte()) };
        let len = 1 + rng.below(maxlen as u64) as usize;
        history(out, rng, da, sa, len);
    }
    access_cases(out, rng, if tier == "thorough" { 2000 } else { 200 });
    stress(out, if tier == "thorough" { 400_000 } else { 40_000 });
}
