//! The real Director under the real Runtime, as glonaxd runs it: scheduled with `schedule_io_sub_service` (so that the
//! runtime re-enters `wait_io_sub` with a re-subscribed receiver whenever it returns), signals published through the
//! runtime's own signal channel (obtained by a stub publisher service), the director's commands received by a recording
//! network service behind the real command task.  Signals are published in GROUPS: a group is sent back to back without
//! yielding, then the executor runs until idle.  A group longer than the signal queue overruns the director's receiver
//! (it returns, the runtime re-enters it at the tail: the group is lost, the verdicts stand).
//! Case line: `dirq <sig>+<sig>+… <sig>+… => <commands handled after group 1> <after group 2> …`
use crate::util::*;
use glonax::core::Object;
use glonax::runtime::{CommandSender, NetworkService, NullConfig, Service, SignalReceiver, SignalSender};
use std::sync::{Arc, Mutex};
use std::time::Duration;

#[derive(Default)]
struct Shared {
    handled: Mutex<Vec<String>>,
    signal_tx: Mutex<Option<SignalSender>>,
}

#[derive(Clone)]
struct Cfg(Arc<Shared>);

#[derive(Clone)]
struct RecNet(Cfg);

impl NetworkService<Cfg> for RecNet {
    fn new(config: Cfg) -> Self {
        RecNet(config)
    }
    async fn recv(&mut self, _signal_tx: SignalSender) {
        std::future::pending::<()>().await
    }
    async fn on_tick(&mut self, _signal_tx: SignalSender) {}
    async fn on_command(&mut self, object: &Object) {
        self.0 .0.handled.lock().unwrap().push(crate::sess::object_tok(object));
    }
}

struct Publisher(Cfg);

impl Service<Cfg> for Publisher {
    fn new(config: Cfg) -> Self {
        Publisher(config)
    }
    async fn wait_io_pub(&mut self, signal_tx: SignalSender) {
        *self.0 .0.signal_tx.lock().unwrap() = Some(signal_tx);
        std::future::pending::<()>().await
    }
    async fn wait_io_sub(&mut self, _command_tx: CommandSender, _signal_rx: SignalReceiver) {
        std::future::pending::<()>().await
    }
}

async fn settle() {
    for _ in 0..200 {
        tokio::task::yield_now().await;
    }
}

pub fn run_groups(out: &mut Out, groups: &[Vec<Object>], sig_tok: &dyn Fn(&Object) -> String, nontrivial: bool) {
    run_groups_as(out, "dirq", groups, sig_tok, nontrivial)
}

/// `kind` = "dir": one signal per group (the line then reads `dir <sig> <sig> … => <commands after each>`)
pub fn run_groups_as(out: &mut Out, kind: &str, groups: &[Vec<Object>], sig_tok: &dyn Fn(&Object) -> String, nontrivial: bool) {
    run_groups_paused(out, kind, groups, sig_tok, nontrivial, &[])
}

/// `pauses` = (index of the group AFTER which nothing happens, milliseconds of REAL time): what the director decides depends
/// on the latest readings, not on how long ago they were taken.
pub fn run_groups_paused(out: &mut Out, kind: &str, groups: &[Vec<Object>], sig_tok: &dyn Fn(&Object) -> String, nontrivial: bool, pauses: &[(usize, u64)]) {
    let rt = tokio::runtime::Builder::new_current_thread().enable_all().build().unwrap();
    let shared = Arc::new(Shared::default());
    let outs: Option<Vec<String>> = guarded(std::panic::AssertUnwindSafe(|| {
        rt.block_on(async {
            let mut runtime = glonax::Runtime::default();
            runtime.schedule_io_pub_service::<Publisher, Cfg>(Cfg(shared.clone()));
            runtime.schedule_io_sub_service::<glonax::service::Director, NullConfig>(NullConfig);
            runtime.schedule_net_service::<RecNet, Cfg>(Cfg(shared.clone()), Duration::from_secs(3600));
            settle().await;
            let tx = shared.signal_tx.lock().unwrap().clone().expect("publisher got the signal sender");
            let mut outs = vec![];
            for (gi, g) in groups.iter().enumerate() {
                for s in g {
                    let _ = tx.send(s.clone());
                }
                settle().await;
                let got: Vec<String> = std::mem::take(&mut *shared.handled.lock().unwrap());
                outs.push(if got.is_empty() { "-".to_string() } else { got.join(";") });
                for (k, ms) in pauses {
                    if *k == gi {
                        tokio::time::sleep(Duration::from_millis(*ms)).await;
                        settle().await;
                    }
                }
            }
            outs
        })
    }));
    let ins: Vec<String> = groups.iter().map(|g| g.iter().map(|s| sig_tok(s)).collect::<Vec<_>>().join("+")).collect();
    out.case(&format!("{} {}", kind, ins.join(" ")), &outs.map_or("PANIC".to_string(), |o| o.join(" ")), nontrivial);
    if kind == "dirq" {
        out.count("director under the real runtime (groups of signals)");
    }
}
