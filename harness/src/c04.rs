//! C04: streams of well-formed frames x segmentations x interleaved signals on the real session.
use crate::sess::{self, Ev};
use crate::sessgen::*;
use crate::util::*;

pub fn run(out: &mut Out, tier: &str, rng: &mut Rng) {
    let thorough = tier == "thorough";
    let inst = sess::set_instance();
    out.rule = "streams of 1..4 well-formed frames (five accepted command/session types with valid, ill-sized and undecodable payloads; unknown type codes; payload lengths 1,2,10,20,1023,1024,random; header look-alike payloads) fed to the real session (scripted transport, hand-polled): whole, byte by byte, every single cut offset, random multi-cuts; a published signal inserted at every cut (frame boundaries are then also cuts). Non-trivial = stream with >= 2 frames or a cut strictly inside a frame".into();
    // a client that takes its time inside and between frames (seconds to an hour of the runtime's clock)
    crate::c05::slow(out, &inst, false);
    // corpus: the two desynchronisations found on the pinned tree
    {
        // (1) unknown-type frame followed by stop-all and a horn command
        let mut s = sess::frame(0x99, &[1, 2, 3]);
        s.extend(sess::frame(0x20, &[0x00]));
        s.extend(sess::frame(0x45, &[0x1E, 1]));
        sess::run_case(out, &inst, "sess", &[Ev::Bytes(s)], true);
        // (2) header split 5+5 with a signal in between, then a second stop-all
        let a = sess::frame(0x20, &[0x00]);
        let mut evs = vec![Ev::Bytes(a[..5].to_vec()), Ev::Signal(rand_signal(&mut Rng::new(5))), Ev::Bytes(a[5..].to_vec())];
        evs.push(Ev::Bytes(sess::frame(0x20, &[0x00])));
        sess::run_case(out, &inst, "sess", &evs, true);
    }
    // boundary of the payload size limit on the variable-size types (session, motion): a frame of exactly
    // MAX_PAYLOAD_SIZE bytes is a whole frame; what follows it must still be dispatched
    for ty in [0x10u8, 0x20] {
        for len in [1022usize, 1023, 1024] {
            for fill in [b'a', 0u8] {
                let mut payload = vec![fill; len];
                payload[0] = if ty == 0x10 { 0x02 } else { 0x00 };
                let mut st = sess::frame(ty, &payload);
                let b1 = st.len();
                st.extend(sess::frame(0x20, &[0x00]));
                st.extend(sess::frame(0x45, &[0x1E, 1]));
                sess::run_case(out, &inst, "sess", &[Ev::Bytes(st.clone())], true);
                sess::run_case(out, &inst, "sess", &chunks(&st, &[10, b1]), true);
                sess::run_case(out, &inst, "sess", &[Ev::Bytes(st[..b1 - 1].to_vec()), Ev::Signal(rand_signal(&mut Rng::new(7))), Ev::Bytes(st[b1 - 1..].to_vec())], true);
                out.count("frame at-size-limit");
            }
        }
    }
    // a subscriber that falls behind (more signals than the queue holds are published while a frame is half
    // received) must still get every later frame dispatched: command frames only (nothing is written, so the order in
    // which the two ready select! branches run is unobservable)
    for burst in [15usize, 16, 17, 18, 40] {
        for cut_in in [3usize, 10, 12] {
            let mut st = sess::frame(0x20, &[0x01]);
            let first = st.len();
            st.extend(sess::frame(0x20, &[0x05, 0x00, 0x64]));
            st.extend(sess::frame(0x20, &[0x00]));
            st.extend(sess::frame(0x45, &[0x1E, 1]));
            let cut = first + cut_in;
            let mut evs = vec![Ev::Bytes(st[..cut].to_vec())];
            for _ in 0..burst {
                evs.push(Ev::Signal(rand_signal(rng)));
            }
            evs.push(Ev::Bytes(st[cut..].to_vec()));
            // and once more after the session has caught up
            evs.push(Ev::Bytes(sess::frame(0x20, &[0x00])));
            sess::run_case(out, &inst, "sess", &evs, true);
            out.count(&format!("signal burst {} while a frame is half received", burst));
        }
    }
    // the hostile corpus shared by the session family: whatever a frame carries, the frames after it are dispatched
    for (i, h) in hostile_corpus(rng).into_iter().enumerate() {
        let mut st = if i % 2 == 0 { vec![] } else { session_frame(0x10, "h").bytes };
        st.extend(&h.bytes);
        st.extend(sess::frame(0x20, &[0x00]));
        st.extend(sess::frame(0x45, &[0x1E, 1]));
        sess::run_case(out, &inst, "sess", &[Ev::Bytes(st.clone())], true);
        if i % 5 == 0 {
            let cut = 1 + rng.below(st.len() as u64 - 1) as usize;
            sess::run_case(out, &inst, "sess", &chunks(&st, &[cut]), true);
        }
        out.count(&format!("hostile corpus: {}", h.class));
    }
    let n_streams = if thorough { 4000 } else { 260 };
    for i in 0..n_streams {
        let nf = 1 + rng.below(4) as usize;
        let mut stream = vec![];
        let mut bounds = vec![];
        let mut big = false;
        for _ in 0..nf {
            let f = rand_frame(rng);
            out.count(&format!("frame {}", f.class));
            if f.bytes.len() > 200 {
                big = true;
            }
            stream.extend(f.bytes);
            bounds.push(stream.len());
        }
        // whole
        sess::run_case(out, &inst, "sess", &[Ev::Bytes(stream.clone())], nf >= 2);
        out.count("segmentation whole");
        // whole, with a peer that is already gone (every reply write fails): dispatching must not depend on it
        if i % 3 == 0 {
            sess::run_case_wfail(out, &inst, "sess", &[Ev::Bytes(stream.clone())], nf >= 2);
        }
        // … and with a client that takes only a few bytes per write
        if i % 3 == 1 {
            sess::run_case_window(out, &inst, "sess", &[Ev::Bytes(stream.clone())], nf >= 2, 1 + i % 9);
        }
        // byte by byte (skip for the 1 KiB payloads in the quick tier)
        if !big || thorough && i % 10 == 0 {
            let cuts: Vec<usize> = (1..stream.len()).collect();
            sess::run_case(out, &inst, "sess", &chunks(&stream, &cuts), true);
            out.count("segmentation bytewise");
        }
        // every single cut offset (bounded for big streams), without and with a signal at the cut
        let offsets: Vec<usize> = if stream.len() <= 120 || thorough && stream.len() <= 400 { (1..stream.len()).collect() } else { (1..40).chain((0..24).map(|_| 1 + rng.below(stream.len() as u64 - 1) as usize)).collect() };
        for &c in &offsets {
            sess::run_case(out, &inst, "sess", &chunks(&stream, &[c]), true);
            out.count("segmentation one-cut");
            // with a signal at the cut: frame boundaries become cuts too
            let mut cuts: Vec<usize> = bounds.clone();
            cuts.push(c);
            cuts.sort();
            cuts.dedup();
            let mut evs = vec![];
            let mut last = 0;
            for &k in &cuts {
                if k > last {
                    evs.push(Ev::Bytes(stream[last..k].to_vec()));
                    last = k;
                }
                if k == c {
                    evs.push(Ev::Signal(rand_signal(rng)));
                }
            }
            if last < stream.len() {
                evs.push(Ev::Bytes(stream[last..].to_vec()));
            }
            // sometimes the session streams (leading upgrade with the stream flag)
            if rng.chance(1, 3) {
                evs.insert(0, Ev::Bytes(session_frame(0x01, "s").bytes));
            }
            sess::run_case(out, &inst, "sess", &evs, true);
            out.count("segmentation one-cut+signal");
        }
        // random multi-cuts with signals
        for _ in 0..(if thorough { 6 } else { 2 }) {
            let k = 2 + rng.below(5) as usize;
            let mut cuts: Vec<usize> = (0..k).map(|_| 1 + rng.below(stream.len() as u64 - 1).max(0) as usize).collect();
            cuts.extend(bounds.iter().cloned());
            cuts.sort();
            cuts.dedup();
            let mut evs = vec![];
            let mut last = 0;
            for &c in &cuts {
                if c > last && c <= stream.len() {
                    evs.push(Ev::Bytes(stream[last..c].to_vec()));
                    last = c;
                    if rng.chance(1, 2) {
                        evs.push(Ev::Signal(rand_signal(rng)));
                    }
                }
            }
            sess::run_case(out, &inst, "sess", &evs, true);
            out.count("segmentation multi-cut+signals");
        }
    }
}
