//! C18: operator front-ends. In-process: the real joystick::Event decoder, gamepad mappers and
//! InputState (sources of glonax-input included with #[path]); end to end: the real glonaxctl binary
//! (and, thorough, the real glonax-input reading a FIFO) against a stub daemon.
use crate::gamepad::{InputDevice, LogitechJoystick, XboxController};
use crate::input::{ButtonState, InputState, Scancode};
use crate::joystick::Event;
use crate::sess;
use crate::util::*;
use glonax::core::Object;
use std::io::{Read, Write};
use std::os::unix::net::UnixListener;
use std::time::Duration;

const MODES: [&str; 4] = ["xbox", "logitech-solo", "logitech-right", "logitech-left"];

fn device(mode: &str) -> Box<dyn InputDevice> {
    match mode {
        "xbox" => Box::<XboxController>::default(),
        "logitech-solo" => Box::new(LogitechJoystick::solo_mode()),
        "logitech-right" => Box::new(LogitechJoystick::right_mode()),
        _ => Box::new(LogitechJoystick::left_mode()),
    }
}

fn record(ty: u8, number: u8, value: i16, time: u32) -> [u8; 8] {
    let mut r = [0u8; 8];
    r[0..4].copy_from_slice(&time.to_le_bytes());
    r[4..6].copy_from_slice(&value.to_le_bytes());
    r[6] = ty;
    r[7] = number;
    r
}

fn out_tok(o: &Option<Object>) -> String {
    match o {
        // main forwards only Motion and Engine objects
        Some(o @ Object::Motion(_)) | Some(o @ Object::Engine(_)) => sess::object_tok(o),
        _ => "-".into(),
    }
}

/// The loop of glonax-input's main on a list of raw records, from the start-up state.
fn ev_case(out: &mut Out, mode: &str, full_motion: bool, recs: &[[u8; 8]], nontrivial: bool) {
    let mut dev = device(mode);
    // start-up state as in glonax-input/src/main.rs (the extractor ties these literals to the source)
    let mut st = InputState { drive_lock: false, motion_lock: true, limit_motion: !full_motion, engine_rpm: 0 };
    let mut outs = vec![];
    for r in recs {
        let res = guarded(std::panic::AssertUnwindSafe(|| {
            let ev = Event::from(&r[..]);
            dev.map(&ev).and_then(|code| st.try_from(code))
        }));
        match res {
            None => {
                outs.push("PANIC".to_string());
                break;
            }
            Some(o) => outs.push(out_tok(&o)),
        }
    }
    out.case(
        &format!("ev {} {} {}", mode, full_motion as u8, recs.iter().map(|r| hex(r)).collect::<Vec<_>>().join(" ")),
        &outs.join(" "),
        nontrivial,
    );
}

fn sc_tok(s: &Scancode) -> String {
    let b = |b: &ButtonState| if *b == ButtonState::Pressed { "p" } else { "r" };
    match s {
        Scancode::Slew(v) => format!("slew:{}", v),
        Scancode::Arm(v) => format!("arm:{}", v),
        Scancode::Attachment(v) => format!("attachment:{}", v),
        Scancode::Boom(v) => format!("boom:{}", v),
        Scancode::LeftTrack(v) => format!("left:{}", v),
        Scancode::RightTrack(v) => format!("right:{}", v),
        Scancode::Abort(x) => format!("abort:{}", b(x)),
        Scancode::Confirm(x) => format!("confirm:{}", b(x)),
        Scancode::DriveLock(x) => format!("drivelock:{}", b(x)),
        Scancode::LimitMotion(x) => format!("limit:{}", b(x)),
        Scancode::Up(x) => format!("up:{}", b(x)),
        Scancode::Down(x) => format!("down:{}", b(x)),
        _ => "other".into(),
    }
}

fn st_case(out: &mut Out, d: bool, m: bool, l: bool, rpm: u16, mk: &dyn Fn() -> Scancode) {
    let mut st = InputState { drive_lock: d, motion_lock: m, limit_motion: l, engine_rpm: rpm };
    let tok = sc_tok(&mk());
    let r = guarded(std::panic::AssertUnwindSafe(|| st.try_from(mk())));
    let o = match r {
        None => "PANIC PANIC".to_string(),
        Some(o) => format!("{}:{}:{}:{} {}", st.drive_lock as u8, st.motion_lock as u8, st.limit_motion as u8, st.engine_rpm, out_tok(&o)),
    };
    out.case(&format!("st {}:{}:{}:{} {}", d as u8, m as u8, l as u8, rpm, tok), &o, true);
}

// ------------------------------------------------------------------------------------------- stub daemon
fn bins_dir() -> String {
    std::env::var("VERIF_BINS").unwrap_or_else(|_| "/verif/.cache/target-repo/debug".into())
}

fn read_exact_timeout(s: &mut std::os::unix::net::UnixStream, n: usize) -> Option<Vec<u8>> {
    let mut buf = vec![0u8; n];
    s.read_exact(&mut buf).ok()?;
    Some(buf)
}

/// Run `glonaxctl <sub> <word>` against a stub daemon announcing `version`; returns the bytes the client
/// wrote after the handshake, or None if the binary is missing.
fn cli_run(dir: &std::path::Path, sub: &str, word: &str, version: (u8, u8, u8)) -> Option<Vec<u8>> {
    cli_run_args(dir, &[sub, "--", word], version)
}

fn cli_run_args(dir: &std::path::Path, args: &[&str], version: (u8, u8, u8)) -> Option<Vec<u8>> {
    cli_run_ident(dir, args, version, "stub", "S")
}

/// … against a daemon whose identity record carries this model and serial number (any identity of a compatible daemon is
/// a compatible daemon)
fn cli_run_ident(dir: &std::path::Path, args: &[&str], version: (u8, u8, u8), model: &str, serial: &str) -> Option<Vec<u8>> {
    let sock = dir.join("d.sock");
    let _ = std::fs::remove_file(&sock);
    let listener = UnixListener::bind(&sock).ok()?;
    let conf = dir.join("glonax.conf");
    std::fs::write(&conf, format!("[unix_listener]\npath = \"{}\"\n", sock.display())).ok()?;
    let exe = format!("{}/glonaxctl", bins_dir());
    if !std::path::Path::new(&exe).exists() {
        return None;
    }
    let mut child = std::process::Command::new(exe)
        .arg("-c").arg(&conf).arg("-s").arg(&sock).args(args)
        .stdout(std::process::Stdio::null()).stderr(std::process::Stdio::null())
        .spawn().ok()?;
    listener.set_nonblocking(false).ok()?;
    let (mut s, _) = listener.accept().ok()?;
    s.set_read_timeout(Some(Duration::from_secs(5))).ok()?;
    // handshake: session frame in, instance frame out
    let hdr = read_exact_timeout(&mut s, 10)?;
    let len = ((hdr[5] as usize) << 8) | hdr[6] as usize;
    let _name = read_exact_timeout(&mut s, len)?;
    // the identity record written out by hand: id(16) type(1) version(3) model-length(2) model serial-length(2) serial
    let mut inst = vec![0xD5u8; 16];
    inst.extend_from_slice(&[1, version.0, version.1, version.2]);
    inst.extend_from_slice(&(model.len() as u16).to_be_bytes());
    inst.extend_from_slice(model.as_bytes());
    inst.extend_from_slice(&(serial.len() as u16).to_be_bytes());
    inst.extend_from_slice(serial.as_bytes());
    s.write_all(&sess::frame(0x15, &inst)).ok()?;
    let mut rest = vec![];
    let _ = s.read_to_end(&mut rest);
    let _ = child.wait();
    Some(rest)
}

/// Run the real glonax-input on a FIFO of js_event records against a stub daemon; returns (session flags, bytes sent after the handshake).
fn input_e2e(dir: &std::path::Path, mode: &str, full_motion: bool, recs: &[[u8; 8]], one_write: bool) -> Option<(u8, Vec<u8>)> {
    let sock = dir.join("i.sock");
    let fifo = dir.join("js0");
    let _ = std::fs::remove_file(&sock);
    let _ = std::fs::remove_file(&fifo);
    let listener = UnixListener::bind(&sock).ok()?;
    let conf = dir.join("glonax.conf");
    std::fs::write(&conf, format!("[unix_listener]\npath = \"{}\"\n", sock.display())).ok()?;
    let cfifo = std::ffi::CString::new(fifo.to_str()?).ok()?;
    if unsafe { libc::mkfifo(cfifo.as_ptr(), 0o600) } != 0 {
        return None;
    }
    let exe = format!("{}/glonax-input", bins_dir());
    if !std::path::Path::new(&exe).exists() {
        return None;
    }
    let mut cmd = std::process::Command::new(exe);
    cmd.arg("-c").arg(&conf).arg("-s").arg(&sock).arg("-m").arg(mode).arg("--quiet");
    if full_motion {
        cmd.arg("--full-motion");
    }
    cmd.arg(&fifo).stdout(std::process::Stdio::null()).stderr(std::process::Stdio::null());
    let mut child = cmd.spawn().ok()?;
    // the daemon opens the FIFO for reading first; open the write end (blocks until then)
    let mut w = std::fs::OpenOptions::new().write(true).open(&fifo).ok()?;
    let (mut s, _) = listener.accept().ok()?;
    s.set_read_timeout(Some(Duration::from_millis(1500))).ok()?;
    let hdr = read_exact_timeout(&mut s, 10)?;
    let len = ((hdr[5] as usize) << 8) | hdr[6] as usize;
    let sess_payload = read_exact_timeout(&mut s, len)?;
    let inst = glonax::core::Instance::new("d55bcd75-8d30-49af-ac18-ee7cbce7822f", "stub", glonax::core::MachineType::Excavator, (3, 5, 0), "S");
    use glonax::protocol::Packetize;
    s.write_all(&sess::frame(0x15, &inst.to_bytes())).ok()?;
    if one_write {
        // all records in the reader's buffer at once (a burst: at most 4096 bytes go into the FIFO atomically)
        let all: Vec<u8> = recs.iter().flat_map(|r| r.iter().copied()).collect();
        for chunk in all.chunks(4096) {
            w.write_all(chunk).ok()?;
        }
    } else {
        for r in recs {
            w.write_all(r).ok()?;
        }
    }
    w.flush().ok()?;
    // closing the FIFO makes next_event fail with EOF: the process exits and closes the socket
    drop(w);
    let mut rest = vec![];
    let _ = s.read_to_end(&mut rest);
    let _ = child.kill();
    let _ = child.wait();
    Some((sess_payload[0], rest))
}

/// The same with a daemon whose socket appears only `late_ms` after glonax-input was started (a boot-order race). Returns
/// None if the set-up failed, Some(None) if glonax-input never registered a session (it may simply give up), otherwise the
/// session flags and what was sent after the handshake.
fn input_e2e_late(dir: &std::path::Path, mode: &str, recs: &[[u8; 8]], late_ms: u64, explicit_failsafe: bool) -> Option<Option<(u8, Vec<u8>)>> {
    use std::os::unix::fs::OpenOptionsExt;
    let sock = dir.join("late.sock");
    let fifo = dir.join("js1");
    let _ = std::fs::remove_file(&sock);
    let _ = std::fs::remove_file(&fifo);
    let conf = dir.join("glonax-late.conf");
    std::fs::write(&conf, format!("[unix_listener]\npath = \"{}\"\n", sock.display())).ok()?;
    let cfifo = std::ffi::CString::new(fifo.to_str()?).ok()?;
    if unsafe { libc::mkfifo(cfifo.as_ptr(), 0o600) } != 0 {
        return None;
    }
    let exe = format!("{}/glonax-input", bins_dir());
    if !std::path::Path::new(&exe).exists() {
        return None;
    }
    let mut cmd = std::process::Command::new(exe);
    cmd.arg("-c").arg(&conf).arg("-s").arg(&sock).arg("-m").arg(mode).arg("--quiet");
    if explicit_failsafe {
        cmd.arg("-f");
    }
    cmd.arg(&fifo).stdout(std::process::Stdio::null()).stderr(std::process::Stdio::null());
    // both ends of the FIFO held here: opening never blocks, whether or not glonax-input ever opens its end
    let mut w = std::fs::OpenOptions::new().read(true).write(true).custom_flags(libc::O_NONBLOCK).open(&fifo).ok()?;
    let mut child = cmd.spawn().ok()?;
    std::thread::sleep(Duration::from_millis(late_ms));
    let listener = UnixListener::bind(&sock).ok()?;
    listener.set_nonblocking(true).ok()?;
    let t = std::time::Instant::now();
    let mut conn = None;
    // up to 8 s, or until glonax-input has given up
    while t.elapsed() < Duration::from_secs(8) {
        if let Ok((s, _)) = listener.accept() {
            conn = Some(s);
            break;
        }
        if let Ok(Some(_)) = child.try_wait() {
            // one last look: a connection made just before it exited
            if let Ok((s, _)) = listener.accept() {
                conn = Some(s);
            }
            break;
        }
        std::thread::sleep(Duration::from_millis(10));
    }
    let mut s = match conn {
        Some(s) => s,
        None => {
            let _ = child.kill();
            let _ = child.wait();
            return Some(None);
        }
    };
    s.set_nonblocking(false).ok()?;
    s.set_read_timeout(Some(Duration::from_millis(1500))).ok()?;
    let r = (|| {
        let hdr = read_exact_timeout(&mut s, 10)?;
        let len = ((hdr[5] as usize) << 8) | hdr[6] as usize;
        let sess_payload = read_exact_timeout(&mut s, len)?;
        let inst = glonax::core::Instance::new("d55bcd75-8d30-49af-ac18-ee7cbce7822f", "stub", glonax::core::MachineType::Excavator, (3, 5, 0), "S");
        use glonax::protocol::Packetize;
        s.write_all(&sess::frame(0x15, &inst.to_bytes())).ok()?;
        let all: Vec<u8> = recs.iter().flat_map(|r| r.iter().copied()).collect();
        w.write_all(&all).ok()?;
        std::thread::sleep(Duration::from_millis(300));
        Some(sess_payload[0])
    })();
    let _ = child.kill();
    let _ = child.wait();
    drop(w);
    let mut rest = vec![];
    let _ = s.read_to_end(&mut rest);
    r.map(|flags| Some((flags, rest)))
}

pub fn run(out: &mut Out, tier: &str, rng: &mut Rng) {
    let thorough = tier == "thorough";
    out.rule = "st: every reachable interlock state (drive lock x motion lock x limit x engine rpm in {0,900..2100 step 100} = 112 states) x every scancode with boundary and random axis values (thorough: all 65536 values per axis on a state sample) through the real InputState::try_from; ev: raw js_event records (4 record types x every number 0..255 x boundary values incl. -32768) and random sequences of up to 500 records through the real Event::from -> map -> try_from pipeline in all four modes with/without full motion; cli: the real glonaxctl binary, every toggle sub-command x accepted words in mixed case x rejected words x compatible/incompatible stub daemon. Non-trivial = all".into();
    let values: Vec<i16> = {
        let mut v = vec![0i16, 1, -1, 999, 1000, 1001, -999, -1000, -1001, 1499, 1500, 1749, 1750, 1999, 2000, 2001, -2000, 3499, 3500, -3500, -3499, 3999, 4000, 7999, 8000, 32766, 32767, -32767, -32768, 16384, -16384];
        for _ in 0..(if thorough { 400 } else { 40 }) {
            v.push(rng.next() as i16);
        }
        v
    };
    // ---- st: all reachable states x scancodes
    let rpms: Vec<u16> = std::iter::once(0u16).chain((9..=21).map(|k| k * 100)).collect();
    for d in [false, true] {
        for m in [false, true] {
            for l in [false, true] {
                for &rpm in &rpms {
                    for &v in &values {
                        st_case(out, d, m, l, rpm, &|| Scancode::Slew(v));
                        st_case(out, d, m, l, rpm, &|| Scancode::Arm(v));
                        st_case(out, d, m, l, rpm, &|| Scancode::Attachment(v));
                        st_case(out, d, m, l, rpm, &|| Scancode::Boom(v));
                        st_case(out, d, m, l, rpm, &|| Scancode::LeftTrack(v));
                        st_case(out, d, m, l, rpm, &|| Scancode::RightTrack(v));
                    }
                    for pressed in [true, false] {
                        let b = move || if pressed { ButtonState::Pressed } else { ButtonState::Released };
                        st_case(out, d, m, l, rpm, &|| Scancode::Abort(b()));
                        st_case(out, d, m, l, rpm, &|| Scancode::Confirm(b()));
                        st_case(out, d, m, l, rpm, &|| Scancode::DriveLock(b()));
                        st_case(out, d, m, l, rpm, &|| Scancode::LimitMotion(b()));
                        st_case(out, d, m, l, rpm, &|| Scancode::Up(b()));
                        st_case(out, d, m, l, rpm, &|| Scancode::Down(b()));
                    }
                }
            }
        }
    }
    out.count_n("st cases", out.cases);
    if thorough {
        for v in i16::MIN..=i16::MAX {
            for (d, m, l, rpm) in [(false, false, true, 0u16), (true, false, false, 1500)] {
                st_case(out, d, m, l, rpm, &|| Scancode::Slew(v));
                st_case(out, d, m, l, rpm, &|| Scancode::Arm(v));
                st_case(out, d, m, l, rpm, &|| Scancode::Attachment(v));
                st_case(out, d, m, l, rpm, &|| Scancode::Boom(v));
                st_case(out, d, m, l, rpm, &|| Scancode::LeftTrack(v));
            }
        }
    }
    // ---- ev: record types x numbers x boundary values; unlock first so that axis values are visible
    let unlock = [record(1, 1, 1, 0), record(1, 1, 0, 1)];
    for mode in MODES {
        for fm in [false, true] {
            for ty in [1u8, 2, 0x81, 0x82] {
                for number in 0..=255u8 {
                    if !thorough && number > 12 && number % 37 != 0 {
                        continue;
                    }
                    for &v in &[0i16, 1, -1, 20000, -20000, 32767, -32767, -32768] {
                        let mut recs = unlock.to_vec();
                        recs.push(record(ty, number, v, 2));
                        recs.push(record(2, 0, 12000, 3));
                        ev_case(out, mode, fm, &recs, true);
                        out.count(&format!("ev type {:#x}", ty));
                    }
                }
            }
            // random sequences
            for _ in 0..(if thorough { 400 } else { 40 }) {
                let n = 1 + rng.below(500) as usize;
                let recs: Vec<[u8; 8]> = (0..n)
                    .map(|i| {
                        let ty = *rng.pick(&[1u8, 1, 2, 2, 2, 0x81, 0x82]);
                        let number = if rng.chance(9, 10) { rng.below(8) as u8 } else { rng.byte() };
                        let v = if ty & 1 == 1 { rng.below(2) as i16 } else { *rng.pick(&values) };
                        record(ty, number, v, i as u32)
                    })
                    .collect();
                ev_case(out, mode, fm, &recs, true);
                out.count("ev random sequence");
            }
        }
    }
    // ---- cli: the real binary against a stub daemon
    let dir = std::path::PathBuf::from(format!("/verif/.cache/c18/{}", std::process::id()));
    let _ = std::fs::create_dir_all(&dir);
    let subs = ["motion-lock", "hydraulic-quick-disconnect", "hydraulic-lock", "hydraulic-boost", "hydraulic-boom-conflux", "hydraulic-arm-conflux", "hydraulic-boom-float", "illumination", "lights", "horn", "strobe-light", "travel-alarm"];
    let words_ok = ["1", "on", "true", "0", "off", "false", "ON", "On", "TRUE", "tRuE", "OFF", "False"];
    let words_bad = ["", "2", "yes", "no", "maybe", "onn", " on", "o n", "-1", "ｏｎ", "enable", "00", "01"];
    let mut missing = false;
    'outer: for (si, sub) in subs.iter().enumerate() {
        let mut words: Vec<&str> = vec![];
        words.extend(words_ok.iter().filter(|_| thorough || true));
        words.extend(words_bad.iter());
        for (wi, w) in words.iter().enumerate() {
            if !thorough && (wi + si) % 3 != 0 && wi >= 6 {
                continue;
            }
            // the daemon's version relative to the client's (major.minor of the runtime): same, other patch, older and
            // NEWER minor, older and newer major
            let (vmaj, vmin): (u8, u8) = (glonax::consts::VERSION_MAJOR.parse().unwrap(), glonax::consts::VERSION_MINOR.parse().unwrap());
            let versions = [
                (true, (vmaj, vmin, 0u8)),
                (true, (vmaj, vmin, 255)),
                (false, (vmaj, vmin.wrapping_sub(1), 13)),
                (false, (vmaj, vmin.wrapping_add(1), 0)),
                (false, (vmaj, 255, 255)),
                (false, (vmaj.wrapping_sub(1), vmin, 13)),
                (false, (vmaj.wrapping_add(1), vmin, 13)),
            ];
            for (vi, (compat, ver)) in versions.into_iter().enumerate() {
                if !compat && !thorough && (wi + si + vi) % 4 != 0 {
                    continue;
                }
                match cli_run(&dir, sub, w, ver) {
                    None => {
                        missing = true;
                        break 'outer;
                    }
                    Some(bytes) => {
                        out.count(&format!("cli {}", if compat { "compatible" } else { "incompatible" }));
                        out.case(&format!("cli {} {} {}", sub, hex(w.as_bytes()), compat as u8), &hex(&bytes), true);
                    }
                }
            }
        }
    }
    // ---- the sub-commands without an on/off word: engine <rpm> (speeds at and around every bound anything downstream uses),
    // engine-shutdown, machine-shutdown, to a compatible and to an incompatible daemon
    if !missing {
        let mut plain: Vec<Vec<String>> = vec![vec!["engine-shutdown".into()], vec!["machine-shutdown".into()]];
        for rpm in [0u16, 1, 799, 800, 899, 900, 901, 1500, 2099, 2100, 2101, 2200, 2201, 65535] {
            plain.push(vec!["engine".into(), rpm.to_string()]);
        }
        for ver in [(3u8, 5u8, 0u8), (3, 6, 0)] {
            let compat = ver == (3, 5, 0);
            for a in &plain {
                if !compat && a.len() == 2 && a[1] != "1500" {
                    continue;
                }
                let refs: Vec<&str> = a.iter().map(|x| x.as_str()).collect();
                match cli_run_args(&dir, &refs, ver) {
                    None => out.note("glonaxctl plain sub-command run could not be set up".into()),
                    Some(bytes) => {
                        out.count("cli plain sub-command");
                        out.case(&format!("cli2 {} {} {}", a[0], if a.len() == 2 { a[1].clone() } else { "-".into() }, compat as u8), &hex(&bytes), true);
                    }
                }
            }
        }
    }
    // ---- whatever the compatible daemon's identity looks like (empty / long / multi-byte model and serial number), the command
    // is sent
    if !missing {
        let long = "x".repeat(300);
        for (model, serial) in [("", ""), ("", "S"), ("M", ""), ("LE240", "0.00000.0.00000"), (long.as_str(), "é"), ("挖掘机", long.as_str())] {
            match cli_run_ident(&dir, &["horn", "--", "on"], (3, 5, 0), model, serial) {
                None => out.note("glonaxctl identity run could not be set up".into()),
                Some(bytes) => {
                    out.count("cli against daemons of varying identity");
                    out.case(&format!("cli horn {} 1", hex("on".as_bytes())), &hex(&bytes), true);
                }
            }
        }
    }
    // ---- e2e: the real glonax-input reading a FIFO (start-up state, failsafe registration, forwarding)
    if !missing {
        for mode in MODES {
            for fm in [false, true] {
                // quick: one short run per mode (start-up state and the session it registers); thorough: 4 x 2 longer ones
                if !thorough && fm {
                    continue;
                }
                for rep in 0..(if thorough { 4 } else { 1 }) {
                    let n = if thorough { 20 + rng.below(120) as usize } else { 12 };
                    let mut recs: Vec<[u8; 8]> = vec![];
                    if rep % 2 == 1 {
                        recs.push(record(1, 1, 1, 0));
                        recs.push(record(1, 1, 0, 0));
                    }
                    for i in 0..n {
                        let ty = *rng.pick(&[1u8, 1, 2, 2, 2, 0x81, 0x82]);
                        let mut number = rng.below(8) as u8;
                        // rep 0 and 2: the Abort button (1) is never touched, so the start-up lock must hold throughout
                        if rep % 2 == 0 && ty & 0x7F == 1 && number == 1 {
                            number = 0;
                        }
                        let v = if ty & 1 == 1 { rng.below(2) as i16 } else { *rng.pick(&values) };
                        recs.push(record(ty, number, v, i as u32));
                    }
                    match input_e2e(&dir, mode, fm, &recs, rep % 2 == 1) {
                        Some((flags, bytes)) => {
                            out.count("e2e glonax-input");
                            out.case(&format!("e2e {} {} {}", mode, fm as u8, recs.iter().map(|r| hex(r)).collect::<Vec<_>>().join(" ")), &format!("{} {}", flags, hex(&bytes)), true);
                        }
                        None => out.note("glonax-input end-to-end run could not be set up".into()),
                    }
                }
            }
        }
    }
    // a burst: every button pressed with a sample of the axis of the SAME number right behind it in the reader's buffer
    // (the reader may not merge, reorder or drop records: what is forwarded is what the record sequence says)
    if !missing {
        for mode in MODES {
            let mut recs: Vec<[u8; 8]> = vec![record(1, 1, 1, 0), record(1, 1, 0, 1)];
            for ax in 0..6u8 {
                recs.push(record(2, ax, 10_000, 2 + ax as u32));
            }
            for b in 0..8u8 {
                recs.push(record(1, b, 1, 10 + b as u32));
                recs.push(record(2, b, 10_050 + b as i16, 20 + b as u32));
                recs.push(record(1, b, 0, 30 + b as u32));
                recs.push(record(2, b, 10_100, 40 + b as u32));
                recs.push(record(2, b, -10_100, 50 + b as u32));
            }
            match input_e2e(&dir, mode, false, &recs, true) {
                Some((flags, bytes)) => {
                    out.count("e2e glonax-input burst");
                    out.case(&format!("e2e {} {} {}", mode, 0, recs.iter().map(|r| hex(r)).collect::<Vec<_>>().join(" ")), &format!("{} {}", flags, hex(&bytes)), true);
                }
                None => out.note("glonax-input end-to-end run could not be set up".into()),
            }
        }
    }
    // the daemon comes up AFTER glonax-input was started: whatever glonax-input does about that (give up, or wait and connect),
    // a session it registers is a failsafe session
    if !missing {
        for (k, late_ms) in [(0usize, 300u64), (1, 1200)] {
            let recs: Vec<[u8; 8]> = vec![record(1, 1, 1, 0), record(1, 1, 0, 1), record(2, 0, 10_000, 2)];
            let mode = MODES[k % 4];
            match input_e2e_late(&dir, mode, &recs, late_ms, k == 1) {
                Some(Some((flags, bytes))) => {
                    out.count("e2e glonax-input, daemon late: connected");
                    out.case(&format!("e2e {} 0late {}", mode, recs.iter().map(|r| hex(r)).collect::<Vec<_>>().join(" ")), &format!("{} {}", flags, hex(&bytes)), true);
                }
                Some(None) => {
                    out.count("e2e glonax-input, daemon late: gave up");
                    out.case(&format!("e2e {} 0late {}", mode, recs.iter().map(|r| hex(r)).collect::<Vec<_>>().join(" ")), "NOCONN", true);
                }
                None => out.note("glonax-input end-to-end run (late daemon) could not be set up".into()),
            }
        }
    }
    if missing {
        out.note("glonaxctl binary not found: the cli block was NOT run".into());
        out.case("cli MISSING-BINARY x 1", "-", false);
    }
    let _ = std::fs::remove_dir_all(&dir);
}
