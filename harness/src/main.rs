//! Correspondence harness: runs the REAL Glonax code in-process and writes one line per case
//! (`<prop> <input tokens> => <observed output tokens>`) for the Lean model driver.
mod util;
#[allow(dead_code)]
#[path = "/repo/glonax-input/src/input.rs"]
mod input;
#[allow(dead_code)]
#[path = "/repo/glonax-input/src/joystick.rs"]
mod joystick;
#[allow(dead_code)]
#[path = "/repo/glonax-input/src/gamepad.rs"]
mod gamepad;
mod fmt;
mod bus;
mod auth;
mod authgen;
#[allow(dead_code)]
#[path = "/repo/glonax-server/src/config.rs"]
mod server_config;
mod c01;
mod c02;
mod c03;
mod c04;
mod c05;
mod c14;
mod c15;
mod c16;
mod sess;
mod sessgen;
mod c07;
mod c09;
mod drv;
pub mod c13;
mod c17;
mod c18;
mod c19;
mod hs;
mod dirrt;

use util::*;

fn run_c01(out: &mut Out, tier: &str, rng: &mut Rng) {
    // an accepted command must REACH the network's handler: bursts written back to back by a client, through the real
    // session, command channel and command task; the newest commands (the final stop-all) are handled afterwards
    for burst in [1usize, 16, 17, 40] {
        c15::via_session(out, 1, burst);
    }
    c01::run(out, tier, rng);
    authgen::run_c01_auth(out, tier, rng);
    out.rule.push_str("; authority level: real NetworkAuthority (recv / tick / command clones) with 1-2 hydraulic units whose timeouts are absent / expired / far away: random histories of motion commands, cycles, the unit's own status frames, foreign frames and engine commands");
    out.rule.push_str("; bursts of 1/16/17/40 client frames + a final stop-all through the real session, command channel and command task; authority configurations include the engine driver and other units of the shipped network");
}

const AUTH_NOTE: &str = "; authority level: random configurations of known units under the real NetworkAuthority (receive / tick / command clones), random histories of unit frames, the same frames from foreign nodes, random frames, cycles, motion and engine commands, compared event by event with the authority model";

fn run_c02(out: &mut Out, tier: &str, rng: &mut Rng) {
    // a network with SEVERAL hydraulic units (and the other units of the shipped network): a command reaches every one of
    // them, correctly addressed (the authority histories of C01)
    authgen::run_c01_auth(out, tier, rng);
    // an accepted command must REACH the network's handler: bursts written back to back by a client, through the real
    // session, command channel and command task; the newest commands (the final stop-all) are handled afterwards
    for burst in [1usize, 16, 17, 40] {
        c15::via_session(out, 1, burst);
    }
    // ... also a command accepted before the network's tasks have first run, and after a large frame the session skips
    c15::early(out);
    for between in [257usize, 700, 1024] {
        c15::via_session_between(out, 3, between);
    }
    c02::run(out, tier, rng);
    authgen::run_generic_auth(out, tier, rng, "motion frames");
    out.rule.push_str(AUTH_NOTE);
    out.rule.push_str("; the C01 authority histories (1-2 hydraulic units + other units); client bursts through the real command task");
}

fn run_c07(out: &mut Out, tier: &str, rng: &mut Rng) {
    c07::run(out, tier, rng);
    // the governor as the engine driver applies it (which reported status, which command, WHICH AGE it is handed on every
    // cycle): the driver-level histories of C08
    drv::run_c08(out, tier, rng);
    out.rule.push_str("; 33 (quick) / 213 (thorough) further (idle,max,timeout) envelopes off every grid with requested speeds at and around their bounds; the driver-level histories of C08 (which status, command and AGE the Volvo driver hands the governor)");
}

fn run_c08(out: &mut Out, tier: &str, rng: &mut Rng) {
    drv::run_c08(out, tier, rng);
    authgen::run_generic_auth(out, tier, rng, "engine frames");
    out.rule.push_str(AUTH_NOTE);
}

fn run_c11(out: &mut Out, tier: &str, rng: &mut Rng) {
    drv::run_c11(out, tier, rng);
    authgen::run_generic_auth(out, tier, rng, "attribution");
    authgen::run_transport_timed(out);
    out.rule.push_str(AUTH_NOTE);
}

fn run_c12(out: &mut Out, tier: &str, rng: &mut Rng) {
    // every kind of unit frame cut to every DLC, each followed by the same frame written out with its 0xFF padding, through
    // the real network and authority: what is decoded from the short frame is what is decoded from the padded one
    authgen::run_c06_auth(out, tier, rng);
    drv::run_c12(out, tier, rng);
    authgen::run_generic_auth(out, tier, rng, "decoding");
    out.rule.push_str(AUTH_NOTE);
    out.rule.push_str("; every unit frame cut to every DLC followed by the same frame with its 0xFF padding written out, through the real network and authority; unit frames arrive short (DLC 0..7) one time in six in every authority history");
}

fn run_c15(out: &mut Out, tier: &str, rng: &mut Rng) {
    c15::run(out, tier, rng);
    // the consumer at the end of the bus: an accepted command reaches the units (heard or silent) of the real authority
    authgen::run_c01_auth(out, tier, rng);
    // the producer in front of the bus that is not a client: the real Director under the real runtime (its commands reach the
    // network's command task, also after its signal receiver was overrun and the runtime re-entered it)
    c09::run_runtime(out, tier, rng);
    out.rule.push_str("; consumer side: the real NetworkAuthority with hydraulic units whose timeouts are absent / expired / far away handles every accepted motion command (frames to every unit at acceptance and on the following cycles)");
    out.rule.push_str("; 1/2/3/5 clients connected at once through the real UnixServer (accept loop included); sessions overrun by 17/40/100 published signals before their first frame; the real Director under the real Runtime as the non-client producer (signal groups incl. groups longer than the signal queue)");
}

fn run_c14(out: &mut Out, tier: &str, rng: &mut Rng) {
    c14::run(out, tier, rng);
    // "other sessions are not blocked": several clients connected at once through the real server (accept loop included); each
    // registers and is served while the others stay connected
    for clients in [2usize, 4] {
        c15::via_server(out, clients);
    }
    // ... also after the server has once had as many sessions as it is meant for (16), all gone again
    c15::via_server_late(out, 16, 2);
    hs::run(out, tier, rng);
    out.rule.push_str("; client half: every ClientBuilder option combination over a Unix socket and over TCP and the four convenience functions against a stub daemon that records flags and name");
}

fn run_c18(out: &mut Out, tier: &str, rng: &mut Rng) {
    c18::run(out, tier, rng);
    hs::run(out, tier, rng);
    out.rule.push_str("; plain sub-commands (engine <rpm> at and around every bound, engine-shutdown, machine-shutdown); compatible daemons of varying identity (empty / long / multi-byte model and serial); the real glonax-input once per control mode in the quick tier too; ClientBuilder through real sockets");
}

fn run_c20(out: &mut Out, tier: &str, rng: &mut Rng) {
    authgen::run_c20(out, tier, rng);
    authgen::run_request_pages(out, tier, rng);
    c16::daemon_c20(out, tier, rng);
    out.rule.push_str("; requests to the own address for every PDU2 number and PDU1 format on data pages 0..3, every third-byte value, DLC 2/1/0, and the served groups from every source address 0..255; the REAL glonaxd on generated configurations (1-3 networks, driver lists of 0..3 entries incl. empty and unknown): address claim at start-up and answers to requests per network");
}

fn run_c05(out: &mut Out, tier: &str, rng: &mut Rng) {
    c05::run(out, tier, rng);
    // "the control loop is unaffected": long bursts of well-formed frames written back to back by one client, through the
    // real session, the real command channel and the real command task of every network: the newest commands are still
    // handled afterwards
    for networks in 1..=2usize {
        for burst in [1usize, 8, 15, 16, 17, 18, 33, 64] {
            c15::via_session(out, networks, burst);
        }
    }
    // "other sessions are unaffected": several clients connected AT ONCE to the real server (its accept loop included), each is
    // served while the others stay connected
    for clients in [2usize, 3] {
        c15::via_server(out, clients);
    }
    c15::via_server_late(out, 16, 1);
    out.rule.push_str("; bursts of 1..64 well-formed frames through the real session, command channel and command task of 1-2 networks; 2 and 3 clients connected at once through the real UnixServer");
}

fn run_c09(out: &mut Out, tier: &str, rng: &mut Rng) {
    c09::run(out, tier, rng);
    c09::run_runtime(out, tier, rng);
    c16::daemon_c09(out, tier);
    out.rule.push_str("; every history runs under the real Runtime (Director scheduled with schedule_io_sub_service, signals through the runtime's channel, commands taken behind the real command task); signal groups incl. groups of 17..40 that overrun the director's receiver");
}

fn run_c10(out: &mut Out, tier: &str, rng: &mut Rng) {
    authgen::run_c10(out, tier, rng);
    authgen::run_c10_foreign(out, tier, rng);
    authgen::run_c10_timed(out, tier, rng);
    authgen::run_transport_timed(out);
    out.rule.push_str("; every inspected parameter group from four foreign addresses per unit kind, each followed by a cycle; unknown configuration entries with their own timeouts between the units; real-time histories in the quick tier too (timeout 300 ms, silences of 450 ms, the unit repeating the same frame)");
}

fn run_c06(out: &mut Out, tier: &str, rng: &mut Rng) {
    drv::run_c06(out, tier, rng);
    authgen::run_c06_auth(out, tier, rng);
    authgen::run_c06_requests(out, tier, rng);
    authgen::run_c06_sources(out, tier, rng);
    authgen::run_c06_engine_speeds(out, tier, rng);
    authgen::run_c06_long_silence(out, tier);
    for ms in if tier == "thorough" { vec![301u64, 1000, 3000, 6000] } else { vec![301u64, 1200] } {
        c16::concurrent_stress(out, ms);
    }
    out.rule.push_str("; authority level: raw can_frames with every DLC 0..8 injected into the real NetworkAuthority::recv on the emulated bus, followed by a cycle and commands whose frames must still appear");
    out.rule.push_str("; Request frames for EVERY group number of data page 0 (thorough: all 2^18) to the own / broadcast / another address, pages 0..3 and third-byte values to the own address; every inspected group from every source address 0..255 through the authority; a concurrent flood (bus + command channel, multi-thread executor, ticks every 50 us / 1 ms) followed by liveness probes of the receive, tick and command tasks");
}

fn main() {
    let args: Vec<String> = std::env::args().collect();
    if args.len() < 5 {
        eprintln!("usage: harness <prop> <tier> <seed> <out-file>");
        std::process::exit(2);
    }
    let prop = args[1].as_str();
    let tier = args[2].as_str();
    let seed: u64 = args[3].parse().unwrap_or(0);
    let path = args[4].as_str();
    std::env::set_var("RUST_BACKTRACE", "0");
    silence_panics();
    log_everything();
    // C10 waits for real (up to a few seconds per case); everything else completes a case in milliseconds
    start_watchdog(path, 180);
    let mut rng = Rng::new(seed);
    let f: fn(&mut Out, &str, &mut Rng) = match prop {
        "C01" => run_c01,
        "C02" => run_c02,
        "C03" => c03::run,
        "C04" => c04::run,
        "C05" => run_c05,
        "C14" => run_c14,
        "C06" => run_c06,
        "C07" => run_c07,
        "C08" => run_c08,
        "C09" => run_c09,
        "C10" => run_c10,
        "C11" => run_c11,
        "C19" => c19::run,
        "C20" => run_c20,
        "C12" => run_c12,
        "C13" => c13::run,
        "C15" => run_c15,
        "C16" => c16::run,
        "C17" => c17::run,
        "C18" => run_c18,
        _ => {
            eprintln!("unknown property {}", prop);
            std::process::exit(2);
        }
    };
    let name: &'static str = Box::leak(prop.to_string().into_boxed_str());
    let mut out = Out::new(name, path);
    f(&mut out, tier, &mut rng);
    // generators added in rounds 13-15 (see DESIGN.md 9.7), per property
    out.rule.push_str(match prop {
        "C01" | "C02" | "C10" | "C11" | "C15" => "; rounds 13-15: network-management and transport traffic in the authority histories (claims for the daemon's own address with the lowest / highest / random NAME, TP.CM_BAM announcements, TP.DT packets from the unit, a stranger and the own address), a timed transport history (C10, C11); commands right after scheduling and after a skipped large frame (C02, C15); 16/17 clients at once through the real server, then late ones (C15)",
        "C03" | "C04" | "C05" => "; rounds 13-15: a frame stalled mid-payload while 0..40 signals are published (C03, C05); death inside upgrade frames with 257..1024-byte payloads (C03); the session on a paused clock advanced by 50 ms .. 1 h between the parts of a frame (C04, C05); every log record also passes through the real SystemdLogger; 16 clients at once then a late one (C05)",
        "C06" => "; rounds 13-15: every engine speed 0..8031 rpm x starter nibbles through the authority; thorough only: 66 s of real silence between two frames of a unit",
        "C08" => "; rounds 13-15: simulated command ages of 64 s, 66 s and 131.5 s in the Volvo driver histories",
        "C09" => "; rounds 13-15: 5.3 s (thorough: also 11 s, tilt) of real silence while an emergency is pending",
        "C13" => "; rounds 13-15: the session constructor under a guard with the caller's name as the input (names with a multi-byte character across byte 64); a gather-capable sink (poll_write_vectored) with byte budgets 1..64 per call",
        "C14" => "; rounds 13-15: 16 clients at once through the real server, then late ones",
        "C16" => "; rounds 13-15: the daemon's socket file removed before the termination request",
        "C17" => "; rounds 13-15: every constructor and setter of a filter entry x boundary values, Filter::default; frx: a skipped frame then a passed frame waiting on a filtered network, one recv, the delivered frame observed",
        "C18" => "; rounds 13-15: the real glonax-input fed bursts in ONE write (every button followed by a sample of the axis with the same number); a stub daemon whose socket appears 300 / 1200 ms after glonax-input was started",
        "C19" => "; rounds 13-15: every segment mutator (set_location, add_location, set_rotation, add_rotation) in random order after construction",
        "C20" => "; rounds 13-15: the real glonaxd in every operating mode and with --pilot-only, the set-up requests to every configured unit observed",
        _ => "",
    });
    out.finish();
    bus::cleanup();
}
