//! C02: Motion command -> frames of the real HydraulicControlUnit, decoded by the real from_frame.
use crate::fmt;
use crate::util::*;
use glonax::core::{Motion, Object};
use glonax::driver::net::hydraulic::ActuatorMessage;
use glonax::driver::HydraulicControlUnit;
use glonax::runtime::{J1939Unit, NetDriverContext};

/// the wire form of a motion command as a client writes it (by hand, not through the encoder under test)
fn motion_wire(m: &Motion) -> Vec<u8> {
    match m {
        Motion::StopAll => vec![0x00],
        Motion::ResumeAll => vec![0x01],
        Motion::ResetAll => vec![0x02],
        Motion::StraightDrive(v) => {
            let b = v.to_be_bytes();
            vec![0x05, b[0], b[1]]
        }
        Motion::Change(c) => {
            let mut p = vec![0x10, c.len() as u8];
            for cs in c {
                p.extend_from_slice(&(cs.actuator as u16).to_be_bytes());
                p.extend_from_slice(&cs.value.to_be_bytes());
            }
            p
        }
    }
}

fn one(out: &mut Out, da: u8, sa: u8, m: &Motion) {
    one_obj(out, da, sa, m, Some(m.clone()));
    // the same command as it ARRIVES: decoded from its wire form by the decoder every client command passes through
    let decoded = guarded(std::panic::AssertUnwindSafe(|| Motion::try_from(motion_wire(m)).ok())).flatten();
    one_obj(out, da, sa, m, decoded);
}

fn one_obj(out: &mut Out, da: u8, sa: u8, m: &Motion, given: Option<Motion>) {
    let given = match given {
        Some(g) => g,
        None => {
            out.case(&format!("{} {} {}", da, sa, fmt::motion(m)), "REJECTED", true);
            return;
        }
    };
    let m = &given;
    let hcu = HydraulicControlUnit::new("vcan0", da, sa);
    let mut ctx = NetDriverContext::default();
    let mut txq = vec![];
    let obj = Object::Motion(m.clone());
    let r = guarded(std::panic::AssertUnwindSafe(|| {
        let _ = hcu.trigger(&mut ctx, &mut txq, &obj);
        txq
    }));
    let input = format!("{} {} {}", da, sa, fmt::motion(m));
    match r {
        None => out.case(&input, "PANIC", true),
        Some(txq) => {
            let mut s = fmt::frames(&txq);
            for f in &txq {
                let dec = ActuatorMessage::from_frame(da, sa, f);
                s.push_str(" D:");
                s.push_str(
                    &dec.actuators.iter().map(|a| a.map_or("n".to_string(), |v| v.to_string())).collect::<Vec<_>>().join(","),
                );
            }
            out.count(match m {
                Motion::StopAll => "stop",
                Motion::ResumeAll => "resume",
                Motion::ResetAll => "reset",
                Motion::StraightDrive(_) => "straight",
                Motion::Change(c) if c.is_empty() => "change-empty",
                Motion::Change(c) if c.len() == 32 => "change-32",
                Motion::Change(_) => "change",
            });
            out.count(&format!("frames={}", txq.len()));
            out.case(&input, &s, !txq.is_empty());
        }
    }
}

pub fn run(out: &mut Out, tier: &str, rng: &mut Rng) {
    let thorough = tier == "thorough";
    out.rule = "real HydraulicControlUnit::trigger on (da,sa,motion); frames decoded with the real ActuatorMessage::from_frame. Blocks: every (da,sa) pair for stop/resume/reset; per actuator all i16 (thorough) or boundary+4096 random (quick) single changes and straight drive; every actuator sequence up to length 3 (quick) / 5 (thorough) incl. duplicates; empty and 32-entry sets; random sets. Non-trivial = at least one frame emitted; distinct by case text".into();
    // all (da, sa) pairs for the three config motions
    for da in 0..=255u8 {
        for sa in 0..=255u8 {
            if thorough || da % 5 == 0 || sa % 7 == 0 || da >= 0xF0 || sa >= 0xF0 {
                for m in [Motion::StopAll, Motion::ResumeAll, Motion::ResetAll] {
                    one(out, da, sa, &m);
                }
            }
        }
    }
    let addr = |rng: &mut Rng| -> (u8, u8) {
        match rng.below(4) {
            0 => (0x4A, 0x27),
            1 => (*rng.pick(&[0u8, 1, 0x7F, 0x80, 0xFE, 0xFF]), *rng.pick(&[0u8, 1, 0x7F, 0x80, 0xFE, 0xFF])),
            _ => (rng.byte(), rng.byte()),
        }
    };
    // single changes per actuator and straight drive
    let values: Vec<i16> = if thorough {
        (i16::MIN..=i16::MAX).collect()
    } else {
        let mut v: Vec<i16> = fmt::BOUNDARY_I16.to_vec();
        for _ in 0..4096 {
            v.push(rng.next() as i16);
        }
        v
    };
    for a in fmt::ACTUATORS {
        for &v in &values {
            let (da, sa) = addr(rng);
            one(out, da, sa, &Motion::new(a, v));
        }
    }
    for &v in &values {
        let (da, sa) = addr(rng);
        one(out, da, sa, &Motion::StraightDrive(v));
    }
    // every sequence of actuators (with duplicates) up to length L
    let maxlen = if thorough { 5 } else { 3 };
    for len in 0..=maxlen {
        let total = 6usize.pow(len as u32);
        for code in 0..total {
            let mut c = code;
            let mut cs = vec![];
            for _ in 0..len {
                cs.push((fmt::ACTUATORS[c % 6], fmt::rand_i16(rng)));
                c /= 6;
            }
            let (da, sa) = addr(rng);
            one(out, da, sa, &cs.into_iter().collect::<Motion>());
        }
    }
    // 32-entry maximum and random sets
    let n_rand = if thorough { 60_000 } else { 4_000 };
    for i in 0..n_rand {
        let (da, sa) = addr(rng);
        let m = if i % 10 == 0 {
            (0..32).map(|_| (*rng.pick(&fmt::ACTUATORS), fmt::rand_i16(rng))).collect::<Motion>()
        } else {
            fmt::rand_motion(rng)
        };
        one(out, da, sa, &m);
    }
}
