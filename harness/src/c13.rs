//! C13: wire codec of the twelve packet types through the real Stream::{send_packet, recv_packet},
//! Frame::try_from and the per-type TryFrom decoders.
use crate::fmt;
use crate::util::*;
use glonax::core::{Control, Engine, EngineState, Gnss, GnssStatus, Instance, MachineType, ModuleError, ModuleState, ModuleStatus, Motion, RotationReference, Rotator, Target};
use glonax::protocol::frame::{Frame, FrameError, Request, Session, SessionError};
use glonax::protocol::{Packetize, Stream};
use glonax::world::{Actor, ActorBuilder, ActorSegment};
use nalgebra::{Point3, Rotation3, UnitQuaternion, Vector3};

pub const KINDS: [&str; 12] = ["session", "sessionError", "request", "engine", "motion", "control", "target", "rotator", "status", "instance", "gnss", "actor"];

fn rt() -> tokio::runtime::Runtime {
    tokio::runtime::Builder::new_current_thread().enable_all().build().unwrap()
}

fn f32bits(x: f32) -> u32 {
    x.to_bits()
}

fn mat_bits_eq(a: &Rotation3<f32>, b: &Rotation3<f32>) -> bool {
    a.matrix().iter().zip(b.matrix().iter()).all(|(x, y)| x.to_bits() == y.to_bits() || (x.is_nan() && y.is_nan()))
}

pub const CONTROLS: [Control; 24] = [
    Control::HydraulicQuickDisconnect(true), Control::HydraulicQuickDisconnect(false),
    Control::HydraulicLock(true), Control::HydraulicLock(false),
    Control::HydraulicBoost(true), Control::HydraulicBoost(false),
    Control::HydraulicBoomConflux(true), Control::HydraulicBoomConflux(false),
    Control::HydraulicArmConflux(true), Control::HydraulicArmConflux(false),
    Control::HydraulicBoomFloat(true), Control::HydraulicBoomFloat(false),
    Control::HydraulicReset, Control::MachineShutdown,
    Control::MachineIllumination(true), Control::MachineIllumination(false),
    Control::MachineLights(true), Control::MachineLights(false),
    Control::MachineHorn(true), Control::MachineHorn(false),
    Control::MachineStrobeLight(true), Control::MachineStrobeLight(false),
    Control::MachineTravelAlarm(true), Control::MachineTravelAlarm(false),
];

/// `<code>:<value>` written out from the enum (NOT through the encoder under test); the argument-less controls carry 1.
pub fn control_tok(c: &Control) -> String {
    let (code, on): (u8, bool) = match c {
        Control::HydraulicQuickDisconnect(on) => (0x05, *on),
        Control::HydraulicLock(on) => (0x06, *on),
        Control::HydraulicBoost(on) => (0x07, *on),
        Control::HydraulicBoomConflux(on) => (0x08, *on),
        Control::HydraulicArmConflux(on) => (0x09, *on),
        Control::HydraulicBoomFloat(on) => (0x0A, *on),
        Control::HydraulicReset => (0x0B, true),
        Control::MachineShutdown => (0x1B, true),
        Control::MachineIllumination(on) => (0x1C, *on),
        Control::MachineLights(on) => (0x2D, *on),
        Control::MachineHorn(on) => (0x1E, *on),
        Control::MachineStrobeLight(on) => (0x1F, *on),
        Control::MachineTravelAlarm(on) => (0x20, *on),
    };
    format!("{}:{}", code, on as u8)
}

pub fn status_tok(s: &ModuleStatus) -> String {
    format!("{}:{}:{}", hex(s.name.as_bytes()), s.state as u8, match s.error {
        None => "n".to_string(),
        Some(ModuleError::InvalidConfiguration) => "0".into(),
        Some(ModuleError::VersionMismatch) => "1".into(),
        Some(ModuleError::CommunicationTimeout) => "2".into(),
        Some(ModuleError::GenericCommunicationError) => "3".into(),
        Some(ModuleError::IOError) => "4".into(),
    })
}

pub fn engine_tok(e: &Engine) -> String {
    format!("{}:{}:{}:{}", e.driver_demand, e.actual_engine, e.rpm, e.state as u8)
}

fn rand_f32(rng: &mut Rng) -> f32 {
    match rng.below(8) {
        0 => 0.0,
        1 => -0.0,
        2 => f32::from_bits(rng.next() as u32),
        3 => *rng.pick(&[f32::INFINITY, f32::NEG_INFINITY, f32::NAN, f32::MAX, f32::MIN_POSITIVE]),
        _ => (rng.range(-1_000_000, 1_000_000) as f32) / 1000.0,
    }
}

fn rand_angle(rng: &mut Rng) -> f32 {
    (rng.range(-1500, 1500) as f32) / 1000.0
}

fn rand_name(rng: &mut Rng, max: usize) -> String {
    let n = match rng.below(6) {
        0 => 0,
        1 => max,
        _ => rng.below(max as u64 + 1) as usize,
    };
    let mut s = String::new();
    while s.len() < n {
        let c = match rng.below(10) {
            0 => 'é',
            1 => '€',
            2 => '😀',
            _ => (b'a' + rng.below(26) as u8) as char,
        };
        if s.len() + c.len_utf8() > n {
            s.push('x');
        } else {
            s.push(c);
        }
    }
    s
}

fn seg_tok(name: &str, s: &ActorSegment) -> String {
    let l = s.location();
    let (r, p, y) = s.rotation().euler_angles();
    format!("{}/{}/{}/{}/{}/{}/{}", hex(name.as_bytes()), f32bits(l.x), f32bits(l.y), f32bits(l.z), f32bits(r), f32bits(p), f32bits(y))
}

/// A sink that accepts at most `max` bytes per write (0 = everything): what a socket with a nearly full send buffer does.
struct Dribble {
    buf: Vec<u8>,
    max: usize,
    /// the transport offers gathered writes (as sockets do): `max` then bounds the bytes taken across the slices of one call
    vectored: bool,
}

impl tokio::io::AsyncWrite for Dribble {
    fn poll_write(mut self: std::pin::Pin<&mut Self>, _cx: &mut std::task::Context<'_>, data: &[u8]) -> std::task::Poll<std::io::Result<usize>> {
        let n = if self.max == 0 { data.len() } else { data.len().min(self.max) };
        self.buf.extend_from_slice(&data[..n]);
        std::task::Poll::Ready(Ok(n))
    }
    fn poll_write_vectored(mut self: std::pin::Pin<&mut Self>, _cx: &mut std::task::Context<'_>, bufs: &[std::io::IoSlice<'_>]) -> std::task::Poll<std::io::Result<usize>> {
        let mut room = if self.max == 0 { usize::MAX } else { self.max };
        let mut n = 0;
        for b in bufs {
            let k = b.len().min(room);
            self.buf.extend_from_slice(&b[..k]);
            n += k;
            room -= k;
            if room == 0 {
                break;
            }
        }
        std::task::Poll::Ready(Ok(n))
    }
    fn is_write_vectored(&self) -> bool {
        self.vectored
    }
    fn poll_flush(self: std::pin::Pin<&mut Self>, _cx: &mut std::task::Context<'_>) -> std::task::Poll<std::io::Result<()>> {
        std::task::Poll::Ready(Ok(()))
    }
    fn poll_shutdown(self: std::pin::Pin<&mut Self>, _cx: &mut std::task::Context<'_>) -> std::task::Poll<std::io::Result<()>> {
        std::task::Poll::Ready(Ok(()))
    }
}

/// send_packet into an in-memory sink; the sink takes everything at once, or 1 / 7 / 16 / 64 bytes per write, in turn
/// (what is on the wire after send_packet returned Ok is the whole frame, however the transport chunks it)
fn send<P: Packetize>(p: &P) -> Vec<u8> {
    static TURN: std::sync::atomic::AtomicUsize = std::sync::atomic::AtomicUsize::new(0);
    let turn = TURN.fetch_add(1, std::sync::atomic::Ordering::Relaxed);
    let max = [0usize, 1, 7, 0, 16, 64, 4, 9, 10, 11][turn % 10];
    // every other round through the sizes the sink is gather-capable (header and payload may arrive as two slices of one call)
    let mut st = Stream::new(Dribble { buf: vec![], max, vectored: (turn / 10) % 2 == 1 });
    rt().block_on(st.send_packet(p)).unwrap();
    st.inner().buf.clone()
}

/// recv_packet::<P>(size) from `stream`; returns (consumed, Some(value)|None, panicked).
fn recv<P: Packetize>(size: usize, stream: &[u8]) -> (usize, Option<P>, bool) {
    let data = stream.to_vec();
    let r = guarded(std::panic::AssertUnwindSafe(move || {
        let mut st = Stream::new(std::io::Cursor::new(data));
        let v = rt().block_on(st.recv_packet::<P>(size));
        (st.inner().position() as usize, v.ok())
    }));
    match r {
        Some((pos, v)) => (pos, v, false),
        // a panic inside the decoder happens after the payload was read
        None => (size, None, true),
    }
}

/// `recv_packet` on a transport that ends before the declared payload is there: it must come back with an error.
/// Run on its own thread: a receiver that waits for bytes that never come cannot be interrupted in-process.
fn recv_short<P: Packetize + Send + 'static>(size: usize, stream: &[u8]) -> String {
    let data = stream.to_vec();
    let (tx, rx) = std::sync::mpsc::channel::<String>();
    std::thread::spawn(move || {
        let r = guarded(std::panic::AssertUnwindSafe(move || {
            let mut st = Stream::new(std::io::Cursor::new(data));
            let rt = tokio::runtime::Builder::new_current_thread().enable_all().build().unwrap();
            rt.block_on(st.recv_packet::<P>(size)).is_ok()
        }));
        let _ = tx.send(match r {
            Some(true) => "ok".to_string(),
            Some(false) => "err".to_string(),
            None => "PANIC".to_string(),
        });
    });
    rx.recv_timeout(std::time::Duration::from_secs(5)).unwrap_or_else(|_| "HANG".to_string())
}

pub fn dec_short(kind: &str, size: usize, stream: &[u8]) -> String {
    match kind {
        "session" => recv_short::<Session>(size, stream),
        "sessionError" => recv_short::<SessionError>(size, stream),
        "request" => recv_short::<Request>(size, stream),
        "engine" => recv_short::<Engine>(size, stream),
        "motion" => recv_short::<Motion>(size, stream),
        "control" => recv_short::<Control>(size, stream),
        "target" => recv_short::<Target>(size, stream),
        "rotator" => recv_short::<Rotator>(size, stream),
        "status" => recv_short::<ModuleStatus>(size, stream),
        "instance" => recv_short::<Instance>(size, stream),
        "gnss" => recv_short::<Gnss>(size, stream),
        "actor" => recv_short::<Actor>(size, stream),
        _ => unreachable!(),
    }
}

/// A decoder call made by the generator itself: a panic counts as "no value" (the round trip then fails visibly)
/// instead of killing the harness.
fn pg<T>(f: impl FnOnce() -> Option<T>) -> Option<T> {
    guarded(std::panic::AssertUnwindSafe(f)).flatten()
}

fn dec_out<P: Packetize>(size: usize, stream: &[u8], tok: impl Fn(&P, &[u8]) -> String) -> String {
    let (pos, v, panicked) = recv::<P>(size, stream);
    if panicked {
        return format!("{} PANIC", pos);
    }
    match v {
        Some(v) => format!("{} ok:{}", pos, tok(&v, &stream[..size.min(stream.len())])),
        None => format!("{} err", pos),
    }
}

fn be_f32(b: &[u8], i: usize) -> f32 {
    f32::from_be_bytes([b[i], b[i + 1], b[i + 2], b[i + 3]])
}

/// Run the real receiver for `kind` and print the canonical outcome.
pub fn dec(kind: &str, size: usize, stream: &[u8]) -> String {
    match kind {
        "session" => dec_out::<Session>(size, stream, |s, _| format!("{}:{}", s.to_bytes()[0], hex(s.name().as_bytes()))),
        "sessionError" => dec_out::<SessionError>(size, stream, |s, _| format!("{}", s.to_bytes()[0])),
        "request" => dec_out::<Request>(size, stream, |s, _| format!("{}", s.message())),
        "engine" => dec_out::<Engine>(size, stream, |e, _| engine_tok(e)),
        "motion" => dec_out::<Motion>(size, stream, |m, _| fmt::motion(m)),
        "control" => dec_out::<Control>(size, stream, |c, _| control_tok(c)),
        "target" => dec_out::<Target>(size, stream, |t, p| {
            let q = UnitQuaternion::from_euler_angles(be_f32(p, 12), be_f32(p, 16), be_f32(p, 20));
            let ok = q.coords.iter().zip(t.orientation.coords.iter()).all(|(a, b)| a.to_bits() == b.to_bits() || (a.is_nan() && b.is_nan()));
            if ok {
                format!("{}:{}:{}:{}:{}:{}:{}", f32bits(t.point.x), f32bits(t.point.y), f32bits(t.point.z), f32bits(be_f32(p, 12)), f32bits(be_f32(p, 16)), f32bits(be_f32(p, 20)), t.constraint as u8)
            } else {
                "ORIENTATION-MISMATCH".into()
            }
        }),
        "rotator" => dec_out::<Rotator>(size, stream, |r, p| {
            let m = Rotation3::from_euler_angles(be_f32(p, 1), be_f32(p, 5), be_f32(p, 9));
            if mat_bits_eq(&m, &r.rotator) {
                format!("{}:{}:{}:{}:{}", r.source, f32bits(be_f32(p, 1)), f32bits(be_f32(p, 5)), f32bits(be_f32(p, 9)), r.reference as u8)
            } else {
                "ROTATION-MISMATCH".into()
            }
        }),
        "status" => dec_out::<ModuleStatus>(size, stream, |s, _| {
            format!("{}:{}:{}", hex(s.name.as_bytes()), s.state as u8, match s.error {
                None => "n".to_string(),
                Some(ModuleError::InvalidConfiguration) => "0".into(),
                Some(ModuleError::VersionMismatch) => "1".into(),
                Some(ModuleError::CommunicationTimeout) => "2".into(),
                Some(ModuleError::GenericCommunicationError) => "3".into(),
                Some(ModuleError::IOError) => "4".into(),
            })
        }),
        "instance" => dec_out::<Instance>(size, stream, |i, _| {
            format!("{}:{}:{}:{}:{}:{}:{}", hex(i.id().as_bytes()), i.ty() as u8, i.version().0, i.version().1, i.version().2, hex(i.model().as_bytes()), hex(i.serial_number().as_bytes()))
        }),
        "gnss" => dec_out::<Gnss>(size, stream, |g, _| {
            format!("{}:{}:{}:{}:{}:{}:{}", f32bits(g.location.0), f32bits(g.location.1), f32bits(g.altitude), f32bits(g.speed), f32bits(g.heading), g.satellites, g.status as u8)
        }),
        "actor" => dec_out::<Actor>(size, stream, |a, p| actor_dec_tok(a, p)),
        _ => unreachable!(),
    }
}

/// Decoded actor: names from the decoded object, floats echoed from the payload when the decoded
/// isometry is bit-identical to the one built from the payload floats.
fn actor_dec_tok(a: &Actor, p: &[u8]) -> String {
    // walk the payload the way the encoder laid it out
    let mut i = 0usize;
    let rd16 = |p: &[u8], i: usize| ((p[i] as usize) << 8) | p[i + 1] as usize;
    let nl = rd16(p, i);
    i += 2 + nl;
    let count = p[i] as usize;
    i += 1;
    let mut segs = vec![];
    // Actor keeps its segments private; names and poses are observed through to_bytes()
    let bytes = a.to_bytes();
    let mut j = 2 + rd16(&bytes, 0);
    let cnt2 = bytes[j] as usize;
    j += 1;
    if cnt2 != count {
        return "SEGMENT-COUNT-MISMATCH".into();
    }
    for _ in 0..count {
        let snl = rd16(p, i);
        i += 2 + snl;
        let snl2 = rd16(&bytes, j);
        let sname = bytes[j + 2..j + 2 + snl2].to_vec();
        j += 2 + snl2;
        let f: Vec<f32> = (0..6).map(|k| be_f32(p, i + 4 * k)).collect();
        // re-encoded translation must be bit-exact; rotation is compared as the re-encoded euler triple of the
        // matrix built from the payload floats
        let want = ActorSegment::try_from(&p[i..i + 24]).unwrap().to_bytes();
        if bytes[j..j + 24] != want[..] {
            return "SEGMENT-POSE-MISMATCH".into();
        }
        i += 24;
        j += 24;
        segs.push(format!("{}/{}", hex(&sname), f.iter().map(|x| f32bits(*x).to_string()).collect::<Vec<_>>().join("/")));
    }
    format!("{}:{}:{}", hex(a.name().as_bytes()), count, if segs.is_empty() { "-".to_string() } else { segs.join(";") })
}

/// Split an actor payload into (name, [(segment name, six floats)]).
fn walk_actor(b: &[u8]) -> Option<(Vec<u8>, Vec<(Vec<u8>, Vec<f32>)>)> {
    let rd16 = |i: usize| -> Option<usize> { Some(((*b.get(i)? as usize) << 8) | *b.get(i + 1)? as usize) };
    let nl = rd16(0)?;
    let name = b.get(2..2 + nl)?.to_vec();
    let mut i = 2 + nl;
    let count = *b.get(i)? as usize;
    i += 1;
    let mut segs = vec![];
    for _ in 0..count {
        let snl = rd16(i)?;
        let sname = b.get(i + 2..i + 2 + snl)?.to_vec();
        i += 2 + snl;
        let fs = b.get(i..i + 24)?;
        segs.push((sname, (0..6).map(|k| be_f32(fs, 4 * k)).collect()));
        i += 24;
    }
    Some((name, segs))
}

fn enc_case(out: &mut Out, kind: &str, tok: &str, bytes: &[u8], rt_ok: bool) {
    out.count(&format!("enc {}", kind));
    out.case(&format!("enc {} {}", kind, tok), &format!("{} rt={}", hex(bytes), rt_ok as u8), true);
}

fn approx(a: f32, b: f32) -> bool {
    (a.is_nan() && b.is_nan()) || a == b || (a - b).abs() <= 1e-4 * (1.0 + a.abs().max(b.abs()))
}

fn rot_approx(a: &Rotation3<f32>, b: &Rotation3<f32>) -> bool {
    a.matrix().iter().zip(b.matrix().iter()).all(|(x, y)| approx(*x, *y))
}

pub fn run(out: &mut Out, tier: &str, rng: &mut Rng) {
    let thorough = tier == "thorough";
    out.rule = "enc: objects of all twelve kinds (exhaustive for Control, SessionError, Request, EngineState x boundary rpm; structured+random otherwise) through the real send_packet, with the real decode(encode(x)) compared to x (angles by tolerance); hdr: all (type,len) headers as RLE is replaced by all 256 types x lengths {0,1,2,1023,1024,1025,65535}+random and every single-byte corruption (256 values x 10 positions) of valid headers, plus random 10-byte strings, through Frame::try_from; dec: recv_packet of every kind x declared sizes 0..64,1023..1025 on random payloads, every truncation and single-byte substitution at every offset of valid encodings, under catch_unwind. Non-trivial = every case except empty-garbage; distinct by text".into();
    let n = if thorough { 20_000 } else { 1_500 };
    // ------------------------------------------------------------------ enc
    for c in CONTROLS {
        let b = send(&c);
        let back = pg(|| Control::try_from(c.to_bytes()).ok());
        enc_case(out, "control", &control_tok(&c), &b, back == Some(c));
    }
    for e in [SessionError::UnknownRequest, SessionError::UnknownMessage, SessionError::UnauthorizedControl, SessionError::UnauthorizedCommand] {
        let code = e.to_bytes()[0];
        let b = send(&e);
        let back = pg(|| SessionError::try_from(e.to_bytes()).map(|x| x.to_bytes()[0]).ok());
        enc_case(out, "sessionError", &code.to_string(), &b, back == Some(code));
    }
    for m in 0..=255u8 {
        let r = Request::new(m);
        let b = send(&r);
        let back = pg(|| Request::try_from(r.to_bytes()).map(|x| x.message()).ok());
        enc_case(out, "request", &m.to_string(), &b, back == Some(m));
    }
    for st in [EngineState::NoRequest, EngineState::Starting, EngineState::Stopping, EngineState::Request] {
        for i in 0..(n / 8) {
            let e = Engine {
                driver_demand: if i < 4 { [0, 1, 254, 255][i] } else { rng.byte() },
                actual_engine: rng.byte(),
                rpm: if i < 6 { [0, 1, 255, 256, 65534, 65535][i] } else { rng.next() as u16 },
                state: st,
            };
            let b = send(&e);
            enc_case(out, "engine", &engine_tok(&e), &b, pg(|| Engine::try_from(e.to_bytes()).ok()) == Some(e));
        }
    }
    for i in 0..n {
        let m = if i == 0 { Motion::Change(vec![]) } else if i == 1 { (0..32).map(|_| (*rng.pick(&fmt::ACTUATORS), fmt::rand_i16(rng))).collect::<Motion>() } else { fmt::rand_motion(rng) };
        let b = send(&m);
        enc_case(out, "motion", &fmt::motion(&m), &b, pg(|| Motion::try_from(m.to_bytes()).ok()) == Some(m.clone()));
    }
    for i in 0..n {
        let flags = if i < 32 { i as u8 } else if rng.chance(1, 8) { rng.byte() } else { (rng.below(32)) as u8 };
        let name = if i % 11 == 3 {
            // longer than 64 bytes with a multi-byte character lying across byte 64
            format!("{}{}{}", "a".repeat(61 + i % 3), ['é', '€', '😀'][i % 3], "-tail".repeat(1 + i % 4))
        } else if i % 7 == 0 { rand_name(rng, 255) } else { rand_name(rng, 64) };
        // the input is the name the CALLER passed (the constructor keeps its first 64 characters: the model does that itself)
        let tok = format!("{}:{}", flags, hex(name.as_bytes()));
        let s = match pg(|| Some(Session::new(flags, name.clone()))) {
            Some(s) => s,
            None => {
                out.count("enc session");
                out.case(&format!("enc session {}", tok), "PANIC", true);
                continue;
            }
        };
        let b = send(&s);
        let back = pg(|| Session::try_from(s.to_bytes()).ok());
        let ok = back.map(|x| x.to_bytes() == s.to_bytes()).unwrap_or(false);
        enc_case(out, "session", &tok, &b, ok);
    }
    let constraints = [0u8, 1, 2, 20, 21, 22];
    for _ in 0..n {
        let (x, y, z) = (rand_f32(rng), rand_f32(rng), rand_f32(rng));
        let (r, p, yw) = (rand_angle(rng), rand_angle(rng), rand_angle(rng));
        let c = glonax::core::Target::default();
        let mut t = Target::new(Point3::new(x, y, z), UnitQuaternion::from_euler_angles(r, p, yw), c.constraint);
        // constraint enum is private to core::target; reach every value through the decoder
        let mut raw = t.to_bytes();
        raw[24] = *rng.pick(&constraints);
        if let Some(t2) = pg(|| Target::try_from(raw.clone()).ok()) {
            t = t2;
        }
        let (er, ep, ey) = t.orientation.euler_angles();
        let b = send(&t);
        let back = pg(|| Target::try_from(t.to_bytes()).ok());
        let ok = back.map(|u| u.point.iter().zip(t.point.iter()).all(|(a, b)| a.to_bits() == b.to_bits()) && u.constraint == t.constraint && u.orientation.coords.iter().zip(t.orientation.coords.iter()).all(|(a, b)| approx(*a, *b) || approx(*a, -*b))).unwrap_or(false);
        enc_case(out, "target", &format!("{}:{}:{}:{}:{}:{}:{}", f32bits(t.point.x), f32bits(t.point.y), f32bits(t.point.z), f32bits(er), f32bits(ep), f32bits(ey), t.constraint as u8), &b, ok);
    }
    for _ in 0..n {
        let rot = Rotation3::from_euler_angles(rand_angle(rng), rand_angle(rng), rand_angle(rng));
        let r = if rng.chance(1, 2) { Rotator::absolute(rng.byte(), rot) } else { Rotator::relative(rng.byte(), rot) };
        let (er, ep, ey) = r.rotator.euler_angles();
        let b = send(&r);
        let back = pg(|| Rotator::try_from(r.to_bytes()).ok());
        let ok = back.map(|u| u.source == r.source && u.reference == r.reference && rot_approx(&u.rotator, &r.rotator)).unwrap_or(false);
        enc_case(out, "rotator", &format!("{}:{}:{}:{}:{}", r.source, f32bits(er), f32bits(ep), f32bits(ey), r.reference as u8), &b, ok);
    }
    let merrs = [None, Some(ModuleError::InvalidConfiguration), Some(ModuleError::VersionMismatch), Some(ModuleError::CommunicationTimeout), Some(ModuleError::GenericCommunicationError), Some(ModuleError::IOError)];
    for _ in 0..n {
        let s = ModuleStatus { name: rand_name(rng, 255), state: *rng.pick(&[ModuleState::Healthy, ModuleState::Degraded, ModuleState::Faulty, ModuleState::Emergency]), error: *rng.pick(&merrs) };
        let b = send(&s);
        let ok = pg(|| ModuleStatus::try_from(s.to_bytes()).ok()) == Some(s.clone());
        let e = match s.error { None => "n".to_string(), Some(e) => merrs.iter().position(|x| *x == Some(e)).map(|i| (i - 1).to_string()).unwrap() };
        enc_case(out, "status", &format!("{}:{}:{}", hex(s.name.as_bytes()), s.state as u8, e), &b, ok);
    }
    for _ in 0..n {
        let id: Vec<u8> = (0..16).map(|_| rng.byte()).collect();
        let idstr = format!("{}-{}-{}-{}-{}", &hex(&id[0..4]), &hex(&id[4..6]), &hex(&id[6..8]), &hex(&id[8..10]), &hex(&id[10..16]));
        let ty = *rng.pick(&[MachineType::Excavator, MachineType::WheelLoader, MachineType::Dozer, MachineType::Grader, MachineType::Hauler, MachineType::Forestry]);
        let i = Instance::new(idstr, rand_name(rng, 255), ty, (rng.byte(), rng.byte(), rng.byte()), rand_name(rng, 255));
        let b = send(&i);
        let ok = pg(|| Instance::try_from(i.to_bytes()).ok()) == Some(i.clone());
        enc_case(out, "instance", &format!("{}:{}:{}:{}:{}:{}:{}", hex(&id), ty as u8, i.version().0, i.version().1, i.version().2, hex(i.model().as_bytes()), hex(i.serial_number().as_bytes())), &b, ok);
    }
    for _ in 0..n {
        let g = Gnss { location: (rand_f32(rng), rand_f32(rng)), altitude: rand_f32(rng), speed: rand_f32(rng), heading: rand_f32(rng), satellites: rng.byte(), status: *rng.pick(&[GnssStatus::Disabled, GnssStatus::DeviceNotFound, GnssStatus::LocationFix]) };
        let b = send(&g);
        let ok = pg(|| Gnss::try_from(g.to_bytes()).ok()).map(|u| u.to_bytes() == g.to_bytes()).unwrap_or(false);
        enc_case(out, "gnss", &format!("{}:{}:{}:{}:{}:{}:{}", f32bits(g.location.0), f32bits(g.location.1), f32bits(g.altitude), f32bits(g.speed), f32bits(g.heading), g.satellites, g.status as u8), &b, ok);
    }
    {
        // corpus: the witness of KNOWN_FINDINGS (C13_actor_exceeds): 4 segments with 255-byte names
        let mut ab = ActorBuilder::new("");
        let mut toks = vec![];
        for _ in 0..4 {
            let s = ActorSegment::new(Vector3::new(0.0, 0.0, 0.0));
            let name = "A".repeat(255);
            toks.push(seg_tok(&name, &s));
            ab = ab.attach_segment(name, s);
        }
        let a = ab.build();
        let b = send(&a);
        enc_case(out, "actor", &format!("{}:4:{}", hex(a.name().as_bytes()), toks.join(";")), &b, pg(|| Actor::try_from(a.to_bytes()).ok()).is_some());
    }
    for i in 0..n {
        let nseg = if i == 0 { 0 } else { 1 + rng.below(6) as usize };
        let mut ab = ActorBuilder::new(rand_name(rng, if i % 5 == 0 { 255 } else { 24 }));
        let mut toks = vec![];
        let mut segs = vec![];
        for _ in 0..nseg {
            let mut s = ActorSegment::new(Vector3::new(rand_f32(rng), rand_f32(rng), rand_f32(rng)));
            s.set_rotation(Rotation3::from_euler_angles(rand_angle(rng), rand_angle(rng), rand_angle(rng)));
            let name = rand_name(rng, if i % 11 == 0 { 255 } else { 16 });
            toks.push(seg_tok(&name, &s));
            segs.push((name.clone(), s.clone()));
            ab = ab.attach_segment(name, s);
        }
        let a = ab.build();
        if nseg == 0 {
            // build() inserts a root segment
            toks.push(seg_tok("root", &ActorSegment::new(Vector3::new(0.0, 0.0, 0.0))));
        }
        let b = send(&a);
        // round trip: names exact, translation bits exact, rotation (euler triple) by tolerance
        let ok = match guarded(std::panic::AssertUnwindSafe(|| Actor::try_from(a.to_bytes()))) {
            Some(Ok(u)) => match (walk_actor(&u.to_bytes()), walk_actor(&a.to_bytes())) {
                (Some((n1, s1)), Some((n2, s2))) => {
                    n1 == n2
                        && s1.len() == s2.len()
                        && s1.iter().zip(s2.iter()).all(|((na, fa), (nb, fb))| {
                            na == nb && (0..3).all(|k| fa[k].to_bits() == fb[k].to_bits() || (fa[k].is_nan() && fb[k].is_nan())) && (3..6).all(|k| approx(fa[k], fb[k]))
                        })
                }
                _ => false,
            },
            _ => false,
        };
        let cnt = toks.len();
        enc_case(out, "actor", &format!("{}:{}:{}", hex(a.name().as_bytes()), cnt, toks.join(";")), &b, ok);
    }
    // ------------------------------------------------------------------ hdr
    let hdr = |out: &mut Out, h: &[u8]| {
        let r = Frame::try_from(h);
        let o = match r {
            Ok(f) => format!("ok:{}:{}", f.message, f.payload_length),
            Err(FrameError::FrameTooSmall) => "err:tooSmall".into(),
            Err(FrameError::InvalidHeader) => "err:invalidHeader".into(),
            Err(FrameError::VersionMismatch(_)) => "err:versionMismatch".into(),
            Err(FrameError::PayloadEmpty) => "err:payloadEmpty".into(),
            Err(FrameError::ExcessivePayloadLength(_)) => "err:excessiveLength".into(),
            Err(FrameError::InvalidPadding) => "err:invalidPadding".into(),
            Err(e) => format!("err:other{:?}", e),
        };
        out.count(&format!("hdr {}", o.split(':').take(2).collect::<Vec<_>>().join(":").replace(|c: char| c.is_ascii_digit(), "")));
        out.case(&format!("hdr {}", hex(h)), &o, true);
    };
    let lens: Vec<u16> = {
        let mut v = vec![0u16, 1, 2, 255, 256, 1023, 1024, 1025, 65535];
        for _ in 0..(if thorough { 64 } else { 6 }) {
            v.push(rng.next() as u16);
        }
        v
    };
    for ty in 0..=255u8 {
        for &l in &lens {
            hdr(out, &[b'L', b'X', b'R', 3, ty, (l >> 8) as u8, l as u8, 0, 0, 0]);
        }
    }
    for base in [[b'L', b'X', b'R', 3, 0x20, 0, 1, 0, 0, 0], [b'L', b'X', b'R', 3, 0x10, 4, 0, 0, 0, 0]] {
        for pos in 0..10 {
            for v in 0..=255u8 {
                let mut h = base;
                h[pos] = v;
                hdr(out, &h);
            }
        }
    }
    for l in [0usize, 1, 9, 11, 20] {
        let h: Vec<u8> = (0..l).map(|_| rng.byte()).collect();
        hdr(out, &h);
    }
    for _ in 0..n {
        let h: Vec<u8> = (0..10).map(|_| rng.byte()).collect();
        hdr(out, &h);
    }
    // ------------------------------------------------------------------ hdrs: SEVERAL headers on ONE stream (read_frame keeps its
    // partially read header inside the Stream): each header is judged on its own, whatever was rejected before it
    {
        let rt = tokio::runtime::Builder::new_current_thread().enable_all().build().unwrap();
        let good: [[u8; 10]; 3] = [[b'L', b'X', b'R', 3, 0x43, 0, 5, 0, 0, 0], [b'L', b'X', b'R', 3, 0x20, 0, 1, 0, 0, 0], [b'L', b'X', b'R', 3, 0x10, 4, 0, 0, 0, 0]];
        let bad: [[u8; 10]; 6] = [
            [b'L', b'X', b'R', 2, 0x43, 0, 5, 0, 0, 0], [b'L', b'X', b'R', 3, 0x43, 0, 0, 0, 0, 0], [b'L', b'X', b'R', 3, 0x43, 4, 1, 0, 0, 0],
            [b'L', b'X', b'R', 3, 0x43, 0, 5, 0, 0, 1], [b'X', b'X', b'R', 3, 0x43, 0, 5, 0, 0, 0], [0xFF; 10],
        ];
        let mut seqs: Vec<Vec<[u8; 10]>> = vec![];
        for b in bad {
            for g in good {
                seqs.push(vec![b, g]);
                seqs.push(vec![g, b, g]);
                seqs.push(vec![b, b, g, g]);
            }
        }
        for q in seqs {
            let mut bytes = vec![];
            for h in &q {
                bytes.extend_from_slice(h);
            }
            let n = q.len();
            let res: Option<Vec<String>> = crate::util::guarded(std::panic::AssertUnwindSafe(|| {
                rt.block_on(async {
                    let mut st = glonax::protocol::Stream::new(std::io::Cursor::new(bytes));
                    let mut v = vec![];
                    for _ in 0..n {
                        v.push(match tokio::time::timeout(std::time::Duration::from_secs(2), st.read_frame()).await {
                            Ok(Ok(f)) => format!("ok:{}:{}", f.message, f.payload_length),
                            Ok(Err(e)) => format!("err:{:?}", e.kind()),
                            Err(_) => "HANG".to_string(),
                        });
                    }
                    v
                })
            }));
            out.case(&format!("hdrs {}", q.iter().map(|h| hex(h)).collect::<Vec<_>>().join(" ")), &res.map_or("PANIC".to_string(), |v| v.join(" ")), true);
            out.count("several headers on one stream");
        }
    }
    // ------------------------------------------------------------------ dec
    // valid encodings per kind, harvested from the encoders above by re-generating a few objects
    let mut valid: Vec<(&'static str, Vec<u8>)> = vec![];
    valid.push(("session", { let mut p = vec![0x11u8]; p.extend_from_slice("verif/é".as_bytes()); p }));
    valid.push(("session", { let mut p = vec![0x01u8]; p.extend_from_slice(rand_name(rng, 64).as_bytes()); p }));
    valid.push(("sessionError", SessionError::UnauthorizedCommand.to_bytes()));
    valid.push(("request", Request::new(0x15).to_bytes()));
    valid.push(("engine", Engine { driver_demand: 3, actual_engine: 4, rpm: 1500, state: EngineState::Request }.to_bytes()));
    valid.push(("motion", Motion::StopAll.to_bytes()));
    valid.push(("motion", Motion::StraightDrive(-300).to_bytes()));
    valid.push(("motion", Motion::Change(vec![]).to_bytes()));
    valid.push(("motion", (0..3).map(|i| (fmt::ACTUATORS[i], 100 * i as i16 - 1)).collect::<Motion>().to_bytes()));
    valid.push(("motion", (0..32).map(|i| (fmt::ACTUATORS[i % 6], i as i16)).collect::<Motion>().to_bytes()));
    valid.push(("control", Control::MachineHorn(true).to_bytes()));
    valid.push(("target", Target::from((1.0, 2.0, 3.0, 0.1, 0.2, 0.3)).to_bytes()));
    valid.push(("rotator", Rotator::relative(0x6A, Rotation3::from_euler_angles(0.1, 0.2, 0.3)).to_bytes()));
    valid.push(("status", ModuleStatus::faulty("laixer:hcu:0x27:0x4A".into(), ModuleError::CommunicationTimeout).to_bytes()));
    valid.push(("status", ModuleStatus::healthy("x".into()).to_bytes()));
    valid.push(("instance", Instance::new("d55bcd75-8d30-49af-ac18-ee7cbce7822f", "Test", MachineType::Excavator, (3, 5, 13), "T.00001").to_bytes()));
    valid.push(("gnss", Gnss::default().to_bytes()));
    {
        let mut s = ActorSegment::new(Vector3::new(1.0, 2.0, 3.0));
        s.set_rotation(Rotation3::from_euler_angles(0.1, 0.2, 0.3));
        valid.push(("actor", ActorBuilder::new("vol").attach_segment("undercarriage", s.clone()).attach_segment("boom", s).build().to_bytes()));
        valid.push(("actor", ActorBuilder::new("").build().to_bytes()));
    }
    let sentinel = [0xA5u8, 0x5A, 0xC3];
    let mut dec_case = |out: &mut Out, kind: &'static str, size: usize, payload: &[u8], what: &str| {
        let mut stream = payload.to_vec();
        // the transport always has at least `size` bytes plus a sentinel tail (a short transport is M-sess's business)
        while stream.len() < size {
            stream.push(0);
        }
        stream.extend_from_slice(&sentinel);
        let o = dec(kind, size, &stream);
        out.count(&format!("dec {} {} -> {}", kind, what, o.split(' ').nth(1).unwrap_or("?").split(':').next().unwrap()));
        out.case(&format!("dec {} {} {}", kind, size, hex(&stream)), &o, true);
    };
    for (kind, bytes) in valid.clone() {
        // intact
        dec_case(out, kind, bytes.len(), &bytes, "valid");
        // every truncation (declared size = truncated length) and declared size ≠ content
        for cut in 0..bytes.len() {
            dec_case(out, kind, cut, &bytes[..cut], "truncated");
        }
        dec_case(out, kind, bytes.len() + 1, &bytes, "declared+1");
        // single-byte substitution at every offset: all 256 values for short encodings, sampled otherwise
        for pos in 0..bytes.len() {
            let vals: Vec<u8> = if bytes.len() <= 40 || thorough { (0..=255).collect() } else { vec![0, 1, 2, 7, 0x7F, 0x80, 0xF8, 0xFA, 0xFF, rng.byte()] };
            for v in vals {
                if v == bytes[pos] {
                    continue;
                }
                let mut b = bytes.clone();
                b[pos] = v;
                dec_case(out, kind, b.len(), &b, "substituted");
            }
        }
    }
    // a transport that ends before the declared payload has arrived: always an error, never a wait
    let mut hangs = 0;
    for kind in KINDS {
        for size in [1usize, 2, 3, 5, 24, 25, 64, 1024] {
            for have in [0usize, 1, size - 1] {
                if have >= size || hangs >= 3 {
                    continue;
                }
                let stream: Vec<u8> = (0..have).map(|_| rng.byte()).collect();
                let o = dec_short(kind, size, &stream);
                if o == "HANG" {
                    hangs += 1;
                }
                out.count(&format!("dec short stream -> {}", o));
                out.case(&format!("decshort {} {} {}", kind, size, hex(&stream)), &o, true);
            }
        }
    }
    // extreme 16-bit words (length prefixes live there) at every offset of payloads of several sizes, for every type
    for kind in KINDS {
        for size in [2usize, 3, 4, 6, 9, 24, 40] {
            for pos in 0..size.saturating_sub(1) {
                for w in [0xFFFFu16, 0xFFFE, 0xFF00, 0x00FF, 0x8000, 0x7FFF, 0x0100, 0xFFFD] {
                    for fill in [0u8, 0xF8] {
                        let mut p = vec![fill; size];
                        p[pos..pos + 2].copy_from_slice(&w.to_be_bytes());
                        dec_case(out, kind, size, &p, "extreme-word");
                    }
                }
            }
        }
    }
    // … and in place of every 2-byte window of each valid encoding
    for (kind, bytes) in valid.clone() {
        for pos in 0..bytes.len().saturating_sub(1).min(48) {
            for w in [0xFFFFu16, 0xFFFE, 0x8000, 0x7FFF, 0xFF00] {
                let mut b = bytes.clone();
                b[pos..pos + 2].copy_from_slice(&w.to_be_bytes());
                dec_case(out, kind, b.len(), &b, "extreme-word");
            }
        }
    }
    for kind in KINDS {
        let mut sizes: Vec<usize> = (0..=64).collect();
        sizes.extend([1023, 1024, 1025, 2000]);
        for size in sizes {
            let reps = if thorough { 12 } else { 3 };
            for _ in 0..reps {
                let payload: Vec<u8> = (0..size).map(|_| match rng.below(4) { 0 => 0, 1 => rng.below(6) as u8, _ => rng.byte() }).collect();
                dec_case(out, kind, size, &payload, "random");
            }
        }
    }
}
