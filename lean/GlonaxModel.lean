-- This module serves as the root of the `GlonaxModel` library.
-- Import modules here that should be built as part of the library.
import GlonaxModel.Basic
