import GlonaxModel.Model.Hcu
/-! SPEC C01: what each handler of the HCU driver may emit, given the history so far. -/
namespace Glonax.Spec.C01
open Glonax J1939 Hcu

def motionOf : Op → Option Motion
  | .cmd (.motion m) => some m
  | _ => none

/-- reference: the most recent motion command in the history, stop-all if there is none -/
def lastMotion (h : List Op) : Motion := (h.reverse.findSome? motionOf).getD .stopAll

def isMotionCmd (op : Op) : Bool := (motionOf op).isSome

/-- the motion-lock frame, written out: priority 3, PGN 45824 (PDU1) to `da` from `sa`, 'Z','C',FF,00,FF -/
def lockFrameRef (da sa : Nat) : Frame :=
  { id := 3 * 67108864 + 45824 * 256 + da * 256 + sa, data := [0x5A, 0x43, 0xFF, 0x00, 0xFF] }

def isDriveFrame (f : Frame) : Bool := pgn f.id = 40960 || pgn f.id = 41216

/-- clauses for ONE op, given the history before it and the frames the handler emitted -/
def opClauses (da sa : Nat) (pre : List Op) (op : Op) (out : List Frame) : List (String × Bool) :=
  match op with
  | .tick =>
    [ ("tick_reasserts", out = encodeMotion da sa (lastMotion pre)),
      ("locked_only_lock", !(lastMotion pre = .stopAll) || (out = [lockFrameRef da sa] && !out.any isDriveFrame)) ]
  | .cmd (.motion m) => [ ("trigger_emits", out = encodeMotion da sa m) ]
  | .cmd (.other _) => [ ("nonmotion_silent", out = []) ]
  | .rx _ => [ ("rx_silent", out = []) ]

/-- walk a history with the outputs observed for each op -/
def walk (da sa : Nat) : List Op → List Op → List (List Frame) → List (String × Bool)
  | _, [], [] => []
  | pre, op :: rest, o :: os => opClauses da sa pre op o ++ walk da sa (pre ++ [op]) rest os
  | _, _, _ => [("one_output_per_op", false)]

def holds (da sa : Nat) (h : List Op) (outs : List (List Frame)) : Bool := (walk da sa [] h outs).all (·.2)

end Glonax.Spec.C01
