import GlonaxModel.Model.Governor
/-! SPEC for C07: the governor's safe envelope, as a decidable relation between the inputs of
`next_state` and *any* candidate output (the model's or the implementation's). -/
namespace Glonax.Spec.C07
open Glonax

def startOrRun (s : EngineState) : Bool := s = .starting || s = .request
def stopReq (s : EngineState) : Bool := s = .noRequest || s = .stopping

/-- speed within [idle, max] -/
def range (g : Governor) (out : Engine) : Bool := decide (g.idle ≤ out.rpm) && decide (out.rpm ≤ g.max)
/-- requests running speed only if the engine is reported running -/
def requestOnlyIfRunning (sig out : Engine) : Bool := out.state != .request || sig.state = .request
/-- the starter is engaged only while (stopped with a start/run request, or already cranking) and
never once the command is older than the transition timeout -/
def starterOnlyIf (g : Governor) (sig cmd : Engine) (age : Option Nat) (out : Engine) : Bool :=
  out.state != .starting ||
    (((sig.state = .noRequest && startOrRun cmd.state) || sig.state = .starting) && !g.expired age)
/-- never starts an engine without a request -/
def noSpontaneousStart (sig cmd out : Engine) : Bool :=
  !(sig.state = .noRequest && !startOrRun cmd.state) || out.state != .starting
/-- a stop request on a running engine becomes stopping -/
def stopOnRunning (sig cmd out : Engine) : Bool :=
  !(sig.state = .request && stopReq cmd.state) || out.state = .stopping
/-- otherwise (running, start/run request) the clamped requested speed is applied -/
def elseClampedRequest (g : Governor) (sig cmd out : Engine) : Bool :=
  !(sig.state = .request && startOrRun cmd.state) ||
    (out.state = .request && out.rpm = Governor.clamp cmd.rpm g.idle g.max)

/-- Clause list, in the order of the property statement. -/
def clauses (g : Governor) (sig cmd : Engine) (age : Option Nat) (out : Engine) : List (String × Bool) :=
  [ ("range", range g out),
    ("request_only_if_running", requestOnlyIfRunning sig out),
    ("starter_only_if", starterOnlyIf g sig cmd age out),
    ("no_spontaneous_start", noSpontaneousStart sig cmd out),
    ("stop_on_running", stopOnRunning sig cmd out),
    ("else_clamped_request", elseClampedRequest g sig cmd out) ]

def holds (g : Governor) (sig cmd : Engine) (age : Option Nat) (out : Engine) : Bool :=
  (clauses g sig cmd age out).all (·.2)

end Glonax.Spec.C07
