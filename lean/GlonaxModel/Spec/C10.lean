import GlonaxModel.Model.Authority
/-! SPEC C10: module status is truthful and fresh.  Reference rule for what one control cycle must publish
for one unit, written from the property statement (not from the code). -/
namespace Glonax.Spec.C10
open Glonax Auth

/-- what is known about a unit when a cycle starts -/
structure View where
  /-- at least one message from it has been accepted -/
  heard : Bool
  /-- time since the last accepted message (since start-up if none), in ms, rounded UP (real time elapsed is
  always positive) -/
  silentFor : Nat
  timeout : Option Nat
  /-- status computed by the previous cycles (`none`: none yet) -/
  previous : Option StatusKind
  /-- index of this cycle, counted from 0 -/
  cycle : Nat

def timedOut (v : View) : Bool := match v.timeout with | some t => decide (v.silentFor > t) | none => false

/-- the truthful status: Faulty/timeout once silent longer than the timeout; Healthy only if heard and fresh;
nothing for a unit never heard and not yet timed out -/
def truth (v : View) : Option StatusKind :=
  if timedOut v then some .faultyTimeout else if v.heard then some .healthy else none

/-- what this cycle must publish: the current status at every change and at least every tenth cycle -/
def mustPublish (v : View) : Option StatusKind :=
  match truth v with
  | some k => if v.previous != some k || v.cycle % 10 = 0 then some k else none
  | none => (match v.previous with
      | some p => if v.cycle % 10 = 0 then some p else none
      | none => none)

end Glonax.Spec.C10
