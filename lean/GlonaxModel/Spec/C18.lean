import GlonaxModel.Model.Input
/-! SPEC C18 -/
namespace Glonax.Spec.C18
open Glonax Wire Input

/-- while the motion lock is engaged nothing but stop, resume, neutral and engine requests may be produced -/
def harmless : Option Packet → Bool
  | none => true
  | some (.motion .stopAll) | some (.motion .resumeAll) | some (.motion .resetAll) => true
  | some (.motion (.straightDrive v)) => v = 0
  | some (.engine _) => true
  | _ => false

def absI (v : Int) : Int := if v < 0 then -v else v

/-- per-axis deadband: (towards negative, towards positive) -/
def deadband : Actuator → Int × Int
  | .slew => (1000, 1000) | .arm => (1500, 1500) | .attachment => (2000, 4000) | .boom => (3500, 1750)
  | .limpLeft => (2000, 2000) | .limpRight => (2000, 2000)

/-- produced actuator values are zero inside the deadband of their axis -/
def deadbandOk : Option Packet → Bool
  | some (.motion (.change cs)) => cs.all fun (a, v) => v = 0 || (if v < 0 then decide (v ≤ -(deadband a).1) else decide (v ≥ (deadband a).2))
  | some (.motion (.straightDrive v)) => v = 0 || decide (absI v ≥ 2000)
  | _ => true

/-- with motion limiting on, values in the limited directions are at most half scale -/
def halfScaleOk (limit : Bool) : Option Packet → Bool
  | some (.motion (.change cs)) => !limit || cs.all fun (a, v) =>
      match a with
      | .slew | .arm => decide (-16384 ≤ v) && decide (v ≤ 16384)
      | .attachment => decide (-16384 ≤ v)
      | .boom => decide (v ≤ 16384)
      | _ => true
  | _ => true

/-- engine requests are either shutdown or a run request within 900..2100 rpm -/
def engineOk : Option Packet → Bool
  | some (.engine e) => (e.state = .noRequest && e.rpm = 0) || (e.state = .request && decide (900 ≤ e.rpm) && decide (e.rpm ≤ 2100))
  | _ => true

def valuesI16 : Option Packet → Bool
  | some (.motion (.change cs)) => cs.all fun (_, v) => decide (InI16 v)
  | some (.motion (.straightDrive v)) => decide (InI16 v)
  | _ => true

def acceptedWords : List String := ["1", "on", "true", "0", "off", "false"]

end Glonax.Spec.C18
