import GlonaxModel.Model.Drivers
/-! SPECs C06 / C11 / C12 at driver level: predicates over (driver kind, unit address, frame, observed
outcome of `try_recv`). -/
namespace Glonax.Spec.Drivers
open Glonax J1939 Drv Consts

/-! ### C12: reference decoders, written independently of the model -/

/-- percent torque: raw − 125, not below 0, not above 125; 0xFF = not available (reads 0) -/
def refPercent (b : Nat) : Nat := if b = 255 then 0 else if b ≤ 125 then 0 else if b ≥ 250 then 125 else b - 125

/-- engine speed in rpm from the 16-bit field in 1/8 rpm units; 0xFFFF = not available (reads 0) -/
def refRpm (raw : Nat) : Nat := if raw = 65535 then 0 else if raw / 8 > 8031 then 8031 else raw / 8

/-- engine state from starter-mode nibble and speed -/
def refState (nib : Nat) (rpmAvail : Bool) (rpm : Nat) : EngineState :=
  match nib with
  | 1 | 2 => .starting
  | 3 => if rpmAvail ∧ rpm > 0 then .request else .noRequest
  | 15 => if !rpmAvail then .noRequest else if rpm = 0 then .noRequest else if rpm < 500 then .starting else .request
  | _ => .noRequest

def refEec1 (d : List Nat) : Engine :=
  let raw := d.getD 3 255 + 256 * d.getD 4 255
  { driverDemand := refPercent (d.getD 1 255), actualEngine := refPercent (d.getD 2 255), rpm := refRpm raw,
    state := refState (d.getD 6 255 % 16) (raw != 65535) (refRpm raw) }

/-- encoder device status word → error class -/
def refEncoderErr (w : Nat) : Option ErrKind :=
  if w = 0xFFFF ∨ w = 0 then none
  else if w = 0xEE00 then some .sensorError
  else if w = 0xEE01 ∨ w = 0xEE02 ∨ w = 0xEE03 then some .invalidConfiguration
  else some .hardwareError

def refInclinoErr (b6 : Nat) : Option ErrKind :=
  if b6 = 0xFF ∨ b6 / 16 = 0 then none
  else if b6 / 16 = 0xE then some .invalidConfiguration
  else some .hardwareError

/-- C12 clauses on the observed signals / error of one received frame from the unit -/
def c12Clauses (k : Kind) (da : Nat) (f : Frame) (r : RecvOut) : List (String × Bool) :=
  let g := pgn f.id
  let mine := source f.id = da
  match k with
  | .encoder =>
    if g = 65450 ∧ mine then
      [ ("encoder_signal", r.signals = [.rotRel da]),
        ("encoder_error_surfaced", r.err = refEncoderErr (f.data.getD 6 255 + 256 * f.data.getD 7 255)),
        ("error_keeps_measurement", r.err.isNone || !r.signals.isEmpty) ]
    else []
  | .inclino =>
    if g = 65451 ∧ mine then
      [ ("inclino_signal", r.signals = [.rotAbs da]),
        ("inclino_error_surfaced", r.err = refInclinoErr (f.data.getD 6 255)),
        ("error_keeps_measurement", r.err.isNone || !r.signals.isEmpty) ]
    else []
  | .ecm | .d7e =>
    if g = 61444 ∧ mine then
      [ ("eec1_fields", r.signals = [.engine (refEec1 f.data)]),
        ("never_running_at_zero", r.signals.all fun | .engine e => e.state != .request || decide (e.rpm > 0) | _ => true) ]
    else []
  | .hcu =>
    if g = 65288 ∧ mine then
      [ ("hcu_lock_bit", r.signals = [.motion (if f.data.getD 2 255 = 1 then .stopAll else .resumeAll)]),
        ("error_keeps_measurement", r.err.isNone || !r.signals.isEmpty) ]
    else []
  | _ => []

/-! ### C11: attribution -/

/-- a frame changes a unit's state (signal, alive mark, last-message) only if it comes from that unit,
and never if it is addressed to another node or is a parameter-group request -/
def c11Clauses (_k : Kind) (da : Nat) (f : Frame) (r : RecvOut) : List (String × Bool) :=
  let touched := r.alive || r.rxLast.isSome
  [ ("source_is_unit", !touched || source f.id = da),
    ("signal_names_unit", r.signals.all fun | .rotRel s => s = da | .rotAbs s => s = da | _ => true),
    ("foreign_destination_inert", !touched || (match destination? f.id with | some d => d = da || d = 255 | none => true)),
    ("requests_inert", !touched || pgn f.id != 59904) ]

end Glonax.Spec.Drivers
