import GlonaxModel.Model.Session
/-! Reference semantics of a client byte stream, shared by the Specs of C03, C04, C05, C14:
a stream of well-formed frames, what each frame stands for, and the arming of the failsafe. -/
namespace Glonax.Spec.Sess
open Glonax Wire Sess Consts

structure Frame where
  ty : Nat
  payload : List Nat
  deriving DecidableEq, Repr

def Frame.bytes (f : Frame) : List Nat := header f.ty f.payload.length ++ f.payload

/-- well-formed: any of the 256 type codes, payload length 1..1024 -/
def Frame.WF (f : Frame) : Prop :=
  f.ty < 256 ∧ 1 ≤ f.payload.length ∧ f.payload.length ≤ 1024 ∧ ∀ x ∈ f.payload, x < 256

/-- the command a frame stands for: one of the four command types, of the right size, decodable -/
def validCommand (f : Frame) : Option Packet :=
  match serverKind? f.ty with
  | some k =>
    if k = .session then none
    else if sizeOk k f.payload.length then
      match decode k f.payload with
      | .ok p => some p
      | _ => none
    else none
  | none => none

/-- a session registration that passes validation, giving the new flags -/
def validUpgrade (f : Frame) : Option Nat :=
  if f.ty = msgTypeSession then
    match decSession f.payload with
    | .ok v => some v.flags
    | _ => none
  else none

/-- flags of the most recent valid registration (initially 0: nothing armed) -/
def lastFlags (init : Nat) (fs : List Frame) : Nat := (fs.reverse.findSome? validUpgrade).getD init

/-- reference splitter of a byte string into complete frames and a leftover (fuel = byte count) -/
def split : Nat → List Nat → List Frame × List Nat
  | 0, bs => ([], bs)
  | fuel + 1, bs =>
    if bs.length < 10 then ([], bs)
    else match parseHeader (bs.take 10) with
      | .error _ => ([], bs)
      | .ok (ty, len) =>
        let rest := bs.drop 10
        if rest.length < len then ([], bs)
        else
          let r := split fuel (rest.drop len)
          ({ ty := ty, payload := rest.take len } :: r.1, r.2)

def bytesOf : List Ev → List Nat
  | [] => []
  | .bytes c :: es => c ++ bytesOf es
  | _ :: es => bytesOf es

def onlyBytesAndSignals (es : List Ev) : Bool :=
  es.all fun | .bytes _ => true | .signal _ => true | _ => false

end Glonax.Spec.Sess
