import GlonaxModel.Model.Director
/-! SPEC C09 -/
namespace Glonax.Spec.C09
open Glonax Wire Dir F32

/-- 45° as `45.0_f32.to_radians()` : 0x3F490FDB = 0.78539819… -/
def t45 : Nat := 0x3F490FDB
/-- the inclinometer's bus address -/
def inclinometer : Nat := 0x7A

def lastEngine (h : List Sig) : Option Nat := h.reverse.findSome? fun | .engine r => some r | _ => none
def lastRotator (h : List Sig) : Option (Nat × Nat × Nat × Nat) :=
  h.reverse.findSome? fun | .rotator s r p y => some (s, r, p, y) | _ => none

/-- an emergency condition is pending: the most recent engine reading exceeds 2200 rpm, or the most recent
rotation reading is an inclinometer reading of more than +45° of roll or pitch (level heading) -/
def pending (h : List Sig) : Bool :=
  (match lastEngine h with | some rpm => decide (rpm > 2200) | none => false) ||
  (match lastRotator h with
   | some (s, r, p, y) => s = inclinometer && (fgt r t45 || fgt p t45) && isZero y
   | none => false)

/-- the full emergency sequence, in order -/
def emergencyRef : List Packet :=
  [ .control (.hydraulicLock true), .motion .stopAll, .control (.hydraulicBoost false),
    .control (.machineTravelAlarm true), .control (.machineStrobeLight true),
    .engine { driverDemand := 0, actualEngine := 0, rpm := 0, state := .noRequest } ]

def isMotionChange : Packet → Bool
  | .motion (.change _) | .motion (.straightDrive _) => true
  | _ => false

/-- clauses for one processed signal given the history including it -/
def opClauses (upto : List Sig) (out : List Packet) : List (String × Bool) :=
  [ ("emergency_iff_pending", out = (if pending upto then emergencyRef else [])),
    ("never_motion_change", !out.any isMotionChange) ]

def walk : List Sig → List Sig → List (List Packet) → List (String × Bool)
  | _, [], [] => []
  | pre, sig :: rest, o :: os => opClauses (pre ++ [sig]) o ++ walk (pre ++ [sig]) rest os
  | _, _, _ => [("one_output_per_signal", false)]

end Glonax.Spec.C09
