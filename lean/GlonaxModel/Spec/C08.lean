import GlonaxModel.Model.Drivers
/-! SPEC C08: engine control frames over histories. -/
namespace Glonax.Spec.C08
open Glonax J1939 Drv Consts

def lastStatus (h : List VolvoOp) : Engine :=
  (h.reverse.findSome? fun | .status e => some e | _ => none).getD Engine.shutdown

/-- scanning back in time: the latest engine command and the time elapsed since (sum of the waits after it) -/
def lastCmdRev : List VolvoOp → Nat → Option (Engine × Nat)
  | [], _ => none
  | .cmd c :: _, acc => some (c, acc)
  | .wait ms :: rest, acc => lastCmdRev rest (acc + ms)
  | _ :: rest, acc => lastCmdRev rest acc

def lastCmd (h : List VolvoOp) : Option (Engine × Nat) := lastCmdRev h.reverse 0

/-- what a command means, at acceptance and on every later cycle -/
def meaning (c : Engine) : Engine := if c.rpm > 0 then { rpm := c.rpm, state := .request } else { state := .noRequest }

def validCodes : List Nat := [0x07, 0x47, 0x43, 0xC3]

/-- a well-formed speed-control frame: priority 3, PGN 65282, from `sa`, valid state code, speed byte in
[idle/10, max/10] -/
def frameValid (sa : Nat) (f : Frame) : Bool :=
  priority f.id = 3 && pgn f.id = 65282 && source f.id = sa && decide (f.id < 536870912) &&
  (match f.data with
   | [0, code, 0x1F, 0, 0, 0, 0x20, sp] => validCodes.contains code && decide (volvoRpmIdle / 10 ≤ sp) && decide (sp ≤ volvoRpmMax / 10)
   | _ => false)

def codeOf (st : EngineState) : Nat :=
  match st with | .noRequest => 0x43 | .starting => 0xC3 | .stopping => 0x07 | .request => 0x43

/-- the frame the governor's decision stands for -/
def frameFor (sa : Nat) (g : Engine) : Frame :=
  { id := 3 * 67108864 + 65282 * 256 + sa, data := [0, codeOf g.state, 0x1F, 0, 0, 0, 0x20, g.rpm / 10] }

/-- clauses for one op given the history before it and the frames emitted -/
def opClauses (sa : Nat) (pre : List VolvoOp) (op : VolvoOp) (out : List Frame) : List (String × Bool) :=
  let sig := lastStatus pre
  match op with
  | .cmd c =>
    let g := volvoGovernor.nextState sig (meaning c) none
    [ ("frame_valid", out.all (frameValid sa)), ("follows_governor", out = [frameFor sa g]) ]
  | .tick =>
    let (cmd, age) : Engine × Option Nat := match lastCmd pre with
      | some (c, a) => (meaning c, some a)
      | none => (sig, none)
    let g := volvoGovernor.nextState sig cmd age
    let shutdownPending := (match lastCmd pre with | some (c, _) => c.rpm = 0 | none => false)
    [ ("frame_valid", out.all (frameValid sa)),
      ("follows_governor_same_meaning", out = [frameFor sa g]),
      ("stop_honoured", !(shutdownPending && sig.state = .request) || out.map (fun f => f.data.getD 1 0) = [0x07]),
      ("crank_bounded", !(match age with | some a => decide (a > volvoTimeoutMs) | none => false) ||
          out.all (fun f => f.data.getD 1 0 != 0xC3)) ]
  | _ => [ ("silent", out = []) ]

def walk (sa : Nat) : List VolvoOp → List VolvoOp → List (List Frame) → List (String × Bool)
  | _, [], [] => []
  | pre, op :: rest, o :: os => opClauses sa pre op o ++ walk sa (pre ++ [op]) rest os
  | _, _, _ => [("one_output_per_op", false)]

end Glonax.Spec.C08
