import GlonaxModel.Model.Wire
/-! SPEC C13: canonical frames, exact header parser, lossless round trip, total decoders. -/
namespace Glonax.Spec.C13
open Glonax Wire

/-- the fixed 10-byte header: magic LXR, version 3, type, big-endian length, three zero bytes -/
def headerRef (ty len : Nat) : List Nat := [0x4C, 0x58, 0x52, 0x03, ty, len / 256 % 256, len % 256, 0, 0, 0]

/-- a 10-byte string is an acceptable header for (type, length) -/
def headerOk (b : List Nat) (ty len : Nat) : Prop :=
  b = headerRef ty len ∧ ty < 256 ∧ 1 ≤ len ∧ len ≤ 1024
instance (b : List Nat) (ty len : Nat) : Decidable (headerOk b ty len) := by unfold headerOk; infer_instance

/-- frame layout of an encoded object -/
def frameLayout (ty : Nat) (payload bytes : List Nat) : Bool :=
  bytes = headerRef ty payload.length ++ payload

def w32 (x : Nat) : Prop := x < 4294967296
def bytesOk (l : List Nat) : Prop := ∀ x ∈ l, x < 256

/-- field ranges of the Rust types (u8/u16/i16/f32 patterns, byte strings) -/
def WF : Packet → Prop
  | .session s => s.flags < 256 ∧ bytesOk s.name
  | .sessionError _ => True
  | .request m => m < 256
  | .engine e => e.WF
  | .motion (.straightDrive v) => InI16 v
  | .motion (.change cs) => ∀ c ∈ cs, InI16 c.2
  | .motion _ => True
  | .control _ => True
  | .target t => w32 t.x ∧ w32 t.y ∧ w32 t.z ∧ w32 t.roll ∧ w32 t.pitch ∧ w32 t.yaw
  | .rotator r => r.source < 256 ∧ w32 r.roll ∧ w32 r.pitch ∧ w32 r.yaw
  | .status s => bytesOk s.name
  | .inst i => i.id.length = 16 ∧ bytesOk i.id ∧ i.v0 < 256 ∧ i.v1 < 256 ∧ i.v2 < 256 ∧ bytesOk i.model ∧ bytesOk i.serial
  | .gnss g => w32 g.lat ∧ w32 g.lon ∧ w32 g.altitude ∧ w32 g.speed ∧ w32 g.heading ∧ g.satellites < 256
  | .actor a => bytesOk a.name ∧ ∀ s ∈ a.segments, bytesOk s.name ∧ s.f.length = 6 ∧ ∀ x ∈ s.f, w32 x

/-- the protocol bounds of the property: at most 32 change sets, strings up to 255 bytes
(a session name is at most 64 characters of valid UTF-8, session flags use only the defined bits) -/
def InBounds : Packet → Prop
  | .session s => s.flags < 32 ∧ validUtf8 s.name = true ∧ charCount s.name ≤ 64 ∧ s.name.length ≤ 255
  | .motion (.change cs) => cs.length ≤ 32
  | .status s => s.name.length ≤ 255
  | .inst i => i.model.length ≤ 255 ∧ i.serial.length ≤ 255
  | .actor a => a.name.length ≤ 255 ∧ a.segments.length ≤ 255 ∧ ∀ s ∈ a.segments, s.name.length ≤ 255
  | _ => True

end Glonax.Spec.C13
