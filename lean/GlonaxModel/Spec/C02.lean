import GlonaxModel.Model.Hcu
/-! SPEC C02: what the frames for a motion command must look like, as a decidable predicate over
(da, sa, motion, candidate frames, candidate decodings). Written against the J1939 field accessors,
not against the model's encoder. -/
namespace Glonax.Spec.C02
open Glonax J1939 Consts

/-- reference: the value commanded for actuator id `i` = the LAST entry for it in the list -/
def lastVal (cs : List (Actuator × Int)) (i : Nat) : Option Int :=
  (cs.reverse.find? (fun c => c.1.id = i)).map (·.2)

/-- what each of the 8 slots must carry for a motion -/
def want : Motion → Nat → Option Int
  | .straightDrive v => fun i => if i = Actuator.limpRight.id ∨ i = Actuator.limpLeft.id then some v else none
  | .change cs => lastVal cs
  | _ => fun _ => none

def bankPgn (b : Nat) : Nat := if b = 0 then hcuBankPgn0 else hcuBankPgn1

/-- priority 3, destination = unit, source = daemon, PGN one of the three HCU command groups -/
def addressing (da sa : Nat) (out : List Frame) : Bool :=
  out.all fun f => priority f.id = 3 && destination? f.id = some da && source f.id = sa &&
    (pgn f.id = 45824 || pgn f.id = 40960 || pgn f.id = 41216) && decide (f.id < 536870912)

/-- stop/resume/reset ↦ exactly one motion-config frame `'Z','C',0xFF,lock,reset` -/
def configOk (m : Motion) (out : List Frame) : Bool :=
  match m with
  | .stopAll => out.map (·.data) = [[0x5A, 0x43, 0xFF, 0x00, 0xFF]] && out.all (fun f => pgn f.id = 45824)
  | .resumeAll => out.map (·.data) = [[0x5A, 0x43, 0xFF, 0x01, 0xFF]] && out.all (fun f => pgn f.id = 45824)
  | .resetAll => out.map (·.data) = [[0x5A, 0x43, 0xFF, 0xFF, 0x01]] && out.all (fun f => pgn f.id = 45824)
  | _ => true

/-- bytes a slot must carry: the value little-endian, or FF FF when not commanded -/
def wantBytes : Option Int → List Nat
  | some v => le16 v
  | none => [255, 255]

def bankEmpty (w : Nat → Option Int) (b : Nat) : Bool := (List.range 4).all fun k => (w (4 * b + k)).isNone

/-- bank `b`: no frame if nothing is commanded in it; otherwise exactly one 8-byte frame in which
each commanded slot holds the value little-endian and every other slot is FF FF -/
def bankOk (w : Nat → Option Int) (out : List Frame) (b : Nat) : Bool :=
  let fs := out.filter fun f => pgn f.id = bankPgn b
  if bankEmpty w b then fs.isEmpty
  else match fs with
    | [f] => f.data.length = 8 && (List.range 4).all fun k =>
        (f.data.drop (2 * k)).take 2 = wantBytes (w (4 * b + k))
    | _ => false

def slotsOk (m : Motion) (out : List Frame) : Bool :=
  match m with
  | .straightDrive _ | .change _ =>
      bankOk (want m) out 0 && bankOk (want m) out 1 &&
      out.all (fun f => pgn f.id = bankPgn 0 || pgn f.id = bankPgn 1) &&
      -- bank 0 frame (if any) precedes bank 1 frame
      (out.map fun f => pgn f.id) = (out.filter (fun f => pgn f.id = bankPgn 0)).map (fun f => pgn f.id) ++
                                    (out.filter (fun f => pgn f.id = bankPgn 1)).map (fun f => pgn f.id)
  | _ => true

/-- what reading a slot back gives: −1 has the bit pattern FF FF = not available -/
def readBack : Option Int → Option Int
  | some (-1) => none
  | x => x

/-- decoding the emitted frames gives the commanded values back; −1 (0xFFFF) reads as not-available -/
def decodeOk (m : Motion) (out : List Frame) (dec : List (List (Option Int))) : Bool :=
  match m with
  | .straightDrive _ | .change _ =>
      dec.length = out.length &&
      (List.range 8).all fun i =>
        let expected := readBack (want m i)
        let got := (dec.filterMap (fun d => (d.getD i none))).head?
        got = expected
  | _ => true

def clauses (da sa : Nat) (m : Motion) (out : List Frame) (dec : List (List (Option Int))) : List (String × Bool) :=
  [ ("addressing", addressing da sa out),
    ("config", configOk m out),
    ("slots", slotsOk m out),
    ("decode", decodeOk m out dec) ]

end Glonax.Spec.C02
