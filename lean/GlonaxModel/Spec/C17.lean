import GlonaxModel.Model.Can
/-! SPEC C17 -/
namespace Glonax.Spec.C17
open Glonax J1939 Can

/-- the 16 transmitted bytes are a classic extended-format frame equal to the J1939 frame given -/
def txExact (f : Frame) (raw : List Nat) : Bool :=
  let cid := le32 raw
  raw.length = 16 && allBytes raw &&
  cid / 2147483648 % 2 = 1 &&        -- EFF set
  cid / 1073741824 % 2 = 0 &&        -- RTR clear
  cid / 536870912 % 2 = 0 &&         -- ERR clear
  cid % 536870912 = f.id &&
  raw.getD 4 0 = f.data.length &&
  (raw.drop 8).take f.data.length = f.data

/-- a received frame is delivered with its id masked to 29 bits, its data padded with 0xFF to 8 bytes -/
def rxMaskPad (raw : List Nat) (out : Frame) : Bool :=
  let dlc := raw.getD 4 0
  out.id = le32 raw % 536870912 &&
  out.data.length = 8 &&
  out.data.take dlc = (raw.drop 8).take dlc &&
  (out.data.drop dlc).all (· = 255)

/-- reference: an entry matches when every field it specifies equals the identifier's field -/
def entryMatches (e : FilterItem) (id : Nat) : Bool :=
  (e.priority.all (· = priority id)) && (e.pgn.all (· = pgn id)) &&
  (e.source.all (· = source id)) && (e.destination.all (fun d => some d = destination? id))

/-- accept-list: passes iff the list is empty or some entry matches; reject-list: iff no entry matches -/
def shouldPass (f : Filter) (id : Nat) : Bool :=
  if f.accept then f.items.isEmpty || f.items.any (entryMatches · id)
  else !(f.items.any (entryMatches · id))

end Glonax.Spec.C17
