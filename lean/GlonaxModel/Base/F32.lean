/-! M-f32: IEEE-754 binary32 comparison on bit patterns (no floats in the kernel).
`>` on non-NaN patterns is decided by a sign-magnitude integer key; any comparison with a NaN is false. -/
namespace Glonax.F32

def isNaN (b : Nat) : Bool := decide (b / 8388608 % 256 = 255) && decide (b % 8388608 ≠ 0)

/-- order key: +x ↦ magnitude bits, −x ↦ −(magnitude bits); +0 and −0 both ↦ 0 -/
def key (b : Nat) : Int := if b ≥ 2147483648 then -(((b - 2147483648 : Nat)) : Int) else (b : Int)

/-- `x > t` on f32 bit patterns -/
def fgt (x t : Nat) : Bool := !isNaN x && !isNaN t && decide (key x > key t)

/-- `x == 0.0` (true for +0 and −0) -/
def isZero (b : Nat) : Bool := b = 0 || b = 2147483648

end Glonax.F32
