/-! M-ring: `tokio::sync::broadcast` as used by Glonax — a ring that retains the last `cap` values,
receivers with their own cursor; a receiver that fell behind gets `lagged n` once and continues at
the oldest retained value.  (tokio is not part of /repo: modelled, exercised differentially.) -/
namespace Glonax

structure Ring (α : Type) where
  cap : Nat
  /-- retained values, oldest first; `buf.length ≤ cap` -/
  buf : List α := []
  /-- sequence number of `buf[0]`; total sent so far = `head + buf.length` -/
  head : Nat := 0
  closed : Bool := false
  deriving Repr

namespace Ring
variable {α : Type}

def total (r : Ring α) : Nat := r.head + r.buf.length

/-- `Sender::send` -/
def send (r : Ring α) (x : α) : Ring α :=
  if r.buf.length < r.cap then { r with buf := r.buf ++ [x] }
  else { r with buf := r.buf.drop 1 ++ [x], head := r.head + 1 }

inductive Recv (α : Type) where
  | ok (v : α)
  | lagged (n : Nat)
  | empty
  | closed
  deriving Repr

/-- `Receiver::try_recv` for a receiver whose next expected sequence number is `next` -/
def recv (r : Ring α) (next : Nat) : Recv α × Nat :=
  if next < r.head then (.lagged (r.head - next), r.head)
  else match r.buf[next - r.head]? with
    | some v => (.ok v, next + 1)
    | none => (if r.closed then .closed else .empty, next)

end Ring
end Glonax
