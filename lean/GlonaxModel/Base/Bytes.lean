/-! Bytes, little/big-endian words and two's complement as `Nat`/`Int` with range predicates. -/
namespace Glonax

/-- two's-complement bit pattern of an `i16` as a number in [0, 65536) -/
def u16OfI16 (v : Int) : Nat := (v % 65536).toNat
/-- `i16::from_le_bytes` on a 16-bit pattern -/
def i16OfU16 (u : Nat) : Int := if u < 32768 then (u : Int) else (u : Int) - 65536

/-- `i16::to_le_bytes` -/
def le16 (v : Int) : List Nat := [u16OfI16 v % 256, u16OfI16 v / 256]
/-- `i16::to_be_bytes` / `put_i16` -/
def be16 (v : Int) : List Nat := [u16OfI16 v / 256, u16OfI16 v % 256]
/-- `u16` big endian (`put_u16`) -/
def beU16 (u : Nat) : List Nat := [u / 256 % 256, u % 256]
def leU16 (u : Nat) : List Nat := [u % 256, u / 256 % 256]
def leU32 (u : Nat) : List Nat := [u % 256, u / 256 % 256, u / 65536 % 256, u / 16777216 % 256]
def beU32 (u : Nat) : List Nat := [u / 16777216 % 256, u / 65536 % 256, u / 256 % 256, u % 256]
def beU64 (u : Nat) : List Nat := beU32 (u / 4294967296) ++ beU32 (u % 4294967296)

def InI16 (v : Int) : Prop := -32768 ≤ v ∧ v ≤ 32767
instance (v : Int) : Decidable (InI16 v) := by unfold InI16; infer_instance

def isByte (b : Nat) : Bool := decide (b < 256)
def allBytes (l : List Nat) : Bool := l.all isByte

theorem u16OfI16_lt (v : Int) : u16OfI16 v < 65536 := by unfold u16OfI16; omega

theorem i16_roundtrip (v : Int) (h : InI16 v) : i16OfU16 (u16OfI16 v) = v := by
  unfold InI16 at h; unfold i16OfU16 u16OfI16; split <;> omega

theorem u16OfI16_eq_65535_iff (v : Int) (h : InI16 v) : u16OfI16 v = 65535 ↔ v = -1 := by
  unfold InI16 at h; unfold u16OfI16; omega

end Glonax
