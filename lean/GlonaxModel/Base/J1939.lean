import GlonaxModel.Base.Bytes
/-! 29-bit J1939 identifiers and frames (models `j1939` 0.1.33 `Id`, `IdBuilder`, `FrameBuilder`).
The crate is not part of /repo: it is modelled here and tested differentially like first-party code. -/
namespace Glonax.J1939

/-- frame = 29-bit identifier + data bytes (`pdu()`, length 0..8) -/
structure Frame where
  id : Nat
  data : List Nat
  deriving DecidableEq, Repr, Inhabited

def priority (id : Nat) : Nat := id / 67108864 % 8
def pf (id : Nat) : Nat := id / 65536 % 256
def ps (id : Nat) : Nat := id / 256 % 256
def source (id : Nat) : Nat := id % 256
/-- `format & 0xf0 < 0xf0` -/
def isPdu1 (id : Nat) : Bool := decide (pf id < 240)
/-- `Id::pgn_raw` -/
def pgn (id : Nat) : Nat := if isPdu1 id then pf id * 256 else pf id * 256 + ps id
/-- `Id::destination_address` -/
def destination? (id : Nat) : Option Nat := if isPdu1 id then some (ps id) else none

/-- `IdBuilder::from_pgn(pgn).priority(p).sa(sa).da(da).build()` for parameter groups whose low byte
is zero when they are PDU1 (true of every call site; the shifts are then disjoint and `|` is `+`). -/
def buildId (prio pgnv sa da : Nat) : Nat :=
  let base := (min prio 7) * 67108864 + pgnv * 256 + sa
  if pgnv / 256 % 256 < 240 then base + da * 256 else base

/-- `FrameBuilder::new(id).copy_from_slice(src).build()` : at most 8 bytes are kept -/
def mkFrame (id : Nat) (src : List Nat) : Frame := { id := id, data := src.take 8 }

/-- `ControlNetwork::recv` normalisation: `FrameBuilder::new(id).copy_from_slice(data).set_len(8)` over an
0xFF-initialised buffer. -/
def normalise (data : List Nat) : List Nat :=
  let d := data.take 8
  d ++ List.replicate (8 - d.length) 255

def WFId (id : Nat) : Prop := id < 536870912

end Glonax.J1939
