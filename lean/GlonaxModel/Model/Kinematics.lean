/-! M-kin: the control maths of glonax-runtime/src/math/{mod,lin}.rs, driver/actuator.rs and the transform chain of
world/mod.rs, over EXACT rationals (core `Rat`, no imports).  The code computes in IEEE-754 binary32; the bridge from
these exact functions to the f32 code is the sampled correspondence of the harness, not a theorem. -/
namespace Glonax.Kin

/-- truncation toward zero -/
def trunc (q : Rat) : Int := if q ≥ 0 then q.floor else -((-q).floor)

/-- Rust `x % m` on floats (C `fmod`): the result has the sign of `x` -/
def frem (x m : Rat) : Rat := x - m * (trunc (x / m) : Int)

/-- `shortest_rotation(distance)` with `P` standing for π -/
def shortestRotation (P d : Rat) : Rat :=
  let n := frem (d + 2 * P) (2 * P)
  if n > P then n - 2 * P else n

/-- the argument handed to `acos` by `law_of_cosines(a, b, c)` -/
def cosArg (a b c : Rat) : Rat := (a * a + b * b - c * c) / (2 * a * b)

/-- `f32::round`: half away from zero -/
def roundHalfAway (q : Rat) : Int := if q ≥ 0 then (q + 1 / 2).floor else -((-q + 1 / 2).floor)

/-- `as i16` on an integral float: saturating -/
def satI16 (z : Int) : Int := max (-32768) (min 32767 z)

def absR (q : Rat) : Rat := if q ≥ 0 then q else -q

inductive Res where
  | none
  | some (v : Int)
  /-- a crash (not produced by the current code: kept so that a crashing implementation can be told apart) -/
  | panic
  deriving DecidableEq, Repr

/-- `i16::saturating_neg` -/
def negI16 (v : Int) : Res := .some (if v = -32768 then 32767 else -v)

/-- `linear_motion(delta, lower_bound, offset, scale, inverse)`; `neg` is `delta.is_sign_negative()` (it differs from
`delta < 0` only for -0.0) -/
def linearMotion (delta lb offset scale : Rat) (neg inverse : Bool) : Res :=
  if absR delta < lb then .none else
  let x := absR delta * scale
  let m := if x ≤ 32767 - offset then x else 32767 - offset       -- f32::min
  let dn := satI16 (roundHalfAway (m + offset))
  let v := if neg then Res.some dn else negI16 dn
  if inverse then (match v with | .some w => negI16 w | r => r) else v

/-- `f32::clamp` (panics when min > max) -/
def clampR (x lo hi : Rat) : Option Rat := if lo > hi then none else some (if x < lo then lo else if x > hi then hi else x)

/-- `Linear::update(error)`: `none` = the clamp panicked; `neg` is the sign bit of `error` (signum of ±0.0 is ±1.0) -/
def linearUpdate (kp offset : Rat) (inverse : Bool) (error : Rat) (neg : Bool) : Option Rat :=
  (clampR (error * kp) (-32768 + offset) (32767 - offset)).map fun c =>
    let value := c + offset * (if neg then -1 else 1)
    if inverse then value else -value

/-- `… as i16` on a finite float: truncate toward zero, saturate -/
def toI16 (q : Rat) : Int := satI16 (trunc q)

/-! ### ActuatorState::update -/

structure Event where
  /-- `none`: the error of a stop event is 0.0 -/
  error : Option Rat
  value : Int
  deriving DecidableEq, Repr

/-- `ActuatorState::update` (the error is given with its profile output already cast): new stop flag, event -/
def actuatorUpdate (stop : Bool) (input : Option (Rat × Int)) : Bool × Option Event :=
  match input with
  | some (e, v) => (false, some { error := some e, value := v })
  | none => if !stop then (true, some { error := none, value := 0 }) else (stop, none)

/-! ### the transform chain of `Actor::world_location` -/

/-- the loop `for (sname, segment) in segments { transform *= segment.transformation(); if sname == name { break; } }`
over any multiplication -/
def chain {M : Type} (mul : M → M → M) (name : String) : M → List (String × M) → M
  | acc, [] => acc
  | acc, (n, t) :: rest => if n = name then mul acc t else chain mul name (mul acc t) rest

/-- the segments that take part: up to and including the first one called `name`, all of them if there is none -/
def upTo (name : String) : List (String × M) → List (String × M)
  | [] => []
  | (n, t) :: rest => if n = name then [(n, t)] else (n, t) :: upTo name rest

abbrev Mat4 := List (List Rat)

def matMul (a b : Mat4) : Mat4 :=
  (List.range 4).map fun i => (List.range 4).map fun j =>
    (List.range 4).foldl (fun acc k => acc + ((a.getD i []).getD k 0) * ((b.getD k []).getD j 0)) 0

def matId : Mat4 := (List.range 4).map fun i => (List.range 4).map fun j => if i = j then 1 else 0

/-- `transform.transform_point(&origin)` for an affine matrix: the translation column -/
def originOf (m : Mat4) : List Rat := (List.range 3).map fun i => (m.getD i []).getD 3 0

def worldLocation (segs : List (String × Mat4)) (name : String) : List Rat :=
  originOf (chain matMul name matId segs)

end Glonax.Kin
