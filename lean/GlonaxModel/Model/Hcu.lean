import GlonaxModel.Base.J1939
import GlonaxModel.Generated.Consts
/-! Hydraulic control unit driver: command side (glonax-runtime/src/driver/net/hydraulic.rs,
core/motion.rs).  `trigger`, `tick`, `ActuatorMessage::{to_frame,from_frame}`,
`MotionConfigMessage::to_frame`. -/
namespace Glonax
open J1939 Consts

inductive Actuator where
  | boom | slew | limpRight | limpLeft | arm | attachment
  deriving DecidableEq, Repr, Inhabited

namespace Actuator
/-- `actuator as u8` -/
def id : Actuator → Nat
  | boom => actuatorBoom | slew => actuatorSlew | limpRight => actuatorLimpRight
  | limpLeft => actuatorLimpLeft | arm => actuatorArm | attachment => actuatorAttachment
def all : List Actuator := [boom, slew, limpRight, limpLeft, arm, attachment]
/-- `Actuator::try_from(u16)` -/
def ofId? (n : Nat) : Option Actuator := all.find? (fun a => a.id = n)
end Actuator

inductive Motion where
  | stopAll | resumeAll | resetAll
  | straightDrive (v : Int)
  | change (cs : List (Actuator × Int))
  deriving DecidableEq, Repr, Inhabited

namespace Hcu

/-- `actuator_command`: the change list is collected into a `HashMap<u8,i16>` (a later entry for the
same key replaces an earlier one) and then written into `actuators[key]`. -/
def slotVal (cs : List (Nat × Int)) (i : Nat) : Option Int :=
  cs.foldl (fun acc c => if c.1 = i then some c.2 else acc) none

/-- one slot of a bank PDU: `p.map_or([0xff, 0xff], |v| v.to_le_bytes())` -/
def slotBytes : Option Int → List Nat
  | none => [255, 255]
  | some v => le16 v

/-- `ActuatorMessage::to_frame` for one bank (index 0 or 1) -/
def bankFrame (da sa : Nat) (slots : Nat → Option Int) (bank : Nat) : List Frame :=
  let stride := bank * hcuBankSlots
  let vals := (List.range hcuBankSlots).map (fun k => slots (stride + k))
  if vals.all Option.isNone then []
  else
    let pgnv := if bank = 0 then hcuBankPgn0 else hcuBankPgn1
    [{ id := buildId hcuActuatorPriority pgnv sa da, data := (vals.flatMap slotBytes).take 8 }]

/-- `HydraulicControlUnit::actuator_command` -/
def actuatorCommand (da sa : Nat) (cs : List (Nat × Int)) : List Frame :=
  bankFrame da sa (slotVal cs) 0 ++ bankFrame da sa (slotVal cs) 1

/-- `MotionConfigMessage::to_frame` -/
def motionConfig (da sa : Nat) (locked reset : Option Bool) : Frame :=
  mkFrame (buildId hcuMotionConfigPriority hcuMotionConfigPgn sa da)
    [0x5A, 0x43, 0xFF,
     match locked with | some true => 0 | some false => 1 | none => 0xFF,
     match reset with | some true => 1 | some false => 0 | none => 0xFF]

def lockFrame (da sa : Nat) : Frame := motionConfig da sa (some true) none
def unlockFrame (da sa : Nat) : Frame := motionConfig da sa (some false) none
def resetFrame (da sa : Nat) : Frame := motionConfig da sa none (some true)

/-- the `match motion { … }` shared by `trigger` and `tick` -/
def encodeMotion (da sa : Nat) : Motion → List Frame
  | .stopAll => [lockFrame da sa]
  | .resumeAll => [unlockFrame da sa]
  | .resetAll => [resetFrame da sa]
  | .straightDrive v => actuatorCommand da sa [(2, v), (3, v)]
  | .change cs => actuatorCommand da sa (cs.map (fun c => (c.1.id, c.2)))

/-- `ActuatorMessage::from_frame(..).actuators` -/
def decodeActuators (f : Frame) : List (Option Int) :=
  let slot (k : Nat) : Option Int :=
    let lo := f.data.getD (2 * k) 255
    let hi := f.data.getD (2 * k + 1) 255
    if lo = 255 ∧ hi = 255 then none else some (i16OfU16 (lo + 256 * hi))
  let bank := [slot 0, slot 1, slot 2, slot 3]
  let nones : List (Option Int) := [none, none, none, none]
  if pgn f.id = hcuBankPgn0 then bank ++ nones
  else if pgn f.id = hcuBankPgn1 then nones ++ bank
  else nones ++ nones

/-- the arm of `encodeMotion` as a translated row: [wire type of the variant, emitter]
(0 `lock`, 1 `unlock`, 2 `motion_reset`, 3 `drive_straight`, 4 `actuator_command`) -/
def armRow : Motion → List Nat
  | .stopAll => [motionTypeStopAll, 0]
  | .resumeAll => [motionTypeResumeAll, 1]
  | .resetAll => [motionTypeResetAll, 2]
  | .straightDrive _ => [motionTypeStraightDrive, 3]
  | .change _ => [motionTypeChange, 4]

/-! ### Driver state machine as far as `tick`/`trigger` are concerned -/

/-- command objects as the HCU sees them: a motion, or any other object kind (tag only) -/
inductive Cmd where
  | motion (m : Motion)
  | other (kind : String)
  deriving DecidableEq, Repr

inductive Op where
  | cmd (c : Cmd)
  | rx (f : Frame)
  | tick
  deriving DecidableEq, Repr

/-- `tx_last_message` restricted to what the HCU stores: the last *motion* command -/
abbrev St := Option Motion

/-- one handler invocation: new state and the frames pushed on `tx_queue` -/
def step (da sa : Nat) (s : St) : Op → St × List Frame
  | .cmd (.motion m) => (some m, encodeMotion da sa m)
  | .cmd (.other _) => (s, [])
  | .rx _ => (s, [])
  | .tick => (s, encodeMotion da sa (s.getD .stopAll))

/-- run a history from the initial state; one output per op -/
def run (da sa : Nat) : St → List Op → List (List Frame)
  | _, [] => []
  | s, op :: rest => (step da sa s op).2 :: run da sa (step da sa s op).1 rest

def finalState (da sa : Nat) (s : St) (h : List Op) : St :=
  h.foldl (fun s op => (step da sa s op).1) s

end Hcu
end Glonax
