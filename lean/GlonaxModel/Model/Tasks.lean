import GlonaxModel.Generated.Consts
/-! M-task: the task system of `Runtime` (glonax-runtime/src/runtime/mod.rs) as glonaxd's `run()` drives it.

`main` executes the scheduling functions micro-operation by micro-operation (the operation lists are
REGENERATED from the source, in source order: `Consts.schedIoSubOps`, `schedNetOps`, `mainCalls`), the
termination request (the signal task's `shutdown.send(())`) may arrive between any two of them, and every
spawned task is `setup?; select!{ loop{ body }, shutdown.recv() }; teardown?`.  A receiver obtained by
`subscribe()` sees the request iff it was created before the request was sent (tokio broadcast: a new
receiver starts at the tail).  `self.shutdown.1` (main's own receiver, created with the channel) is
non-empty from the request until `wait_for_shutdown` consumes it. -/
namespace Glonax.Tasks
open Glonax Consts

inductive Role where
  | ioSub | ioPub | netRecv | netTick | netCmd
  deriving DecidableEq, Repr

inductive MOp where
  | subscribe (slot : Nat)
  | construct
  | check
  | spawn (slot : Nat) (setup teardown arm guarded : Bool) (role : Role)
  | point (id : Nat)
  deriving DecidableEq, Repr

def decodeRole : Nat → Option Role
  | 0 => some .ioSub | 1 => some .ioPub | 2 => some .netRecv | 3 => some .netTick | 4 => some .netCmd | _ => none

def decodeOp : List Nat → Option MOp
  | [0, k] => some (.subscribe k)
  | [1] => some .construct
  | [2] => some .check
  | [3, k, su, td, arm, g, r] => (decodeRole r).map fun role => .spawn k (su != 0) (td != 0) (arm != 0) (g != 0) role
  | [4, i] => some (.point i)
  | _ => none

/-- `none` if the extractor emitted something this model does not know -/
def decodeOps (l : List (List Nat)) : Option (List MOp) := l.mapM decodeOp

def ioSubCall : List MOp := (decodeOps schedIoSubOps).getD []
def ioPubCall : List MOp := (decodeOps schedIoPubOps).getD []
def netCall : List MOp := (decodeOps schedNetOps).getD []

/-- the scheduling calls of `run()` for a configuration with `nets` networks, in order -/
def callsOf (nets : Nat) : List Nat → List (List MOp)
  | [] => []
  | x :: r =>
    (if x = 1 then [ioSubCall] else if x = 5 then [ioPubCall] else if x = 2 then List.replicate nets netCall else []) ++
      callsOf nets r

/-- shape of `run()`: register first, then only scheduling calls, then wait_for_shutdown, then wait_for_tasks -/
def mainShape (l : List Nat) : Bool :=
  match l with
  | 0 :: r =>
    (match r.reverse with
     | 4 :: 3 :: mid => mid.all fun c => c == 1 || c == 2 || c == 5
     | _ => false)
  | _ => false

inductive Phase where
  | start | loop | done
  deriving DecidableEq, Repr

structure Task where
  /-- index of the scheduling call (service) it belongs to -/
  svc : Nat
  role : Role
  setup : Bool
  teardown : Bool
  /-- its select! has a `shutdown.recv()` arm -/
  arm : Bool
  /-- the receiver in that arm was subscribed before the request was sent -/
  notifiable : Bool
  phase : Phase := .start
  deriving DecidableEq, Repr

inductive MainPhase where
  | unregistered | scheduling | waiting | joining | exited
  deriving DecidableEq, Repr

inductive EmitKind where
  | setup | body | teardown
  deriving DecidableEq, Repr

structure Emit where
  task : Nat
  kind : EmitKind
  deriving DecidableEq, Repr

structure Sys where
  mainPhase : MainPhase := .unregistered
  /-- remaining micro-operations of the current scheduling call -/
  cur : List MOp := []
  /-- the calls not yet started -/
  rest : List (List MOp)
  /-- index of the current call -/
  svc : Nat := 0
  /-- receivers bound in the current call: slot ↦ created before the request -/
  slots : List (Nat × Bool) := []
  /-- the current call's guard was evaluated -/
  checked : Bool := false
  /-- … and found the shutdown channel non-empty -/
  skip : Bool := false
  requested : Bool := false
  tasks : List Task := []
  log : List Emit := []
  deriving DecidableEq, Repr

def initOf (calls : List (List MOp)) : Sys := { rest := calls }
def init (nets : Nat) : Sys := initOf (callsOf nets mainCalls)

inductive Ev where
  | main
  | request
  /-- task `i` is polled; its loop body completes `n` iterations before it yields -/
  | poll (i n : Nat)
  deriving DecidableEq, Repr

def Task.notified (t : Task) (requested : Bool) : Bool := t.arm && t.notifiable && requested

def rank : Phase → Nat
  | .start => 2 | .loop => 1 | .done => 0

/-- one poll of a task -/
def pollTask (i : Nat) (requested : Bool) (n : Nat) (t : Task) : Task × List Emit :=
  match t.phase with
  | .start => ({ t with phase := .loop }, if t.setup then [⟨i, .setup⟩] else [])
  | .loop =>
    if t.notified requested then
      ({ t with phase := .done }, List.replicate n ⟨i, .body⟩ ++ (if t.teardown then [⟨i, .teardown⟩] else []))
    else (t, List.replicate n ⟨i, .body⟩)
  | .done => (t, [])

def execOp (s : Sys) (op : MOp) (cur' : List MOp) : Sys :=
  match op with
  | .subscribe k => { s with cur := cur', slots := (k, !s.requested) :: s.slots }
  | .construct => { s with cur := cur' }
  | .point _ => { s with cur := cur' }
  | .check => { s with cur := cur', checked := true, skip := s.requested }
  | .spawn k su td arm g role =>
    if g && s.skip then { s with cur := cur' }
    else { s with cur := cur',
                  tasks := s.tasks ++ [{ svc := s.svc, role := role, setup := su, teardown := td, arm := arm,
                                         notifiable := (s.slots.lookup k).getD false }] }

def stepMain (s : Sys) : Sys :=
  match s.mainPhase with
  | .unregistered => { s with mainPhase := .scheduling }
  | .scheduling =>
    match s.cur with
    | op :: cur' => execOp s op cur'
    | [] =>
      match s.rest with
      | c :: r => { s with cur := c, rest := r, svc := s.svc + 1, slots := [], checked := false, skip := false }
      | [] => { s with mainPhase := .waiting }
  | .waiting => if s.requested then { s with mainPhase := .joining } else s
  | .joining => if s.tasks.all (·.phase == .done) then { s with mainPhase := .exited } else s
  | .exited => s

def step (s : Sys) : Ev → Sys
  | .main => stepMain s
  | .request =>
    -- before `register_shutdown_signal` the default action ends the process: no daemon to reason about
    if s.mainPhase == .unregistered then s else { s with requested := true }
  | .poll i n =>
    match s.tasks[i]? with
    | none => s
    | some t =>
      let r := pollTask i s.requested n t
      { s with tasks := s.tasks.set i r.1, log := s.log ++ r.2 }

def run (s : Sys) (es : List Ev) : Sys := es.foldl step s

/-! ### static safety of a scheduling call -/

/-- every task the call spawns is behind the guard, has a shutdown arm, and that arm's receiver is
subscribed BEFORE the guard is evaluated (and not rebound afterwards) -/
def safeOps : List Nat → Bool → List MOp → Bool
  | _, _, [] => true
  | pre, false, .subscribe k :: r => safeOps (k :: pre) false r
  | pre, true, .subscribe k :: r => !pre.contains k && safeOps pre true r
  | pre, _, .check :: r => safeOps pre true r
  | pre, c, .spawn k _ _ arm g _ :: r => c && g && arm && pre.contains k && safeOps pre c r
  | pre, c, .construct :: r => safeOps pre c r
  | pre, c, .point _ :: r => safeOps pre c r

def safeCall (ops : List MOp) : Bool := safeOps [] false ops

/-! ### fair completion (what the correspondence harness observes) -/

/-- run main to the end of scheduling, delivering the request just before the `nth` occurrence of point `pid`
(`none`: not during scheduling) -/
def schedule (fuel : Nat) (s : Sys) (at_ : Option (Nat × Nat)) : Sys :=
  match fuel with
  | 0 => s
  | fuel + 1 =>
    if s.mainPhase == .waiting then s else
    match s.mainPhase, s.cur, at_ with
    | .scheduling, .point p :: _, some (pid, nth) =>
      if p == pid then
        if nth == 0 then schedule fuel (stepMain (step s .request)) none
        else schedule fuel (stepMain s) (some (pid, nth - 1))
      else schedule fuel (stepMain s) at_
    | _, _, _ => schedule fuel (stepMain s) at_

def pollAll (s : Sys) : Sys := (List.range s.tasks.length).foldl (fun s i => step s (.poll i 1)) s

structure Outcome where
  /-- per task: (service index, role, setups, teardowns, done) -/
  tasks : List (Nat × Role × Nat × Nat × Bool)
  exited : Bool
  deriving DecidableEq, Repr

def outcome (s : Sys) : Outcome :=
  { tasks := s.tasks.zipIdx.map fun (t, i) =>
      (t.svc, t.role, (s.log.filter (· == ⟨i, .setup⟩)).length, (s.log.filter (· == ⟨i, .teardown⟩)).length, t.phase == .done)
    exited := s.mainPhase == .exited }

/-- the whole life of the daemon with the request at a scheduling point (or, `none`, after scheduling) -/
def lifeOf (calls : List (List MOp)) (at_ : Option (Nat × Nat)) : Outcome :=
  let s0 := schedule 100000 (initOf calls) at_
  let s1 := if s0.requested then s0 else step (pollAll s0) .request
  let s2 := pollAll (pollAll s1)
  outcome (stepMain (stepMain s2))

def life (nets : Nat) (at_ : Option (Nat × Nat)) : Outcome := lifeOf (callsOf nets mainCalls) at_

end Glonax.Tasks
