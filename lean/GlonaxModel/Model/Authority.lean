import GlonaxModel.Model.Drivers
/-! M-auth: `NetworkAuthority` (glonax-runtime/src/service/authority.rs) over its configured drivers:
construction from the configuration (driver factory), address claim, request responder, receive loop
(first driver producing objects wins), tick (status derivation + decimated publication + driver frames,
delayed setup on the first tick), command fan-out, teardown.  Time is a number of milliseconds advanced
only by explicit `wait` events. -/
namespace Glonax.Auth
open Glonax J1939 Drv Consts

/-! ### configuration -/

structure DriverCfg where
  da : Nat
  sa : Option Nat := none
  timeout : Option Nat := none
  vendor : String
  product : String
  deriving DecidableEq, Repr

structure NameCfg where
  manufacturerCode : Nat
  functionInstance : Nat
  ecuInstance : Nat
  function : Nat
  vehicleSystem : Nat
  vehicleSystemInstance : Nat
  industryGroup : Nat
  deriving DecidableEq, Repr

structure NetCfg where
  address : Nat
  name : NameCfg
  drivers : List DriverCfg
  deriving DecidableEq, Repr

/-- `driver_factory` -/
def factory (vendor product : String) : Option Kind :=
  if vendor = "laixer" ∧ product = "vcu" then some .vcu
  else if vendor = "laixer" ∧ product = "hcu" then some .hcu
  else if vendor = "laixer" ∧ product = "simulator" then some .sim
  else if vendor = "volvo" ∧ product = "d7e" then some .d7e
  else if vendor = "kübler" ∧ product = "inclinometer" then some .inclino
  else if vendor = "j1939" ∧ product = "ecm" then some .ecm
  else if vendor = "j1939" ∧ product = "ecu" then some .ecu
  else if vendor = "kübler" ∧ product = "encoder" then some .encoder
  else none

structure BusUnit where
  kind : Kind
  da : Nat
  sa : Nat
  timeout : Option Nat
  vendor : String
  product : String
  deriving DecidableEq, Repr

/-- `NetworkAuthority::new`: the configured entries with a known (vendor, product), in order, each with
its unit address and `sa.unwrap_or(address)`; unknown entries are skipped -/
def units (cfg : NetCfg) : List BusUnit :=
  cfg.drivers.filterMap fun d =>
    (factory d.vendor d.product).map fun k =>
      { kind := k, da := d.da, sa := d.sa.getD cfg.address, timeout := d.timeout, vendor := d.vendor, product := d.product }

/-- `KueblerEncoder::new` accepts only its four known unit addresses (it panics otherwise) -/
def constructible (u : BusUnit) : Bool := u.kind != .encoder || encoderAddrs.contains u.da

/-! ### NAME and protocol frames -/

/-- `j1939::Name::to_bytes` of `From<J1939Name>` (identity number 1, fields masked by the builder) -/
def nameBytes (n : NameCfg) : List Nat :=
  let mc := n.manufacturerCode % 2048
  let fi := n.functionInstance % 32
  let ecu := n.ecuInstance % 8
  let vsi := n.vehicleSystemInstance % 16
  let ig := n.industryGroup % 8
  [ 1, 0, (mc % 8) * 32, mc / 8, fi * 8 + ecu, n.function % 256, n.vehicleSystem * 2 % 256, vsi + ig * 16 ]

/-- `protocol::address_claimed(sa, name)` -/
def addressClaimed (sa : Nat) (n : NameCfg) : Frame :=
  mkFrame (buildId 6 pgnAddressClaimed sa 255) (nameBytes n)

/-- `protocol::request(da, sa, pgn)` -/
def request (da sa pgnv : Nat) : Frame :=
  mkFrame (buildId 6 pgnRequest sa da) [pgnv % 256, pgnv / 256 % 256, pgnv / 65536 % 256]

/-- `VecraftConfigMessage::to_frame` for `set_ident(on)` -/
def identFrame (da sa : Nat) (on : Bool) : Frame :=
  mkFrame (buildId 6 pgnProprietarilyConfigurableMessage1 sa da) [0x5A, 0x43, if on then 1 else 0, 0xFF]

/-- `J1939Unit::setup` per driver kind -/
def setupFrames (u : BusUnit) : List Frame :=
  let three := [request u.da u.sa pgnAddressClaimed, request u.da u.sa pgnSoftwareIdentification,
                request u.da u.sa pgnComponentIdentification]
  match u.kind with
  | .hcu => three ++ [Hcu.resetFrame u.da u.sa, identFrame u.da u.sa true, identFrame u.da u.sa false]
  | .vcu | .ecm | .ecu => three
  | .encoder | .inclino => [request u.da u.sa pgnAddressClaimed]
  | .d7e | .sim => []

/-- `J1939Unit::teardown` -/
def teardownFrames (u : BusUnit) : List Frame :=
  match u.kind with
  | .hcu => [Hcu.resetFrame u.da u.sa]
  | _ => []

/-- the request responder of `NetworkAuthority::recv`: `none` = not a request (goes on to the drivers),
`some frames` = handled here (possibly with no answer) -/
def respond (cfg : NetCfg) (f : Frame) : Option (List Frame) :=
  if pgn f.id ≠ pgnRequest then none
  else if destination? f.id ≠ some cfg.address then some []
  else
    let req := (Drv.byte f 0 + 256 * Drv.byte f 1 + 65536 * Drv.byte f 2) % 262144
    if req = pgnAddressClaimed then some [addressClaimed cfg.address cfg.name]
    else if req = pgnSoftwareIdentification then
      some [mkFrame (buildId 6 pgnSoftwareIdentification cfg.address 0) [1, versionMajor, versionMinor, versionPatch, 42]]
    else if req = pgnTimeDate then
      -- the payload is the wall clock (`chrono::Utc::now()`): identifier and length only
      some [mkFrame (buildId 6 pgnTimeDate cfg.address 0) [0, 0, 0, 0, 0, 0, 0, 0]]
    else some []

/-! ### module status -/

inductive StatusKind where
  | healthy
  | faultyTimeout
  deriving DecidableEq, Repr

structure Status where
  /-- index of the unit in `units cfg` (its canonical name is `unitName`) -/
  unit : Nat
  kind : StatusKind
  deriving DecidableEq, Repr

def hexUpper (n : Nat) : String := String.ofList ((Nat.toDigits 16 n).map Char.toUpper)

/-- `J1939Unit::name`: "{vendor}:{product}:0x{source:X}:0x{destination:X}" -/
def unitName (u : BusUnit) : String := s!"{u.vendor}:{u.product}:0x{hexUpper u.sa}:0x{hexUpper u.da}"

structure UnitSt where
  /-- `rx_count > 0` -/
  heard : Bool := false
  /-- `rx_last` (creation time of the context until the first accepted message) -/
  lastRx : Nat := 0
  lastStatus : Option StatusKind := none
  hcu : Hcu.St := none
  volvo : VolvoSt := {}
  deriving DecidableEq, Repr

structure St where
  units : List UnitSt
  tick : Nat := 0
  isSetup : Bool := false
  now : Nat := 0
  deriving DecidableEq, Repr

def init (cfg : NetCfg) : St := { units := (units cfg).map fun _ => {} }

inductive Ev where
  | setup
  | frame (f : Frame)
  | cycle
  | motion (m : Motion)
  | engine (e : Engine)
  | otherCmd
  | wait (ms : Nat)
  | teardown
  deriving DecidableEq, Repr

structure Out where
  frames : List Frame := []
  signals : List Sig := []
  statuses : List Status := []
  deriving DecidableEq, Repr

/-- the receive loop over the drivers: every driver sees the frame until one produces objects -/
def recvLoop (now : Nat) : List (BusUnit × UnitSt) → Frame → List UnitSt × List Sig
  | [], _ => ([], [])
  | (u, s) :: rest, f =>
    match tryRecv u.kind u.da f with
    | .panic => (s :: rest.map (·.2), [])
    | .ok r =>
      let s1 : UnitSt := if r.marks then { s with heard := true, lastRx := now } else s
      let s2 : UnitSt := match r.signals with
        | [.engine e] => { s1 with volvo := { s1.volvo with rxLast := some e } }
        | _ => s1
      if r.signals.isEmpty then
        let (rs, sg) := recvLoop now rest f
        (s2 :: rs, sg)
      else
        ({ s2 with heard := true, lastRx := now } :: rest.map (·.2), r.signals)

/-- `driver.tick` frames -/
def tickFrames (u : BusUnit) (s : UnitSt) (now : Nat) : List Frame :=
  match u.kind with
  | .hcu => (Hcu.step u.da u.sa s.hcu .tick).2
  | .d7e => (volvoStep u.sa { s.volvo with now := now } .tick).2
  | _ => []

/-- one driver in `on_tick`: status derivation, change detection, decimated publication -/
def tickUnit (idx tick now : Nat) (u : BusUnit) (s : UnitSt) : UnitSt × List Status × List Frame :=
  let st0 : Option StatusKind := if s.heard then some .healthy else none
  -- `rx_last.elapsed() > timeout`: the model clock (whole ms, advanced only by `wait`) is a strict lower bound of
  -- the real elapsed time, which is always positive: a deadline is passed as soon as the lower bound reaches it
  let timedOut : Bool := match u.timeout with | some t => decide (now - s.lastRx + 1 > t) | none => false
  let st : Option StatusKind := if timedOut then some .faultyTimeout else st0
  let changed : Bool := match st with | some x => s.lastStatus != some x | none => false
  let last : Option StatusKind := if changed then st else s.lastStatus
  let publish : List Status := match last with
    | some k => if tick % (statusDecimationMs / statusIntervalMs) = 0 || changed then [{ unit := idx, kind := k }] else []
    | none => []
  ({ s with lastStatus := last }, publish, tickFrames u s now)

def tickAll (tick now : Nat) : Nat → List (BusUnit × UnitSt) → List UnitSt × List Status × List Frame
  | _, [] => ([], [], [])
  | i, (u, s) :: rest =>
    let (s', p, fr) := tickUnit i tick now u s
    let (ss, ps, frs) := tickAll tick now (i + 1) rest
    (s' :: ss, p ++ ps, fr ++ frs)

def step (cfg : NetCfg) (s : St) : Ev → St × Out
  | .setup => (s, { frames := [addressClaimed cfg.address cfg.name] })
  | .wait ms => ({ s with now := s.now + ms }, {})
  | .frame f0 =>
    -- `ControlNetwork::recv`: every frame is delivered with 8 data bytes (0xFF padding)
    let f : Frame := { id := f0.id, data := J1939.normalise f0.data }
    match respond cfg f with
    | some fr => (s, { frames := fr })
    | none =>
      let (us, sg) := recvLoop s.now ((units cfg).zip s.units) f
      ({ s with units := us }, { signals := sg })
  | .cycle =>
    let setupFr := if s.isSetup then [] else (units cfg).flatMap setupFrames
    let (us, ps, fr) := tickAll s.tick s.now 0 ((units cfg).zip s.units)
    ({ s with units := us, tick := s.tick + 1, isSetup := true }, { frames := setupFr ++ fr, statuses := ps })
  | .motion m =>
    let us := ((units cfg).zip s.units).map fun ((u, us) : BusUnit × UnitSt) => if u.kind = Kind.hcu then { us with hcu := some m } else us
    (⟨us, s.tick, s.isSetup, s.now⟩,
     { frames := (units cfg).flatMap fun (u : BusUnit) => if u.kind = Kind.hcu then Hcu.encodeMotion u.da u.sa m else [] })
  | .engine e =>
    let pairs := (units cfg).zip s.units
    let res : List (UnitSt × List Frame) := pairs.map fun ((u, us) : BusUnit × UnitSt) =>
      if u.kind = Kind.d7e then
        let r := volvoStep u.sa { us.volvo with now := s.now } (.cmd e)
        ({ us with volvo := r.1 }, r.2)
      else (us, [])
    (⟨res.map (·.1), s.tick, s.isSetup, s.now⟩, { frames := res.flatMap (·.2) })
  | .otherCmd => (s, {})
  | .teardown => (s, { frames := (units cfg).flatMap teardownFrames })

def run (cfg : NetCfg) : St → List Ev → List Out
  | _, [] => []
  | s, e :: es => (step cfg s e).2 :: run cfg (step cfg s e).1 es

def final (cfg : NetCfg) (s : St) (es : List Ev) : St := es.foldl (fun s e => (step cfg s e).1) s

end Glonax.Auth
