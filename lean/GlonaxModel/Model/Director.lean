import GlonaxModel.Model.Wire
import GlonaxModel.Base.F32
/-! The supervising director (glonax-runtime/src/service/director.rs) in its hard-wired `Supervised`
mode: per processed signal, the emergency sequence or nothing.  Rotations reach the model as the
f32 bit patterns of `rotation.euler_angles()` (the nalgebra extraction is outside the model). -/
namespace Glonax.Dir
open Glonax Wire Consts F32

inductive Sig where
  | engine (rpm : Nat)
  | rotator (source roll pitch yaw : Nat)
  /-- control / motion / target / module status: processed, no verdict of their own -/
  | other
  deriving DecidableEq, Repr

/-- state map of the director: key 0 = verdict of the last rotator signal (any source), key 1 = verdict
of the last engine signal; only "is it Emergency" matters in Supervised mode -/
structure St where
  rotEmergency : Option Bool := none
  engEmergency : Option Bool := none
  deriving DecidableEq, Repr

/-- one `if (roll > t || pitch > t) && yaw == 0.0` test of the inclinometer arm -/
def tiltCond (t roll pitch yaw : Nat) : Bool := (fgt roll t || fgt pitch t) && isZero yaw

/-- the inclinometer arm of `elect_rotator_state`: branches in SOURCE ORDER (regenerated from the code),
the first whose condition holds decides -/
def tiltEmergency (roll pitch yaw : Nat) : Bool :=
  if tiltCond directorTiltBranch0Bits roll pitch yaw then directorTiltBranch0Emergency
  else if tiltCond directorTiltBranch1Bits roll pitch yaw then directorTiltBranch1Emergency
  else false

/-- `elect_rotator_state(..) == Emergency`: only the inclinometer arm can return Emergency -/
def rotatorEmergency (source roll pitch yaw : Nat) : Bool :=
  source = directorInclinometer && tiltEmergency roll pitch yaw

/-- `elect_engine_state(..) == Emergency` -/
def engineEmergency (rpm : Nat) : Bool := decide (rpm > directorRpmEmergency)

/-- `command_emergency`: the six commands, in order -/
def emergencySeq : List Packet :=
  [ .control (.hydraulicLock true), .motion .stopAll, .control (.hydraulicBoost false),
    .control (.machineTravelAlarm true), .control (.machineStrobeLight true), .engine Engine.shutdown ]

/-- `on_event` followed by the decision of `wait_io_sub` for one signal -/
def step (s : St) (sig : Sig) : St × List Packet :=
  let s' : St := match sig with
    | .engine rpm => { s with engEmergency := some (engineEmergency rpm) }
    | .rotator src r p y => { s with rotEmergency := some (rotatorEmergency src r p y) }
    | .other => s
  let emergency := s'.rotEmergency.getD false || s'.engEmergency.getD false
  (s', if emergency then emergencySeq else [])

def run : St → List Sig → List (List Packet)
  | _, [] => []
  | s, sig :: rest => (step s sig).2 :: run (step s sig).1 rest

def final (s : St) (h : List Sig) : St := h.foldl (fun s sig => (step s sig).1) s

end Glonax.Dir
