import GlonaxModel.Base.Ring
import GlonaxModel.Generated.Consts
/-! The command bus (glonax-runtime/src/runtime/mod.rs): one broadcast channel of capacity
QUEUE_SIZE_COMMAND from any number of producers (sessions, director) to the command task of every
network service: `loop { match command_rx.recv().await { Ok(o) => on_command(o), Lagged(n) => warn,
Closed => break } }`.  Consumers are independent of one another (each has its own cursor). -/
namespace Glonax.Bus

/-- the command task of one network -/
structure Cons (α : Type) where
  next : Nat := 0
  handled : List α := []
  exited : Bool := false
  deriving Repr

inductive Ev (α : Type) where
  /-- some producer sends a command -/
  | send (x : α)
  /-- the command task of network `i` gets to run one `recv` -/
  | poll (i : Nat)
  /-- every producer has gone -/
  | close
  deriving Repr

/-- one `command_rx.recv()` that is ready, and what the loop does with it -/
def Cons.poll {α : Type} (c : Cons α) (r : Ring α) : Cons α :=
  if c.exited then c
  else match r.recv c.next with
    | (.ok v, n) => { c with next := n, handled := c.handled ++ [v] }
    | (.lagged _, n) => { c with next := n }          -- warn!(…); the loop continues
    | (.closed, _) => { c with exited := true }       -- break
    | (.empty, _) => c                                -- would block

structure St (α : Type) where
  ring : Ring α
  cons : List (Cons α)

def step {α : Type} (s : St α) : Ev α → St α
  | .send x => { s with ring := s.ring.send x }
  | .poll i => { s with cons := s.cons.mapIdx fun j c => if j = i then c.poll s.ring else c }
  | .close => { s with ring := { s.ring with closed := true } }

def run {α : Type} (s : St α) (es : List (Ev α)) : St α := es.foldl step s

/-- tokio's broadcast channel rounds the requested capacity up to a power of two -/
def nextPow2 : Nat → Nat → Nat → Nat
  | 0, p, _ => p
  | fuel + 1, p, n => if p < n then nextPow2 fuel (2 * p) n else p

def effectiveCapacity : Nat := nextPow2 64 1 Consts.queueSizeCommand

/-- the capacity the property is stated for ("the capacity of 16") -/
def statedCapacity : Nat := 16

def init (α : Type) (networks : Nat) : St α :=
  { ring := { cap := effectiveCapacity }, cons := List.replicate networks {} }

/-- let one consumer run until its queue is empty (fuel = retained values + 2) -/
def drain {α : Type} (c : Cons α) (r : Ring α) : Nat → Cons α
  | 0 => c
  | n + 1 => drain (c.poll r) r n

end Glonax.Bus
