import GlonaxModel.Generated.Consts
/-! Core engine types (glonax-runtime/src/core/engine.rs). Fields are `Nat` with range predicates. -/
namespace Glonax

inductive EngineState where
  | noRequest | starting | stopping | request
  deriving DecidableEq, Repr, Inhabited

namespace EngineState
open Consts
/-- `state as u8` -/
def code : EngineState → Nat
  | noRequest => engineStateNoRequest
  | starting => engineStateStarting
  | stopping => engineStateStopping
  | request => engineStateRequest

/-- `EngineState::try_from(u8)` : first matching arm wins, as in a Rust `match`. -/
def ofCode? (b : Nat) : Option EngineState :=
  if b = engineStateNoRequest then some noRequest
  else if b = engineStateStarting then some starting
  else if b = engineStateStopping then some stopping
  else if b = engineStateRequest then some request
  else none

def all : List EngineState := [noRequest, starting, stopping, request]
end EngineState

structure Engine where
  driverDemand : Nat := 0
  actualEngine : Nat := 0
  rpm : Nat := 0
  state : EngineState := .noRequest
  deriving DecidableEq, Repr, Inhabited

namespace Engine
/-- `Engine::from_rpm` -/
def fromRpm (rpm : Nat) : Engine := { rpm := rpm, state := .request }
/-- `Engine::shutdown` -/
def shutdown : Engine := { state := .noRequest }
/-- `Engine::is_running` -/
def isRunning (e : Engine) : Bool :=
  e.state = .request && (decide (e.actualEngine > 0) || decide (e.rpm > 0))
def WF (e : Engine) : Prop := e.driverDemand < 256 ∧ e.actualEngine < 256 ∧ e.rpm < 65536
end Engine

end Glonax
