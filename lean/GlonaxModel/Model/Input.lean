import GlonaxModel.Model.Wire
/-! Operator front-ends: glonax-input (joystick.rs `Event::from`, gamepad.rs `map`, input.rs
`InputState::try_from`, main.rs start-up state and forwarding) and the glonaxctl command table
(glonax-control/src/main.rs, glonax-runtime/src/util.rs `string_try_into_bool`). -/
namespace Glonax.Input
open Glonax Wire

/-! ### raw js_event records -/

inductive EvKind where
  | button | axis | buttonInit | axisInit
  deriving DecidableEq, Repr

structure Event where
  kind : EvKind
  number : Nat
  value : Int
  deriving DecidableEq, Repr

/-- i16 negation as repaired: saturating (`-(-32768)` does not fit in an i16) -/
def negSat (v : Int) : Int := if v = -32768 then 32767 else -v

/-- `Event::from(&[u8])` on an 8-byte record `time:u32 value:i16 type:u8 number:u8`; axis values are
negated; a type byte outside the four the kernel produces hits `unimplemented!()` -/
def decodeEvent (b : List Nat) : Option Event :=
  let value := i16OfU16 (b.getD 4 0 + 256 * b.getD 5 0)
  let ty := b.getD 6 0
  let n := b.getD 7 0
  if ty = Consts.jsEventTypeButton then some ⟨.button, n, value⟩
  else if ty = Consts.jsEventTypeAxis then some ⟨.axis, n, negSat value⟩
  else if ty = Consts.jsEventInit + Consts.jsEventTypeButton then some ⟨.buttonInit, n, value⟩
  else if ty = Consts.jsEventInit + Consts.jsEventTypeAxis then some ⟨.axisInit, n, negSat value⟩
  else none

/-! ### scancodes -/

inductive Btn where | pressed | released
  deriving DecidableEq, Repr

def Btn.of (v : Int) : Btn := if v = 1 then .pressed else .released

inductive Scancode where
  | slew (v : Int) | arm (v : Int) | attachment (v : Int) | boom (v : Int)
  | leftTrack (v : Int) | rightTrack (v : Int)
  | abort (b : Btn) | confirm (b : Btn) | driveLock (b : Btn) | limitMotion (b : Btn)
  | up (b : Btn) | down (b : Btn)
  deriving DecidableEq, Repr

/-- `i16 / 2` (truncation toward zero) -/
def half (v : Int) : Int := if v ≥ 0 then v / 2 else -((-v) / 2)

/-- `Level::ramp` -/
def ramp (v lower : Int) : Int := if v < lower ∧ v > -lower then 0 else v

/-- `((value as i32 - i16::MAX as i32) / 2).abs() as i16` -/
def trigger (v : Int) : Int := (32767 - v) / 2

inductive Mode where | xbox | logitechSolo | logitechRight | logitechLeft
  deriving DecidableEq, Repr

structure Dev where
  mode : Mode
  reverseLeft : Bool := false
  reverseRight : Bool := false
  deriving DecidableEq, Repr

/-- `XboxController::map` / `LogitechJoystick::map` -/
def Dev.map (d : Dev) (e : Event) : Dev × Option Scancode :=
  match d.mode with
  | .xbox =>
    match e.kind, e.number with
    | .axis, 1 => (d, some (.arm e.value))
    | .axis, 0 => (d, some (.slew e.value))
    | .axis, 4 => (d, some (.boom e.value))
    | .axis, 3 => (d, some (.attachment e.value))
    | .button, 4 => ({ d with reverseLeft := e.value = 1 }, none)
    | .button, 5 => ({ d with reverseRight := e.value = 1 }, none)
    | .axis, 2 => (d, some (.leftTrack (if d.reverseLeft then -(trigger e.value) else trigger e.value)))
    | .axis, 5 => (d, some (.rightTrack (if d.reverseRight then -(trigger e.value) else trigger e.value)))
    | .axis, 7 => (d, if e.value > 0 then some (.up .pressed) else if e.value < 0 then some (.down .pressed) else none)
    | .button, 0 => (d, some (.confirm (Btn.of e.value)))
    | .button, 1 => (d, some (.abort (Btn.of e.value)))
    | .button, 2 => (d, some (.driveLock (Btn.of e.value)))
    | .button, 3 => (d, some (.limitMotion (Btn.of e.value)))
    | _, _ => (d, none)
  | m =>
    let right := m = .logitechRight
    match e.kind, e.number with
    | .axis, 1 =>
      (d, some (if right then .boom (if e.value < 0 then ramp e.value 3500 else ramp (half e.value) 1750)
                else .arm (ramp (half e.value) 1500)))
    | .axis, 0 =>
      (d, some (if right then .attachment (if e.value < 0 then ramp (half e.value) 2000 else ramp e.value 4000)
                else .slew (ramp (half e.value) 1000)))
    | .button, 1 => (d, some (.abort (Btn.of e.value)))
    | _, _ => (d, none)

/-! ### interlock state -/

structure St where
  driveLock : Bool
  motionLock : Bool
  limitMotion : Bool
  engineRpm : Nat
  deriving DecidableEq, Repr

/-- the state `main` starts from -/
def startState (fullMotion : Bool) : St :=
  { driveLock := Consts.inputStartDriveLock, motionLock := Consts.inputStartMotionLock,
    limitMotion := if Consts.inputStartLimitIsNotFullMotion then !fullMotion else fullMotion,
    engineRpm := Consts.inputStartEngineRpm }

def clampRpm (r : Nat) : Nat := if r < 900 then 900 else if r > 2100 then 2100 else r

def change (a : Actuator) (v : Int) : Packet := .motion (.change [(a, v)])

/-- `InputState::try_from` -/
def St.step (s : St) : Scancode → St × Option Packet
  | .slew v => if s.motionLock then (s, none)
      else (s, some (change .slew (if s.limitMotion then ramp (half v) 1000 else ramp v 1000)))
  | .arm v => if s.motionLock then (s, none)
      else (s, some (change .arm (if s.limitMotion then ramp (half v) 1500 else ramp v 1500)))
  | .attachment v => if s.motionLock then (s, none)
      else (s, some (change .attachment
        (if v < 0 then (if s.limitMotion then ramp (half v) 2000 else ramp v 2000) else ramp v 4000)))
  | .boom v => if s.motionLock then (s, none)
      else (s, some (change .boom
        (if v < 0 then ramp v 3500 else if s.limitMotion then ramp (half v) 1750 else ramp v 1750)))
  | .leftTrack v => if s.motionLock then (s, none)
      else (s, some (if s.driveLock then .motion (.straightDrive (ramp v 2000)) else change .limpLeft (ramp v 2000)))
  | .rightTrack v => if s.motionLock then (s, none)
      else (s, some (if s.driveLock then .motion (.straightDrive (ramp v 2000)) else change .limpRight (ramp v 2000)))
  | .up .pressed => if !s.motionLock then (s, none)
      else
        let r := clampRpm (s.engineRpm + 100)
        ({ s with engineRpm := r }, some (.engine (Engine.fromRpm r)))
  | .down .pressed =>
      if s.engineRpm ≤ 900 then ({ s with engineRpm := 0 }, some (.engine Engine.shutdown))
      else
        let r := clampRpm (s.engineRpm - 100)
        ({ s with engineRpm := r }, some (.engine (Engine.fromRpm r)))
  | .abort .pressed => ({ s with motionLock := true }, some (.motion .stopAll))
  | .abort .released => ({ s with motionLock := false }, some (.motion .resumeAll))
  | .driveLock .pressed => ({ s with driveLock := true }, none)
  | .driveLock .released => ({ s with driveLock := false }, some (.motion (.straightDrive 0)))
  | .limitMotion .pressed => ({ s with limitMotion := false }, none)
  | .limitMotion .released => ({ s with limitMotion := true }, none)
  | _ => (s, none)

/-! ### the translated table of `InputState::try_from`

`Consts.inputTable` is produced by the translator (tools/extract.py, `extract_input_table`) from the source text of
`InputState::try_from` on every run, one row per match arm in source order.  `stepT` gives the rows their meaning;
`Thm.C18.C18_translation` proves that this meaning is `St.step` for every state and scancode. -/

/-- (scancode number of the table, axis value, button state) -/
def Scancode.key : Scancode → Nat × Int × Option Btn
  | .slew v => (0, v, none) | .arm v => (1, v, none) | .attachment v => (2, v, none) | .boom v => (3, v, none)
  | .leftTrack v => (4, v, none) | .rightTrack v => (5, v, none)
  | .up b => (6, 0, some b) | .down b => (7, 0, some b) | .abort b => (8, 0, some b) | .driveLock b => (9, 0, some b)
  | .limitMotion b => (10, 0, some b) | .confirm b => (11, 0, some b)

/-- `if self.limit_motion { (value / 2).ramp(d) } else { value.ramp(d) }` -/
def limited (lim : Bool) (v : Int) (d : Nat) : Int := if lim then ramp (half v) d else ramp v d

/-- value expression of an axis row -/
def axisValue (expr d1 d2 : Nat) (lim : Bool) (v : Int) : Option Int :=
  if expr = 1 then some (limited lim v d1)
  else if expr = 2 then some (if v < 0 then limited lim v d1 else ramp v d2)
  else if expr = 3 then some (if v < 0 then ramp v d1 else limited lim v d2)
  else if expr = 4 then some (ramp v d1)
  else none

def rowMatches (row : List Nat) (k : Nat × Int × Option Btn) : Bool :=
  match row, k with
  | 0 :: sc :: _, (n, _, none) => sc == n
  | _ :: sc :: p :: _, (n, _, some b) => sc == n && (p == 1) == (b == .pressed)
  | _, _ => false

/-- one row applied; the outer `none` = a row this interpreter gives no meaning to -/
def rowStep (s : St) (v : Int) : List Nat → Option (St × Option Packet)
  | [0, _, gate, expr, d1, d2, out, a] =>
    if gate ≠ 1 then none
    else if s.motionLock then some (s, none)
    else match axisValue expr d1 d2 s.limitMotion v, Actuator.ofId? a with
      | some x, some act =>
        if out = 0 then some (s, some (change act x))
        else if out = 1 then some (s, some (if s.driveLock then .motion (.straightDrive x) else change act x))
        else none
      | _, _ => none
  | [1, _, _, field, value, out] =>
    let b := value = 1
    let s'? : Option St :=
      if field = 0 then some { s with driveLock := b } else if field = 1 then some { s with motionLock := b }
      else if field = 2 then some { s with limitMotion := b } else none
    let o? : Option (Option Packet) :=
      if out = 0 then some none else if out = 1 then some (some (.motion .stopAll))
      else if out = 2 then some (some (.motion .resumeAll))
      else if out = 3 then some (some (.motion (.straightDrive Consts.inputPowerNeutral))) else none
    match s'?, o? with
    | some s', some o => some (s', o)
    | _, _ => none
  | [2, _, _, gate, step, lo, hi] =>
    if gate ≠ 2 then none
    else if !s.motionLock then some (s, none)
    else
      let r := if s.engineRpm + step < lo then lo else if s.engineRpm + step > hi then hi else s.engineRpm + step
      some ({ s with engineRpm := r }, some (.engine (Engine.fromRpm r)))
  | [3, _, _, floor, step, lo, hi] =>
    if s.engineRpm ≤ floor then some ({ s with engineRpm := 0 }, some (.engine Engine.shutdown))
    else
      let r := if s.engineRpm - step < lo then lo else if s.engineRpm - step > hi then hi else s.engineRpm - step
      some ({ s with engineRpm := r }, some (.engine (Engine.fromRpm r)))
  | _ => none

/-- first matching arm wins; no arm = the `_ => None` arm (whose presence the translator checks) -/
def stepT (table : List (List Nat)) (s : St) (sc : Scancode) : Option (St × Option Packet) :=
  match table.find? (fun row => rowMatches row sc.key) with
  | some row => rowStep s sc.key.2.1 row
  | none => some (s, none)

/-- one raw record through the whole pipeline of `main`'s loop; `none` = the process died -/
def pipeline (d : Dev) (s : St) (raw : List Nat) : Option (Dev × St × Option Packet) :=
  match decodeEvent raw with
  | none => none
  | some e =>
    let (d', sc) := d.map e
    match sc with
    | none => some (d', s, none)
    | some sc =>
      let (s', o) := s.step sc
      some (d', s', o)

def runEvents (d : Dev) (s : St) : List Event → List (Option Packet)
  | [] => []
  | e :: rest =>
    let (d', sc) := d.map e
    match sc with
    | none => none :: runEvents d' s rest
    | some sc =>
      let (s', o) := s.step sc
      o :: runEvents d' s' rest

/-! ### glonaxctl -/

/-- `string_try_into_bool` after `to_lowercase` -/
def parseToggle (lower : String) : Option Bool :=
  if lower = "1" ∨ lower = "on" ∨ lower = "true" then some true
  else if lower = "0" ∨ lower = "off" ∨ lower = "false" then some false
  else none

inductive Sub where
  | motionLock | hydraulicQuickDisconnect | hydraulicLock | hydraulicBoost | hydraulicBoomConflux
  | hydraulicArmConflux | hydraulicBoomFloat | illumination | lights | horn | strobeLight | travelAlarm
  deriving DecidableEq, Repr

/-- the packet a toggle sub-command sends -/
def Sub.packet (s : Sub) (on : Bool) : Packet :=
  match s with
  | .motionLock => .motion (if on then .stopAll else .resumeAll)
  | .hydraulicQuickDisconnect => .control (.hydraulicQuickDisconnect on)
  | .hydraulicLock => .control (.hydraulicLock on)
  | .hydraulicBoost => .control (.hydraulicBoost on)
  | .hydraulicBoomConflux => .control (.hydraulicBoomConflux on)
  | .hydraulicArmConflux => .control (.hydraulicArmConflux on)
  | .hydraulicBoomFloat => .control (.hydraulicBoomFloat on)
  | .illumination => .control (.machineIllumination on)
  | .lights => .control (.machineLights on)
  | .horn => .control (.machineHorn on)
  | .strobeLight => .control (.machineStrobeLight on)
  | .travelAlarm => .control (.machineTravelAlarm on)

/-- what glonaxctl writes after the handshake for `<sub> <word>` to a daemon of version (major, minor):
nothing for an unaccepted word or an incompatible daemon -/
def cliSends (compatible : Bool) (s : Sub) (lowerWord : String) : List Packet :=
  if !compatible then []
  else match parseToggle lowerWord with
    | some on => [s.packet on]
    | none => []

end Glonax.Input
