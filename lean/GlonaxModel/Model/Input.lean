import GlonaxModel.Model.Wire
/-! Operator front-ends: glonax-input (joystick.rs `Event::from`, gamepad.rs `map`, input.rs
`InputState::try_from`, main.rs start-up state and forwarding) and the glonaxctl command table
(glonax-control/src/main.rs, glonax-runtime/src/util.rs `string_try_into_bool`). -/
namespace Glonax.Input
open Glonax Wire

/-! ### raw js_event records -/

inductive EvKind where
  | button | axis | buttonInit | axisInit
  deriving DecidableEq, Repr

structure Event where
  kind : EvKind
  number : Nat
  value : Int
  deriving DecidableEq, Repr

/-- i16 negation as repaired: saturating (`-(-32768)` does not fit in an i16) -/
def negSat (v : Int) : Int := if v = -32768 then 32767 else -v

/-- `Event::from(&[u8])` on an 8-byte record `time:u32 value:i16 type:u8 number:u8`; axis values are
negated; a type byte outside the four the kernel produces hits `unimplemented!()` -/
def decodeEvent (b : List Nat) : Option Event :=
  let value := i16OfU16 (b.getD 4 0 + 256 * b.getD 5 0)
  let ty := b.getD 6 0
  let n := b.getD 7 0
  if ty = Consts.jsEventTypeButton then some ⟨.button, n, value⟩
  else if ty = Consts.jsEventTypeAxis then some ⟨.axis, n, negSat value⟩
  else if ty = Consts.jsEventInit + Consts.jsEventTypeButton then some ⟨.buttonInit, n, value⟩
  else if ty = Consts.jsEventInit + Consts.jsEventTypeAxis then some ⟨.axisInit, n, negSat value⟩
  else none

/-! ### scancodes -/

inductive Btn where | pressed | released
  deriving DecidableEq, Repr

def Btn.of (v : Int) : Btn := if v = 1 then .pressed else .released

inductive Scancode where
  | slew (v : Int) | arm (v : Int) | attachment (v : Int) | boom (v : Int)
  | leftTrack (v : Int) | rightTrack (v : Int)
  | abort (b : Btn) | confirm (b : Btn) | driveLock (b : Btn) | limitMotion (b : Btn)
  | up (b : Btn) | down (b : Btn)
  deriving DecidableEq, Repr

/-- `i16 / 2` (truncation toward zero) -/
def half (v : Int) : Int := if v ≥ 0 then v / 2 else -((-v) / 2)

/-- `Level::ramp` -/
def ramp (v lower : Int) : Int := if v < lower ∧ v > -lower then 0 else v

/-- `((value as i32 - i16::MAX as i32) / 2).abs() as i16` -/
def trigger (v : Int) : Int := (32767 - v) / 2

inductive Mode where | xbox | logitechSolo | logitechRight | logitechLeft
  deriving DecidableEq, Repr

structure Dev where
  mode : Mode
  reverseLeft : Bool := false
  reverseRight : Bool := false
  deriving DecidableEq, Repr

/-- `XboxController::map` / `LogitechJoystick::map` -/
def Dev.map (d : Dev) (e : Event) : Dev × Option Scancode :=
  match d.mode with
  | .xbox =>
    match e.kind, e.number with
    | .axis, 1 => (d, some (.arm e.value))
    | .axis, 0 => (d, some (.slew e.value))
    | .axis, 4 => (d, some (.boom e.value))
    | .axis, 3 => (d, some (.attachment e.value))
    | .button, 4 => ({ d with reverseLeft := e.value = 1 }, none)
    | .button, 5 => ({ d with reverseRight := e.value = 1 }, none)
    | .axis, 2 => (d, some (.leftTrack (if d.reverseLeft then -(trigger e.value) else trigger e.value)))
    | .axis, 5 => (d, some (.rightTrack (if d.reverseRight then -(trigger e.value) else trigger e.value)))
    | .axis, 7 => (d, if e.value > 0 then some (.up .pressed) else if e.value < 0 then some (.down .pressed) else none)
    | .button, 0 => (d, some (.confirm (Btn.of e.value)))
    | .button, 1 => (d, some (.abort (Btn.of e.value)))
    | .button, 2 => (d, some (.driveLock (Btn.of e.value)))
    | .button, 3 => (d, some (.limitMotion (Btn.of e.value)))
    | _, _ => (d, none)
  | m =>
    let right := m = .logitechRight
    match e.kind, e.number with
    | .axis, 1 =>
      (d, some (if right then .boom (if e.value < 0 then ramp e.value 3500 else ramp (half e.value) 1750)
                else .arm (ramp (half e.value) 1500)))
    | .axis, 0 =>
      (d, some (if right then .attachment (if e.value < 0 then ramp (half e.value) 2000 else ramp e.value 4000)
                else .slew (ramp (half e.value) 1000)))
    | .button, 1 => (d, some (.abort (Btn.of e.value)))
    | _, _ => (d, none)

/-! ### interlock state -/

structure St where
  driveLock : Bool
  motionLock : Bool
  limitMotion : Bool
  engineRpm : Nat
  deriving DecidableEq, Repr

/-- the state `main` starts from -/
def startState (fullMotion : Bool) : St :=
  { driveLock := Consts.inputStartDriveLock, motionLock := Consts.inputStartMotionLock,
    limitMotion := if Consts.inputStartLimitIsNotFullMotion then !fullMotion else fullMotion,
    engineRpm := Consts.inputStartEngineRpm }

def clampRpm (r : Nat) : Nat := if r < 900 then 900 else if r > 2100 then 2100 else r

def change (a : Actuator) (v : Int) : Packet := .motion (.change [(a, v)])

/-- `InputState::try_from` -/
def St.step (s : St) : Scancode → St × Option Packet
  | .slew v => if s.motionLock then (s, none)
      else (s, some (change .slew (if s.limitMotion then ramp (half v) 1000 else ramp v 1000)))
  | .arm v => if s.motionLock then (s, none)
      else (s, some (change .arm (if s.limitMotion then ramp (half v) 1500 else ramp v 1500)))
  | .attachment v => if s.motionLock then (s, none)
      else (s, some (change .attachment
        (if v < 0 then (if s.limitMotion then ramp (half v) 2000 else ramp v 2000) else ramp v 4000)))
  | .boom v => if s.motionLock then (s, none)
      else (s, some (change .boom
        (if v < 0 then ramp v 3500 else if s.limitMotion then ramp (half v) 1750 else ramp v 1750)))
  | .leftTrack v => if s.motionLock then (s, none)
      else (s, some (if s.driveLock then .motion (.straightDrive (ramp v 2000)) else change .limpLeft (ramp v 2000)))
  | .rightTrack v => if s.motionLock then (s, none)
      else (s, some (if s.driveLock then .motion (.straightDrive (ramp v 2000)) else change .limpRight (ramp v 2000)))
  | .up .pressed => if !s.motionLock then (s, none)
      else
        let r := clampRpm (s.engineRpm + 100)
        ({ s with engineRpm := r }, some (.engine (Engine.fromRpm r)))
  | .down .pressed =>
      if s.engineRpm ≤ 900 then ({ s with engineRpm := 0 }, some (.engine Engine.shutdown))
      else
        let r := clampRpm (s.engineRpm - 100)
        ({ s with engineRpm := r }, some (.engine (Engine.fromRpm r)))
  | .abort .pressed => ({ s with motionLock := true }, some (.motion .stopAll))
  | .abort .released => ({ s with motionLock := false }, some (.motion .resumeAll))
  | .driveLock .pressed => ({ s with driveLock := true }, none)
  | .driveLock .released => ({ s with driveLock := false }, some (.motion (.straightDrive 0)))
  | .limitMotion .pressed => ({ s with limitMotion := false }, none)
  | .limitMotion .released => ({ s with limitMotion := true }, none)
  | _ => (s, none)

/-- one raw record through the whole pipeline of `main`'s loop; `none` = the process died -/
def pipeline (d : Dev) (s : St) (raw : List Nat) : Option (Dev × St × Option Packet) :=
  match decodeEvent raw with
  | none => none
  | some e =>
    let (d', sc) := d.map e
    match sc with
    | none => some (d', s, none)
    | some sc =>
      let (s', o) := s.step sc
      some (d', s', o)

def runEvents (d : Dev) (s : St) : List Event → List (Option Packet)
  | [] => []
  | e :: rest =>
    let (d', sc) := d.map e
    match sc with
    | none => none :: runEvents d' s rest
    | some sc =>
      let (s', o) := s.step sc
      o :: runEvents d' s' rest

/-! ### glonaxctl -/

/-- `string_try_into_bool` after `to_lowercase` -/
def parseToggle (lower : String) : Option Bool :=
  if lower = "1" ∨ lower = "on" ∨ lower = "true" then some true
  else if lower = "0" ∨ lower = "off" ∨ lower = "false" then some false
  else none

inductive Sub where
  | motionLock | hydraulicQuickDisconnect | hydraulicLock | hydraulicBoost | hydraulicBoomConflux
  | hydraulicArmConflux | hydraulicBoomFloat | illumination | lights | horn | strobeLight | travelAlarm
  deriving DecidableEq, Repr

/-- the packet a toggle sub-command sends -/
def Sub.packet (s : Sub) (on : Bool) : Packet :=
  match s with
  | .motionLock => .motion (if on then .stopAll else .resumeAll)
  | .hydraulicQuickDisconnect => .control (.hydraulicQuickDisconnect on)
  | .hydraulicLock => .control (.hydraulicLock on)
  | .hydraulicBoost => .control (.hydraulicBoost on)
  | .hydraulicBoomConflux => .control (.hydraulicBoomConflux on)
  | .hydraulicArmConflux => .control (.hydraulicArmConflux on)
  | .hydraulicBoomFloat => .control (.hydraulicBoomFloat on)
  | .illumination => .control (.machineIllumination on)
  | .lights => .control (.machineLights on)
  | .horn => .control (.machineHorn on)
  | .strobeLight => .control (.machineStrobeLight on)
  | .travelAlarm => .control (.machineTravelAlarm on)

/-- what glonaxctl writes after the handshake for `<sub> <word>` to a daemon of version (major, minor):
nothing for an unaccepted word or an incompatible daemon -/
def cliSends (compatible : Bool) (s : Sub) (lowerWord : String) : List Packet :=
  if !compatible then []
  else match parseToggle lowerWord with
    | some on => [s.packet on]
    | none => []

end Glonax.Input
