import GlonaxModel.Model.Hcu
import GlonaxModel.Model.Engine
/-! M-wire: the client protocol (glonax-runtime/src/protocol/{mod,frame}.rs, core/*.rs, world/mod.rs).
Header codec, payload encoders/decoders of the twelve packet types with `ok / err / panic` outcomes,
`send_packet`, `recv_packet`.  f32 fields are opaque 32-bit patterns (`Nat` < 2^32, big endian on the
wire); strings are byte lists. -/
namespace Glonax.Wire
open Glonax Consts

inductive Outcome (α : Type) where
  | ok (a : α)
  | err
  | panic
  deriving DecidableEq, Repr

/-! ### Object types -/

inductive Control where
  | hydraulicQuickDisconnect (on : Bool) | hydraulicLock (on : Bool) | hydraulicBoost (on : Bool)
  | hydraulicBoomConflux (on : Bool) | hydraulicArmConflux (on : Bool) | hydraulicBoomFloat (on : Bool)
  | hydraulicReset | machineShutdown
  | machineIllumination (on : Bool) | machineLights (on : Bool) | machineHorn (on : Bool)
  | machineStrobeLight (on : Bool) | machineTravelAlarm (on : Bool)
  deriving DecidableEq, Repr, Inhabited

inductive Constraint where
  | unconstrained | delayAttachment | stationaryAttachment | linearPriority | lateralPriority | verticalPriority
  deriving DecidableEq, Repr, Inhabited

structure Target where
  x : Nat
  y : Nat
  z : Nat
  roll : Nat
  pitch : Nat
  yaw : Nat
  constraint : Constraint
  deriving DecidableEq, Repr

inductive RotationReference where | absolute | relative
  deriving DecidableEq, Repr, Inhabited

structure Rotator where
  source : Nat
  roll : Nat
  pitch : Nat
  yaw : Nat
  reference : RotationReference
  deriving DecidableEq, Repr

inductive ModuleState where | healthy | degraded | faulty | emergency
  deriving DecidableEq, Repr, Inhabited
inductive ModuleError where
  | invalidConfiguration | versionMismatch | communicationTimeout | genericCommunicationError | ioError
  deriving DecidableEq, Repr, Inhabited

structure ModuleStatus where
  name : List Nat
  state : ModuleState
  error : Option ModuleError
  deriving DecidableEq, Repr

inductive MachineType where | excavator | wheelLoader | dozer | grader | hauler | forestry
  deriving DecidableEq, Repr, Inhabited

structure Instance where
  id : List Nat            -- 16 bytes
  ty : MachineType
  v0 : Nat
  v1 : Nat
  v2 : Nat
  model : List Nat
  serial : List Nat
  deriving DecidableEq, Repr

inductive GnssStatus where | disabled | deviceNotFound | locationFix
  deriving DecidableEq, Repr, Inhabited

structure Gnss where
  lat : Nat
  lon : Nat
  altitude : Nat
  speed : Nat
  heading : Nat
  satellites : Nat
  status : GnssStatus
  deriving DecidableEq, Repr

structure Segment where
  name : List Nat
  f : List Nat             -- six f32 patterns: x y z roll pitch yaw
  deriving DecidableEq, Repr

structure Actor where
  name : List Nat
  segments : List Segment
  deriving DecidableEq, Repr

structure Session where
  flags : Nat
  name : List Nat          -- UTF-8 bytes
  deriving DecidableEq, Repr

inductive SessionError where | unknownRequest | unknownMessage | unauthorizedControl | unauthorizedCommand
  deriving DecidableEq, Repr, Inhabited

inductive Packet where
  | session (s : Session) | sessionError (e : SessionError) | request (m : Nat)
  | engine (e : Engine) | motion (m : Motion) | control (c : Control) | target (t : Target)
  | rotator (r : Rotator) | status (s : ModuleStatus) | inst (i : Instance) | gnss (g : Gnss)
  | actor (a : Actor)
  deriving DecidableEq, Repr

/-- the twelve packet kinds -/
inductive Kind where
  | session | sessionError | request | engine | motion | control | target | rotator | status | inst | gnss | actor
  deriving DecidableEq, Repr, Inhabited

def Kind.all : List Kind :=
  [.session, .sessionError, .request, .engine, .motion, .control, .target, .rotator, .status, .inst, .gnss, .actor]

def Packet.kind : Packet → Kind
  | .session _ => .session | .sessionError _ => .sessionError | .request _ => .request
  | .engine _ => .engine | .motion _ => .motion | .control _ => .control | .target _ => .target
  | .rotator _ => .rotator | .status _ => .status | .inst _ => .inst | .gnss _ => .gnss
  | .actor _ => .actor

/-- `MESSAGE_TYPE` -/
def Kind.msgType : Kind → Nat
  | .session => msgTypeSession | .sessionError => msgTypeSessionError | .request => msgTypeRequest
  | .engine => msgTypeEngine | .motion => msgTypeMotion | .control => msgTypeControl
  | .target => msgTypeTarget | .rotator => msgTypeRotator | .status => msgTypeModuleStatus
  | .inst => msgTypeInstance | .gnss => msgTypeGnss | .actor => msgTypeActor

/-- `MESSAGE_SIZE` -/
def Kind.msgSize : Kind → Option Nat
  | .session => msgSizeSession | .sessionError => msgSizeSessionError | .request => msgSizeRequest
  | .engine => msgSizeEngine | .motion => msgSizeMotion | .control => msgSizeControl
  | .target => msgSizeTarget | .rotator => msgSizeRotator | .status => msgSizeModuleStatus
  | .inst => msgSizeInstance | .gnss => msgSizeGnss | .actor => msgSizeActor

/-! ### enum ↔ code tables -/

def Control.code : Control → Nat
  | .hydraulicQuickDisconnect _ => controlTypeHydraulicQuickDisconnect
  | .hydraulicLock _ => controlTypeHydraulicLock
  | .hydraulicBoost _ => controlTypeHydraulicBoost
  | .hydraulicBoomConflux _ => controlTypeHydraulicBoomConflux
  | .hydraulicArmConflux _ => controlTypeHydraulicArmConflux
  | .hydraulicBoomFloat _ => controlTypeHydraulicBoomFloat
  | .hydraulicReset => controlTypeHydraulicReset
  | .machineShutdown => controlTypeMachineShutdown
  | .machineIllumination _ => controlTypeMachineIllumination
  | .machineLights _ => controlTypeMachineLights
  | .machineHorn _ => controlTypeMachineHorn
  | .machineStrobeLight _ => controlTypeMachineStrobeLight
  | .machineTravelAlarm _ => controlTypeMachineTravelAlarm

def Control.arg : Control → Bool
  | .hydraulicQuickDisconnect on | .hydraulicLock on | .hydraulicBoost on | .hydraulicBoomConflux on
  | .hydraulicArmConflux on | .hydraulicBoomFloat on | .machineIllumination on | .machineLights on
  | .machineHorn on | .machineStrobeLight on | .machineTravelAlarm on => on
  | .hydraulicReset | .machineShutdown => true

/-- the `match control_type { … }` of `Control::try_from`, first matching arm wins -/
def Control.ofCode? (c : Nat) (on : Bool) : Option Control :=
  if c = controlTypeHydraulicQuickDisconnect then some (.hydraulicQuickDisconnect on)
  else if c = controlTypeHydraulicLock then some (.hydraulicLock on)
  else if c = controlTypeHydraulicBoost then some (.hydraulicBoost on)
  else if c = controlTypeHydraulicBoomConflux then some (.hydraulicBoomConflux on)
  else if c = controlTypeHydraulicArmConflux then some (.hydraulicArmConflux on)
  else if c = controlTypeHydraulicBoomFloat then some (.hydraulicBoomFloat on)
  else if c = controlTypeHydraulicReset then some .hydraulicReset
  else if c = controlTypeMachineShutdown then some .machineShutdown
  else if c = controlTypeMachineIllumination then some (.machineIllumination on)
  else if c = controlTypeMachineLights then some (.machineLights on)
  else if c = controlTypeMachineHorn then some (.machineHorn on)
  else if c = controlTypeMachineStrobeLight then some (.machineStrobeLight on)
  else if c = controlTypeMachineTravelAlarm then some (.machineTravelAlarm on)
  else none

def Constraint.code : Constraint → Nat
  | .unconstrained => constraintUnconstrained | .delayAttachment => constraintDelayAttachment
  | .stationaryAttachment => constraintStationaryAttachment | .linearPriority => constraintLinearPriority
  | .lateralPriority => constraintLateralPriority | .verticalPriority => constraintVerticalPriority
def Constraint.all : List Constraint :=
  [.unconstrained, .delayAttachment, .stationaryAttachment, .linearPriority, .lateralPriority, .verticalPriority]
def Constraint.ofCode? (c : Nat) : Option Constraint := Constraint.all.find? (·.code = c)

def RotationReference.code : RotationReference → Nat
  | .absolute => rotationReferenceAbsolute | .relative => rotationReferenceRelative
def RotationReference.ofCode? (c : Nat) : Option RotationReference :=
  [RotationReference.absolute, .relative].find? (·.code = c)

def ModuleState.code : ModuleState → Nat
  | .healthy => moduleStateHealthy | .degraded => moduleStateDegraded
  | .faulty => moduleStateFaulty | .emergency => moduleStateEmergency
def ModuleState.ofCode? (c : Nat) : Option ModuleState :=
  [ModuleState.healthy, .degraded, .faulty, .emergency].find? (·.code = c)

def ModuleError.code : ModuleError → Nat
  | .invalidConfiguration => moduleErrorInvalidConfiguration | .versionMismatch => moduleErrorVersionMismatch
  | .communicationTimeout => moduleErrorCommunicationTimeout
  | .genericCommunicationError => moduleErrorGenericCommunicationError | .ioError => moduleErrorIOError
def ModuleError.ofCode? (c : Nat) : Option ModuleError :=
  [ModuleError.invalidConfiguration, .versionMismatch, .communicationTimeout, .genericCommunicationError, .ioError].find? (·.code = c)

def MachineType.code : MachineType → Nat
  | .excavator => machineTypeExcavator | .wheelLoader => machineTypeWheelLoader | .dozer => machineTypeDozer
  | .grader => machineTypeGrader | .hauler => machineTypeHauler | .forestry => machineTypeForestry
def MachineType.ofCode? (c : Nat) : Option MachineType :=
  [MachineType.excavator, .wheelLoader, .dozer, .grader, .hauler, .forestry].find? (·.code = c)

def GnssStatus.code : GnssStatus → Nat
  | .disabled => gnssStatusDisabled | .deviceNotFound => gnssStatusDeviceNotFound | .locationFix => gnssStatusLocationFix
def GnssStatus.ofCode? (c : Nat) : Option GnssStatus :=
  [GnssStatus.disabled, .deviceNotFound, .locationFix].find? (·.code = c)

def SessionError.code : SessionError → Nat
  | .unknownRequest => sessionErrorUnknownRequest | .unknownMessage => sessionErrorUnknownMessage
  | .unauthorizedControl => sessionErrorUnauthorizedControl | .unauthorizedCommand => sessionErrorUnauthorizedCommand
def SessionError.ofCode? (c : Nat) : Option SessionError :=
  [SessionError.unknownRequest, .unknownMessage, .unauthorizedControl, .unauthorizedCommand].find? (·.code = c)

/-! ### Encoders (`Packetize::to_bytes`) -/

def f32be (w : Nat) : List Nat := beU32 w
def be32 (a b c d : Nat) : Nat := a * 16777216 + b * 65536 + c * 256 + d

def encMotion : Motion → List Nat
  | .stopAll => [motionTypeStopAll]
  | .resumeAll => [motionTypeResumeAll]
  | .resetAll => [motionTypeResetAll]
  | .straightDrive v => motionTypeStraightDrive :: be16 v
  | .change cs => motionTypeChange :: (cs.length % 256) :: cs.flatMap (fun c => beU16 c.1.id ++ be16 c.2)

def encSegment (s : Segment) : List Nat := beU16 s.name.length ++ s.name ++ s.f.flatMap f32be

def encode : Packet → List Nat
  | .session s => s.flags :: s.name
  | .sessionError e => [e.code]
  | .request m => [m]
  | .engine e => [e.driverDemand, e.actualEngine] ++ beU16 e.rpm ++ [e.state.code]
  | .motion m => encMotion m
  | .control c => [c.code, if c.arg then 1 else 0]
  | .target t => f32be t.x ++ f32be t.y ++ f32be t.z ++ f32be t.roll ++ f32be t.pitch ++ f32be t.yaw ++ [t.constraint.code]
  | .rotator r => [r.source] ++ f32be r.roll ++ f32be r.pitch ++ f32be r.yaw ++ [r.reference.code]
  | .status s => beU16 s.name.length ++ s.name ++ [s.state.code] ++
      (match s.error with | some e => [1, e.code] | none => [0])
  | .inst i => i.id ++ [i.ty.code, i.v0, i.v1, i.v2] ++ beU16 i.model.length ++ i.model ++
      beU16 i.serial.length ++ i.serial
  | .gnss g => f32be g.lat ++ f32be g.lon ++ f32be g.altitude ++ f32be g.speed ++ f32be g.heading ++
      [g.satellites, g.status.code]
  | .actor a => beU16 a.name.length ++ a.name ++ [a.segments.length % 256] ++ a.segments.flatMap encSegment

/-! ### Header -/

/-- `Frame::new(message, payload_length)` header bytes -/
def header (ty len : Nat) : List Nat :=
  protoHeader ++ [protoVersion, ty] ++ beU16 len ++ List.replicate protoPadding 0

inductive HeaderError where
  | tooSmall | invalidHeader | versionMismatch | payloadEmpty | excessiveLength | invalidPadding
  deriving DecidableEq, Repr

/-- `Frame::try_from(&[u8])`, checks in source order -/
def parseHeader (b : List Nat) : Except HeaderError (Nat × Nat) :=
  if b.length ≠ protoBufferSize then .error .tooSmall
  else if b.take 3 ≠ protoHeader then .error .invalidHeader
  else if b.getD 3 0 ≠ protoVersion then .error .versionMismatch
  else
    let len := b.getD 5 0 * 256 + b.getD 6 0
    if len = 0 then .error .payloadEmpty
    else if len > maxPayloadSize then .error .excessiveLength
    else if (b.drop 7).take 3 ≠ [0, 0, 0] then .error .invalidPadding
    else .ok (b.getD 4 0, len)

/-! #### the translated header parser

`Consts.frameHeaderChecks` is produced by the translator from the source text of `Frame::try_from` on every run: the checks
in source order, each with the error it raises.  `parseHeaderT` gives them their meaning; `Thm.C13.C13_header_translation`
proves it equal to `parseHeader` for every byte string. -/

def HeaderError.ofCode? : Nat → Option HeaderError
  | 0 => some .tooSmall | 1 => some .invalidHeader | 2 => some .versionMismatch | 3 => some .payloadEmpty
  | 4 => some .excessiveLength | 5 => some .invalidPadding | _ => none

/-- does the condition of a check hold (= the check raises its error); `none` = a condition without a meaning here -/
def headerCond (b : List Nat) (c : Nat) : Option Bool :=
  let len := b.getD 5 0 * 256 + b.getD 6 0
  if c = 1 then some (decide (b.length ≠ protoBufferSize))
  else if c = 2 then some (decide (b.take 3 ≠ protoHeader))
  else if c = 3 then some (decide (b.getD 3 0 ≠ protoVersion))
  else if c = 4 then some (decide (len = 0))
  else if c = 5 then some (decide (len > maxPayloadSize))
  else if c = 6 then some (decide ((b.drop 7).take 3 ≠ [0, 0, 0]))
  else none

/-- outer `none` = the table has a row this interpreter gives no meaning to -/
def parseHeaderT : List (List Nat) → List Nat → Option (Except HeaderError (Nat × Nat))
  | [], b => some (.ok (b.getD 4 0, b.getD 5 0 * 256 + b.getD 6 0))
  | [c, e] :: rest, b =>
    match headerCond b c, HeaderError.ofCode? e with
    | some true, some err => some (.error err)
    | some false, some _ => parseHeaderT rest b
    | _, _ => none
  | _ :: _, _ => none

/-- `Stream::send_packet`: header ++ payload -/
def sendPacket (p : Packet) : List Nat :=
  header p.kind.msgType (encode p).length ++ encode p

/-! ### Decoders (`TryFrom<Vec<u8>>`)
Sequential readers mirror `bytes::Buf`: a read past the end is `none`; what `none` means (panic in
`bytes`, or an explicit length check returning `Err`) is decided per decoder. -/

def rd8 : List Nat → Option (Nat × List Nat)
  | b :: r => some (b, r)
  | _ => none
def rd16 : List Nat → Option (Nat × List Nat)
  | a :: b :: r => some (a * 256 + b, r)
  | _ => none
def rd32 : List Nat → Option (Nat × List Nat)
  | a :: b :: c :: d :: r => some (be32 a b c d, r)
  | _ => none
def rdN (n : Nat) (bs : List Nat) : Option (List Nat × List Nat) :=
  if bs.length < n then none else some (bs.take n, bs.drop n)

/-- continuation byte of UTF-8 -/
def isCont (b : Nat) : Bool := decide (128 ≤ b ∧ b < 192)

/-- strict UTF-8 validity (what `from_utf8_lossy` leaves untouched) -/
def validUtf8 : List Nat → Bool
  | [] => true
  | b0 :: rest =>
    if b0 < 128 then validUtf8 rest
    else if 194 ≤ b0 ∧ b0 < 224 then
      match rest with
      | b1 :: r => isCont b1 && validUtf8 r
      | _ => false
    else if 224 ≤ b0 ∧ b0 < 240 then
      match rest with
      | b1 :: b2 :: r =>
        isCont b1 && isCont b2 &&
          (if b0 = 224 then decide (160 ≤ b1) else if b0 = 237 then decide (b1 < 160) else true) && validUtf8 r
      | _ => false
    else if 240 ≤ b0 ∧ b0 < 245 then
      match rest with
      | b1 :: b2 :: b3 :: r =>
        isCont b1 && isCont b2 && isCont b3 &&
          (if b0 = 240 then decide (144 ≤ b1) else if b0 = 244 then decide (b1 < 144) else true) && validUtf8 r
      | _ => false
    else false

/-- number of characters of a UTF-8 byte string = number of non-continuation bytes -/
def charCount (b : List Nat) : Nat := (b.filter (fun x => !isCont x)).length

/-- `name.chars().take(n)` on valid UTF-8: the bytes before the (n+1)-th character start -/
def takeChars : Nat → List Nat → List Nat
  | _, [] => []
  | n, b :: rest =>
    if isCont b then b :: takeChars n rest
    else match n with
      | 0 => []
      | n + 1 => b :: takeChars n rest

/-- decoded session: the name is modelled only when the payload name is valid UTF-8 (then it is the
first 64 characters); the lossy replacement of invalid sequences is outside the model (`none`) -/
structure SessionView where
  flags : Nat
  name : Option (List Nat)
  deriving DecidableEq, Repr

/-- `Session::try_from` -/
def decSession (b : List Nat) : Outcome SessionView :=
  match b with
  | [] => .err
  | flags :: name =>
    if flags / 32 % 8 ≠ 0 then .err            -- flags & 0b1110_0000 != 0
    else .ok { flags := flags, name := if validUtf8 name then some (takeChars sessionNameMaxChars name) else none }

def decChanges : Nat → List Nat → List (Actuator × Int) → Outcome Motion
  | 0, _, acc => .ok (.change acc.reverse)
  | n + 1, a0 :: a1 :: v0 :: v1 :: r, acc =>
    match Actuator.ofId? (a0 * 256 + a1) with
    | some a => decChanges n r ((a, i16OfU16 (v0 * 256 + v1)) :: acc)
    | none => .err
  | _ + 1, _, _ => .panic

/-- `Motion::try_from` -/
def decMotion (b : List Nat) : Outcome Motion :=
  match b with
  | [] => .panic                                  -- `buf.get_u8()` on an empty buffer
  | t :: rest =>
    if t = motionTypeStopAll then .ok .stopAll
    else if t = motionTypeResumeAll then .ok .resumeAll
    else if t = motionTypeResetAll then .ok .resetAll
    else if t = motionTypeStraightDrive then
      match rest with
      | [a, b] => .ok (.straightDrive (i16OfU16 (a * 256 + b)))
      | _ => .err
    else if t = motionTypeChange then
      match rest with
      | [] => .err
      | count :: body =>
        if count > motionMaxChangeSetCount then .err
        else if body.length ≠ count * 4 then .err
        else decChanges count body []
    else .err

def rdSix (b : List Nat) : Option (List Nat × List Nat) := do
  let (a, b) ← rd32 b
  let (c, b) ← rd32 b
  let (d, b) ← rd32 b
  let (e, b) ← rd32 b
  let (f, b) ← rd32 b
  let (g, b) ← rd32 b
  pure ([a, c, d, e, f, g], b)

/-- the segment loop of `Actor::try_from` (with the length checks of the repaired decoder) -/
def decSegments : Nat → List Nat → List Segment → Option (List Segment)
  | 0, _, acc => some acc.reverse
  | n + 1, b, acc => do
    let (nl, b) ← rd16 b
    let (name, b) ← rdN nl b
    let (fs, b) ← rdSix b
    decSegments n b ({ name := name, f := fs } :: acc)

def optOutcome {α : Type} (short : Outcome Packet) (o : Option α) (k : α → Outcome Packet) : Outcome Packet :=
  match o with
  | none => short
  | some a => k a

/-- `P::try_from(payload)` per packet kind.  Strings come back through `from_utf8_lossy`; the model
returns the raw bytes (the harness compares names only when they are valid UTF-8). -/
def decode (k : Kind) (b : List Nat) : Outcome Packet :=
  match k with
  | .session =>
    match decSession b with
    | .ok v => .ok (.session { flags := v.flags, name := v.name.getD [] })
    | .err => .err
    | .panic => .panic
  | .sessionError =>
    match b with
    | [] => .err
    | c :: _ => match SessionError.ofCode? c with | some e => .ok (.sessionError e) | none => .err
  | .request => match b with | [] => .err | m :: _ => .ok (.request m)
  | .engine =>
    optOutcome .panic (do
        let (dd, b) ← rd8 b
        let (ae, b) ← rd8 b
        let (rpm, b) ← rd16 b
        let (st, _) ← rd8 b
        pure (dd, ae, rpm, st))
      fun (dd, ae, rpm, st) =>
        match EngineState.ofCode? st with
        | some s => .ok (.engine { driverDemand := dd, actualEngine := ae, rpm := rpm, state := s })
        | none => .err
  | .motion => match decMotion b with | .ok m => .ok (.motion m) | .err => .err | .panic => .panic
  | .control =>
    optOutcome .panic (do
        let (c, b) ← rd8 b
        let (on, _) ← rd8 b
        pure (c, on))
      fun (c, on) => match Control.ofCode? c (on = 1) with | some c => .ok (.control c) | none => .err
  | .target =>
    optOutcome .panic (do
        let (fs, b) ← rdSix b
        let (c, _) ← rd8 b
        pure (fs, c))
      fun (fs, c) =>
        match Constraint.ofCode? c with
        | some c => .ok (.target { x := fs.getD 0 0, y := fs.getD 1 0, z := fs.getD 2 0, roll := fs.getD 3 0, pitch := fs.getD 4 0, yaw := fs.getD 5 0, constraint := c })
        | none => .err
  | .rotator =>
    optOutcome .panic (do
        let (src, b) ← rd8 b
        let (r, b) ← rd32 b
        let (p, b) ← rd32 b
        let (y, b) ← rd32 b
        let (rf, _) ← rd8 b
        pure (src, r, p, y, rf))
      fun (src, r, p, y, rf) =>
        match RotationReference.ofCode? rf with
        | some rf => .ok (.rotator { source := src, roll := r, pitch := p, yaw := y, reference := rf })
        | none => .err
  | .status =>
    optOutcome .err (do
        let (nl, b) ← rd16 b
        let (name, b) ← rdN nl b
        let (st, b) ← rd8 b
        let (flag, b) ← rd8 b
        pure (name, st, flag, b))
      fun (name, st, flag, b) =>
        match ModuleState.ofCode? st with
        | none => .err
        | some st =>
          if flag = 0 then .ok (.status { name := name, state := st, error := none })
          else if flag = 1 then
            match rd8 b with
            | none => .err
            | some (e, _) =>
              match ModuleError.ofCode? e with
              | some e => .ok (.status { name := name, state := st, error := some e })
              | none => .err
          else .err
  | .inst =>
    optOutcome .err (do
        let (id, b) ← rdN 16 b
        let (ty, b) ← rd8 b
        let (v0, b) ← rd8 b
        let (v1, b) ← rd8 b
        let (v2, b) ← rd8 b
        let (ml, b) ← rd16 b
        let (model, b) ← rdN ml b
        let (sl, b) ← rd16 b
        let (serial, _) ← rdN sl b
        pure (id, ty, v0, v1, v2, model, serial))
      fun (id, ty, v0, v1, v2, model, serial) =>
        match MachineType.ofCode? ty with
        | none => .err
        | some ty => .ok (.inst { id := id, ty := ty, v0 := v0, v1 := v1, v2 := v2, model := model, serial := serial })
  | .gnss =>
    optOutcome .panic (do
        let (lat, b) ← rd32 b
        let (lon, b) ← rd32 b
        let (alt, b) ← rd32 b
        let (spd, b) ← rd32 b
        let (hdg, b) ← rd32 b
        let (sat, b) ← rd8 b
        let (st, _) ← rd8 b
        pure (lat, lon, alt, spd, hdg, sat, st))
      fun (lat, lon, alt, spd, hdg, sat, st) =>
        match GnssStatus.ofCode? st with
        | some s => .ok (.gnss { lat := lat, lon := lon, altitude := alt, speed := spd, heading := hdg, satellites := sat, status := s })
        | none => .err
  | .actor =>
    optOutcome .err (do
        let (nl, b) ← rd16 b
        let (name, b) ← rdN nl b
        let (count, b) ← rd8 b
        let segs ← decSegments count b []
        pure (name, segs))
      fun (name, segs) => .ok (.actor { name := name, segments := segs })

/-! ### `Stream::recv_packet` -/

structure Recv where
  /-- bytes consumed from the stream (0 when a size gate rejects before reading) -/
  consumed : Nat
  result : Outcome Packet
  deriving DecidableEq, Repr

/-- `recv_packet::<P>(size)` given the bytes available on the stream (at least `size` of them; a short
stream is the transport's business, see M-sess).  A fixed-size type announced with another size is
rejected after its payload has been drained (so that the stream stays aligned on the next header). -/
def recvPacket (k : Kind) (size : Nat) (stream : List Nat) : Recv :=
  if size = 0 then ⟨0, .err⟩
  else if k.msgSize.isSome ∧ k.msgSize ≠ some size then ⟨min size maxPayloadSize, .err⟩
  else if size > maxPayloadSize then ⟨0, .err⟩
  else ⟨size, decode k (stream.take size)⟩

end Glonax.Wire
