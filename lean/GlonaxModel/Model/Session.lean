import GlonaxModel.Model.Wire
import GlonaxModel.Base.Ring
/-! M-sess: the server side of one client connection
(glonax-runtime/src/service/server.rs `spawn_client_session` + `parse`, protocol/mod.rs `Stream`).

The transport delivers bytes in arbitrary chunks; `read_frame` keeps its partially read header inside
the `Stream` (resumable, so a `select!` cancellation loses nothing); a frame the daemon cannot use
(unknown type, wrong size for a fixed-size type) has its payload drained.  Signals published while
the session sits inside a payload read wait in the broadcast ring. -/
namespace Glonax.Sess
open Glonax Wire Consts

inductive CloseMode where
  | eof | reset | timedOut | aborted
  deriving DecidableEq, Repr

inductive Ev where
  /-- the transport hands over these bytes (one or several reads) -/
  | bytes (c : List Nat)
  /-- an object is published on the signal channel -/
  | signal (o : Packet)
  /-- the peer is gone: every further read fails with this kind -/
  | close (m : CloseMode)
  /-- every signal sender has been dropped -/
  | signalsClosed
  deriving DecidableEq, Repr

inductive Out where
  /-- object sent on the command channel -/
  | dispatch (p : Packet)
  /-- bytes written to the client -/
  | reply (b : List Nat)
  /-- the failsafe stop-all sent on the command channel when the loop has ended -/
  | failsafeStop
  | ended
  | panicked
  deriving DecidableEq, Repr

structure Pay where
  /-- `none`: the payload is only drained -/
  kind : Option Kind
  need : Nat
  got : List Nat
  deriving DecidableEq, Repr

/-- the part of the session state that byte processing reads and writes -/
structure Core where
  /-- header bytes buffered by the (resumable) `read_frame` -/
  hdr : List Nat := []
  /-- inside a payload read -/
  pay : Option Pay := none
  /-- flags of the current session registration -/
  flags : Nat := 0
  ended : Bool := false
  deriving DecidableEq, Repr

structure St where
  core : Core := {}
  ring : Ring Packet := { cap := queueSizeSignal }
  rxNext : Nat := 0
  deriving Repr

/-- the `match frame.message { … }` of `UnixServer::parse` -/
def serverKind? (ty : Nat) : Option Kind :=
  if ty = msgTypeSession then some .session
  else if ty = msgTypeEngine then some .engine
  else if ty = msgTypeMotion then some .motion
  else if ty = msgTypeTarget then some .target
  else if ty = msgTypeControl then some .control
  else none

/-- `recv_packet` rejects a fixed-size type announced with another length -/
def sizeOk (k : Kind) (len : Nat) : Bool :=
  match k.msgSize with
  | some n => n == len
  | none => true

/-- what to do with the payload announced by a parsed header: decode it, or only drain it -/
def payFor (ty len : Nat) : Pay :=
  match serverKind? ty with
  | none => { kind := none, need := len, got := [] }
  | some k => { kind := if sizeOk k len then some k else none, need := len, got := [] }

def isStream (flags : Nat) : Bool := flags % 2 = 1
def isFailsafe (flags : Nat) : Bool := flags / 16 % 2 = 1

/-- a complete payload has arrived: the arm of `UnixServer::parse` selected by the frame type -/
def complete (inst : Instance) (c : Core) (k : Option Kind) (payload : List Nat) : Core × List Out :=
  match k with
  | none => (c, [])
  | some .session =>
    match decSession payload with
    | .ok v => ({ c with flags := v.flags }, [.reply (sendPacket (.inst inst))])
    | .err => (c, [])
    | .panic => ({ c with ended := true }, [.panicked])
  | some k =>
    match decode k payload with
    | .ok p => (c, [.dispatch p])
    | .err => (c, [])
    | .panic => ({ c with ended := true }, [.panicked])

/-- one byte from the transport -/
def stepByte (inst : Instance) (c : Core) (b : Nat) : Core × List Out :=
  if c.ended then (c, [])
  else match c.pay with
    | none =>
      let h := c.hdr ++ [b]
      if h.length < protoBufferSize then ({ c with hdr := h }, [])
      else match parseHeader h with
        | .error _ => ({ c with hdr := [] }, [])
        | .ok (ty, len) => ({ c with hdr := [], pay := some (payFor ty len) }, [])
    | some p =>
      let g := p.got ++ [b]
      if g.length < p.need then ({ c with pay := some { p with got := g } }, [])
      else complete inst { c with pay := none } p.kind g

def feed (inst : Instance) : Core → List Nat → Core × List Out
  | c, [] => (c, [])
  | c, b :: bs =>
    let r := stepByte inst c b
    let q := feed inst r.1 bs
    (q.1, r.2 ++ q.2)

/-- object kinds the session forwards to a streaming client (the six `Object` variants) -/
def forwardable (p : Packet) : Bool :=
  match p with
  | .engine _ | .motion _ | .rotator _ | .status _ | .control _ | .target _ => true
  | _ => false

def exitOuts (flags : Nat) : List Out := (if isFailsafe flags then [Out.failsafeStop] else []) ++ [Out.ended]

/-- drain the signal ring (only while the session is in its `select!`, i.e. not inside a payload read) -/
def flush (s : St) : Nat → St × List Out
  | 0 => (s, [])
  | fuel + 1 =>
    if s.core.ended ∨ s.core.pay.isSome then (s, [])
    else match s.ring.recv s.rxNext with
      | (.ok v, n) =>
        let r := flush { s with rxNext := n } fuel
        (r.1, (if isStream s.core.flags ∧ forwardable v then [Out.reply (sendPacket v)] else []) ++ r.2)
      | (.lagged _, n) => flush { s with rxNext := n } fuel
      | (.closed, _) => ({ s with core := { s.core with ended := true } }, exitOuts s.core.flags)
      | (.empty, _) => (s, [])

def flushAll (s : St) : St × List Out := flush s (s.ring.buf.length + 2)

/-- one event, followed by the session running until it blocks again -/
def step (inst : Instance) (s : St) (e : Ev) : St × List Out :=
  if s.core.ended then (s, [])
  else
    match e with
    | .bytes c =>
      let r := feed inst s.core c
      let f := flushAll { s with core := r.1 }
      (f.1, r.2 ++ f.2)
    | .signal o =>
      flushAll { s with ring := s.ring.send o }
    | .close _ =>
      -- inside a payload read the read fails, the frame is abandoned, and the next header read fails too
      ({ s with core := { s.core with pay := none, hdr := [], ended := true } }, exitOuts s.core.flags)
    | .signalsClosed =>
      flushAll { s with ring := { s.ring with closed := true } }

def run (inst : Instance) (s : St) : List Ev → St × List Out
  | [] => (s, [])
  | e :: es =>
    let r := step inst s e
    let q := run inst r.1 es
    (q.1, r.2 ++ q.2)

/-- `glonax::is_compatibile((major, minor, patch))`: major and minor must equal the runtime's -/
def isCompatible (major minor _patch : Nat) : Bool := major == versionMajor && minor == versionMinor

def dispatched (o : List Out) : List Packet := o.filterMap fun | .dispatch p => some p | _ => none
def replies (o : List Out) : List (List Nat) := o.filterMap fun | .reply b => some b | _ => none

/-! ### the client side of the upgrade (protocol/client.rs `ClientBuilder::{connect, unix_connect}`) -/

/-- `if on { flags |= MASK } else { flags &= !MASK }` on a `u8` -/
def setFlag (flags mask : Nat) (on : Bool) : Nat := if on then flags ||| mask else flags &&& (255 - mask)

/-- the flags byte of the session frame a client sends: over TCP all four options, over the Unix socket only failsafe and
stream (as the code does) -/
def clientFlags (unix control command failsafe stream : Bool) : Nat :=
  let f := if unix then 0 else setFlag (setFlag 0 sessionModeControl control) sessionModeCommand command
  setFlag (setFlag f sessionModeFailsafe failsafe) sessionModeStream stream

/-- how the daemon reads the two bits that change its behaviour (`Session::is_failsafe`, `is_stream`) -/
def wantsFailsafe (flags : Nat) : Bool := flags &&& sessionModeFailsafe != 0
def wantsStream (flags : Nat) : Bool := flags &&& sessionModeStream != 0

end Glonax.Sess
