import GlonaxModel.Base.J1939
/-! CAN network layer (glonax-runtime/src/can.rs `CANSocket::{send,recv}`, net.rs `ControlNetwork::recv`,
`FilterItem::matches`, `Filter::matches`). The `libc::can_frame` is 16 bytes: can_id (u32, native =
little endian), can_dlc, 3 padding bytes, data[8]. -/
namespace Glonax.Can
open Glonax J1939

/-- `CANSocket::send`: zeroed struct, `can_id = id | 0x80000000`, `can_dlc = len`, `data[..len] = pdu`.
For a 29-bit id the `|` with bit 31 is `+ 2^31`. -/
def txBytes (f : Frame) : List Nat :=
  leU32 (f.id + 2147483648) ++ [f.data.length, 0, 0, 0] ++ f.data ++ List.replicate (8 - f.data.length) 0

def le32 (b : List Nat) : Nat :=
  b.getD 0 0 + 256 * b.getD 1 0 + 65536 * b.getD 2 0 + 16777216 * b.getD 3 0

/-- `CANSocket::recv`: `Id::new(can_id & 0x1fffffff)`, `copy_from_slice(&data[..can_dlc])` -/
def rxFrame (raw : List Nat) : Frame :=
  { id := le32 raw % 536870912, data := ((raw.drop 8).take (raw.getD 4 0)).take 8 }

structure FilterItem where
  priority : Option Nat := none
  pgn : Option Nat := none
  source : Option Nat := none
  destination : Option Nat := none
  deriving DecidableEq, Repr

def itemM4 (e : FilterItem) (id : Nat) : Bool :=
  match e.destination with
  | some d => if some d != J1939.destination? id then false else true
  | none => true
def itemM3 (e : FilterItem) (id : Nat) : Bool :=
  match e.source with
  | some s => if s != J1939.source id then false else itemM4 e id
  | none => itemM4 e id
def itemM2 (e : FilterItem) (id : Nat) : Bool :=
  match e.pgn with
  | some g => if g != J1939.pgn id then false else itemM3 e id
  | none => itemM3 e id
/-- `FilterItem::matches`, early returns in source order -/
def itemMatches (e : FilterItem) (id : Nat) : Bool :=
  match e.priority with
  | some p => if p != J1939.priority id then false else itemM2 e id
  | none => itemM2 e id

/-- one translated check `[entry field, id accessor, compared as Some(..)]` of `FilterItem::matches`: passes when the field
is unspecified or equal to what the accessor reads from the identifier -/
def checkT (e : FilterItem) (id : Nat) : List Nat → Option Bool
  | [field, accessor, opt] =>
    let fld? : Option (Option Nat) :=
      if field = 0 then some e.priority else if field = 1 then some e.pgn else if field = 2 then some e.source
      else if field = 3 then some e.destination else none
    let got? : Option (Option Nat) :=
      if accessor = 0 ∧ opt = 0 then some (some (J1939.priority id)) else if accessor = 1 ∧ opt = 0 then some (some (J1939.pgn id))
      else if accessor = 2 ∧ opt = 0 then some (some (J1939.source id))
      else if accessor = 3 ∧ opt = 1 then some (J1939.destination? id) else none
    match fld?, got? with
    | some none, some _ => some true
    | some (some x), some got => some (some x == got)
    | _, _ => none
  | _ => none

/-- the translated `FilterItem::matches`: every check in the table passes (`none` = a row without a meaning here) -/
def itemMatchesT (table : List (List Nat)) (e : FilterItem) (id : Nat) : Option Bool :=
  table.foldr (fun row acc => match checkT e id row, acc with
    | some a, some b => some (a && b)
    | _, _ => none) (some true)

structure Filter where
  items : List FilterItem
  accept : Bool
  deriving DecidableEq, Repr

/-- `Filter::matches` -/
def Filter.matches (f : Filter) (id : Nat) : Bool :=
  let matchItems := f.items.any (fun e => itemMatches e id)
  (f.accept && (f.items.isEmpty || matchItems)) || (!f.accept && (f.items.isEmpty || !matchItems))

/-- `ControlNetwork::recv` for one raw frame: `none` when the filter drops it -/
def netRecv (flt : Filter) (raw : List Nat) : Option Frame :=
  let f := rxFrame raw
  if flt.matches f.id then some { id := f.id, data := normalise f.data } else none

end Glonax.Can
