import GlonaxModel.Model.Engine
/-! `Governor` (glonax-runtime/src/driver/governor.rs). Time in milliseconds as `Nat`;
`age = none` is `command_instant = None`, `some a` means `instant.elapsed() = a`. -/
namespace Glonax

structure Governor where
  idle : Nat
  max : Nat
  timeout : Nat
  deriving DecidableEq, Repr

namespace Governor

/-- `u16::clamp(lo, hi)`. Rust asserts `lo ≤ hi` (panics otherwise); every theorem about the
governor carries `idle ≤ max` as an explicit hypothesis and the harness only builds such governors. -/
def clamp (t lo hi : Nat) : Nat := if t < lo then lo else if t > hi then hi else t

/-- `Governor::reshape` -/
def reshape (g : Governor) (t : Nat) : Nat := clamp t g.idle g.max

/-- `instant.elapsed() > self.state_transition_timeout` when an instant is present. -/
def expired (g : Governor) (age : Option Nat) : Bool :=
  match age with
  | some a => decide (a > g.timeout)
  | none => false

/-- `Governor::next_state`, the 4×4 match verbatim (arm order preserved). -/
def nextState (g : Governor) (sig cmd : Engine) (age : Option Nat) : Engine :=
  match sig.state, cmd.state with
  | .noRequest, .starting =>
      if g.expired age then { rpm := g.reshape g.idle, state := .noRequest }
      else { rpm := g.reshape g.idle, state := .starting }
  | .noRequest, .request =>
      if g.expired age then { rpm := g.reshape g.idle, state := .noRequest }
      else { rpm := g.reshape g.idle, state := .starting }
  | .noRequest, _ => { rpm := g.reshape g.idle, state := .noRequest }
  | .starting, _ =>
      if g.expired age then { rpm := g.reshape g.idle, state := .noRequest }
      else { rpm := g.reshape g.idle, state := .starting }
  | .stopping, _ => { rpm := g.reshape g.idle, state := .stopping }
  | .request, .noRequest => { rpm := g.reshape g.idle, state := .stopping }
  | .request, .starting => { rpm := g.reshape cmd.rpm, state := .request }
  | .request, .stopping => { rpm := g.reshape g.idle, state := .stopping }
  | .request, .request => { rpm := g.reshape cmd.rpm, state := .request }

end Governor
end Glonax
