import GlonaxModel.Model.Engine
/-! `Governor` (glonax-runtime/src/driver/governor.rs). Time in milliseconds as `Nat`;
`age = none` is `command_instant = None`, `some a` means `instant.elapsed() = a`. -/
namespace Glonax

structure Governor where
  idle : Nat
  max : Nat
  timeout : Nat
  deriving DecidableEq, Repr

namespace Governor

/-- `u16::clamp(lo, hi)`. Rust asserts `lo ≤ hi` (panics otherwise); every theorem about the
governor carries `idle ≤ max` as an explicit hypothesis and the harness only builds such governors. -/
def clamp (t lo hi : Nat) : Nat := if t < lo then lo else if t > hi then hi else t

/-- `Governor::reshape` -/
def reshape (g : Governor) (t : Nat) : Nat := clamp t g.idle g.max

/-- `instant.elapsed() > self.state_transition_timeout` when an instant is present. -/
def expired (g : Governor) (age : Option Nat) : Bool :=
  match age with
  | some a => decide (a > g.timeout)
  | none => false

/-- `Governor::next_state`, the 4×4 match verbatim (arm order preserved). -/
def nextState (g : Governor) (sig cmd : Engine) (age : Option Nat) : Engine :=
  match sig.state, cmd.state with
  | .noRequest, .starting =>
      if g.expired age then { rpm := g.reshape g.idle, state := .noRequest }
      else { rpm := g.reshape g.idle, state := .starting }
  | .noRequest, .request =>
      if g.expired age then { rpm := g.reshape g.idle, state := .noRequest }
      else { rpm := g.reshape g.idle, state := .starting }
  | .noRequest, _ => { rpm := g.reshape g.idle, state := .noRequest }
  | .starting, _ =>
      if g.expired age then { rpm := g.reshape g.idle, state := .noRequest }
      else { rpm := g.reshape g.idle, state := .starting }
  | .stopping, _ => { rpm := g.reshape g.idle, state := .stopping }
  | .request, .noRequest => { rpm := g.reshape g.idle, state := .stopping }
  | .request, .starting => { rpm := g.reshape cmd.rpm, state := .request }
  | .request, .stopping => { rpm := g.reshape g.idle, state := .stopping }
  | .request, .request => { rpm := g.reshape cmd.rpm, state := .request }

/-! ### the translated decision table

`Consts.governorTable` is produced by the translator (tools/extract.py, `extract_governor_table`) from the source text of
`Governor::next_state` on every run: one row per match arm, in source order.  `nextStateT` gives the rows their meaning;
`Thm.C07.C07_translation` proves that this meaning is `nextState` above, so that every theorem about `nextState` is a
theorem about what the source says now. -/

/-- the rpm expression of a row: source (0 `self.rpm_idle`, 1 `command.rpm`, 2 `signal.rpm`, 3 `self.rpm_max`), reshaped or not -/
def rpmOf (g : Governor) (sig cmd : Engine) (src reshaped : Nat) : Option Nat :=
  let v? : Option Nat :=
    if src = 0 then some g.idle else if src = 1 then some cmd.rpm else if src = 2 then some sig.rpm
    else if src = 3 then some g.max else none
  v?.map fun v => if reshaped = 1 then g.reshape v else v

/-- a pattern component: 9 is `_`, otherwise the discriminant of the state -/
def patMatches (p : Nat) (s : EngineState) : Bool := p == 9 || p == s.code

def engineOf (g : Governor) (sig cmd : Engine) (src reshaped st : Nat) : Option Engine :=
  match rpmOf g sig cmd src reshaped, EngineState.ofCode? st with
  | some rpm, some state => some { rpm := rpm, state := state }
  | _, _ => none

/-- one row: a guarded arm has no meaning here (the translator flags it, the translation theorem then fails) -/
def rowResult (g : Governor) (sig cmd : Engine) (age : Option Nat) (row : List Nat) : Option Engine :=
  match row with
  | [_, _, guard, hasTo, ts, tr, tst, vs, vr, vst] =>
    if guard ≠ 0 then none
    else if hasTo = 1 && g.expired age then engineOf g sig cmd ts tr tst
    else engineOf g sig cmd vs vr vst
  | _ => none

/-- first matching arm wins, as in a Rust `match` -/
def nextStateT (table : List (List Nat)) (g : Governor) (sig cmd : Engine) (age : Option Nat) : Option Engine :=
  match table.find? (fun row => patMatches (row.getD 0 7) sig.state && patMatches (row.getD 1 7) cmd.state) with
  | some row => rowResult g sig cmd age row
  | none => none

end Governor
end Glonax
