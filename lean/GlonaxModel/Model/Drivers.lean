import GlonaxModel.Model.Hcu
import GlonaxModel.Model.Governor
/-! M-drv: the receive side of every J1939 driver kind and the command side of the engine drivers
(glonax-runtime/src/driver/net/{vcu,hydraulic,sim,volvo_ems,inclino,engine,ecu,encoder,vecraft}.rs).
Frames reach a driver with exactly 8 data bytes (`ControlNetwork::recv` normalises them). -/
namespace Glonax.Drv
open Glonax J1939 Consts

inductive Kind where
  | vcu | hcu | sim | d7e | inclino | ecm | ecu | encoder
  deriving DecidableEq, Repr, Inhabited

def Kind.all : List Kind := [.vcu, .hcu, .sim, .d7e, .inclino, .ecm, .ecu, .encoder]

inductive ErrKind where
  | busError | sensorError | invalidConfiguration | hardwareError | unknownState
  deriving DecidableEq, Repr

/-- objects a driver pushes on `rx_queue`; rotations carry their source only (the float construction is
validated numerically by the harness against the reference formula) -/
inductive Sig where
  | rotRel (source : Nat)
  | rotAbs (source : Nat)
  | engine (e : Engine)
  | motion (m : Motion)
  deriving DecidableEq, Repr

structure RecvOut where
  signals : List Sig := []
  /-- the driver itself called `ctx.rx_mark()` -/
  marks : Bool := false
  err : Option ErrKind := none
  /-- `ctx.set_rx_last_message` was called with this signal -/
  rxLast : Option Sig := none
  deriving DecidableEq, Repr

inductive Outcome where
  | ok (r : RecvOut)
  | panic
  deriving DecidableEq, Repr

def byte (f : Frame) (i : Nat) : Nat := f.data.getD i 255

/-- the destination guard shared by the Laixer / Kübler / ECU drivers -/
def daGuard (da : Nat) (f : Frame) : Bool :=
  match destination? f.id with
  | some d => d = da || d = 255
  | none => true

def fromUnit (da : Nat) (f : Frame) : Bool := source f.id = da

/-- software identification payload accepted by vcu/hcu/ecu: at least one field, '*' delimiter -/
def softIdOk (f : Frame) : Bool := decide (byte f 0 ≥ 1) && byte f 4 = 42

/-! ### vecraft status (`VecraftStatusMessage`) -/

inductive VState where
  | nominal | ident | faultyGeneric | faultyBus | unknown
  deriving DecidableEq, Repr

/-- `State::from(u8)` (repaired: an unknown code is a state of its own, not a panic) -/
def VState.ofByte (b : Nat) : VState :=
  if b = vecraftStateNominal then .nominal
  else if b = vecraftStateIdent then .ident
  else if b = vecraftStateFaultyGenericError then .faultyGeneric
  else if b = vecraftStateFaultyBusError then .faultyBus
  else .unknown

/-- `VecraftStatusMessage::into_error` -/
def VState.err : VState → Option ErrKind
  | .nominal | .ident => none
  | .faultyGeneric | .faultyBus => some .busError
  | .unknown => some .unknownState

def statusLocked (f : Frame) : Bool := byte f 2 ≠ 255 && byte f 2 = 1

/-! ### hydraulic control unit -/

inductive HcuMsg where
  | actuator | motionConfig (locked reset : Option Bool) | vecraftConfig | softId | addressClaim
  | status (st : VState) (locked : Bool)
  deriving DecidableEq, Repr

/-- `HydraulicControlUnit::parse` -/
def hcuParse (da : Nat) (f : Frame) : Option HcuMsg :=
  if !daGuard da f then none
  else
    let g := pgn f.id
    if g = pgnProprietarilyConfigurableMessage3 then
      if byte f 0 = 0x5A ∧ byte f 1 = 0x43 ∧ byte f 2 = 255 then
        some (.motionConfig (if byte f 3 ≠ 255 then some (byte f 3 = 0) else none)
                            (if byte f 4 ≠ 255 then some (byte f 4 = 1) else none))
      else none
    else if g = pgnProprietarilyConfigurableMessage1 then
      if byte f 0 = 0x5A ∧ byte f 1 = 0x43 then some .vecraftConfig else none
    else if g = pgnSoftwareIdentification then
      if fromUnit da f ∧ softIdOk f then some .softId else none
    else if g = pgnAddressClaimed then
      if fromUnit da f then some .addressClaim else none
    else if g = hcuStatusPgn then
      if fromUnit da f then some (.status (VState.ofByte (byte f 0)) (statusLocked f)) else none
    else if g = hcuBankPgn0 ∨ g = hcuBankPgn1 then some .actuator
    else none

def hcuRecv (da : Nat) (f : Frame) : RecvOut :=
  match hcuParse da f with
  | some .softId | some .addressClaim => { marks := true }
  | some (.status st locked) =>
    let s := Sig.motion (if locked then .stopAll else .resumeAll)
    { signals := [s], rxLast := some s, err := st.err }
  | _ => {}

/-! ### vehicle control unit -/

def vcuRecv (da : Nat) (f : Frame) : RecvOut :=
  if !daGuard da f then {}
  else
    let g := pgn f.id
    if g = pgnProprietarilyConfigurableMessage1 then {}
    else if g = pgnSoftwareIdentification then
      if fromUnit da f ∧ softIdOk f then { marks := true } else {}
    else if g = pgnAddressClaimed then
      if fromUnit da f then { marks := true } else {}
    else if g = vcuStatusPgn then
      if fromUnit da f then { marks := true, err := (VState.ofByte (byte f 0)).err } else {}
    else {}

/-! ### generic ECU -/

def ecuRecv (da : Nat) (f : Frame) : RecvOut :=
  if !daGuard da f then {}
  else
    let g := pgn f.id
    if g = pgnSoftwareIdentification then
      if fromUnit da f ∧ softIdOk f then { marks := true } else {}
    else if g = pgnAddressClaimed then
      if fromUnit da f then { marks := true } else {}
    else {}

/-! ### Kübler encoder -/

def encoderErr (f : Frame) : Option ErrKind :=
  if byte f 6 = 255 ∧ byte f 7 = 255 then none
  else
    let st := byte f 6 + 256 * byte f 7
    if st = encoderStateNoError then none
    else if st = encoderStateGeneralSensorError then some .sensorError
    else if st = encoderStateInvalidMUR then some .invalidConfiguration
    else if st = encoderStateInvalidTMR then some .invalidConfiguration
    else if st = encoderStateInvalidPreset then some .invalidConfiguration
    else some .hardwareError

/-- the 32-bit position (0 when all four bytes are 0xFF) -/
def encoderPosition (f : Frame) : Nat :=
  if byte f 0 = 255 ∧ byte f 1 = 255 ∧ byte f 2 = 255 ∧ byte f 3 = 255 then 0
  else byte f 0 + 256 * byte f 1 + 65536 * byte f 2 + 16777216 * byte f 3

def encoderRecv (da : Nat) (f : Frame) : RecvOut :=
  if !daGuard da f then {}
  else
    let g := pgn f.id
    if g = pgnAddressClaimed then
      if fromUnit da f then { marks := true } else {}
    else if g = encoderPgn then
      if fromUnit da f then
        let s := Sig.rotRel (source f.id)
        { signals := [s], rxLast := some s, err := encoderErr f }
      else {}
    else {}

/-! ### Kübler inclinometer -/

def inclinoErr (f : Frame) : Option ErrKind :=
  if byte f 6 = 255 then none
  else
    let st := byte f 6 / 16
    if st = inclinoStatusNoError then none
    else if st = inclinoStatusInvalidConfiguration then some .invalidConfiguration
    else if st = inclinoStatusGeneralSensorError then some .sensorError
    else some .hardwareError

/-- slope as a signed number of tenths of a degree (0 when FF FF) -/
def slope (lo hi : Nat) : Int := if lo = 255 ∧ hi = 255 then 0 else i16OfU16 (lo + 256 * hi)

def inclinoRecv (da : Nat) (f : Frame) : RecvOut :=
  if !daGuard da f then {}
  else
    let g := pgn f.id
    if g = pgnAddressClaimed then
      if fromUnit da f then { marks := true } else {}
    else if g = inclinometerPgn then
      if fromUnit da f then
        let s := Sig.rotAbs (source f.id)
        { signals := [s], rxLast := some s, err := inclinoErr f }
      else {}
    else {}

/-! ### engine management system (also the receive side of the Volvo D7E driver) -/

/-- `slots::position_level2::dec` : offset −125, saturating at 0 and at 125 -/
def percentDec (v : Nat) : Option Nat := if v = 255 then none else some (min (v - 125) 125)

/-- `slots::rotational_velocity::dec` : 1/8 rpm per bit, capped at 8031 -/
def rpmDec (lo hi : Nat) : Option Nat := if lo = 255 ∧ hi = 255 then none else some (min ((lo + 256 * hi) / 8) 8031)

/-- the engine signal derived from an EEC1 payload -/
def eec1 (f : Frame) : Engine :=
  let dd := (percentDec (byte f 1)).getD 0
  let ae := (percentDec (byte f 2)).getD 0
  let rpm? := rpmDec (byte f 3) (byte f 4)
  let rpm := rpm?.getD 0
  let nib := byte f 6 % 16
  let st : EngineState :=
    if nib = 15 then
      -- no starter mode reported: derive the state from the speed
      match rpm? with
      | some r => if r = 0 then .noRequest else if r < 500 then .starting else .request
      | none => .noRequest
    else if nib = 1 ∨ nib = 2 then .starting
    else if nib = 3 then (match rpm? with | some r => if r > 0 then .request else .noRequest | none => .noRequest)
    else .noRequest
  { driverDemand := dd, actualEngine := ae, rpm := rpm, state := st }

/-- parameter groups the EMS driver accepts from its unit besides EEC1 -/
def emsOtherPgns : List Nat :=
  [pgnElectronicBrakeController1, pgnElectronicEngineController2, pgnElectronicEngineController3, pgnFanDrive,
   pgnVehicleDistance, pgnShutdown, pgnEngineTemperature1, pgnEngineFluidLevelPressure1, pgnEngineFluidLevelPressure2,
   pgnFuelEconomy, pgnFuelConsumption, pgnAmbientConditions, pgnPowerTakeoffInformation, pgnTANKInformation1,
   pgnVehicleElectricalPower1, pgnInletExhaustConditions1]

/-- `EngineManagementSystem::try_recv` (repaired: a TSC1 frame, which is a command *to* the engine,
no longer counts as a sign of life of the engine controller) -/
def emsRecv (da : Nat) (f : Frame) : RecvOut :=
  let g := pgn f.id
  if g = pgnTorqueSpeedControl1 then {}
  else if g = pgnElectronicEngineController1 then
    if fromUnit da f then
      let s := Sig.engine (eec1 f)
      { signals := [s], rxLast := some s }
    else {}
  else if g ∈ emsOtherPgns then
    if fromUnit da f then { marks := true } else {}
  else {}

/-! ### simulator -/

/-- `Simulator::try_recv` (repaired: frames the embedded HCU parser does not recognise are ignored) -/
def simRecv (f : Frame) : RecvOut :=
  match hcuParse 0x4A f with
  | none => {}
  | some _ => { signals := [.rotRel 0x6A, .rotRel 0x6B, .rotRel 0x6C, .rotRel 0x6D] }

/-- `J1939Unit::try_recv` per driver kind -/
def tryRecv (k : Kind) (da : Nat) (f : Frame) : Outcome :=
  match k with
  | .vcu => .ok (vcuRecv da f)
  | .hcu => .ok (hcuRecv da f)
  | .sim => .ok (simRecv f)
  | .d7e | .ecm => .ok (emsRecv da f)
  | .inclino => .ok (inclinoRecv da f)
  | .ecu => .ok (ecuRecv da f)
  | .encoder => .ok (encoderRecv da f)

/-! ### the parse tables (tied to the source by the translator: `Consts.parseArms*` are regenerated on every run) -/

/-- the arms of each driver's `parse` as THIS MODEL has them: (parameter group, "only from the unit's own address") -/
def Kind.arms : Kind → List (Nat × Bool)
  | .vcu => [(pgnProprietarilyConfigurableMessage1, false), (pgnSoftwareIdentification, true), (pgnAddressClaimed, true),
             (vcuStatusPgn, true)]
  | .hcu | .sim =>
    [(pgnProprietarilyConfigurableMessage3, false), (pgnProprietarilyConfigurableMessage1, false),
     (pgnSoftwareIdentification, true), (pgnAddressClaimed, true), (hcuStatusPgn, true), (hcuBankPgn0, false), (hcuBankPgn1, false)]
  | .d7e | .ecm => (pgnTorqueSpeedControl1, false) :: (pgnElectronicEngineController1, true) :: emsOtherPgns.map (·, true)
  | .inclino => [(pgnAddressClaimed, true), (inclinometerPgn, true)]
  | .ecu => [(pgnSoftwareIdentification, true), (pgnAddressClaimed, true)]
  | .encoder => [(pgnAddressClaimed, true), (encoderPgn, true)]

/-- does the model's `parse` start with the destination guard -/
def Kind.daGuarded : Kind → Bool
  | .d7e | .ecm => false
  | _ => true

/-- the same two facts as the translator reads them off the source -/
def parseTable : Kind → List (Nat × Bool)
  | .vcu => parseArmsVcu
  | .hcu | .sim => parseArmsHydraulic
  | .d7e | .ecm => parseArmsEngine
  | .inclino => parseArmsInclino
  | .ecu => parseArmsEcu
  | .encoder => parseArmsEncoder

def parseDaGuard : Kind → Bool
  | .vcu => parseDaGuardVcu
  | .hcu | .sim => parseDaGuardHydraulic
  | .d7e | .ecm => parseDaGuardEngine
  | .inclino => parseDaGuardInclino
  | .ecu => parseDaGuardEcu
  | .encoder => parseDaGuardEncoder

/-- does the frame count as a sign of life of the unit (driver mark, or the authority's mark for a
non-empty `rx_queue`) -/
def RecvOut.alive (r : RecvOut) : Bool := r.marks || !r.signals.isEmpty

/-! ### engine command side (Volvo D7E) -/

def volvoGovernor : Governor := ⟨volvoRpmIdle, volvoRpmMax, volvoTimeoutMs⟩

/-- `VolvoD7E::speed_control`; `(rpm as f32 / 10.0) as u8` truncates and saturates at 255 -/
def volvoFrame (sa : Nat) (code rpm : Nat) : Frame :=
  mkFrame (buildId volvoSpeedPriority volvoSpeedPgn sa 0) [0, code, 0x1F, 0, 0, 0, 0x20, min (rpm / 10) 255]

/-- the `match governor_engine.state` shared by trigger and tick -/
def volvoEmit (sa : Nat) (g : Engine) : Frame :=
  match g.state with
  | .noRequest => volvoFrame sa volvoStateNominal g.rpm
  | .starting => volvoFrame sa volvoStateStarting g.rpm
  | .stopping => volvoFrame sa volvoStateShutdown g.rpm
  | .request => volvoFrame sa volvoStateNominal g.rpm

/-- how an engine command is read: speed 0 means shut down, otherwise run at that speed -/
def normaliseCmd (cmd : Engine) : Engine := if cmd.rpm > 0 then Engine.fromRpm cmd.rpm else Engine.shutdown

structure VolvoSt where
  /-- `rx_last_message` when it is an engine signal -/
  rxLast : Option Engine := none
  /-- `tx_last_message` (engine command as stored) and the time it was stored -/
  txLast : Option (Engine × Nat) := none
  now : Nat := 0
  deriving DecidableEq, Repr

inductive VolvoOp where
  | status (e : Engine)        -- an EEC1 frame from the unit decoded to this signal
  | cmd (e : Engine)
  | other                      -- a non-engine command object
  | tick
  | wait (ms : Nat)
  deriving DecidableEq, Repr

/-- (repaired) the command is stored as it will be interpreted: normalised -/
def volvoStep (sa : Nat) (s : VolvoSt) : VolvoOp → VolvoSt × List Frame
  | .status e => ({ s with rxLast := some e }, [])
  | .cmd c =>
    let n := normaliseCmd c
    let sig := s.rxLast.getD Engine.shutdown
    ({ s with txLast := some (n, s.now) }, [volvoEmit sa (volvoGovernor.nextState sig n none)])
  | .other => (s, [])
  | .tick =>
    let sig := s.rxLast.getD Engine.shutdown
    let (cmd, age) : Engine × Option Nat := match s.txLast with
      | some (c, t) => (c, some (s.now - t))
      | none => (sig, none)
    (s, [volvoEmit sa (volvoGovernor.nextState sig cmd age)])
  | .wait ms => ({ s with now := s.now + ms }, [])

def volvoRun (sa : Nat) : VolvoSt → List VolvoOp → List (List Frame)
  | _, [] => []
  | s, op :: rest => (volvoStep sa s op).2 :: volvoRun sa (volvoStep sa s op).1 rest

def volvoFinal (sa : Nat) (s : VolvoSt) (h : List VolvoOp) : VolvoSt :=
  h.foldl (fun s op => (volvoStep sa s op).1) s

end Glonax.Drv
