import GlonaxModel.Thm.C04
/-! THEOREMS C05: arbitrary client bytes never crash the session; it ends only through its normal
termination path. -/
namespace Glonax.Thm.C05
open Glonax Wire Sess Consts Spec.Sess Thm.C04

theorem parseHeader_ok_len (b : List Nat) (ty len : Nat) (h : parseHeader b = .ok (ty, len)) :
    1 ≤ len ∧ len ≤ maxPayloadSize := by
  unfold parseHeader at h
  generalize b.getD 5 0 * 256 + b.getD 6 0 = l at h
  split at h
  · cases h
  · split at h
    · cases h
    · split at h
      · cases h
      · simp only [] at h
        split at h
        · cases h
        · split at h
          · cases h
          · split at h
            · cases h
            · simp only [Except.ok.injEq, Prod.mk.injEq] at h
              omega

/-- what is known about a payload read in progress -/
def PayOk (p : Pay) : Prop :=
  1 ≤ p.need ∧ p.got.length < p.need ∧ ∀ k, p.kind = some k → ∀ n, k.msgSize = some n → p.need = n

def Inv (c : Core) : Prop := ∀ p, c.pay = some p → PayOk p

private theorem payFor_ok (ty len : Nat) (h1 : 1 ≤ len) : PayOk (payFor ty len) := by
  unfold payFor PayOk
  cases hk : serverKind? ty with
  | none => simp; omega
  | some k =>
    simp only []
    refine ⟨h1, by simp; omega, ?_⟩
    intro k' hk' n hn
    by_cases hs : sizeOk k len = true
    · simp only [hs, if_true, Option.some.injEq] at hk'
      subst hk'
      simp [sizeOk, hn] at hs
      omega
    · simp [hs] at hk'

private theorem complete_ok (inst : Instance) (c : Core) (k : Option Kind) (g : List Nat) (hc : c.pay = none)
    (h1 : 1 ≤ g.length) (hfix : ∀ k', k = some k' → ∀ n, k'.msgSize = some n → g.length = n) :
    Inv (complete inst c k g).1 ∧ Out.panicked ∉ (complete inst c k g).2 ∧
    ((complete inst c k g).1.ended = c.ended) ∧ Out.failsafeStop ∉ (complete inst c k g).2 ∧
    Out.ended ∉ (complete inst c k g).2 := by
  have hinv : Inv c := by intro p hp; rw [hc] at hp; cases hp
  cases k with
  | none => simp [complete, hinv]
  | some k =>
    by_cases hs : k = .session
    · subst hs
      have hnp : decSession g ≠ .panic := by
        unfold decSession; split
        · simp
        · split <;> simp
      simp only [complete]
      cases hd : decSession g with
      | ok v => refine ⟨?_, by simp, by first | rfl | trivial, by simp, by simp⟩; intro p hp; simp [hc] at hp
      | err => simp [hinv]
      | panic => exact absurd hd hnp
    · have hnp : decode k g ≠ .panic := Thm.C13.C13_decode_no_panic k g h1 (hfix k rfl)
      have hc' : complete inst c (some k) g =
          match decode k g with
          | .ok p => (c, [.dispatch p])
          | .err => (c, [])
          | .panic => ({ c with ended := true }, [.panicked]) := by
        cases k <;> first | exact absurd rfl hs | rfl
      rw [hc']
      cases hd : decode k g with
      | ok p => simp [hinv]
      | err => simp [hinv]
      | panic => exact absurd hd hnp

/-- one byte: the invariant is kept, nothing panics, and the session does not end by itself -/
theorem stepByte_ok (inst : Instance) (c : Core) (b : Nat) (hi : Inv c) :
    Inv (stepByte inst c b).1 ∧ Out.panicked ∉ (stepByte inst c b).2 ∧
    (stepByte inst c b).1.ended = c.ended ∧ Out.failsafeStop ∉ (stepByte inst c b).2 ∧
    Out.ended ∉ (stepByte inst c b).2 := by
  unfold stepByte
  by_cases he : c.ended = true
  · simp [he, hi]
  · have he' : c.ended = false := by simpa using he
    simp only [he, if_false, Bool.false_eq_true]
    cases hp : c.pay with
    | none =>
      simp only []
      by_cases hl : (c.hdr ++ [b]).length < protoBufferSize
      · simp only [hl, if_true]
        refine ⟨?_, by simp, by first | rfl | trivial | simp, by simp, by simp⟩
        intro p hp'; simp [hp] at hp'
      · simp only [hl, if_false]
        cases hh : parseHeader (c.hdr ++ [b]) with
        | error e =>
          refine ⟨?_, by simp, by first | rfl | trivial | simp, by simp, by simp⟩
          intro p hp'; simp [hp] at hp'
        | ok r =>
          obtain ⟨ty, len⟩ := r
          have hlen := parseHeader_ok_len _ _ _ hh
          refine ⟨?_, by simp, by first | rfl | trivial | simp, by simp, by simp⟩
          intro p hp'
          simp only [Option.some.injEq] at hp'
          subst hp'
          exact payFor_ok ty len hlen.1
    | some p =>
      obtain ⟨h1, h2, h3⟩ := hi p hp
      simp only []
      by_cases hl : (p.got ++ [b]).length < p.need
      · simp only [hl, if_true]
        refine ⟨?_, by simp, by first | rfl | trivial | simp, by simp, by simp⟩
        intro p' hp'
        simp only [Option.some.injEq] at hp'
        subst hp'
        exact ⟨h1, hl, h3⟩
      · simp only [hl, if_false]
        have hlen : (p.got ++ [b]).length = p.need := by simp at hl ⊢; omega
        have := complete_ok inst { c with pay := none } p.kind (p.got ++ [b]) rfl (by omega)
          (fun k' hk' n hn => by rw [hlen]; exact h3 k' hk' n hn)
        simpa [he'] using this

theorem feed_ok (inst : Instance) (c : Core) (bs : List Nat) (hi : Inv c) :
    Inv (feed inst c bs).1 ∧ Out.panicked ∉ (feed inst c bs).2 ∧ (feed inst c bs).1.ended = c.ended ∧
    Out.failsafeStop ∉ (feed inst c bs).2 ∧ Out.ended ∉ (feed inst c bs).2 := by
  induction bs generalizing c with
  | nil => simp [feed, hi]
  | cons b rest ih =>
    obtain ⟨s1, s2, s3, s4, s5⟩ := stepByte_ok inst c b hi
    obtain ⟨i1, i2, i3, i4, i5⟩ := ih (stepByte inst c b).1 s1
    simp only [feed, List.mem_append, not_or]
    exact ⟨i1, ⟨s2, i2⟩, by rw [i3, s3], ⟨s4, i4⟩, ⟨s5, i5⟩⟩

private theorem flush_ok (s : St) (fuel : Nat) (hi : Inv s.core) :
    Inv (flush s fuel).1.core ∧ Out.panicked ∉ (flush s fuel).2 ∧
    (s.ring.closed = false → (flush s fuel).1.core.ended = s.core.ended ∧ Out.failsafeStop ∉ (flush s fuel).2 ∧
      Out.ended ∉ (flush s fuel).2 ∧ (flush s fuel).1.ring.closed = false) := by
  induction fuel generalizing s with
  | zero => simp [flush, hi]
  | succ n ih =>
    unfold flush
    by_cases hc : s.core.ended ∨ s.core.pay.isSome
    · simp [hc, hi]
    · simp only [hc, if_false]
      cases hr : s.ring.recv s.rxNext with
      | mk res nx =>
        cases res with
        | ok v =>
          have := ih { s with rxNext := nx } hi
          refine ⟨this.1, ?_, ?_⟩
          · simp only [List.mem_append, not_or]; refine ⟨?_, this.2.1⟩; split <;> simp
          · intro hcl
            have t := this.2.2 hcl
            refine ⟨t.1, ?_, ?_, t.2.2.2⟩
            · simp only [List.mem_append, not_or]; refine ⟨?_, t.2.1⟩; split <;> simp
            · simp only [List.mem_append, not_or]; refine ⟨?_, t.2.2.1⟩; split <;> simp
        | lagged k => exact ih { s with rxNext := nx } hi
        | empty => simp [hi]
        | closed =>
          refine ⟨?_, by simp [exitOuts]; (try (split <;> simp)), ?_⟩
          · intro p hp; exact hi p hp
          · intro hcl
            have : (s.ring.recv s.rxNext).1 ≠ Ring.Recv.closed := by
              unfold Ring.recv; split
              · simp
              · split <;> simp [hcl]
            rw [hr] at this; exact absurd rfl this

/-- every reachable session state satisfies the invariant and no step ever panics -/
theorem step_ok (inst : Instance) (s : St) (e : Ev) (hi : Inv s.core) :
    Inv (step inst s e).1.core ∧ Out.panicked ∉ (step inst s e).2 := by
  unfold step
  by_cases he : s.core.ended = true
  · simp [he, hi]
  · simp only [he, if_false, Bool.false_eq_true]
    cases e with
    | bytes c =>
      have f := feed_ok inst s.core c hi
      have fl := flush_ok { s with core := (feed inst s.core c).1 } (s.ring.buf.length + 2) f.1
      simp only [flushAll, List.mem_append, not_or]
      exact ⟨fl.1, f.2.1, fl.2.1⟩
    | signal o =>
      have fl := flush_ok { s with ring := s.ring.send o } ((s.ring.send o).buf.length + 2) hi
      exact ⟨fl.1, fl.2.1⟩
    | close m =>
      refine ⟨?_, ?_⟩
      · intro p hp; simp at hp
      · simp [exitOuts]; (try (split <;> simp))
    | signalsClosed =>
      have fl := flush_ok { s with ring := { s.ring with closed := true } } (s.ring.buf.length + 2) hi
      exact ⟨fl.1, fl.2.1⟩

theorem init_inv : Inv ({} : St).core := by intro p hp; simp at hp

/-- C05: whatever the client sends and however it is cut, whatever is published meanwhile and however the
connection ends, the session never panics -/
theorem C05_no_panic (inst : Instance) (es : List Ev) : Out.panicked ∉ (run inst {} es).2 := by
  suffices h : ∀ s : St, Inv s.core → Out.panicked ∉ (run inst s es).2 from h {} init_inv
  induction es with
  | nil => intro s _; simp [run]
  | cons e rest ih =>
    intro s hi
    have st := step_ok inst s e hi
    simp only [run, List.mem_append, not_or]
    exact ⟨st.2, ih _ st.1⟩

/-- the session ends only through a termination event: bytes and signals alone never end it, never
produce the failsafe stop and never the end marker -/
theorem C05_normal_exit (inst : Instance) (es : List Ev) (hes : onlyBytesAndSignals es = true) :
    (run inst {} es).1.core.ended = false ∧ Out.ended ∉ (run inst {} es).2 ∧ Out.failsafeStop ∉ (run inst {} es).2 := by
  suffices h : ∀ s : St, Inv s.core → s.core.ended = false → s.ring.closed = false →
      (run inst s es).1.core.ended = false ∧ Out.ended ∉ (run inst s es).2 ∧ Out.failsafeStop ∉ (run inst s es).2 from
    h {} init_inv rfl rfl
  induction es with
  | nil => intro s _ he _; simp [run, he]
  | cons e rest ih =>
    intro s hi he hcl
    have hrest : onlyBytesAndSignals rest = true := by
      simp only [onlyBytesAndSignals, List.all_cons, Bool.and_eq_true] at hes; exact hes.2
    cases e with
    | bytes c =>
      have f := feed_ok inst s.core c hi
      have fl := flush_ok { s with core := (feed inst s.core c).1 } (s.ring.buf.length + 2) f.1
      have fl2 := fl.2.2 hcl
      have hstep : step inst s (.bytes c) =
          ((flushAll { s with core := (feed inst s.core c).1 }).1,
           (feed inst s.core c).2 ++ (flushAll { s with core := (feed inst s.core c).1 }).2) := by
        simp [step, he]
      simp only [flushAll] at hstep
      have i := ih hrest _ fl.1 (by rw [fl2.1]; simp [f.2.2.1, he]) fl2.2.2.2
      simp only [run, hstep, List.mem_append, not_or]
      exact ⟨i.1, ⟨⟨f.2.2.2.2, fl2.2.2.1⟩, i.2.1⟩, ⟨⟨f.2.2.2.1, fl2.2.1⟩, i.2.2⟩⟩
    | signal o =>
      have hs : (s.ring.send o).closed = false := by unfold Ring.send; split <;> simp [hcl]
      have fl := flush_ok { s with ring := s.ring.send o } ((s.ring.send o).buf.length + 2) hi
      have fl2 := fl.2.2 hs
      have hstep : step inst s (.signal o) = flushAll { s with ring := s.ring.send o } := by simp [step, he]
      simp only [flushAll] at hstep
      have i := ih hrest _ fl.1 (by rw [fl2.1]; exact he) fl2.2.2.2
      simp only [run, hstep, List.mem_append, not_or]
      exact ⟨i.1, ⟨fl2.2.2.1, i.2.1⟩, ⟨fl2.2.1, i.2.2⟩⟩
    | close m => simp [onlyBytesAndSignals] at hes
    | signalsClosed => simp [onlyBytesAndSignals] at hes

/-- sessions share nothing but the channels: running two sessions side by side (signals reach both)
is the same as running each one alone on its own events -/
def proj (which : Bool) : List (Bool × Ev) → List Ev
  | [] => []
  | (w, e) :: rest =>
    match e with
    | .signal _ | .signalsClosed => e :: proj which rest
    | _ => if w = which then e :: proj which rest else proj which rest

def runPair (inst : Instance) (a b : St) : List (Bool × Ev) → (St × List Out) × (St × List Out)
  | [] => ((a, []), (b, []))
  | (w, e) :: rest =>
    let toA : Bool := match e with | .signal _ | .signalsClosed => true | _ => w == true
    let toB : Bool := match e with | .signal _ | .signalsClosed => true | _ => w == false
    let ra := if toA then step inst a e else (a, [])
    let rb := if toB then step inst b e else (b, [])
    let q := runPair inst ra.1 rb.1 rest
    ((q.1.1, ra.2 ++ q.1.2), (q.2.1, rb.2 ++ q.2.2))

theorem C05_isolation (inst : Instance) (a b : St) (es : List (Bool × Ev)) :
    (runPair inst a b es).1.2 = (run inst a (proj true es)).2 ∧
    (runPair inst a b es).2.2 = (run inst b (proj false es)).2 := by
  induction es generalizing a b with
  | nil => simp [runPair, run, proj]
  | cons x rest ih =>
    obtain ⟨w, e⟩ := x
    cases e <;> cases w <;> simp [runPair, proj, run, ih]

/-- the frame handling the no-panic results are about is that of the current tree: the message types with an arm in
`UnixServer::parse`, each arm reading its own payload, the catch-all draining it, and a session loop that is left only
through `break` (regenerated from server.rs on every run) -/
theorem C05_session_shape_as_modelled :
    ((∀ ty, (serverKind? ty).isSome = serverArmTypes.contains ty) ∧ serverArmsReadOwnPayload = true ∧ serverCatchAllDrains = true) ∧
    (sessionOtherErrorsEnd = false ∧ sessionReturnsBeforeFailsafe = 0) :=
  ⟨C04_parse_arms_as_modelled, C04_session_loop_as_modelled.2.1, C04_session_loop_as_modelled.2.2.2.2.1⟩

end Glonax.Thm.C05
