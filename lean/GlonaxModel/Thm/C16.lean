import GlonaxModel.Lemmas.TasksLive
import GlonaxModel.Model.Authority
/-! THEOREMS C16: orderly shutdown.  The scheduling functions and glonaxd's `run()` are REGENERATED from the
source as micro-operation lists (`Consts.schedIoSubOps`, `schedIoPubOps`, `schedNetOps`, `mainCalls`); the
theorems below are about every interleaving of main's micro-steps, the termination request and task polls,
for any number of networks. -/
namespace Glonax.Thm.C16
open Glonax Tasks Consts

/-- the extractor emitted only operations the model knows -/
theorem C16_program_decodes :
    (decodeOps schedIoSubOps).isSome = true ∧ (decodeOps schedIoPubOps).isSome = true ∧ (decodeOps schedNetOps).isSome = true := by
  decide

/-- `run()`: register the signal handler first, then only scheduling calls, then wait_for_shutdown, then wait_for_tasks -/
theorem C16_main_shape : mainShape mainCalls = true := by decide

/-- every task spawned by the three scheduling functions is behind the guard, has a shutdown arm in its
select!, and the receiver in that arm is subscribed BEFORE the guard is evaluated -/
theorem C16_calls_safe_base : safeCall ioSubCall = true ∧ safeCall ioPubCall = true ∧ safeCall netCall = true := by
  decide

theorem callsOf_mem (nets : Nat) (l : List Nat) (c : List MOp) (h : c ∈ callsOf nets l) :
    c = ioSubCall ∨ c = ioPubCall ∨ c = netCall := by
  induction l with
  | nil => simp [callsOf] at h
  | cons x r ih =>
    simp only [callsOf, List.mem_append] at h
    rcases h with h | h
    · split at h
      · simp at h; exact Or.inl h
      · split at h
        · simp at h; exact Or.inr (Or.inl h)
        · split at h
          · simp only [List.mem_replicate] at h; exact Or.inr (Or.inr h.2)
          · simp at h
    · exact ih h

theorem C16_calls_safe (nets : Nat) : ∀ c ∈ callsOf nets mainCalls, safeCall c = true := by
  intro c hc
  rcases callsOf_mem nets mainCalls c hc with h | h | h <;> rw [h]
  · exact C16_calls_safe_base.1
  · exact C16_calls_safe_base.2.1
  · exact C16_calls_safe_base.2.2

/-- C16 (every task is notified): whenever the request arrives relative to main's scheduling steps and the
tasks' own steps — any number of networks, any interleaving — every task that exists has a shutdown arm whose
receiver was subscribed before the request was sent: it observes the request at its next poll -/
theorem C16_all_notified (nets : Nat) (es : List Ev) :
    ∀ t ∈ (run (init nets) es).tasks, t.arm = true ∧ t.notifiable = true :=
  (inv_run _ es (inv_init _ (C16_calls_safe nets))).1

/-- C16 (all tasks stop): once the request is out and scheduling is over, as soon as every task has been
polled twice (in any order, interleaved with anything) every task has left its loop and finished -/
theorem C16_joins_under_fair_polling (s : Sys) (es : List Ev) (h : Stable s)
    (hf : ∀ i, i < s.tasks.length → 2 ≤ polls i es) :
    ∀ t ∈ (run s es).tasks, t.phase = .done := by
  intro t ht
  obtain ⟨i, hi, hget⟩ := List.getElem_of_mem ht
  have hr := phaseAt_run s es i h
  have hlt : i < s.tasks.length := by rw [← hr.2.2]; exact hi
  have h2 := hf i hlt
  have hle := phaseAt_le s i
  have h0 : phaseAt (run s es) i = 0 := by rw [hr.1]; omega
  have hsome : (run s es).tasks[i]? = some t := by rw [List.getElem?_eq_getElem hi, hget]
  exact done_of_phaseAt _ i t hsome h0

/-- … and then main, waiting in wait_for_shutdown / wait_for_tasks, returns: the daemon exits -/
theorem C16_exits (s : Sys) (h : Stable s) (hd : ∀ t ∈ s.tasks, t.phase = .done) :
    (stepMain (stepMain s)).mainPhase = .exited := by
  obtain ⟨_, hr, hp⟩ := h
  have hall : s.tasks.all (fun t => t.phase == .done) = true := by
    rw [List.all_eq_true]; intro t ht; simp [hd t ht]
  rcases hp with hp | hp | hp
  · simp [stepMain, hp, hr, hall]
  · simp [stepMain, hp, hall]
  · simp [stepMain, hp]

/-- the stable situation is reached from every start: after the request, when main has scheduled everything -/
theorem C16_stable_reached (nets : Nat) (es : List Ev) (hr : (run (init nets) es).requested = true)
    (hp : Past (run (init nets) es)) : Stable (run (init nets) es) :=
  ⟨C16_all_notified nets es, hr, hp⟩

/-- C16 (teardown exactly once, as the last thing): in every reachable state each task has run its teardown
exactly once if it has finished (and has one), never otherwise; likewise its setup -/
theorem C16_teardown_exactly_once (nets : Nat) (es : List Ev) (i : Nat) (t : Task)
    (h : (run (init nets) es).tasks[i]? = some t) :
    tdCount (run (init nets) es) i = (if t.phase = .done ∧ t.teardown = true then 1 else 0) ∧
    suCount (run (init nets) es) i = (if t.phase ≠ .start ∧ t.setup = true then 1 else 0) :=
  (cnt_run _ es (cnt_init _)).2 i t h

/-- C16 (nothing after completion): when all tasks have finished, no step of anything emits anything -/
theorem C16_quiescent (s : Sys) (hp : Past s) (hd : ∀ t ∈ s.tasks, t.phase = .done) (e : Ev) :
    (step s e).log = s.log := by
  cases e with
  | main => exact (stepMain_past s hp).2.2.2
  | request => simp only [step]; split <;> rfl
  | poll i n =>
    cases hi : s.tasks[i]? with
    | none => simp [step, hi]
    | some t =>
      have : t.phase = .done := hd t (List.mem_of_getElem? hi)
      simp [step, hi, pollTask, this]

/-! ### which tasks exist -/

/-- what `schedule_net_service` spawns: the receive task with setup and teardown around its loop, the tick
task and the command task -/
theorem C16_net_tasks : spawnShapes netCall = [⟨.netRecv, true, true⟩, ⟨.netTick, false, false⟩, ⟨.netCmd, false, false⟩] := by
  decide

theorem C16_io_tasks : spawnShapes ioSubCall = [⟨.ioSub, true, true⟩] ∧ spawnShapes ioPubCall = [⟨.ioPub, true, true⟩] := by
  decide

/-- C16 (partial — request after start-up): if the request has not arrived by the time main has finished
scheduling, every task of every service exists: in particular one receive task with teardown per network -/
theorem C16_all_spawned_partial (nets : Nat) (es : List Ev)
    (hr : (run (init nets) es).requested = false) (hp : Past (run (init nets) es)) :
    (run (init nets) es).tasks.map Task.shape = (callsOf nets mainCalls).flatMap spawnShapes := by
  simp only [init] at hr hp ⊢
  have hq := quiet_run (callsOf nets mainCalls) _ es (quiet_init _) hr
  -- past scheduling: nothing is left to run
  have hempty := past_empty (initOf (callsOf nets mainCalls)) es
    (by intro h; rcases h with h | h | h <;> cases h) hp
  rw [hempty.1, hempty.2] at hq
  simpa [spawnShapes] using hq.2
where
  past_empty (s : Sys) (es : List Ev) (h0 : Past s → s.cur = [] ∧ s.rest = []) :
      Past (run s es) → (run s es).cur = [] ∧ (run s es).rest = [] := by
    induction es generalizing s with
    | nil => exact h0
    | cons e rest ih =>
      apply ih (step s e)
      intro hp
      cases e with
      | request =>
        simp only [step] at hp ⊢; split at hp
        · rename_i h; simp only [h]; exact h0 hp
        · rename_i h; simp only [h]; exact h0 hp
      | poll i n =>
        cases hi : s.tasks[i]? <;> simp only [step, hi] at hp ⊢ <;> exact h0 hp
      | main =>
        change Past (stepMain s) at hp
        show (stepMain s).cur = [] ∧ (stepMain s).rest = []
        cases hph : s.mainPhase with
        | unregistered => simp [stepMain, hph, Past] at hp
        | scheduling =>
          cases hc : s.cur with
          | cons op c' =>
            have : (execOp s op c').mainPhase = .scheduling := by
              cases op <;> simp [execOp, hph]
              split <;> simp [hph]
            simp [stepMain, hph, hc, Past, this] at hp
          | nil =>
            cases hr : s.rest with
            | cons c r => simp [stepMain, hph, hc, hr, Past] at hp
            | nil => simp [stepMain, hph, hc, hr]
        | waiting =>
          have := h0 (Or.inl hph)
          simp only [stepMain, hph]; split <;> exact this
        | joining =>
          have := h0 (Or.inr (Or.inl hph))
          simp only [stepMain, hph]; split <;> exact this
        | exited =>
          have := h0 (Or.inr (Or.inr hph))
          simp only [stepMain, hph]; exact this

theorem replicate_net (n : Nat) :
    (List.replicate n netCall).flatMap spawnShapes =
      (List.replicate n [(⟨.netRecv, true, true⟩ : Shape), ⟨.netTick, false, false⟩, ⟨.netCmd, false, false⟩]).flatten := by
  induction n with
  | zero => rfl
  | succ n ih => simp only [List.replicate_succ, List.flatMap_cons, List.flatten_cons, C16_net_tasks, ih]

/-- for glonaxd's `run()`: three io services and, per configured network, receive + tick + command -/
theorem C16_glonaxd_tasks (nets : Nat) :
    (callsOf nets mainCalls).flatMap spawnShapes =
      [⟨.ioSub, true, true⟩, ⟨.ioSub, true, true⟩, ⟨.ioSub, true, true⟩] ++
      (List.replicate nets [(⟨.netRecv, true, true⟩ : Shape), ⟨.netTick, false, false⟩, ⟨.netCmd, false, false⟩]).flatten := by
  have hm : mainCalls = [0, 1, 1, 1, 2, 3, 4] := by decide
  rw [hm]
  simp [callsOf, C16_io_tasks.1, replicate_net]

/-! ### what the receive task's teardown puts on the bus -/

/-- C16 (teardown resets every hydraulic unit): `NetworkAuthority::teardown` emits exactly one motion-reset
frame per configured hydraulic unit, addressed to it, and nothing else -/
theorem C16_teardown_frames (cfg : Auth.NetCfg) :
    (Auth.units cfg).flatMap Auth.teardownFrames =
      ((Auth.units cfg).filter fun u => u.kind == .hcu).map fun u => Hcu.resetFrame u.da u.sa := by
  induction Auth.units cfg with
  | nil => rfl
  | cons u r ih =>
    simp only [List.flatMap_cons, List.filter_cons, ih]
    cases hk : u.kind <;> simp [Auth.teardownFrames, hk]

/-- the teardown event of the authority model emits exactly those frames -/
theorem C16_teardown_event (cfg : Auth.NetCfg) (s : Auth.St) :
    (Auth.step cfg s .teardown).2.frames = (Auth.units cfg).flatMap Auth.teardownFrames ∧
    (Auth.step cfg s .teardown).1 = s := ⟨rfl, rfl⟩

/-! ### the full statement, and where it fails (recorded finding) -/

/-- the property as stated: whenever the request arrives, once everything has stopped every network has had
its receive task's teardown -/
def FullStatement (nets : Nat) : Prop :=
  ∀ es, (run (init nets) es).mainPhase = .exited →
    ((run (init nets) es).tasks.filter fun t => t.role == .netRecv && t.teardown).length = nets

/-- FINDING (start-up window): a request delivered while `run()` is still scheduling leaves the remaining
services unscheduled — their networks are never set up and never torn down.  Witness: one network, the
request right after the signal handler is registered. -/
theorem C16_startup_window : ¬ FullStatement 1 := by
  intro h
  have := h ([.main, .request] ++ List.replicate 60 .main)
  revert this
  decide

/-- the harness's bound on the shutdown wall time (3 s; hung = not joined after 4 s) is inside the supervisor's stop timeout -/
theorem C16_bound_inside_stop_timeout : 4 < supervisorStopTimeoutSec := by decide

/-- the hydraulic units the teardown resets are ALL the configured ones: the constructor of the current source builds a
driver for every configured entry with a known pair (an unknown entry is skipped, it does not end the list) -/
theorem C16_every_configured_unit_is_built : Consts.authorityBuildsEveryKnownEntry = true := by decide

end Glonax.Thm.C16
