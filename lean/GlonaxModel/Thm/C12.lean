import GlonaxModel.Spec.Drivers
/-! THEOREMS C12: sensor and status frames decode to the right signals (integer / bit level). -/
namespace Glonax.Thm.C12
open Glonax J1939 Drv Consts Spec.Drivers

private theorem percent_eq (b : Nat) (hb : b < 256) : (percentDec b).getD 0 = refPercent b := by
  unfold percentDec refPercent
  by_cases h : b = 255
  · simp [h]
  · simp only [h, if_false, Option.getD_some]
    split
    · omega
    · split <;> omega

private theorem rpm_eq (lo hi : Nat) (hl : lo < 256) (hh : hi < 256) :
    (rpmDec lo hi).getD 0 = refRpm (lo + 256 * hi) ∧ ((rpmDec lo hi).isSome = (lo + 256 * hi != 65535)) := by
  unfold rpmDec refRpm
  by_cases h : lo = 255 ∧ hi = 255
  · obtain ⟨rfl, rfl⟩ := h; simp
  · have : lo + 256 * hi ≠ 65535 := by omega
    simp only [h, if_false, this, Option.getD_some]
    refine ⟨by split <;> omega, by simp [this]⟩

/-- the engine signal derived from EEC1 equals the reference decoding, for every payload -/
theorem C12_eec1_fields (f : Frame) (hb : ∀ x ∈ f.data, x < 256) (hl : f.data.length = 8) :
    eec1 f = refEec1 f.data := by
  match hd : f.data, hl with
  | [b0, b1, b2, b3, b4, b5, b6, b7], _ =>
    have m1 : b1 < 256 := hb b1 (by simp [hd]); have m2 : b2 < 256 := hb b2 (by simp [hd])
    have m3 : b3 < 256 := hb b3 (by simp [hd]); have m4 : b4 < 256 := hb b4 (by simp [hd])
    have m6 : b6 < 256 := hb b6 (by simp [hd])
    have p1 := percent_eq b1 m1
    have p2 := percent_eq b2 m2
    have r := rpm_eq b3 b4 m3 m4
    unfold eec1 refEec1 byte
    simp only [hd, List.getD_cons_zero, List.getD_cons_succ, p1, p2, r.1]
    congr 1
    have hn : b6 % 16 < 16 := by omega
    unfold refState
    by_cases hs : rpmDec b3 b4 = none
    · have hr : (b3 + 256 * b4 != 65535) = false := by rw [← r.2, hs]; rfl
      simp only [hs, hr]
      rcases (by omega : b6 % 16 = 0 ∨ b6 % 16 = 1 ∨ b6 % 16 = 2 ∨ b6 % 16 = 3 ∨ b6 % 16 = 4 ∨ b6 % 16 = 5 ∨ b6 % 16 = 6 ∨
        b6 % 16 = 7 ∨ b6 % 16 = 8 ∨ b6 % 16 = 9 ∨ b6 % 16 = 10 ∨ b6 % 16 = 11 ∨ b6 % 16 = 12 ∨ b6 % 16 = 13 ∨
        b6 % 16 = 14 ∨ b6 % 16 = 15) with h | h | h | h | h | h | h | h | h | h | h | h | h | h | h | h <;> simp [h]
    · obtain ⟨v, hv⟩ := Option.ne_none_iff_exists'.mp hs
      have hr : (b3 + 256 * b4 != 65535) = true := by rw [← r.2, hv]; rfl
      have hv' : refRpm (b3 + 256 * b4) = v := by rw [← r.1, hv]; rfl
      simp only [hv, hr, hv']
      rcases (by omega : b6 % 16 = 0 ∨ b6 % 16 = 1 ∨ b6 % 16 = 2 ∨ b6 % 16 = 3 ∨ b6 % 16 = 4 ∨ b6 % 16 = 5 ∨ b6 % 16 = 6 ∨
        b6 % 16 = 7 ∨ b6 % 16 = 8 ∨ b6 % 16 = 9 ∨ b6 % 16 = 10 ∨ b6 % 16 = 11 ∨ b6 % 16 = 12 ∨ b6 % 16 = 13 ∨
        b6 % 16 = 14 ∨ b6 % 16 = 15) with h | h | h | h | h | h | h | h | h | h | h | h | h | h | h | h <;> simp [h]

/-- an engine at 0 rpm is never reported as running -/
theorem C12_never_running_at_zero (f : Frame) : (eec1 f).state = .request → (eec1 f).rpm > 0 := by
  unfold eec1
  simp only []
  cases hr : rpmDec (byte f 3) (byte f 4) with
  | none => simp; split <;> (try split) <;> simp
  | some r =>
    simp only [Option.getD_some]
    split
    · split
      · simp
      · split <;> simp <;> omega
    · split
      · simp
      · split
        · split <;> simp; omega
        · simp

/-- demand / load are percentages 0..125, speed is at most 8031 rpm -/
theorem C12_eec1_ranges (f : Frame) :
    (eec1 f).driverDemand ≤ 125 ∧ (eec1 f).actualEngine ≤ 125 ∧ (eec1 f).rpm ≤ 8031 := by
  unfold eec1 percentDec rpmDec
  simp only []
  refine ⟨?_, ?_, ?_⟩ <;> (split <;> simp <;> omega)

/-- inclinometer slopes are signed tenths of a degree: the decoding inverts the two's-complement encoding -/
theorem C12_inclino_signed (v : Int) (h : InI16 v) (hne : v ≠ -1) :
    slope (u16OfI16 v % 256) (u16OfI16 v / 256) = v := by
  have hu := u16OfI16_lt v
  have hm := u16OfI16_eq_65535_iff v h
  have hr := i16_roundtrip v h
  unfold slope
  have : ¬ (u16OfI16 v % 256 = 255 ∧ u16OfI16 v / 256 = 255) := by
    intro ⟨a, b⟩; exact hne (hm.mp (by omega))
  have e : u16OfI16 v % 256 + 256 * (u16OfI16 v / 256) = u16OfI16 v := by omega
  simp [this, e, hr]

/-- the encoder position is the 32-bit little-endian field -/
theorem C12_encoder_position (f : Frame) (hb : ∀ x ∈ f.data, x < 256) (hl : f.data.length = 8) :
    encoderPosition f < 4294967296 := by
  match hd : f.data, hl with
  | [b0, b1, b2, b3, b4, b5, b6, b7], _ =>
    have m0 := hb b0 (by simp [hd]); have m1 := hb b1 (by simp [hd])
    have m2 := hb b2 (by simp [hd]); have m3 := hb b3 (by simp [hd])
    unfold encoderPosition byte
    simp only [hd, List.getD_cons_zero, List.getD_cons_succ]
    split <;> omega

/-- device error codes are surfaced as errors WITHOUT suppressing the measurement -/
theorem C12_error_keeps_measurement (k : Kind) (da : Nat) (f : Frame) (r : RecvOut)
    (h : tryRecv k da f = .ok r) (he : r.err.isSome) (hk : k = .encoder ∨ k = .inclino ∨ k = .hcu) :
    r.signals ≠ [] := by
  rcases hk with rfl | rfl | rfl
  · simp only [tryRecv, Outcome.ok.injEq] at h
    subst h
    unfold encoderRecv at he ⊢
    by_cases g1 : daGuard da f <;> by_cases g2 : pgn f.id = pgnAddressClaimed <;>
      by_cases g3 : pgn f.id = encoderPgn <;> by_cases g4 : fromUnit da f <;> simp_all
  · simp only [tryRecv, Outcome.ok.injEq] at h
    subst h
    unfold inclinoRecv at he ⊢
    by_cases g1 : daGuard da f <;> by_cases g2 : pgn f.id = pgnAddressClaimed <;>
      by_cases g3 : pgn f.id = inclinometerPgn <;> by_cases g4 : fromUnit da f <;> simp_all
  · simp only [tryRecv, Outcome.ok.injEq] at h
    subst h
    unfold hcuRecv at he ⊢
    cases hp : hcuParse da f with
    | none => simp [hp] at he
    | some m => cases m <;> simp_all

/-- the hydraulic lock bit becomes stop-all / resume-all -/
theorem C12_hcu_lock (da : Nat) (f : Frame) (st : VState) (locked : Bool)
    (h : hcuParse da f = some (.status st locked)) :
    (hcuRecv da f).signals = [.motion (if locked then .stopAll else .resumeAll)] := by
  simp [hcuRecv, h]

theorem pgn_pdu2 (id : Nat) (h : pgn id ≥ 61440) : destination? id = none := by
  unfold destination?
  unfold pgn at h
  by_cases c : isPdu1 id = true
  · simp only [c, if_true] at h
    unfold isPdu1 at c
    simp only [decide_eq_true_eq] at c
    omega
  · simp [c]

private theorem encoderErr_eq (f : Frame) (h6 : byte f 6 < 256) (h7 : byte f 7 < 256) :
    encoderErr f = refEncoderErr (byte f 6 + 256 * byte f 7) := by
  have c0 : encoderStateNoError = 0 := by decide
  have c1 : encoderStateGeneralSensorError = 0xEE00 := by decide
  have c2 : encoderStateInvalidMUR = 0xEE01 := by decide
  have c3 : encoderStateInvalidTMR = 0xEE02 := by decide
  have c4 : encoderStateInvalidPreset = 0xEE03 := by decide
  unfold encoderErr refEncoderErr
  rw [c0, c1, c2, c3, c4]
  generalize byte f 6 = a at *
  generalize byte f 7 = b at *
  by_cases hff : a = 255 ∧ b = 255
  · obtain ⟨rfl, rfl⟩ := hff; simp
  · have : a + 256 * b ≠ 65535 := by omega
    simp only [hff, if_false, this, false_or]
    by_cases e0 : a + 256 * b = 0 <;> by_cases e1 : a + 256 * b = 60928 <;> by_cases e2 : a + 256 * b = 60929 <;>
      by_cases e3 : a + 256 * b = 60930 <;> by_cases e4 : a + 256 * b = 60931 <;> simp_all

private theorem inclinoErr_eq (f : Frame) (h6 : byte f 6 < 256) : inclinoErr f = refInclinoErr (byte f 6) := by
  have c0 : inclinoStatusNoError = 0 := by decide
  have c1 : inclinoStatusInvalidConfiguration = 0xE := by decide
  have c2 : inclinoStatusGeneralSensorError = 0xED := by decide
  unfold inclinoErr refInclinoErr
  rw [c0, c1, c2]
  generalize byte f 6 = a at *
  by_cases hff : a = 255
  · subst hff; simp
  · have hne : a / 16 ≠ 237 := by omega
    by_cases e0 : a / 16 = 0 <;> by_cases e1 : a / 16 = 14 <;> simp [hff, hne, e0, e1]

private theorem byte_lt (f : Frame) (hb : ∀ x ∈ f.data, x < 256) (i : Nat) : byte f i < 256 := by
  unfold byte
  by_cases h : i < f.data.length
  · have : f.data.getD i 255 = f.data[i] := by simp [List.getD, h]
    rw [this]; exact hb _ (List.getElem_mem h)
  · have : f.data.getD i 255 = 255 := by simp [List.getD, List.getElem?_eq_none (by omega : f.data.length ≤ i)]
    omega

/-- every C12 clause holds of the model, for every driver kind and every 8-byte frame -/
theorem C12_spec (k : Kind) (da : Nat) (f : Frame) (hb : ∀ x ∈ f.data, x < 256) (hl : f.data.length = 8)
    (r : RecvOut) (h : tryRecv k da f = .ok r) : (c12Clauses k da f r).all (·.2) = true := by
  have hE : encoderPgn = 65450 := by decide
  have hI : inclinometerPgn = 65451 := by decide
  have hA : pgnAddressClaimed = 60928 := by decide
  cases k with
  | vcu => simp [c12Clauses]
  | sim => simp [c12Clauses]
  | ecu => simp [c12Clauses]
  | encoder =>
    simp only [tryRecv, Outcome.ok.injEq] at h
    subst h
    unfold c12Clauses
    by_cases hc : pgn f.id = 65450 ∧ source f.id = da
    · obtain ⟨hg, hs⟩ := hc
      have hd := pgn_pdu2 f.id (by omega)
      have hguard : daGuard da f = true := by simp [daGuard, hd]
      have hne : pgn f.id ≠ pgnAddressClaimed := by rw [hA]; omega
      have hfu : fromUnit da f = true := by simp [fromUnit, hs]
      have ee := encoderErr_eq f (byte_lt f hb 6) (byte_lt f hb 7)
      simp only [hg, hs, and_self, if_true]
      have hne' : ¬ (65450 = pgnAddressClaimed) := by decide
      simp [encoderRecv, hguard, hE, hg, hfu, hs, ee, byte, hne']
    · simp [hc]
  | inclino =>
    simp only [tryRecv, Outcome.ok.injEq] at h
    subst h
    unfold c12Clauses
    by_cases hc : pgn f.id = 65451 ∧ source f.id = da
    · obtain ⟨hg, hs⟩ := hc
      have hd := pgn_pdu2 f.id (by omega)
      have hguard : daGuard da f = true := by simp [daGuard, hd]
      have hne : pgn f.id ≠ pgnAddressClaimed := by rw [hA]; omega
      have hfu : fromUnit da f = true := by simp [fromUnit, hs]
      have ee := inclinoErr_eq f (byte_lt f hb 6)
      simp only [hg, hs, and_self, if_true]
      have hne' : ¬ (65451 = pgnAddressClaimed) := by decide
      simp [inclinoRecv, hguard, hI, hg, hfu, hs, ee, byte, hne']
    · simp [hc]
  | ecm =>
    simp only [tryRecv, Outcome.ok.injEq] at h
    subst h
    unfold c12Clauses
    by_cases hc : pgn f.id = 61444 ∧ source f.id = da
    · obtain ⟨hg, hs⟩ := hc
      have h1 : pgnElectronicEngineController1 = 61444 := by decide
      have h0 : pgnTorqueSpeedControl1 = 0 := by decide
      have hfu : fromUnit da f = true := by simp [fromUnit, hs]
      have ef := C12_eec1_fields f hb hl
      have nz := C12_never_running_at_zero f
      simp only [hg, hs, and_self, if_true]
      simp [emsRecv, hg, h0, h1, hfu, ef]
      rw [ef] at nz
      by_cases hst : (refEec1 f.data).state = .request
      · exact Or.inr (nz hst)
      · exact Or.inl hst
    · simp [hc]
  | d7e =>
    simp only [tryRecv, Outcome.ok.injEq] at h
    subst h
    unfold c12Clauses
    by_cases hc : pgn f.id = 61444 ∧ source f.id = da
    · obtain ⟨hg, hs⟩ := hc
      have h1 : pgnElectronicEngineController1 = 61444 := by decide
      have h0 : pgnTorqueSpeedControl1 = 0 := by decide
      have hfu : fromUnit da f = true := by simp [fromUnit, hs]
      have ef := C12_eec1_fields f hb hl
      have nz := C12_never_running_at_zero f
      simp only [hg, hs, and_self, if_true]
      simp [emsRecv, hg, h0, h1, hfu, ef]
      rw [ef] at nz
      by_cases hst : (refEec1 f.data).state = .request
      · exact Or.inr (nz hst)
      · exact Or.inl hst
    · simp [hc]
  | hcu =>
    simp only [tryRecv, Outcome.ok.injEq] at h
    subst h
    unfold c12Clauses
    by_cases hc : pgn f.id = 65288 ∧ source f.id = da
    · obtain ⟨hg, hs⟩ := hc
      have hd := pgn_pdu2 f.id (by omega)
      have hguard : daGuard da f = true := by simp [daGuard, hd]
      have hfu : fromUnit da f = true := by simp [fromUnit, hs]
      have hp : hcuParse da f = some (.status (VState.ofByte (byte f 0)) (statusLocked f)) := by
        have c3 : pgnProprietarilyConfigurableMessage3 = 45824 := by decide
        have c1 : pgnProprietarilyConfigurableMessage1 = 45312 := by decide
        have cs : pgnSoftwareIdentification = 65242 := by decide
        have ch : hcuStatusPgn = 65288 := by decide
        simp [hcuParse, hguard, hg, c3, c1, cs, hA, ch, hfu]
      simp only [hg, hs, and_self, if_true]
      have hb2 := byte_lt f hb 2
      simp [hcuRecv, hp, statusLocked, byte] at hb2 ⊢
      generalize f.data[2]?.getD 255 = v
      by_cases e : v = 1
      · subst e; simp
      · simp [e]
    · simp [hc]

end Glonax.Thm.C12
