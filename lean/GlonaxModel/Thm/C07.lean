import GlonaxModel.Spec.C07
/-! THEOREMS for C07. Nothing is enumerated: states by case split, rpm/ages/idle/max arbitrary. -/
namespace Glonax.Thm.C07
open Glonax Glonax.Spec.C07 Governor

theorem clamp_range (t lo hi : Nat) (h : lo ≤ hi) : lo ≤ clamp t lo hi ∧ clamp t lo hi ≤ hi := by
  unfold clamp; split
  · omega
  · split <;> omega

/-- speed is always within [idle, max] -/
theorem C07_range (g : Governor) (h : g.idle ≤ g.max) (sig cmd : Engine) (age : Option Nat) :
    range g (g.nextState sig cmd age) = true := by
  have hc := fun t => clamp_range t g.idle g.max h
  unfold range nextState reshape
  cases hs : sig.state <;> cases hcm : cmd.state <;> simp <;>
    first | (split <;> simp [hc]) | simp [hc]

theorem C07_request_only_if_running (g : Governor) (sig cmd : Engine) (age : Option Nat) :
    requestOnlyIfRunning sig (g.nextState sig cmd age) = true := by
  unfold requestOnlyIfRunning nextState
  cases hs : sig.state <;> cases hcm : cmd.state <;> simp <;> split <;> simp

/-- stated as an equivalence on the model (stronger than the property's "only") -/
theorem C07_starter_iff (g : Governor) (sig cmd : Engine) (age : Option Nat) :
    (g.nextState sig cmd age).state = .starting ↔
      (((sig.state = .noRequest ∧ (cmd.state = .starting ∨ cmd.state = .request)) ∨ sig.state = .starting)
        ∧ g.expired age = false) := by
  unfold nextState
  cases hs : sig.state <;> cases hcm : cmd.state <;> simp <;> split <;> simp_all

theorem C07_starter_only_if (g : Governor) (sig cmd : Engine) (age : Option Nat) :
    starterOnlyIf g sig cmd age (g.nextState sig cmd age) = true := by
  unfold starterOnlyIf startOrRun nextState
  cases hs : sig.state <;> cases hcm : cmd.state <;> simp <;> split <;> simp_all

theorem C07_no_spontaneous_start (g : Governor) (sig cmd : Engine) (age : Option Nat) :
    noSpontaneousStart sig cmd (g.nextState sig cmd age) = true := by
  unfold noSpontaneousStart startOrRun nextState
  cases hs : sig.state <;> cases hcm : cmd.state <;> simp

theorem C07_stop_on_running (g : Governor) (sig cmd : Engine) (age : Option Nat) :
    stopOnRunning sig cmd (g.nextState sig cmd age) = true := by
  unfold stopOnRunning stopReq nextState
  cases hs : sig.state <;> cases hcm : cmd.state <;> simp

theorem C07_else_clamped_request (g : Governor) (sig cmd : Engine) (age : Option Nat) :
    elseClampedRequest g sig cmd (g.nextState sig cmd age) = true := by
  unfold elseClampedRequest startOrRun nextState reshape
  cases hs : sig.state <;> cases hcm : cmd.state <;> simp

/-- The whole Spec holds of the model for every input with idle ≤ max. -/
theorem C07_spec (g : Governor) (h : g.idle ≤ g.max) (sig cmd : Engine) (age : Option Nat) :
    holds g sig cmd age (g.nextState sig cmd age) = true := by
  simp [holds, clauses, C07_range g h, C07_request_only_if_running, C07_starter_only_if,
    C07_no_spontaneous_start, C07_stop_on_running, C07_else_clamped_request]

/-- outputs carry default demand/load fields and a u16 speed -/
theorem C07_output_wf (g : Governor) (h : g.max < 65536) (hi : g.idle ≤ g.max) (sig cmd : Engine) (age : Option Nat) :
    (g.nextState sig cmd age).WF ∧ (g.nextState sig cmd age).driverDemand = 0 ∧
      (g.nextState sig cmd age).actualEngine = 0 := by
  have hr := C07_range g hi sig cmd age
  simp [range] at hr
  refine ⟨⟨?_, ?_, by omega⟩, ?_, ?_⟩ <;>
  · unfold nextState
    cases hs : sig.state <;> cases hcm : cmd.state <;> simp <;> split <;> simp

/-- non-vacuity: the shipped governor satisfies the hypotheses, and every output state is reachable -/
example : (⟨Consts.volvoRpmIdle, Consts.volvoRpmMax, Consts.volvoTimeoutMs⟩ : Governor).idle ≤
    (⟨Consts.volvoRpmIdle, Consts.volvoRpmMax, Consts.volvoTimeoutMs⟩ : Governor).max := by decide
example : let g : Governor := ⟨800, 2100, 2000⟩
    (g.nextState {state := .noRequest} {state := .request, rpm := 1500} (some 100)).state = .starting ∧
    (g.nextState {state := .noRequest} {state := .request, rpm := 1500} (some 2001)).state = .noRequest ∧
    (g.nextState {state := .request, rpm := 900} {state := .request, rpm := 5000} none) = {rpm := 2100, state := .request} ∧
    (g.nextState {state := .request, rpm := 900} {state := .noRequest} none).state = .stopping := by decide

/-! ### the translator tie -/

/-- TRANSLATION THEOREM: the decision table the translator produces from the source text of `Governor::next_state` on
this run (`Consts.governorTable`, one row per match arm in source order), read with first-match semantics, computes
`nextState` for every governor, reported engine, requested engine and command age.  All theorems of this file are
therefore statements about the function the source defines now.  (A guarded arm, an arm whose value is not a plain
`Engine { rpm: …, state: … }` built from the recognised operands, or a reordering that changes the decision breaks
this theorem.) -/
theorem C07_translation (g : Governor) (sig cmd : Engine) (age : Option Nat) :
    nextStateT Consts.governorTable g sig cmd age = some (g.nextState sig cmd age) := by
  obtain ⟨sd, sa, sr, ss⟩ := sig
  obtain ⟨cd, ca, cr, cs⟩ := cmd
  cases ss <;> cases cs <;> cases he : g.expired age <;>
    simp [nextStateT, Consts.governorTable, List.find?, patMatches, EngineState.code, rowResult, engineOf, rpmOf,
      EngineState.ofCode?, Governor.nextState, he, Consts.engineStateNoRequest, Consts.engineStateStarting,
      Consts.engineStateStopping, Consts.engineStateRequest]

/-- `Governor::reshape` of the current source is the clamp of the model -/
theorem C07_reshape_as_modelled : Consts.governorReshapeIsClamp = true := by decide

/-- the range property stated on the translated table directly -/
theorem C07_range_translated (g : Governor) (h : g.idle ≤ g.max) (sig cmd : Engine) (age : Option Nat) :
    ∃ e, nextStateT Consts.governorTable g sig cmd age = some e ∧ range g e = true :=
  ⟨_, C07_translation g sig cmd age, C07_range g h sig cmd age⟩

/-- the envelope the governor clamps to is the one it was constructed with -/
theorem C07_constructor_as_modelled : Consts.governorNewStoresItsArguments = true := by decide

end Glonax.Thm.C07
