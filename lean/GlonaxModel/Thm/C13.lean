import GlonaxModel.Spec.C13
import GlonaxModel.Lemmas.Wire
/-! THEOREMS C13 -/
namespace Glonax.Thm.C13
open Glonax Wire Consts Spec.C13

/-- every object encodes to the fixed header followed by its payload -/
theorem C13_header_layout (p : Packet) :
    frameLayout p.kind.msgType (encode p) (sendPacket p) = true := by
  have h1 : protoHeader = [0x4C, 0x58, 0x52] := by decide
  have h2 : protoVersion = 3 := by decide
  have h3 : protoPadding = 3 := by decide
  simp [frameLayout, sendPacket, header, headerRef, h1, h2, h3, beU16]

/-- the header parser accepts exactly the headers that meet the specification (all 2^80 inputs) -/
theorem C13_header_exact (b : List Nat) (hb : ∀ x ∈ b, x < 256) (ty len : Nat) :
    parseHeader b = .ok (ty, len) ↔ headerOk b ty len := by
  have h1 : protoHeader = [0x4C, 0x58, 0x52] := by decide
  have h2 : protoVersion = 3 := by decide
  have h4 : protoBufferSize = 10 := by decide
  have h5 : maxPayloadSize = 1024 := by decide
  unfold parseHeader headerOk headerRef
  rw [h1, h2, h4, h5]
  constructor
  · intro h
    by_cases c1 : b.length ≠ 10
    · simp [c1] at h
    · simp only [c1, if_false] at h
      have hl : b.length = 10 := by omega
      match b, hl with
      | [b0, b1, b2, b3, b4, b5, b6, b7, b8, b9], _ =>
        simp only [List.take, List.drop, List.getD_cons_zero, List.getD_cons_succ] at h
        have m0 := hb b0 (by simp); have m4 := hb b4 (by simp); have m5 := hb b5 (by simp)
        have m6 := hb b6 (by simp)
        split at h
        · cases h
        · split at h
          · cases h
          · split at h
            · cases h
            · split at h
              · cases h
              · split at h
                · cases h
                · simp only [Except.ok.injEq, Prod.mk.injEq] at h
                  rename_i c2 c3 c4 c5 c6
                  simp only [ne_eq, Decidable.not_not] at c2 c3 c6
                  simp only [List.cons.injEq, and_true] at c2 c6
                  obtain ⟨rfl, rfl⟩ := h
                  obtain ⟨rfl, rfl, rfl⟩ := c2
                  obtain ⟨rfl, rfl, rfl⟩ := c6
                  subst c3
                  refine ⟨?_, m4, by omega, by omega⟩
                  simp only [List.cons.injEq, true_and, and_true]
                  omega
  · rintro ⟨rfl, hty, hl1, hl2⟩
    have : ¬ ((len / 256 % 256) * 256 + len % 256 = 0) := by omega
    have e : (len / 256 % 256) * 256 + len % 256 = len := by omega
    simp [e]
    rw [if_neg (by omega), if_neg (by omega)]

/-- type codes are pairwise distinct -/
theorem C13_types_distinct : (Kind.all.map Kind.msgType).Nodup := by decide

theorem C13_kinds_complete (k : Kind) : k ∈ Kind.all := by cases k <;> decide

/-- a packet kind with a declared fixed size always encodes to exactly that many bytes -/
theorem C13_fixed_sizes (p : Packet) (n : Nat) (h : p.kind.msgSize = some n) : (encode p).length = n := by
  cases p with
  | session s => simp [Packet.kind, Kind.msgSize, msgSizeSession] at h
  | sessionError e => simp [Packet.kind, Kind.msgSize, msgSizeSessionError] at h; simp [encode, ← h]
  | request m => simp [Packet.kind, Kind.msgSize, msgSizeRequest] at h; simp [encode, ← h]
  | engine e => simp [Packet.kind, Kind.msgSize, msgSizeEngine] at h; simp [encode, beU16, ← h]
  | motion m => simp [Packet.kind, Kind.msgSize, msgSizeMotion] at h
  | control c => simp [Packet.kind, Kind.msgSize, msgSizeControl] at h; simp [encode, ← h]
  | target t => simp [Packet.kind, Kind.msgSize, msgSizeTarget] at h; simp [encode, f32be, beU32, ← h]
  | rotator r => simp [Packet.kind, Kind.msgSize, msgSizeRotator] at h; simp [encode, f32be, beU32, ← h]
  | status s => simp [Packet.kind, Kind.msgSize, msgSizeModuleStatus] at h
  | inst i => simp [Packet.kind, Kind.msgSize, msgSizeInstance] at h
  | gnss g => simp [Packet.kind, Kind.msgSize, msgSizeGnss] at h; simp [encode, f32be, beU32, ← h]
  | actor a => simp [Packet.kind, Kind.msgSize, msgSizeActor] at h


/-! ### code tables invert -/
private theorem engineState_inv (s : EngineState) : EngineState.ofCode? s.code = some s := by cases s <;> decide
private theorem control_inv (c : Control) : Control.ofCode? c.code c.arg = some c := by
  cases c <;> (try (rename_i on; cases on)) <;> decide
private theorem constraint_inv (c : Constraint) : Constraint.ofCode? c.code = some c := by cases c <;> decide
private theorem reference_inv (c : RotationReference) : RotationReference.ofCode? c.code = some c := by cases c <;> decide
private theorem moduleState_inv (c : ModuleState) : ModuleState.ofCode? c.code = some c := by cases c <;> decide
private theorem moduleError_inv (c : ModuleError) : ModuleError.ofCode? c.code = some c := by cases c <;> decide
private theorem machineType_inv (c : MachineType) : MachineType.ofCode? c.code = some c := by cases c <;> decide
private theorem gnssStatus_inv (c : GnssStatus) : GnssStatus.ofCode? c.code = some c := by cases c <;> decide
private theorem sessionError_inv (c : SessionError) : SessionError.ofCode? c.code = some c := by cases c <;> decide
private theorem actuator_inv (a : Actuator) : Actuator.ofId? a.id = some a := by cases a <;> decide
private theorem actuator_id_lt (a : Actuator) : a.id < 256 := by cases a <;> decide

/-! ### round trips: decode (encode p) = p -/

theorem C13_roundtrip_sessionError (e : SessionError) : decode .sessionError (encode (.sessionError e)) = .ok (.sessionError e) := by
  simp [decode, encode, sessionError_inv]

theorem C13_roundtrip_request (m : Nat) : decode .request (encode (.request m)) = .ok (.request m) := by
  simp [decode, encode]

theorem C13_roundtrip_engine (e : Engine) (h : WF (.engine e)) : decode .engine (encode (.engine e)) = .ok (.engine e) := by
  obtain ⟨h1, h2, h3⟩ := h
  have := rd16_beU16 e.rpm h3 [e.state.code]
  simp [decode, encode, optOutcome, this, engineState_inv, bind, Option.bind]

theorem C13_roundtrip_control (c : Control) : decode .control (encode (.control c)) = .ok (.control c) := by
  have := control_inv c
  simp [decode, encode, optOutcome, bind, Option.bind, this]

theorem C13_roundtrip_target (t : Target) (h : WF (.target t)) : decode .target (encode (.target t)) = .ok (.target t) := by
  obtain ⟨h1, h2, h3, h4, h5, h6⟩ := h
  have := rdSix_append t.x t.y t.z t.roll t.pitch t.yaw h1 h2 h3 h4 h5 h6 [t.constraint.code]
  simp only [decode, encode, optOutcome, List.append_assoc, this, bind, Option.bind, rd8_cons, pure, constraint_inv]
  rfl

theorem C13_roundtrip_rotator (r : Rotator) (h : WF (.rotator r)) : decode .rotator (encode (.rotator r)) = .ok (.rotator r) := by
  obtain ⟨h1, h2, h3, h4⟩ := h
  simp only [w32] at h2 h3 h4
  simp [decode, encode, optOutcome, bind, Option.bind, rd32_f32be, h2, h3, h4, reference_inv]

theorem C13_roundtrip_gnss (g : Gnss) (h : WF (.gnss g)) : decode .gnss (encode (.gnss g)) = .ok (.gnss g) := by
  obtain ⟨h1, h2, h3, h4, h5, h6⟩ := h
  simp only [w32] at h1 h2 h3 h4 h5
  simp [decode, encode, optOutcome, bind, Option.bind, rd32_f32be, h1, h2, h3, h4, h5, gnssStatus_inv]

theorem C13_roundtrip_status (s : ModuleStatus) (hl : s.name.length < 65536) :
    decode .status (encode (.status s)) = .ok (.status s) := by
  cases he : s.error with
  | none =>
    simp [decode, encode, optOutcome, bind, Option.bind, rd16_beU16 _ hl, rdN_append, moduleState_inv, he]
    cases s; simp_all
  | some e =>
    simp [decode, encode, optOutcome, bind, Option.bind, rd16_beU16 _ hl, rdN_append, moduleState_inv, he, moduleError_inv]
    cases s; simp_all

theorem C13_roundtrip_instance (i : Instance) (h : WF (.inst i)) (hm : i.model.length < 65536) (hs : i.serial.length < 65536) :
    decode .inst (encode (.inst i)) = .ok (.inst i) := by
  obtain ⟨h16, _, _, _, _, _, _⟩ := h
  have a := rdN_append i.id (i.ty.code :: i.v0 :: i.v1 :: i.v2 :: (beU16 i.model.length ++ (i.model ++ (beU16 i.serial.length ++ i.serial))))
  rw [h16] at a
  have b := rdN_exact i.serial i.serial.length rfl
  simp [decode, encode, optOutcome, bind, Option.bind, a, rd16_beU16 _ hm, rd16_beU16 _ hs, rdN_append, b, machineType_inv]

private theorem decSegments_append (segs : List Segment) (hw : ∀ s ∈ segs, s.name.length < 65536 ∧ s.f.length = 6 ∧ ∀ x ∈ s.f, w32 x)
    (acc : List Segment) : decSegments segs.length (segs.flatMap encSegment) acc = some (acc.reverse ++ segs) := by
  induction segs generalizing acc with
  | nil => simp [decSegments]
  | cons s rest ih =>
    obtain ⟨hn, hf, hx⟩ := hw s (by simp)
    match hfs : s.f, hf with
    | [a, b, c, d, e, f], _ =>
      have ha := hx a (by simp [hfs]); have hb := hx b (by simp [hfs]); have hc := hx c (by simp [hfs])
      have hd := hx d (by simp [hfs]); have he := hx e (by simp [hfs]); have hff := hx f (by simp [hfs])
      have six := rdSix_append a b c d e f ha hb hc hd he hff (rest.flatMap encSegment)
      have ih' := ih (fun s hs => hw s (by simp [hs])) ({ name := s.name, f := [a, b, c, d, e, f] } :: acc)
      simp only [List.length_cons, List.flatMap_cons, decSegments, encSegment, hfs, List.append_assoc, bind, Option.bind,
        rd16_beU16 _ hn, rdN_append, List.flatMap_cons, List.flatMap_nil, List.append_nil]
      simp only [six, ih']
      cases s
      simp_all

theorem C13_roundtrip_actor (a : Actor) (hl : a.name.length < 65536) (hc : a.segments.length < 256)
    (hw : ∀ s ∈ a.segments, s.name.length < 65536 ∧ s.f.length = 6 ∧ ∀ x ∈ s.f, w32 x) :
    decode .actor (encode (.actor a)) = .ok (.actor a) := by
  have hm : a.segments.length % 256 = a.segments.length := by omega
  have ds := decSegments_append a.segments hw []
  simp only [decode, encode, optOutcome, List.append_assoc, bind, Option.bind, rd16_beU16 _ hl, rdN_append,
    List.singleton_append, rd8_cons, hm, ds, pure]
  cases a; simp

private theorem divmod256 (u : Nat) : u / 256 * 256 + u % 256 = u := by omega

private theorem changes_len (cs : List (Actuator × Int)) :
    (cs.flatMap (fun c => beU16 c.1.id ++ be16 c.2)).length = cs.length * 4 := by
  induction cs with
  | nil => rfl
  | cons c r ih => simp only [List.flatMap_cons, List.length_append, List.length_cons, ih]; simp [beU16, be16]; omega

private theorem decChanges_append (cs : List (Actuator × Int)) (hv : ∀ c ∈ cs, InI16 c.2) (acc : List (Actuator × Int)) :
    decChanges cs.length (cs.flatMap (fun c => beU16 c.1.id ++ be16 c.2)) acc = .ok (.change (acc.reverse ++ cs)) := by
  induction cs generalizing acc with
  | nil => simp [decChanges]
  | cons c rest ih =>
    have hid := actuator_id_lt c.1
    have hr := i16_roundtrip c.2 (hv c (by simp))
    have hu := u16OfI16_lt c.2
    have e1 : c.1.id / 256 % 256 * 256 + c.1.id % 256 = c.1.id := by omega
    have e2 : u16OfI16 c.2 / 256 * 256 + u16OfI16 c.2 % 256 = u16OfI16 c.2 := divmod256 _
    have ih' := ih (fun c hc => hv c (by simp [hc])) ((c.1, c.2) :: acc)
    show decChanges (rest.length + 1)
        (c.1.id / 256 % 256 :: c.1.id % 256 :: u16OfI16 c.2 / 256 :: u16OfI16 c.2 % 256 ::
          rest.flatMap (fun c => beU16 c.1.id ++ be16 c.2)) acc = _
    rw [decChanges, e1, actuator_inv]
    simp only [e2, hr, ih']
    simp

theorem C13_roundtrip_motion (m : Motion) (h : WF (.motion m)) (hb : InBounds (.motion m)) :
    decode .motion (encode (.motion m)) = .ok (.motion m) := by
  have c0 : motionTypeStopAll = 0 := by decide
  have c1 : motionTypeResumeAll = 1 := by decide
  have c2 : motionTypeResetAll = 2 := by decide
  have c5 : motionTypeStraightDrive = 5 := by decide
  have c16 : motionTypeChange = 16 := by decide
  cases m with
  | stopAll => decide
  | resumeAll => decide
  | resetAll => decide
  | straightDrive v =>
    have hr := i16_roundtrip v h
    have e2 := divmod256 (u16OfI16 v)
    simp [decode, encode, encMotion, decMotion, be16, c0, c1, c2, c5, e2, hr]
  | change cs =>
    have hlen : cs.length ≤ 32 := hb
    have hm : cs.length % 256 = cs.length := by omega
    have hmax : motionMaxChangeSetCount = 32 := by decide
    have hl := changes_len cs
    have dc := decChanges_append cs h []
    have hgt : ¬ (32 < cs.length) := by omega
    simp [decode, encode, encMotion, decMotion, c0, c1, c2, c5, c16, hm, hmax, hl, dc, hgt]

private theorem takeChars_all (n : Nat) (b : List Nat) (h : charCount b ≤ n) : takeChars n b = b := by
  induction b generalizing n with
  | nil => rfl
  | cons x r ih =>
    unfold takeChars
    by_cases c : isCont x = true
    · have : charCount (x :: r) = charCount r := by simp [charCount, List.filter, c]
      simp [c, ih n (by omega)]
    · have hc : charCount (x :: r) = charCount r + 1 := by simp [charCount, List.filter, c]
      cases n with
      | zero => omega
      | succ n => simp [c, ih n (by omega)]

/-- a session registration within bounds survives the round trip (name ≤ 64 characters of valid UTF-8) -/
theorem C13_roundtrip_session (s : Session) (hb : InBounds (.session s)) :
    decode .session (encode (.session s)) = .ok (.session s) := by
  obtain ⟨hf, hv, hc, _⟩ := hb
  have h64 : sessionNameMaxChars = 64 := by decide
  have : ¬ (s.flags / 32 % 8 ≠ 0) := by omega
  simp [decode, encode, decSession, this, hv, h64, takeChars_all 64 s.name hc]


/-! ### totality of packet reception -/

private theorem decChanges_no_panic (n : Nat) (body : List Nat) (acc : List (Actuator × Int))
    (h : body.length = n * 4) : decChanges n body acc ≠ .panic := by
  induction n generalizing body acc with
  | zero => simp [decChanges]
  | succ n ih =>
    rcases body with _ | ⟨a0, _ | ⟨a1, _ | ⟨v0, _ | ⟨v1, r⟩⟩⟩⟩
    · simp at h
    · simp at h; omega
    · simp at h; omega
    · simp at h; omega
    · simp only [decChanges]
      cases Actuator.ofId? (a0 * 256 + a1) with
      | none => simp
      | some a => exact ih r _ (by simp at h; omega)

private theorem decMotion_no_panic (b : List Nat) (h : 1 ≤ b.length) : decMotion b ≠ .panic := by
  rcases b with _ | ⟨t, rest⟩
  · simp at h
  · simp only [decMotion]
    repeat' split
    all_goals (first | (exact decChanges_no_panic _ _ _ (by simp_all)) | simp_all)

theorem C13_decode_no_panic (k : Kind) (b : List Nat) (h1 : 1 ≤ b.length)
    (hfix : ∀ n, k.msgSize = some n → b.length = n) : decode k b ≠ .panic := by
  cases k with
  | session =>
    rcases b with _ | ⟨f, name⟩
    · simp at h1
    · simp only [decode, decSession]
      by_cases c : f / 32 % 8 ≠ 0 <;> simp [c]
  | sessionError =>
    match b, h1 with
    | c :: r, _ => simp only [decode]; cases SessionError.ofCode? c <;> simp
  | request =>
    match b, h1 with
    | c :: r, _ => simp [decode]
  | engine =>
    have hl := hfix 5 (by decide)
    match b, hl with
    | [a0, a1, a2, a3, a4], _ =>
      simp only [decode, optOutcome, bind, Option.bind, rd8, rd16, pure]
      cases EngineState.ofCode? a4 <;> simp
  | motion =>
    simp only [decode]
    have := decMotion_no_panic b h1
    cases hd : decMotion b <;> simp_all
  | control =>
    have hl := hfix 2 (by decide)
    match b, hl with
    | [a0, a1], _ =>
      simp only [decode, optOutcome, bind, Option.bind, rd8, pure]
      cases Control.ofCode? a0 (decide (a1 = 1)) <;> simp
  | target =>
    have hl := hfix 25 (by decide)
    match b, hl with
    | [a0, a1, a2, a3, a4, a5, a6, a7, a8, a9, a10, a11, a12, a13, a14, a15, a16, a17, a18, a19, a20, a21, a22, a23, a24], _ =>
      simp only [decode, optOutcome, rdSix, bind, Option.bind, rd8, rd32, pure]
      cases Constraint.ofCode? a24 <;> simp
  | rotator =>
    have hl := hfix 14 (by decide)
    match b, hl with
    | [a0, a1, a2, a3, a4, a5, a6, a7, a8, a9, a10, a11, a12, a13], _ =>
      simp only [decode, optOutcome, bind, Option.bind, rd8, rd32, pure]
      cases RotationReference.ofCode? a13 <;> simp
  | status =>
    simp only [decode, optOutcome]
    split
    · simp
    · rename_i a _
      obtain ⟨name, st, flag, r⟩ := a
      simp only []
      cases ModuleState.ofCode? st with
      | none => simp
      | some st =>
        simp only []
        split
        · simp
        · split
          · cases rd8 r with
            | none => simp
            | some x => simp only []; cases ModuleError.ofCode? x.1 <;> simp
          · simp
  | inst =>
    simp only [decode, optOutcome]
    split
    · simp
    · rename_i a _
      obtain ⟨id, ty, v0, v1, v2, model, serial⟩ := a
      simp only []
      cases MachineType.ofCode? ty <;> simp
  | gnss =>
    have hl := hfix 22 (by decide)
    match b, hl with
    | [a0, a1, a2, a3, a4, a5, a6, a7, a8, a9, a10, a11, a12, a13, a14, a15, a16, a17, a18, a19, a20, a21], _ =>
      simp only [decode, optOutcome, bind, Option.bind, rd8, rd32, pure]
      cases GnssStatus.ofCode? a21 <;> simp
  | actor =>
    simp only [decode, optOutcome]
    split <;> simp

/-- receiving a packet of any kind with any declared length and any payload bytes yields a value or
an error — never a panic — and never reads past the declared payload -/
theorem C13_recv_total (k : Kind) (size : Nat) (stream : List Nat) (hs : size ≤ stream.length) :
    (recvPacket k size stream).result ≠ .panic ∧ (recvPacket k size stream).consumed ≤ size := by
  unfold recvPacket
  by_cases h0 : size = 0
  · simp [h0]
  · by_cases h1 : k.msgSize.isSome ∧ k.msgSize ≠ some size
    · rw [if_neg h0, if_pos h1]
      exact ⟨by simp, Nat.min_le_left _ _⟩
    · by_cases h2 : size > maxPayloadSize
      · simp [h0, h1, h2]
      · rw [if_neg h0, if_neg h1, if_neg h2]
        refine ⟨?_, Nat.le_refl _⟩
        apply C13_decode_no_panic
        · simp; omega
        · intro n hn
          have : k.msgSize = some size := by
            by_cases e : k.msgSize = some size
            · exact e
            · exact absurd ⟨by simp [hn], e⟩ h1
          rw [hn] at this
          simp at this
          simp; omega

/-- a value is produced only through the size gates: declared size 1..1024 and, for a fixed-size kind, exactly
its size; then exactly the declared payload is consumed -/
theorem C13_recv_gates (k : Kind) (size : Nat) (stream : List Nat) (p : Packet)
    (h : (recvPacket k size stream).result = .ok p) :
    1 ≤ size ∧ size ≤ 1024 ∧ (∀ n, k.msgSize = some n → size = n) ∧ (recvPacket k size stream).consumed = size := by
  unfold recvPacket at h ⊢
  have h5 : maxPayloadSize = 1024 := by decide
  by_cases h0 : size = 0
  · rw [if_pos h0] at h; cases h
  · by_cases h1 : k.msgSize.isSome ∧ k.msgSize ≠ some size
    · rw [if_neg h0, if_pos h1] at h; cases h
    · by_cases h2 : size > maxPayloadSize
      · rw [if_neg h0, if_neg h1, if_pos h2] at h; cases h
      · rw [if_neg h0, if_neg h1, if_neg h2]
        refine ⟨by omega, by omega, ?_, rfl⟩
        intro n hn
        by_cases e : k.msgSize = some size
        · rw [hn] at e; simp at e; omega
        · exact absurd ⟨by simp [hn], e⟩ h1

/-! ### payload size bound within the protocol bounds -/

private theorem flatMap_seg_len (segs : List Segment) (hw : ∀ s ∈ segs, s.f.length = 6) :
    (segs.flatMap encSegment).length = (segs.map (fun s => 2 + s.name.length + 24)).sum := by
  induction segs with
  | nil => rfl
  | cons s r ih =>
    have h6 := hw s (by simp)
    have hf : (s.f.flatMap f32be).length = 24 := by
      match hs : s.f, h6 with
      | [a, b, c, d, e, f], _ => simp [f32be, beU32]
    simp only [List.flatMap_cons, List.length_append, List.map_cons, List.sum_cons, ih (fun s hs => hw s (by simp [hs])),
      encSegment, beU16_length, hf]
    try omega

/-- every object within the protocol bounds other than an actor encodes to 1..1024 payload bytes -/
theorem C13_size_bound (p : Packet) (hk : p.kind ≠ .actor) (hw : WF p) (hb : InBounds p) :
    1 ≤ (encode p).length ∧ (encode p).length ≤ 1024 := by
  cases p with
  | session s => obtain ⟨_, _, _, h⟩ := hb; simp [encode]; omega
  | sessionError e => simp [encode]
  | request m => simp [encode]
  | engine e => simp [encode, beU16]
  | motion m =>
    cases m with
    | stopAll => simp [encode, encMotion]
    | resumeAll => simp [encode, encMotion]
    | resetAll => simp [encode, encMotion]
    | straightDrive v => simp [encode, encMotion, be16]
    | change cs =>
      have hl : cs.length ≤ 32 := hb
      have := changes_len cs
      simp only [encode, encMotion, List.length_cons, this]; omega
  | control c => simp [encode]
  | target t => simp [encode, f32be, beU32]
  | rotator r => simp [encode, f32be, beU32]
  | status s =>
    have hl : s.name.length ≤ 255 := hb
    cases he : s.error <;> simp [encode, beU16, he] <;> (try omega)
  | inst i =>
    obtain ⟨h16, _⟩ := hw
    obtain ⟨hm, hs⟩ := hb
    simp [encode, beU16, h16]; omega
  | gnss g => simp [encode, f32be, beU32]
  | actor a => exact absurd rfl hk

/-- an actor's payload size is determined by its names and segment count … -/
theorem C13_actor_size (a : Actor) (hw : ∀ s ∈ a.segments, s.f.length = 6) :
    (encode (.actor a)).length = 2 + a.name.length + 1 + (a.segments.map (fun s => 2 + s.name.length + 24)).sum := by
  simp [encode, beU16_length, flatMap_seg_len a.segments hw]; omega

/-- … so the 1024-byte bound holds for an actor only under an additional budget
(`_partial`: the full statement "within the stated string/segment bounds ⇒ ≤ 1024" is FALSE, see
`C13_actor_exceeds`) -/
theorem C13_size_bound_actor_partial (a : Actor) (hw : ∀ s ∈ a.segments, s.f.length = 6)
    (hbudget : a.name.length + (a.segments.map (fun s => 26 + s.name.length)).sum ≤ 1021) :
    1 ≤ (encode (.actor a)).length ∧ (encode (.actor a)).length ≤ 1024 := by
  rw [C13_actor_size a hw]
  have : (a.segments.map (fun s => 2 + s.name.length + 24)).sum = (a.segments.map (fun s => 26 + s.name.length)).sum := by
    congr 1; apply List.map_congr_left; intro s _; omega
  omega

/-- witness: an actor inside the stated bounds (4 segments, 255-byte names) needs 1127 > 1024 bytes -/
theorem C13_actor_exceeds :
    let seg : Segment := { name := List.replicate 255 65, f := [0, 0, 0, 0, 0, 0] }
    let a : Actor := { name := [], segments := [seg, seg, seg, seg] }
    InBounds (.actor a) ∧ (encode (.actor a)).length = 1127 := by
  intro seg a
  have hn : seg.name.length = 255 := List.length_replicate
  refine ⟨⟨by simp [a], by simp [a], ?_⟩, ?_⟩
  · intro s hs
    have : s = seg := by simpa [a] using hs
    subst this
    omega
  · have h6 : ∀ s ∈ a.segments, s.f.length = 6 := by
      intro s hs
      have : s = seg := by simpa [a] using hs
      subst this
      rfl
    rw [C13_actor_size a h6]
    simp only [a, List.map_cons, List.map_nil, List.sum_cons, List.sum_nil, hn, List.length_nil]
    decide

/-- what is sent is accepted: the header of an in-bounds object parses to its type and length -/
theorem C13_parse_sent (p : Packet) (hk : p.kind ≠ .actor) (hw : WF p) (hb : InBounds p) :
    parseHeader ((sendPacket p).take 10) = .ok (p.kind.msgType, (encode p).length) := by
  have hs := C13_size_bound p hk hw hb
  have hl := C13_header_layout p
  simp only [frameLayout, decide_eq_true_eq] at hl
  have ht : p.kind.msgType < 256 := by cases p <;> simp only [Packet.kind] <;> decide
  have hbytes : ∀ x ∈ headerRef p.kind.msgType (encode p).length, x < 256 := by
    intro x hx; simp [headerRef] at hx; omega
  rw [hl]
  have : (headerRef p.kind.msgType (encode p).length ++ encode p).take 10 = headerRef p.kind.msgType (encode p).length := by
    simp [headerRef]
  rw [this]
  exact (C13_header_exact _ hbytes _ _).mpr ⟨rfl, ht, hs.1, hs.2⟩

/-- non-vacuity -/
example : sendPacket (.control (.machineHorn true)) = [0x4C, 0x58, 0x52, 3, 0x45, 0, 2, 0, 0, 0, 0x1E, 1] := by decide
example : decode .target (List.replicate 24 0 ++ [9]) = .err := by decide
example : (recvPacket .rotator 14 (List.replicate 13 0 ++ [7])).result = .err := by decide

/-! ### the translator tie -/

/-- TRANSLATION THEOREM: the ordered list of checks the translator reads off `Frame::try_from` in the current source
(condition and error of each, in source order, then `Ok(Self::new(buffer[4], payload_length))`) computes the model's
`parseHeader` for EVERY byte string.  The header theorems of this file are therefore about the parser the source defines
now; an off-by-one in a bound or a range, a dropped or reordered check breaks this theorem or the recogniser. -/
theorem C13_header_translation (b : List Nat) : parseHeaderT Consts.frameHeaderChecks b = some (parseHeader b) := by
  unfold parseHeader
  simp only [Consts.frameHeaderChecks, parseHeaderT, headerCond, HeaderError.ofCode?]
  generalize b.getD 5 0 * 256 + b.getD 6 0 = len
  generalize b.getD 3 0 = ver
  generalize b.getD 4 0 = ty
  generalize (b.drop 7).take 3 = pad
  generalize b.take 3 = magic
  generalize b.length = n
  by_cases h1 : n ≠ protoBufferSize
  · simp [h1]
  · by_cases h2 : magic ≠ protoHeader
    · simp [h1, h2]
    · by_cases h3 : ver ≠ protoVersion
      · simp [h1, h2, h3]
      · by_cases h4 : len = 0
        · simp [h1, h2, h3, h4]
        · by_cases h5 : len > maxPayloadSize
          · simp [h1, h2, h3, h4, h5]
          · by_cases h6 : pad ≠ [0, 0, 0]
            · simp [h1, h2, h3, h4, h5, h6]
            · simp [h1, h2, h3, h4, h5, h6]

end Glonax.Thm.C13
