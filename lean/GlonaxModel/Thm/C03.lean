import GlonaxModel.Thm.C05
/-! THEOREMS C03: losing a failsafe session always stops motion. -/
namespace Glonax.Thm.C03
open Glonax Wire Sess Consts Spec.Sess Thm.C04 Thm.C05

theorem run_append (inst : Instance) (s : St) (a b : List Ev) :
    run inst s (a ++ b) = ((run inst (run inst s a).1 b).1, (run inst s a).2 ++ (run inst (run inst s a).1 b).2) := by
  induction a generalizing s with
  | nil => simp [run]
  | cons e rest ih => simp [run, ih, List.append_assoc]

/-- the failsafe is armed iff the current registration carries the flag -/
def armed (s : St) : Bool := isFailsafe s.core.flags

/-- C03 (every command sequence, every cut, every termination kind, signals in between): when the
peer disappears, an armed session emits the stop-all after everything it dispatched, then ends; an
unarmed one ends silently -/
theorem C03_failsafe (inst : Instance) (es : List Ev) (hes : onlyBytesAndSignals es = true) (m : CloseMode) :
    (run inst {} (es ++ [.close m])).2 =
      (run inst {} es).2 ++ (if armed (run inst {} es).1 then [Out.failsafeStop] else []) ++ [Out.ended] ∧
    (run inst {} (es ++ [.close m])).1.core.ended = true := by
  have hne := (C05_normal_exit inst es hes).1
  rw [run_append]
  cases hA : isFailsafe (run inst {} es).1.core.flags <;>
    simp [run, step, hne, exitOuts, armed, hA]

/-- the stop-all comes after the last command accepted from that client -/
theorem C03_stop_is_last (inst : Instance) (es : List Ev) (hes : onlyBytesAndSignals es = true) (m : CloseMode)
    (ha : armed (run inst {} es).1 = true) :
    ∃ pre, (run inst {} (es ++ [.close m])).2 = pre ++ [Out.failsafeStop, Out.ended] ∧
      dispatched pre = dispatched (run inst {} (es ++ [.close m])).2 ∧ Out.failsafeStop ∉ pre := by
  have h := (C03_failsafe inst es hes m).1
  have hn := (C05_normal_exit inst es hes).2.2
  refine ⟨(run inst {} es).2, ?_, ?_, hn⟩
  · rw [h]; simp [ha]
  · rw [h]; simp [ha, dispatched_append, dispatched]

/-- sessions that did not set the flag never trigger it -/
theorem C03_unarmed_silent (inst : Instance) (es : List Ev) (hes : onlyBytesAndSignals es = true) (m : CloseMode)
    (ha : armed (run inst {} es).1 = false) :
    Out.failsafeStop ∉ (run inst {} (es ++ [.close m])).2 := by
  have h := (C03_failsafe inst es hes m).1
  have hn := (C05_normal_exit inst es hes).2.2
  rw [h]; simp [ha, hn]

/-- after the session has ended nothing more is emitted, whatever arrives -/
theorem C03_after_end_silent (inst : Instance) (s : St) (h : s.core.ended = true) (es : List Ev) :
    (run inst s es).2 = [] ∧ (run inst s es).1 = s := by
  induction es with
  | nil => simp [run]
  | cons e rest ih => simp [run, step, h, ih]

/-! ### what "armed" means: the flags of the last registration that passed validation -/

theorem feed_header_partial (inst : Instance) (flags : Nat) (h l : List Nat) (hl : h.length + l.length < 10) :
    feed inst { flags := flags, hdr := h } l = ({ flags := flags, hdr := h ++ l }, []) := by
  have h10 : protoBufferSize = 10 := by decide
  induction l generalizing h with
  | nil => simp [feed]
  | cons b rest ih =>
    have hlt : (h ++ [b]).length < protoBufferSize := by simp at hl ⊢; omega
    have := ih (h ++ [b]) (by simp at hl ⊢; omega)
    simp only [feed, stepByte, hlt, if_true, Bool.false_eq_true, if_false, this, List.append_assoc,
      List.singleton_append, List.nil_append]

theorem feed_payload_partial (inst : Instance) (c : Core) (k : Option Kind) (need : Nat) (got l : List Nat)
    (hc : c.ended = false) (hp : c.pay = some { kind := k, need := need, got := got })
    (hl : got.length + l.length < need) :
    feed inst c l = ({ c with pay := some { kind := k, need := need, got := got ++ l } }, []) := by
  induction l generalizing c got with
  | nil => simp [feed, hp]; cases c; simp_all
  | cons b rest ih =>
    have hlt : (got ++ [b]).length < need := by simp at hl ⊢; omega
    have hstep := stepByte_pay_lt inst c k need got b hc hp hlt
    have := ih { c with pay := some { kind := k, need := need, got := got ++ [b] } } (got ++ [b]) hc rfl
      (by simp at hl ⊢; omega)
    simp only [feed, hstep, this, List.append_assoc, List.singleton_append, List.nil_append]

/-- a client that dies in the middle of a frame (any byte offset) leaves no trace of that frame:
nothing is dispatched for it and the arming is that of the frames received completely -/
theorem C03_partial_frame_inert (inst : Instance) (flags : Nat) (f : Frame) (hf : f.WF) (k : Nat)
    (hk : k < f.bytes.length) :
    (feed inst (idle flags) (f.bytes.take k)).2 = [] ∧ (feed inst (idle flags) (f.bytes.take k)).1.flags = flags ∧
    (feed inst (idle flags) (f.bytes.take k)).1.ended = false := by
  obtain ⟨hty, h1, h2, hb⟩ := hf
  have hlen : (header f.ty f.payload.length).length = 10 := by rw [header_eq_ref]; rfl
  unfold idle
  by_cases hk10 : k < 10
  · have : f.bytes.take k = (header f.ty f.payload.length).take k := by
      simp [Frame.bytes, List.take_append, hlen]; omega
    rw [this]
    have := feed_header_partial inst flags [] ((header f.ty f.payload.length).take k) (by simp [hlen]; omega)
    rw [this]; simp
  · have hk' : 10 ≤ k := by omega
    have : f.bytes.take k = header f.ty f.payload.length ++ f.payload.take (k - 10) := by
      simp [Frame.bytes, List.take_append, hlen, List.take_of_length_le (by omega : (header f.ty f.payload.length).length ≤ k)]
    rw [this, feed_append, feed_header inst flags f.ty f.payload.length hty h1 h2]
    have hkl : k - 10 < f.payload.length := by simp [Frame.bytes, hlen] at hk; omega
    have := feed_payload_partial inst { flags := flags, pay := some (payFor f.ty f.payload.length) }
      (payFor f.ty f.payload.length).kind (payFor f.ty f.payload.length).need [] (f.payload.take (k - 10)) rfl
      (by simp [payFor]; split <;> rfl)
      (by simp [payFor]; split <;> simp <;> omega)
    rw [this]; simp

/-- for a client that sent the well-formed frames `fs` and then died inside (or before) the next frame,
the arming is the failsafe bit of the last registration among `fs` that passed validation; a
registration that fails validation does not change it -/
theorem C03_arming (inst : Instance) (fs : List Frame) (hf : ∀ f ∈ fs, f.WF) (g : Frame) (hg : g.WF) (k : Nat)
    (hk : k < g.bytes.length) :
    (feed inst (idle 0) (fs.flatMap Frame.bytes ++ g.bytes.take k)).1.flags = lastFlags 0 fs ∧
    dispatched (feed inst (idle 0) (fs.flatMap Frame.bytes ++ g.bytes.take k)).2 = fs.filterMap validCommand := by
  have a := C04_frames inst 0 fs hf
  have b := C03_partial_frame_inert inst (lastFlags 0 fs) g hg k hk
  rw [feed_append, a.1]
  refine ⟨b.2.1, ?_⟩
  simp only [dispatched_append, a.2.1, b.1]
  simp [dispatched]

theorem C03_invalid_upgrade_keeps_arming (flags : Nat) (f : Frame) (h : validUpgrade f = none) (fs : List Frame) :
    lastFlags flags (f :: fs) = lastFlags flags fs := by
  rw [lastFlags_cons, h]; rfl

/-- non-vacuity: registration with failsafe (0x10), a drive command, then death inside the next frame -/
example : let inst : Instance := { id := List.replicate 16 0, ty := .excavator, v0 := 3, v1 := 5, v2 := 13, model := [], serial := [] }
    dispatched (run inst {} [.bytes ((Frame.mk 0x10 [0x10, 0x61]).bytes ++ (Frame.mk 0x20 [5, 0, 100]).bytes ++ [0x4C, 0x58]),
      .close .reset]).2 = [.motion (.straightDrive 100)] ∧
    (run inst {} [.bytes ((Frame.mk 0x10 [0x10, 0x61]).bytes ++ (Frame.mk 0x20 [5, 0, 100]).bytes ++ [0x4C, 0x58]),
      .close .reset]).2.drop 2 = [.failsafeStop, .ended] := by decide

/-- what the theorems above are about is the session function of the current tree (regenerated from server.rs on every
run): the model's `close` event stands for the four read-error kinds whose arm leaves the loop; control reaches the
fail-safe block whenever the loop is left, because nothing returns out of the function before it; and the block sends
stop-all when the current registration is a fail-safe one -/
theorem C03_failsafe_path_as_modelled :
    sessionEndKinds = [1, 2, 3, 4] ∧ sessionReturnsBeforeFailsafe = 0 ∧ sessionFailsafeAfterLoop = true ∧
    sessionStartsUnregistered = true :=
  ⟨C04_session_loop_as_modelled.1, C04_session_loop_as_modelled.2.2.2.2.1, C04_session_loop_as_modelled.2.2.2.2.2.1,
   C04_session_loop_as_modelled.2.2.2.2.2.2⟩

end Glonax.Thm.C03
