import GlonaxModel.Spec.C09
/-! THEOREMS C09: the director issues the emergency sequence exactly while a condition is pending. -/
namespace Glonax.Thm.C09
open Glonax Wire Dir F32 Consts Spec.C09

/-- the tilt verdict of the code is "more than 45° of roll or pitch, level heading" -/
theorem tilt_emergency_eq (r p y : Nat) : tiltEmergency r p y = ((fgt r t45 || fgt p t45) && isZero y) := by
  have b0 : directorTiltBranch0Bits = t45 := by decide
  have e0 : directorTiltBranch0Emergency = true := by decide
  have e1 : directorTiltBranch1Emergency = false := by decide
  unfold tiltEmergency tiltCond
  rw [b0, e0, e1]
  by_cases h : ((fgt r t45 || fgt p t45) && isZero y) = true
  · simp [h]
  · simp only [h, Bool.false_eq_true, if_false]
    split <;> simp_all

theorem seq_eq : emergencySeq = emergencyRef := by decide

def lastEngineRev (r : List Sig) : Option Nat := r.findSome? fun | .engine x => some x | _ => none
def lastRotatorRev (r : List Sig) : Option (Nat × Nat × Nat × Nat) :=
  r.findSome? fun | .rotator s a b c => some (s, a, b, c) | _ => none

/-- the two map entries are the verdicts of the latest signals of their kind (history most recent first) -/
def Inv (s : St) (r : List Sig) : Prop :=
  s.engEmergency = (lastEngineRev r).map engineEmergency ∧
  s.rotEmergency = (lastRotatorRev r).map fun x => rotatorEmergency x.1 x.2.1 x.2.2.1 x.2.2.2

private theorem inv_step (s : St) (r : List Sig) (sig : Sig) (h : Inv s r) : Inv (step s sig).1 (sig :: r) := by
  obtain ⟨h1, h2⟩ := h
  cases sig with
  | engine rpm => exact ⟨by simp [step, lastEngineRev], by simpa [step, lastRotatorRev] using h2⟩
  | rotator a b c d => exact ⟨by simpa [step, lastEngineRev] using h1, by simp [step, lastRotatorRev]⟩
  | other => exact ⟨by simpa [step, lastEngineRev] using h1, by simpa [step, lastRotatorRev] using h2⟩

private theorem inv_final (s : St) (r h : List Sig) (hi : Inv s r) : Inv (final s h) (h.reverse ++ r) := by
  induction h generalizing s r with
  | nil => simpa [final] using hi
  | cons sig rest ih =>
    have := ih (step s sig).1 (sig :: r) (inv_step s r sig hi)
    simpa [final, List.reverse_cons, List.append_assoc] using this

private theorem pending_eq (s : St) (h : List Sig) (hi : Inv s h.reverse) :
    (s.rotEmergency.getD false || s.engEmergency.getD false) = pending h := by
  obtain ⟨h1, h2⟩ := hi
  have hr : directorRpmEmergency = 2200 := by decide
  have hinc : directorInclinometer = inclinometer := by decide
  unfold pending lastEngine lastRotator
  rw [h1, h2]
  simp only [lastEngineRev, lastRotatorRev]
  cases he : h.reverse.findSome? (fun | .engine x => some x | _ => none) <;>
  cases hq : h.reverse.findSome? (fun | .rotator s a b c => some (s, a, b, c) | _ => none) <;>
    simp [engineEmergency, rotatorEmergency, tilt_emergency_eq, hr, hinc, Bool.or_comm, Bool.and_assoc]

/-- C09: over every signal history, after each processed signal the director emits the full emergency
sequence (lock, stop-all, boost off, travel alarm, strobe, engine shutdown — in this order) iff a
condition is pending, and nothing otherwise; never a motion-change command -/
theorem C09_history (h pre : List Sig) :
    (walk pre h (run (final {} pre) h)).all (·.2) = true := by
  induction h generalizing pre with
  | nil => simp [run, walk]
  | cons sig rest ih =>
    have hs : (step (final {} pre) sig).1 = final {} (pre ++ [sig]) := by simp [final, List.foldl_append]
    simp only [run, walk, List.all_append, Bool.and_eq_true]
    refine ⟨?_, by rw [hs]; exact ih (pre ++ [sig])⟩
    have hinit : Inv ({} : St) [] := by simp [Inv, lastEngineRev, lastRotatorRev]
    have hinv := inv_final {} [] (pre ++ [sig]) hinit
    simp only [List.append_nil] at hinv
    have hp := pending_eq (final {} (pre ++ [sig])) (pre ++ [sig]) hinv
    have hstep : (step (final {} pre) sig).2 =
        if ((final {} (pre ++ [sig])).rotEmergency.getD false || (final {} (pre ++ [sig])).engEmergency.getD false) then emergencySeq else [] := by
      rw [← hs]; cases sig <;> rfl
    simp only [opClauses, hstep, hp, seq_eq, List.all_cons, List.all_nil, Bool.and_true, Bool.and_eq_true,
      decide_eq_true_eq, true_and]
    by_cases hpd : pending (pre ++ [sig]) = true
    · simp [hpd, emergencyRef, isMotionChange]
    · simp [hpd]

theorem C09_emergency_iff (h : List Sig) : (walk [] h (run {} h)).all (·.2) = true := by
  simpa [final] using C09_history h []

/-- 35° < 45° as f32 patterns: everything beyond 45° is also beyond 35° (the branches nest) -/
theorem C09_thresholds_nest (x : Nat) : fgt x 0x3F490FDB = true → fgt x 0x3F1C61AA = true := by
  unfold fgt
  have n1 : isNaN 0x3F490FDB = false := by decide
  have n2 : isNaN 0x3F1C61AA = false := by decide
  have k1 : key 0x3F490FDB = 1061752795 := by decide
  have k2 : key 0x3F1C61AA = 1058824618 := by decide
  simp only [n1, n2, k1, k2]
  cases isNaN x <;> simp <;> omega

/-- non-vacuity: 50° of roll from the inclinometer (0x7A), then a normal encoder reading -/
example : run {} [.rotator 0x7A 0x3F5F66F3 0 0, .engine 1500, .rotator 0x6A 0 0 0x3F000000] =
    [emergencySeq, emergencySeq, []] := by decide

/-! ### the translator tie -/

/-- a packet of the sequence as a translated row: [0, control code, on] | [1, motion type, 0] | [2, 0, 0] = shutdown -/
def rowOf : Packet → List Nat
  | .control c => [0, c.code, if c.arg then 1 else 0]
  | .motion .stopAll => [1, motionTypeStopAll, 0]
  | .motion .resumeAll => [1, motionTypeResumeAll, 0]
  | .motion .resetAll => [1, motionTypeResetAll, 0]
  | .engine e => if e = Engine.shutdown then [2, 0, 0] else [2, 1, e.rpm]
  | _ => [9, 9, 9]

/-- TRANSLATION THEOREM: the list of objects the translator reads off `Director::command_emergency` in the current source
(in source order) is the model's emergency sequence -/
theorem C09_emergency_sequence_translated : emergencySeq.map rowOf = directorEmergencySeq := by decide

/-- TRANSLATION THEOREM for the decision of `wait_io_sub`: in the table the translator reads off the source on this run,
the director is built in Supervised mode, decides on the maximum verdict (Nominal when there is none), Emergency is the
greatest verdict, the ONLY arm that does anything in Supervised mode is the Emergency arm, and what it does is the
emergency sequence - which is `Dir.step`: the sequence iff some stored verdict is Emergency, nothing otherwise.
(An arm that sends something ungated, or gated on Supervised, for another verdict breaks this theorem.) -/
theorem C09_decision_translated :
    directorBuiltSupervised = true ∧ directorElectsMaxOrNominal = true ∧
    directorDecisionArms.contains [directorVerdictEmergency, 1, 0] = true ∧
    (directorDecisionArms.all fun row => row.getD 0 0 ≤ directorVerdictEmergency) = true ∧
    (directorDecisionArms.all fun row =>
      -- acts in Supervised mode (gate 1) or unconditionally (gate 0 with an action): only the Emergency row may
      (row.getD 1 9 == 2 || row.getD 2 9 == 8) || row == [directorVerdictEmergency, 1, 0]) = true := by decide

end Glonax.Thm.C09
