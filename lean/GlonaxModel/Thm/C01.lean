import GlonaxModel.Spec.C01
import GlonaxModel.Lemmas.Hcu
/-! THEOREMS C01: for every finite history of commands (all kinds), received frames and ticks. -/
namespace Glonax.Thm.C01
open Glonax J1939 Hcu Spec.C01

/-- the driver state after any history is exactly "the last motion command, if any" -/
theorem state_eq_last (da sa : Nat) (h : List Op) :
    finalState da sa none h = h.reverse.findSome? motionOf := by
  suffices g : ∀ s, finalState da sa s h = (h.reverse.findSome? motionOf).or s by simpa using g none
  unfold finalState
  induction h with
  | nil => intro s; simp
  | cons op rest ih =>
    intro s
    simp only [List.foldl_cons, List.reverse_cons, List.findSome?_append]
    rw [ih]
    cases op with
    | cmd c => cases c <;> cases hh : rest.reverse.findSome? motionOf <;> simp [step, motionOf]
    | rx f => cases hh : rest.reverse.findSome? motionOf <;> simp [step, motionOf]
    | tick => cases hh : rest.reverse.findSome? motionOf <;> simp [step, motionOf]

theorem finalState_append (da sa : Nat) (s : St) (a b : List Op) :
    finalState da sa s (a ++ b) = finalState da sa (finalState da sa s a) b := by
  simp [finalState, List.foldl_append]

private theorem lock_eq (da sa : Nat) (hda : da < 256) (hsa : sa < 256) :
    lockFrame da sa = lockFrameRef da sa := by
  have hp : Consts.hcuMotionConfigPriority = 3 := by decide
  have hg : Consts.hcuMotionConfigPgn = 45824 := by decide
  unfold lockFrame motionConfig mkFrame lockFrameRef
  rw [hp, hg, buildId_pdu1 3 45824 sa da (by unfold Pdu1Group; decide)]
  simp; omega

private theorem walk_run (da sa : Nat) (hda : da < 256) (hsa : sa < 256) (h pre : List Op) :
    (walk da sa pre h (run da sa (finalState da sa none pre) h)).all (·.2) = true := by
  induction h generalizing pre with
  | nil => simp [run, walk]
  | cons op rest ih =>
    have hs : (step da sa (finalState da sa none pre) op).1 = finalState da sa none (pre ++ [op]) := by
      simp [finalState, List.foldl_append]
    simp only [run, walk, List.all_append, Bool.and_eq_true]
    refine ⟨?_, by rw [hs]; exact ih (pre ++ [op])⟩
    have hl : (finalState da sa none pre).getD .stopAll = lastMotion pre := by
      rw [state_eq_last]; rfl
    cases op with
    | cmd c => cases c <;> simp [opClauses, step]
    | rx f => simp [opClauses, step]
    | tick =>
      simp only [opClauses, step, hl, List.all_cons, List.all_nil, Bool.and_true, Bool.and_eq_true,
        decide_eq_true_eq, true_and]
      by_cases e : lastMotion pre = .stopAll
      · have p : pgn (lockFrameRef da sa).id = 45824 := by
          rw [← lock_eq da sa hda hsa]
          have hp : Consts.hcuMotionConfigPriority = 3 := by decide
          have hg : Consts.hcuMotionConfigPgn = 45824 := by decide
          unfold lockFrame motionConfig mkFrame
          rw [hp, hg]
          exact pgn_buildId 3 45824 sa da (by omega) (by unfold Pdu1Group; decide) hsa hda
        simp [e, encodeMotion, lock_eq da sa hda hsa, isDriveFrame, p]
      · simp [e]

/-- every tick re-asserts exactly the most recent motion command (stop-all before the first one);
while that is stop-all the only frame is the lock frame and no drive frame; a motion command is
emitted at once; other commands and received frames emit nothing -/
theorem C01_history (da sa : Nat) (hda : da < 256) (hsa : sa < 256) (h : List Op) :
    holds da sa h (run da sa none h) = true := by
  have := walk_run da sa hda hsa h []
  simpa [holds, finalState] using this

theorem C01_tick_reasserts (da sa : Nat) (pre : List Op) :
    (step da sa (finalState da sa none pre) .tick).2 = encodeMotion da sa (lastMotion pre) := by
  simp only [step]; rw [state_eq_last]; rfl

theorem C01_locked_only_lock (da sa : Nat) (hda : da < 256) (hsa : sa < 256) (pre : List Op)
    (hl : lastMotion pre = .stopAll) :
    (step da sa (finalState da sa none pre) .tick).2 = [lockFrameRef da sa] ∧
    ∀ f ∈ (step da sa (finalState da sa none pre) .tick).2, pgn f.id = 45824 := by
  rw [C01_tick_reasserts, hl]
  have p : pgn (lockFrameRef da sa).id = 45824 := by
    rw [← lock_eq da sa hda hsa]
    have hp : Consts.hcuMotionConfigPriority = 3 := by decide
    have hg : Consts.hcuMotionConfigPgn = 45824 := by decide
    unfold lockFrame motionConfig mkFrame
    rw [hp, hg]
    exact pgn_buildId 3 45824 sa da (by omega) (by unfold Pdu1Group; decide) hsa hda
  simp [encodeMotion, lock_eq da sa hda hsa, p]

/-- engine/control/target commands, received frames and ticks never alter what is re-asserted -/
theorem C01_nonmotion_inert (h : List Op) : lastMotion h = lastMotion (h.filter isMotionCmd) := by
  unfold lastMotion
  congr 1
  rw [← List.filter_reverse]
  induction h.reverse with
  | nil => rfl
  | cons op rest ih =>
    cases hm : motionOf op with
    | none => simp [List.filter, isMotionCmd, hm, ih]
    | some m => simp [List.filter, isMotionCmd, hm]

/-- non-vacuity: a history that drives, is interrupted by other traffic, and stops -/
example : run 0x4A 0x27 none
    [.tick, .cmd (.motion (.change [(.arm, 300)])), .cmd (.other "engine"), .tick, .cmd (.motion .stopAll), .tick] =
    [[lockFrame 0x4A 0x27],
     [{ id := 0x0CA14A27, data := [0x2C, 0x01, 255, 255, 255, 255, 255, 255] }], [],
     [{ id := 0x0CA14A27, data := [0x2C, 0x01, 255, 255, 255, 255, 255, 255] }],
     [lockFrame 0x4A 0x27], [lockFrame 0x4A 0x27]] := by decide

/-! ### the concurrent tasks

The tick task and the command task run on different threads and share only the stored command (one mutex-protected
slot; every accessor locks on its own).  A cycle is two steps — read the slot, later emit — and a command is two steps —
write the slot, later emit.  Any interleaving of these steps is allowed.  (That a cycle reads the slot once and never
writes it, and that a command writes it once, is what the access-trace hook checks on the real handlers.) -/

inductive CEv where
  /-- the tick task reads the stored command -/
  | tickRead
  /-- … and, any time later, sends what it read -/
  | tickEmit
  /-- the command task stores an accepted motion command -/
  | cmdWrite (m : Motion)
  deriving DecidableEq, Repr

structure CSt where
  slot : St := none
  /-- what the tick task holds between its read and its emission -/
  held : Option St := none
  /-- everything the tick task has sent -/
  sent : List (List Frame) := []

def cstep (da sa : Nat) (s : CSt) : CEv → CSt
  | .tickRead => { s with held := some s.slot }
  | .tickEmit => match s.held with
    | some v => { s with held := none, sent := s.sent ++ [encodeMotion da sa (v.getD .stopAll)] }
    | none => s
  | .cmdWrite m => { s with slot := some m }

def crun (da sa : Nat) (s : CSt) (es : List CEv) : CSt := es.foldl (cstep da sa) s

/-- the stored command is always the most recently written one, whatever the tick task is doing -/
theorem C01_concurrent_slot (da sa : Nat) (s : CSt) (es : List CEv) :
    (crun da sa s es).slot = ((es.reverse.findSome? fun | .cmdWrite m => some (some m) | _ => none).getD s.slot) := by
  induction es generalizing s with
  | nil => rfl
  | cons e rest ih =>
    have := ih (cstep da sa s e)
    simp only [crun, List.foldl_cons] at this ⊢
    rw [this, List.reverse_cons, List.findSome?_append]
    cases hf : List.findSome? (fun x => match x with | CEv.cmdWrite m => some (some m) | _ => none) rest.reverse with
    | some v => simp
    | none => cases e <;> simp [cstep] <;> (try split) <;> rfl

/-- C01 (concurrent cycles): a cycle whose read happens after stop-all was stored — and before any later command —
sends the lock frame and nothing else, however its steps interleave with the command task -/
theorem C01_concurrent_stop (da sa : Nat) (s : CSt) (mid : List CEv)
    (hmid : ∀ e ∈ mid, e = .tickRead ∨ e = .tickEmit) (hheld : s.held = none) :
    let s1 := crun da sa (cstep da sa s (.cmdWrite .stopAll)) mid
    ∀ f ∈ (s1.sent.drop s.sent.length), f = encodeMotion da sa .stopAll := by
  intro s1 f hf
  -- invariant along `mid`: the slot holds stop-all, anything held is stop-all, everything sent since is the lock
  have inv : ∀ (t : CSt) (l : List CEv), (∀ e ∈ l, e = .tickRead ∨ e = .tickEmit) →
      t.slot = some .stopAll → (∀ v, t.held = some v → v = some .stopAll) →
      (∀ g ∈ t.sent.drop s.sent.length, g = encodeMotion da sa .stopAll) → s.sent.length ≤ t.sent.length →
      ∀ g ∈ (crun da sa t l).sent.drop s.sent.length, g = encodeMotion da sa .stopAll := by
    intro t l
    induction l generalizing t with
    | nil => intro _ _ _ h _; exact h
    | cons e rest ih =>
      intro hl hs hh hsent hlen
      have he := hl e (by simp)
      have hrest : ∀ x ∈ rest, x = .tickRead ∨ x = .tickEmit := fun x hx => hl x (by simp [hx])
      simp only [crun, List.foldl_cons]
      rcases he with rfl | rfl
      · exact ih _ hrest hs (by intro v hv; simp [cstep] at hv; rw [← hv, hs]) hsent hlen
      · cases hheld' : t.held with
        | none =>
          have : cstep da sa t .tickEmit = t := by simp [cstep, hheld']
          rw [this]; exact ih t hrest hs hh hsent hlen
        | some v =>
          have hv := hh v hheld'
          have hstep : cstep da sa t .tickEmit = { t with held := none, sent := t.sent ++ [encodeMotion da sa .stopAll] } := by
            simp [cstep, hheld', hv]
          rw [hstep]
          refine ih _ hrest hs (by intro w hw; simp at hw) ?_ (by simp; omega)
          intro g hg
          simp only at hg
          rw [List.drop_append_of_le_length hlen] at hg
          simp only [List.mem_append, List.mem_singleton] at hg
          rcases hg with hg | hg
          · exact hsent g hg
          · exact hg
  refine inv (cstep da sa s (.cmdWrite .stopAll)) mid hmid rfl ?_ ?_ (by simp [cstep]) f hf
  · intro v hv; simp [cstep, hheld] at hv
  · intro g hg; simp [cstep] at hg

/-- C01 (concurrent cycles, one cycle under way): if a cycle had already read the old command when stop-all was
stored, that one cycle may still send the old command — and every later emission is the lock frame -/
theorem C01_concurrent_stop_inflight (da sa : Nat) (s : CSt) (mid : List CEv)
    (hmid : ∀ e ∈ mid, e = .tickRead ∨ e = .tickEmit) :
    let s1 := crun da sa (cstep da sa s (.cmdWrite .stopAll)) mid
    ∀ f ∈ (s1.sent.drop (s.sent.length + 1)), f = encodeMotion da sa .stopAll := by
  intro s1 f hf
  have inv : ∀ (t : CSt) (l : List CEv), (∀ e ∈ l, e = .tickRead ∨ e = .tickEmit) →
      t.slot = some .stopAll → (∀ v, t.held = some v → v = some .stopAll ∨ t.sent.length = s.sent.length) →
      (∀ g ∈ t.sent.drop (s.sent.length + 1), g = encodeMotion da sa .stopAll) → s.sent.length ≤ t.sent.length →
      ∀ g ∈ (crun da sa t l).sent.drop (s.sent.length + 1), g = encodeMotion da sa .stopAll := by
    intro t l
    induction l generalizing t with
    | nil => intro _ _ _ h _; exact h
    | cons e rest ih =>
      intro hl hs hh hsent hlen
      have he := hl e (by simp)
      have hrest : ∀ x ∈ rest, x = .tickRead ∨ x = .tickEmit := fun x hx => hl x (by simp [hx])
      simp only [crun, List.foldl_cons]
      rcases he with rfl | rfl
      · exact ih _ hrest hs (by intro v hv; simp [cstep] at hv; left; rw [← hv, hs]) hsent hlen
      · cases hheld' : t.held with
        | none =>
          have : cstep da sa t .tickEmit = t := by simp [cstep, hheld']
          rw [this]; exact ih t hrest hs hh hsent hlen
        | some v =>
          have hstep : cstep da sa t .tickEmit = { t with held := none, sent := t.sent ++ [encodeMotion da sa (v.getD .stopAll)] } := by
            simp [cstep, hheld']
          rw [hstep]
          refine ih _ hrest hs (by intro w hw; simp at hw) ?_ (by simp; omega)
          intro g hg
          simp only at hg
          rcases hh v hheld' with hv | hv
          · by_cases hle : s.sent.length + 1 ≤ t.sent.length
            · rw [List.drop_append_of_le_length hle] at hg
              simp only [List.mem_append, List.mem_singleton] at hg
              rcases hg with hg | hg
              · exact hsent g hg
              · rw [hg, hv]; rfl
            · have : t.sent.length = s.sent.length := by omega
              have hd : (t.sent ++ [encodeMotion da sa (v.getD .stopAll)]).drop (s.sent.length + 1) = [] := by
                apply List.drop_eq_nil_of_le; simp; omega
              rw [hd] at hg; simp at hg
          · have hd : (t.sent ++ [encodeMotion da sa (v.getD .stopAll)]).drop (s.sent.length + 1) = [] := by
              apply List.drop_eq_nil_of_le; simp; omega
            rw [hd] at hg; simp at hg
  refine inv (cstep da sa s (.cmdWrite .stopAll)) mid hmid rfl ?_ ?_ (by simp [cstep]) f hf
  · intro v _; right; simp [cstep]
  · intro g hg
    have : (cstep da sa s (.cmdWrite .stopAll)).sent = s.sent := by simp [cstep]
    rw [this, List.drop_eq_nil_of_le (by omega)] at hg; simp at hg

/-! ### the translator tie -/

/-- TRANSLATION THEOREM for the command side of the hydraulic driver.  The tables and facts the translator reads off
`trigger`, `tick` and `try_recv` of hydraulic.rs on this run say what `Hcu.step` says:
* `trigger` and `tick` send, for every motion variant, the frames of the emitter `encodeMotion` uses (one table for both);
* `trigger` stores EVERY motion command, unconditionally and before encoding it, and writes nothing else (`.cmd`);
* `tick` re-asserts the stored motion command, stop-all when there is none, and writes nothing to the shared context (`.tick`);
* `try_recv` never writes the transmit side of the context (`.rx`). -/
theorem C01_driver_shape_translated :
    (∀ m : Motion, Consts.hcuTriggerArms.contains (Hcu.armRow m) = true ∧ Consts.hcuTickArms.contains (Hcu.armRow m) = true) ∧
    Consts.hcuTriggerArms.length = 5 ∧ Consts.hcuTickArms = Consts.hcuTriggerArms ∧
    Consts.hcuTriggerStoresEveryMotionFirst = true ∧
    Consts.hcuTickReassertsStoredOrStopAll = true ∧ Consts.hcuTickContextWrites = 0 ∧
    Consts.hcuRecvTxWrites = 0 := by
  refine ⟨?_, by decide, by decide, by decide, by decide, by decide, by decide⟩
  intro m
  cases m <;> simp only [Hcu.armRow] <;> exact ⟨by decide, by decide⟩

/-- every unit of a network has its own driver context (the model keeps one `Hcu.St` per hydraulic unit and nothing shared
with the other units), and every configured entry with a known (vendor, product) pair is built with its own addresses -/
theorem C01_units_do_not_share_state : Consts.authorityUnitsHaveTheirOwnContext = true ∧ Consts.authorityBuildsEveryKnownEntry = true := by
  decide

end Glonax.Thm.C01
