import GlonaxModel.Spec.C01
import GlonaxModel.Lemmas.Hcu
/-! THEOREMS C01: for every finite history of commands (all kinds), received frames and ticks. -/
namespace Glonax.Thm.C01
open Glonax J1939 Hcu Spec.C01

/-- the driver state after any history is exactly "the last motion command, if any" -/
theorem state_eq_last (da sa : Nat) (h : List Op) :
    finalState da sa none h = h.reverse.findSome? motionOf := by
  suffices g : ∀ s, finalState da sa s h = (h.reverse.findSome? motionOf).or s by simpa using g none
  unfold finalState
  induction h with
  | nil => intro s; simp
  | cons op rest ih =>
    intro s
    simp only [List.foldl_cons, List.reverse_cons, List.findSome?_append]
    rw [ih]
    cases op with
    | cmd c => cases c <;> cases hh : rest.reverse.findSome? motionOf <;> simp [step, motionOf]
    | rx f => cases hh : rest.reverse.findSome? motionOf <;> simp [step, motionOf]
    | tick => cases hh : rest.reverse.findSome? motionOf <;> simp [step, motionOf]

theorem finalState_append (da sa : Nat) (s : St) (a b : List Op) :
    finalState da sa s (a ++ b) = finalState da sa (finalState da sa s a) b := by
  simp [finalState, List.foldl_append]

private theorem lock_eq (da sa : Nat) (hda : da < 256) (hsa : sa < 256) :
    lockFrame da sa = lockFrameRef da sa := by
  have hp : Consts.hcuMotionConfigPriority = 3 := by decide
  have hg : Consts.hcuMotionConfigPgn = 45824 := by decide
  unfold lockFrame motionConfig mkFrame lockFrameRef
  rw [hp, hg, buildId_pdu1 3 45824 sa da (by unfold Pdu1Group; decide)]
  simp; omega

private theorem walk_run (da sa : Nat) (hda : da < 256) (hsa : sa < 256) (h pre : List Op) :
    (walk da sa pre h (run da sa (finalState da sa none pre) h)).all (·.2) = true := by
  induction h generalizing pre with
  | nil => simp [run, walk]
  | cons op rest ih =>
    have hs : (step da sa (finalState da sa none pre) op).1 = finalState da sa none (pre ++ [op]) := by
      simp [finalState, List.foldl_append]
    simp only [run, walk, List.all_append, Bool.and_eq_true]
    refine ⟨?_, by rw [hs]; exact ih (pre ++ [op])⟩
    have hl : (finalState da sa none pre).getD .stopAll = lastMotion pre := by
      rw [state_eq_last]; rfl
    cases op with
    | cmd c => cases c <;> simp [opClauses, step]
    | rx f => simp [opClauses, step]
    | tick =>
      simp only [opClauses, step, hl, List.all_cons, List.all_nil, Bool.and_true, Bool.and_eq_true,
        decide_eq_true_eq, true_and]
      by_cases e : lastMotion pre = .stopAll
      · have p : pgn (lockFrameRef da sa).id = 45824 := by
          rw [← lock_eq da sa hda hsa]
          have hp : Consts.hcuMotionConfigPriority = 3 := by decide
          have hg : Consts.hcuMotionConfigPgn = 45824 := by decide
          unfold lockFrame motionConfig mkFrame
          rw [hp, hg]
          exact pgn_buildId 3 45824 sa da (by omega) (by unfold Pdu1Group; decide) hsa hda
        simp [e, encodeMotion, lock_eq da sa hda hsa, isDriveFrame, p]
      · simp [e]

/-- every tick re-asserts exactly the most recent motion command (stop-all before the first one);
while that is stop-all the only frame is the lock frame and no drive frame; a motion command is
emitted at once; other commands and received frames emit nothing -/
theorem C01_history (da sa : Nat) (hda : da < 256) (hsa : sa < 256) (h : List Op) :
    holds da sa h (run da sa none h) = true := by
  have := walk_run da sa hda hsa h []
  simpa [holds, finalState] using this

theorem C01_tick_reasserts (da sa : Nat) (pre : List Op) :
    (step da sa (finalState da sa none pre) .tick).2 = encodeMotion da sa (lastMotion pre) := by
  simp only [step]; rw [state_eq_last]; rfl

theorem C01_locked_only_lock (da sa : Nat) (hda : da < 256) (hsa : sa < 256) (pre : List Op)
    (hl : lastMotion pre = .stopAll) :
    (step da sa (finalState da sa none pre) .tick).2 = [lockFrameRef da sa] ∧
    ∀ f ∈ (step da sa (finalState da sa none pre) .tick).2, pgn f.id = 45824 := by
  rw [C01_tick_reasserts, hl]
  have p : pgn (lockFrameRef da sa).id = 45824 := by
    rw [← lock_eq da sa hda hsa]
    have hp : Consts.hcuMotionConfigPriority = 3 := by decide
    have hg : Consts.hcuMotionConfigPgn = 45824 := by decide
    unfold lockFrame motionConfig mkFrame
    rw [hp, hg]
    exact pgn_buildId 3 45824 sa da (by omega) (by unfold Pdu1Group; decide) hsa hda
  simp [encodeMotion, lock_eq da sa hda hsa, p]

/-- engine/control/target commands, received frames and ticks never alter what is re-asserted -/
theorem C01_nonmotion_inert (h : List Op) : lastMotion h = lastMotion (h.filter isMotionCmd) := by
  unfold lastMotion
  congr 1
  rw [← List.filter_reverse]
  induction h.reverse with
  | nil => rfl
  | cons op rest ih =>
    cases hm : motionOf op with
    | none => simp [List.filter, isMotionCmd, hm, ih]
    | some m => simp [List.filter, isMotionCmd, hm]

/-- non-vacuity: a history that drives, is interrupted by other traffic, and stops -/
example : run 0x4A 0x27 none
    [.tick, .cmd (.motion (.change [(.arm, 300)])), .cmd (.other "engine"), .tick, .cmd (.motion .stopAll), .tick] =
    [[lockFrame 0x4A 0x27],
     [{ id := 0x0CA14A27, data := [0x2C, 0x01, 255, 255, 255, 255, 255, 255] }], [],
     [{ id := 0x0CA14A27, data := [0x2C, 0x01, 255, 255, 255, 255, 255, 255] }],
     [lockFrame 0x4A 0x27], [lockFrame 0x4A 0x27]] := by decide

end Glonax.Thm.C01
