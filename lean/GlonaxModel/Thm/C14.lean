import GlonaxModel.Thm.C03
import GlonaxModel.Lemmas.Ring
/-! THEOREMS C14: handshake and signal streaming. -/
namespace Glonax.Thm.C14
open Glonax Wire Sess Consts Spec.Sess Thm.C04 Thm.C05 Thm.C03 RingLemmas

/-! ### what the session writes for published signals -/

def sigFrames (flags : Nat) (vs : List Packet) : List (List Nat) :=
  if isStream flags then (vs.filter forwardable).map sendPacket else []

/-- draining the ring from an idle session: the client is sent, in publication order and one whole
frame each, exactly the retained signals from its cursor on — all of them if it did not fall behind -/
theorem flush_stream (s : St) (hist : List Packet) (fuel : Nat)
    (hidle : s.core.ended = false ∧ s.core.pay = none) (hcl : s.ring.closed = false)
    (hinv : RingInv s.ring hist) (hn : s.rxNext ≤ hist.length)
    (hf : (hist.length - max s.rxNext s.ring.head) + (if s.rxNext < s.ring.head then 2 else 1) ≤ fuel) :
    replies (flush s fuel).2 = sigFrames s.core.flags (hist.drop (max s.rxNext s.ring.head)) ∧
    (flush s fuel).1.rxNext = hist.length ∧ (flush s fuel).1.core = s.core ∧ (flush s fuel).1.ring = s.ring := by
  induction fuel generalizing s with
  | zero => split at hf <;> omega
  | succ n ih =>
    have spec := ring_recv_spec s.ring hist s.rxNext hinv hn
    obtain ⟨hi1, hi2⟩ := hidle
    have hnot : ¬ (s.core.ended = true ∨ s.core.pay.isSome = true) := by simp [hi1, hi2]
    unfold flush
    simp only [hnot, if_false]
    by_cases c1 : s.rxNext < s.ring.head
    · -- lagged: jump to the oldest retained value
      rw [spec.1 c1]
      simp only []
      have hm : max s.rxNext s.ring.head = s.ring.head := by omega
      have hh : s.ring.head ≤ hist.length := by have := hinv.1; omega
      have := ih { s with rxNext := s.ring.head } ⟨hi1, hi2⟩ hcl hinv hh (by
        simp only [c1, if_true] at hf; simp; omega)
      simp only [Nat.max_self] at this
      rw [hm]; exact this
    · have hge : s.ring.head ≤ s.rxNext := by omega
      have hm : max s.rxNext s.ring.head = s.rxNext := by omega
      by_cases c2 : s.rxNext = hist.length
      · rw [spec.2.2 c2 hcl]
        have hdrop : hist.drop (max s.rxNext s.ring.head) = [] := by rw [hm, c2]; simp
        simp only [hdrop]
        refine ⟨?_, c2, by first | rfl | trivial, by first | rfl | trivial⟩
        unfold sigFrames
        split <;> simp [replies]
      · have hlt : s.rxNext < hist.length := by omega
        have hv : hist[s.rxNext]? = some hist[s.rxNext] := by simp [hlt]
        rw [spec.2.1 hge _ hv]
        simp only []
        have := ih { s with rxNext := s.rxNext + 1 } ⟨hi1, hi2⟩ hcl hinv (by simp; omega) (by
          simp only [c1, if_false] at hf
          have : ¬ (s.rxNext + 1 < s.ring.head) := by omega
          simp only [this, if_false]
          have : max (s.rxNext + 1) s.ring.head = s.rxNext + 1 := by omega
          rw [this]; rw [hm] at hf; omega)
        have hm2 : max (s.rxNext + 1) s.ring.head = s.rxNext + 1 := by omega
        simp only [hm2] at this
        rw [hm, replies_append, this.1]
        refine ⟨?_, this.2.1, this.2.2.1, this.2.2.2⟩
        have hd : hist.drop s.rxNext = hist[s.rxNext] :: hist.drop (s.rxNext + 1) := by
          rw [List.drop_eq_getElem_cons hlt]
        rw [hd]
        generalize hist[s.rxNext] = v
        unfold sigFrames
        by_cases hs : isStream s.core.flags = true <;> by_cases hfw : forwardable v = true <;>
          simp [hs, hfw, replies]

/-- C14 (streaming): in a session that asked for streaming and keeps up, every published signal is
answered with exactly one frame that is the encoding of that object, immediately and in order -/
theorem C14_stream_faithful (inst : Instance) (s : St) (hist : List Packet) (o : Packet)
    (hidle : s.core.ended = false ∧ s.core.pay = none) (hcl : s.ring.closed = false)
    (hinv : RingInv s.ring hist) (hup : s.rxNext = hist.length) (hfw : forwardable o = true)
    (hs : isStream s.core.flags = true) :
    replies (step inst s (.signal o)).2 = [sendPacket o] ∧
    (step inst s (.signal o)).1.rxNext = (hist ++ [o]).length ∧
    RingInv (step inst s (.signal o)).1.ring (hist ++ [o]) ∧ (step inst s (.signal o)).1.core = s.core := by
  have hinv' := ring_send_inv s.ring hist o hinv
  have hhead : (s.ring.send o).head ≤ hist.length := by
    have h1 := hinv'.1
    have h2 : 1 ≤ (s.ring.send o).buf.length := by unfold Ring.send; split <;> simp
    simp only [List.length_append, List.length_singleton] at h1
    omega
  have hcl' : (s.ring.send o).closed = false := by unfold Ring.send; split <;> simp [hcl]
  have hnl : ¬ (hist.length < (s.ring.send o).head) := by omega
  have hmax : max hist.length (s.ring.send o).head = hist.length := by omega
  have fl := flush_stream { s with ring := s.ring.send o } (hist ++ [o]) ((s.ring.send o).buf.length + 2)
    hidle hcl' hinv' (by simp [hup]) (by
      simp only [hup, hnl, if_false, hmax, List.length_append, List.length_singleton]; omega)
  simp only [step, hidle.1, Bool.false_eq_true, if_false, flushAll, hup]
  simp only [hup, hmax] at fl
  refine ⟨?_, fl.2.1, ?_, fl.2.2.1⟩
  · rw [fl.1]; simp [sigFrames, hs, hfw]
  · rw [fl.2.2.2]; exact hinv'

/-- C14 (gating): a session that did not ask for streaming is sent nothing for published signals -/
theorem C14_gated (inst : Instance) (s : St) (hist : List Packet) (o : Packet)
    (hidle : s.core.ended = false ∧ s.core.pay = none) (hcl : s.ring.closed = false)
    (hinv : RingInv s.ring hist) (hn : s.rxNext ≤ hist.length) (hs : isStream s.core.flags = false) :
    replies (step inst s (.signal o)).2 = [] := by
  have hinv' := ring_send_inv s.ring hist o hinv
  have hcl' : (s.ring.send o).closed = false := by unfold Ring.send; split <;> simp [hcl]
  have h1 := hinv'.1
  have fl := flush_stream { s with ring := s.ring.send o } (hist ++ [o]) ((s.ring.send o).buf.length + 2)
    hidle hcl' hinv' (by simp; omega) (by
      show (hist ++ [o]).length - max s.rxNext (s.ring.send o).head + (if s.rxNext < (s.ring.send o).head then 2 else 1)
        ≤ (s.ring.send o).buf.length + 2
      split <;> omega)
  simp only [step, hidle.1, Bool.false_eq_true, if_false, flushAll]
  rw [fl.1]; simp [sigFrames, hs]

/-- C14 (lag): a subscriber that fell behind (was inside a payload read while `n` signals were
published) afterwards receives exactly the retained suffix of the publication history, in order and
as whole frames: only the oldest, overwritten signals are lost -/
theorem C14_lag_subsequence (s : St) (hist : List Packet)
    (hidle : s.core.ended = false ∧ s.core.pay = none) (hcl : s.ring.closed = false)
    (hinv : RingInv s.ring hist) (hn : s.rxNext ≤ hist.length) :
    replies (flushAll s).2 = sigFrames s.core.flags (hist.drop (max s.rxNext s.ring.head)) ∧
    (hist.drop (max s.rxNext s.ring.head)).Sublist (hist.drop s.rxNext) ∧
    hist.length - max s.rxNext s.ring.head ≤ s.ring.cap := by
  have h1 := hinv.1
  have fl := flush_stream s hist (s.ring.buf.length + 2) hidle hcl hinv hn (by split <;> omega)
  refine ⟨fl.1, ?_, by have := hinv.2.2.1; omega⟩
  have : max s.rxNext s.ring.head = s.rxNext + (max s.rxNext s.ring.head - s.rxNext) := by omega
  rw [this, ← List.drop_drop]
  exact List.drop_sublist _ _

/-- C14 (handshake): every registration that passes validation is answered with exactly one frame,
the daemon's instance record; nothing else is written for client frames -/
theorem C14_handshake (inst : Instance) (fs : List Frame) (hf : ∀ f ∈ fs, f.WF) :
    replies (feed inst (idle 0) (fs.flatMap Frame.bytes)).2 =
      (fs.filterMap validUpgrade).map (fun _ => sendPacket (.inst inst)) :=
  (C04_frames inst 0 fs hf).2.2.1

/-- the identity a client decodes from the reply is the daemon's (round trip of the wire codec) -/
theorem C14_identity_roundtrip (inst : Instance) (h : Spec.C13.WF (.inst inst))
    (hm : inst.model.length < 65536) (hs : inst.serial.length < 65536) :
    decode .inst ((sendPacket (.inst inst)).drop 10) = .ok (.inst inst) := by
  have hl := Thm.C13.C13_header_layout (.inst inst)
  simp only [Spec.C13.frameLayout, decide_eq_true_eq] at hl
  rw [hl]
  have : (Spec.C13.headerRef (Packet.inst inst).kind.msgType (encode (.inst inst)).length ++ encode (.inst inst)).drop 10 =
      encode (.inst inst) := by simp [Spec.C13.headerRef]
  rw [this]
  exact Thm.C13.C13_roundtrip_instance inst h hm hs

/-- `is_compatibile`: accepts a daemon exactly when major and minor equal the client's runtime version -/
theorem C14_compat_iff (major minor patch : Nat) :
    isCompatible major minor patch = true ↔ (major = versionMajor ∧ minor = versionMinor) := by
  simp [isCompatible]

/-- "a session that asked for streaming …": a client asks exactly when it was built with the stream option, over either
transport and whatever the other options (the flags byte `ClientBuilder` puts into its session frame, as the daemon's
`Session::is_stream` reads it) -/
theorem C14_client_asks_for_streaming_iff_option (unix control command failsafe stream : Bool) :
    wantsStream (clientFlags unix control command failsafe stream) = stream := by
  cases unix <;> cases control <;> cases command <;> cases failsafe <;> cases stream <;> decide

end Glonax.Thm.C14
