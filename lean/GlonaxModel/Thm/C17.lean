import GlonaxModel.Generated.Consts
import GlonaxModel.Spec.C17
/-! THEOREMS C17: all identifiers, lengths, data; filter lists of ANY length. -/
namespace Glonax.Thm.C17
open Glonax J1939 Can Spec.C17

private theorem le32_leU32 (u : Nat) (h : u < 4294967296) (rest : List Nat) : le32 (leU32 u ++ rest) = u := by
  simp [le32, leU32]; omega

/-- transmitted bytes: EFF set, RTR/ERR clear, id, length and data preserved -/
theorem C17_tx_exact (f : Frame) (hid : f.id < 536870912) (hlen : f.data.length ≤ 8)
    (hb : allBytes f.data = true) : txExact f (txBytes f) = true := by
  have hcid : le32 (txBytes f) = f.id + 2147483648 := by
    unfold txBytes; simp only [List.append_assoc]; exact le32_leU32 _ (by omega) _
  have hlen16 : (txBytes f).length = 16 := by simp [txBytes, leU32]; omega
  have h4 : (txBytes f).getD 4 0 = f.data.length := by simp [txBytes, leU32]
  have hd : ((txBytes f).drop 8).take f.data.length = f.data := by
    simp [txBytes, leU32]
  have hall : allBytes (txBytes f) = true := by
    have : ∀ x ∈ f.data, x < 256 := by
      intro x hx; simpa [allBytes, isByte] using (List.all_eq_true.mp hb) x hx
    simp only [allBytes, List.all_eq_true, txBytes, leU32]
    intro x hx
    simp only [List.mem_append, List.mem_cons, List.mem_replicate, List.not_mem_nil, or_false] at hx
    simp only [isByte, decide_eq_true_eq]
    rcases hx with ((h | h) | h) | h
    · rcases h with h | h | h | h <;> omega
    · rcases h with h | h | h | h <;> omega
    · exact this x h
    · omega
  simp only [txExact, hcid, hlen16, h4, hd, hall]
  simp; omega

private theorem normalise_spec (d : List Nat) (n : Nat) (hn : n ≤ 8) (hd : d.length = n) :
    (normalise d).length = 8 ∧ (normalise d).take n = d ∧ ((normalise d).drop n).all (· = 255) = true := by
  subst hd
  have ht : d.take 8 = d := List.take_of_length_le hn
  unfold normalise
  simp only [ht]
  refine ⟨by simp; omega, by simp, ?_⟩
  simp [List.all_eq_true]

/-- received frames: id masked to 29 bits, first dlc bytes kept, padded with 0xFF to length 8 -/
theorem C17_rx_mask_pad (flt : Filter) (raw : List Nat) (hraw : raw.length = 16) (hdlc : raw.getD 4 0 ≤ 8)
    (out : Frame) (h : netRecv flt raw = some out) : rxMaskPad raw out = true := by
  unfold netRecv at h
  generalize hdl : raw.getD 4 0 = dlc at *
  by_cases hm : flt.matches (rxFrame raw).id = true
  · simp only [hm, if_true, Option.some.injEq] at h
    subst h
    simp only [rxFrame, hdl]
    have hl : (List.take dlc (List.drop 8 raw)).length = dlc := by
      simp; omega
    have ht8 : List.take 8 (List.take dlc (List.drop 8 raw)) = List.take dlc (List.drop 8 raw) :=
      List.take_of_length_le (by omega)
    have ns := normalise_spec (List.take dlc (List.drop 8 raw)) dlc hdlc hl
    simp only [rxMaskPad, hdl, ht8, ns.1, ns.2.1, ns.2.2]
    simp
  · simp [hm] at h

/-- the J1939 field layout of a 29-bit identifier -/
theorem C17_id_fields (id : Nat) (h : id < 536870912) :
    id = priority id * 67108864 + (id / 16777216 % 4) * 16777216 + pf id * 65536 + ps id * 256 + source id ∧
    priority id < 8 ∧ pf id < 256 ∧ ps id < 256 ∧ source id < 256 ∧
    (destination? id = if pf id < 240 then some (ps id) else none) ∧
    (pgn id = if pf id < 240 then pf id * 256 else pf id * 256 + ps id) := by
  refine ⟨by unfold priority pf ps source; omega, by unfold priority; omega, by unfold pf; omega,
    by unfold ps; omega, by unfold source; omega, ?_, ?_⟩
  · unfold destination? isPdu1; by_cases e : pf id < 240 <;> simp [e]
  · unfold pgn isPdu1; by_cases e : pf id < 240 <;> simp [e]

private theorem item_matches_eq (e : FilterItem) (id : Nat) : itemMatches e id = entryMatches e id := by
  unfold itemMatches itemM2 itemM3 itemM4 entryMatches
  cases e.priority <;> cases e.pgn <;> cases e.source <;> cases e.destination <;>
    simp [Option.all, Bool.and_assoc]

/-- the filter passes exactly the frames the reference predicate passes, for lists of any length -/
theorem C17_filter_iff (f : Filter) (id : Nat) : f.matches id = shouldPass f id := by
  unfold Filter.matches shouldPass
  have : (f.items.any fun e => itemMatches e id) = f.items.any (entryMatches · id) := by
    congr 1; funext e; exact item_matches_eq e id
  rw [this]
  cases f.accept <;> cases hi : f.items.isEmpty <;> simp [hi]
  · have : f.items = [] := by simpa using hi
    simp [this]

theorem C17_accept_iff (items : List FilterItem) (id : Nat) :
    (Filter.mk items true).matches id = true ↔ (items = [] ∨ ∃ e ∈ items, entryMatches e id = true) := by
  rw [C17_filter_iff]; simp [shouldPass]

theorem C17_reject_iff (items : List FilterItem) (id : Nat) :
    (Filter.mk items false).matches id = true ↔ ¬ ∃ e ∈ items, entryMatches e id = true := by
  rw [C17_filter_iff]; simp [shouldPass]

/-- non-vacuity -/
example : txBytes { id := 0x0CB34A27, data := [0x5A, 0x43, 0xFF, 0x00, 0xFF] } =
    [0x27, 0x4A, 0xB3, 0x8C, 5, 0, 0, 0, 0x5A, 0x43, 0xFF, 0x00, 0xFF, 0, 0, 0] := by decide
example : netRecv ⟨[], true⟩ [0x27, 0x4A, 0xB3, 0xEC, 2, 0, 0, 0, 1, 2, 9, 9, 9, 9, 9, 9] =
    some { id := 0x0CB34A27, data := [1, 2, 255, 255, 255, 255, 255, 255] } := by decide

/-! ### the translator tie -/

private theorem obeq (a b : Option Nat) : (a == b) = decide (a = b) := by
  by_cases h : a = b <;> simp [h]
private theorem nbeq (a b : Nat) : (a == b) = decide (a = b) := by
  by_cases h : a = b <;> simp [h]

/-- TRANSLATION THEOREM: the ordered list of checks the translator reads off `FilterItem::matches` in the current source
computes the model's `itemMatches` for every entry and every identifier; `Filter::matches` and `Filter::push` have the
shape of `Filter.matches` and of list append -/
theorem C17_filter_translated (e : FilterItem) (id : Nat) :
    itemMatchesT Consts.filterItemChecks e id = some (itemMatches e id) ∧
    Consts.filterMatchesShape = true ∧ Consts.filterPushAppends = true := by
  refine ⟨?_, by decide, by decide⟩
  obtain ⟨p, g, s, d⟩ := e
  cases p <;> cases g <;> cases s <;> cases d <;>
    simp [itemMatchesT, Consts.filterItemChecks, checkT, itemMatches, itemM2, itemM3, itemM4, bne, Bool.and_comm, obeq, nbeq]

/-- the network applies the filter the caller installed: `with_filter` replaces the default filter, and `recv` delivers a
frame exactly when that filter matches, after copying it and THEN setting its length to 8 (regenerated shapes; `netRecv`
of the model) -/
theorem C17_network_glue_as_modelled :
    Consts.netWithFilterReplaces = true ∧ Consts.netRecvFiltersThenPadsTo8 = true := by decide

/-- an entry holds what its caller specified: every constructor (`with_*`) and setter (`set_*`) of the current source stores
exactly its argument in exactly its field and leaves the others unspecified / untouched; `Filter::default()` is an accept list -/
theorem C17_entries_as_constructed :
    Consts.filterItemCtorsStoreTheirArgument = true ∧ Consts.filterDefaultIsAccept = true := by decide

end Glonax.Thm.C17
