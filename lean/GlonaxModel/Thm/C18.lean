import GlonaxModel.Spec.C18
import GlonaxModel.Model.Session
/-! THEOREMS C18: every reachable interlock state × every event (hence event sequences of any length). -/
namespace Glonax.Thm.C18
open Glonax Wire Input Spec.C18

/-- the engine-speed invariant of the interlock state -/
def RpmOk (s : St) : Prop := s.engineRpm = 0 ∨ (900 ≤ s.engineRpm ∧ s.engineRpm ≤ 2100)

theorem C18_startup_locked (fm : Bool) : (startState fm).motionLock = true ∧ RpmOk (startState fm) := by
  have h1 : Consts.inputStartMotionLock = true := by decide
  have h2 : Consts.inputStartEngineRpm = 0 := by decide
  simp [startState, RpmOk, h1, h2]

/-- pressing Abort always produces stop-all and engages the lock -/
theorem C18_abort_stops (s : St) :
    (s.step (.abort .pressed)).2 = some (.motion .stopAll) ∧ (s.step (.abort .pressed)).1.motionLock = true := by
  simp [St.step]

/-- locked means locked: with the motion lock engaged no scancode yields anything but stop / resume /
neutral / engine requests, and the lock is released only by releasing Abort -/
theorem C18_locked_means_locked (s : St) (hl : s.motionLock = true) (sc : Scancode) :
    harmless (s.step sc).2 = true ∧ ((s.step sc).1.motionLock = false → sc = .abort .released) := by
  cases sc with
  | slew v => simp [St.step, hl, harmless]
  | arm v => simp [St.step, hl, harmless]
  | attachment v => simp [St.step, hl, harmless]
  | boom v => simp [St.step, hl, harmless]
  | leftTrack v => simp [St.step, hl, harmless]
  | rightTrack v => simp [St.step, hl, harmless]
  | abort b => cases b <;> simp [St.step, hl, harmless]
  | confirm b => simp [St.step, hl, harmless]
  | driveLock b => cases b <;> simp [St.step, hl, harmless]
  | limitMotion b => cases b <;> simp [St.step, hl, harmless]
  | up b => cases b <;> simp [St.step, hl, harmless]
  | down b =>
    cases b
    · simp only [St.step]; split <;> simp [harmless, hl]
    · simp [St.step, hl, harmless]

private theorem ramp_db (x l : Int) (hl : 0 < l) :
    ramp x l = 0 ∨ (ramp x l < 0 ∧ ramp x l ≤ -l) ∨ (ramp x l ≥ 0 ∧ ramp x l ≥ l) := by
  unfold ramp; split <;> omega
private theorem ramp_db_neg (x l : Int) (hl : 0 < l) (hx : x ≤ 0) : ramp x l = 0 ∨ (ramp x l < 0 ∧ ramp x l ≤ -l) := by
  unfold ramp; split <;> omega
private theorem ramp_db_pos (x l : Int) (hl : 0 < l) (hx : x ≥ 0) : ramp x l = 0 ∨ (ramp x l ≥ 0 ∧ ramp x l ≥ l) := by
  unfold ramp; split <;> omega

private theorem half_sign (v : Int) : (v < 0 → half v ≤ 0) ∧ (v ≥ 0 → half v ≥ 0) := by
  unfold half; split <;> omega

private theorem half_bounds (v : Int) (h : InI16 v) : -16384 ≤ half v ∧ half v ≤ 16383 := by
  unfold InI16 at h; unfold half; split <;> omega

private theorem db_change (a : Actuator) (r : Int)
    (h : r = 0 ∨ (r < 0 ∧ r ≤ -(deadband a).1) ∨ (r ≥ 0 ∧ r ≥ (deadband a).2)) :
    deadbandOk (some (change a r)) = true := by
  simp only [deadbandOk, change, List.all_cons, List.all_nil, Bool.and_true, Bool.or_eq_true, decide_eq_true_eq]
  rcases h with h | ⟨h1, h2⟩ | ⟨h1, h2⟩
  · left; exact h
  · right; simp [h1, h2]
  · right; have : ¬ r < 0 := by omega
    simp [this, h2]

private theorem db_straight (r : Int) (h : r = 0 ∨ r ≤ -2000 ∨ r ≥ 2000) :
    deadbandOk (some (.motion (.straightDrive r))) = true := by
  simp only [deadbandOk, Bool.or_eq_true, decide_eq_true_eq]
  rcases h with h | h | h
  · left; exact h
  · right; unfold absI; split <;> omega
  · right; unfold absI; split <;> omega

/-- produced values are zero inside the per-axis deadband -/
theorem C18_deadband (s : St) (sc : Scancode) : deadbandOk (s.step sc).2 = true := by
  cases sc with
  | slew v =>
    simp only [St.step]; split
    · rfl
    · split
      · exact db_change _ _ (by simpa [deadband] using ramp_db (half v) 1000 (by omega))
      · exact db_change _ _ (by simpa [deadband] using ramp_db v 1000 (by omega))
  | arm v =>
    simp only [St.step]; split
    · rfl
    · split
      · exact db_change _ _ (by simpa [deadband] using ramp_db (half v) 1500 (by omega))
      · exact db_change _ _ (by simpa [deadband] using ramp_db v 1500 (by omega))
  | attachment v =>
    simp only [St.step]; split
    · rfl
    · by_cases hv : v < 0
      · simp only [hv, if_true]
        split
        · have := ramp_db_neg (half v) 2000 (by omega) ((half_sign v).1 hv)
          exact db_change _ _ (by simp only [deadband]; omega)
        · have := ramp_db_neg v 2000 (by omega) (by omega)
          exact db_change _ _ (by simp only [deadband]; omega)
      · simp only [hv, if_false]
        have := ramp_db_pos v 4000 (by omega) (by omega)
        exact db_change _ _ (by simp only [deadband]; omega)
  | boom v =>
    simp only [St.step]; split
    · rfl
    · by_cases hv : v < 0
      · simp only [hv, if_true]
        have := ramp_db_neg v 3500 (by omega) (by omega)
        exact db_change _ _ (by simp only [deadband]; omega)
      · simp only [hv, if_false]
        split
        · have := ramp_db_pos (half v) 1750 (by omega) ((half_sign v).2 (by omega))
          exact db_change _ _ (by simp only [deadband]; omega)
        · have := ramp_db_pos v 1750 (by omega) (by omega)
          exact db_change _ _ (by simp only [deadband]; omega)
  | leftTrack v =>
    simp only [St.step]; split
    · rfl
    · have := ramp_db v 2000 (by omega)
      split
      · exact db_straight _ (by omega)
      · exact db_change _ _ (by simp only [deadband]; omega)
  | rightTrack v =>
    simp only [St.step]; split
    · rfl
    · have := ramp_db v 2000 (by omega)
      split
      · exact db_straight _ (by omega)
      · exact db_change _ _ (by simp only [deadband]; omega)
  | abort b => cases b <;> simp [St.step, deadbandOk]
  | confirm b => simp [St.step, deadbandOk]
  | driveLock b => cases b <;> simp [St.step, deadbandOk]
  | limitMotion b => cases b <;> simp [St.step, deadbandOk]
  | up b => cases b <;> simp only [St.step] <;> (try split) <;> simp [deadbandOk]
  | down b => cases b <;> simp only [St.step] <;> (try split) <;> simp [deadbandOk]

/-- with motion limiting on, the limited directions are at most half scale -/
theorem C18_half_scale (s : St) (hlim : s.limitMotion = true) (sc : Scancode)
    (hv : match sc with
          | .slew v | .arm v | .attachment v | .boom v | .leftTrack v | .rightTrack v => InI16 v
          | _ => True) :
    halfScaleOk true (s.step sc).2 = true := by
  have rb : ∀ x l : Int, ramp x l = 0 ∨ ramp x l = x := by intro x l; unfold ramp; split <;> simp
  cases sc with
  | slew v =>
    simp only [St.step, hlim]; split
    · rfl
    · have hb := half_bounds v hv
      rcases rb (half v) 1000 with h | h <;> simp [halfScaleOk, change, h] <;> omega
  | arm v =>
    simp only [St.step, hlim]; split
    · rfl
    · have hb := half_bounds v hv
      rcases rb (half v) 1500 with h | h <;> simp [halfScaleOk, change, h] <;> omega
  | attachment v =>
    simp only [St.step, hlim]; split
    · rfl
    · by_cases hneg : v < 0
      · have hb := half_bounds v hv
        simp only [hneg, if_true]
        rcases rb (half v) 2000 with h | h <;> simp [halfScaleOk, change, h] <;> omega
      · simp only [hneg, if_false]
        rcases rb v 4000 with h | h <;> simp [halfScaleOk, change, h] <;> omega
  | boom v =>
    simp only [St.step, hlim]; split
    · rfl
    · by_cases hneg : v < 0
      · simp only [hneg, if_true]
        rcases rb v 3500 with h | h <;> simp [halfScaleOk, change, h] <;> omega
      · have hb := half_bounds v hv
        simp only [hneg, if_false, if_true]
        rcases rb (half v) 1750 with h | h <;> simp [halfScaleOk, change, h] <;> omega
  | leftTrack v => simp only [St.step]; split <;> (try split) <;> simp [halfScaleOk, change]
  | rightTrack v => simp only [St.step]; split <;> (try split) <;> simp [halfScaleOk, change]
  | abort b => cases b <;> simp [St.step, halfScaleOk]
  | confirm b => simp [St.step, halfScaleOk]
  | driveLock b => cases b <;> simp [St.step, halfScaleOk]
  | limitMotion b => cases b <;> simp [St.step, halfScaleOk]
  | up b => cases b <;> simp only [St.step] <;> (try split) <;> simp [halfScaleOk]
  | down b => cases b <;> simp only [St.step] <;> (try split) <;> simp [halfScaleOk]

/-- engine requests are shutdown or within 900..2100 rpm, and the invariant on the stored speed is kept -/
theorem C18_engine_range (s : St) (hi : RpmOk s) (sc : Scancode) :
    engineOk (s.step sc).2 = true ∧ RpmOk (s.step sc).1 := by
  have hc : ∀ r, 900 ≤ clampRpm r ∧ clampRpm r ≤ 2100 := by intro r; unfold clampRpm; split <;> (try split) <;> omega
  unfold RpmOk at hi ⊢
  cases sc with
  | up b =>
    cases b
    · simp only [St.step]; split
      · exact ⟨rfl, hi⟩
      · have := hc (s.engineRpm + 100)
        simp [engineOk, Engine.fromRpm, this]
    · exact ⟨rfl, hi⟩
  | down b =>
    cases b
    · simp only [St.step]; split
      · simp [engineOk, Engine.shutdown]
      · have := hc (s.engineRpm - 100)
        simp [engineOk, Engine.fromRpm, this]
    · exact ⟨rfl, hi⟩
  | slew v => simp only [St.step]; split <;> exact ⟨rfl, hi⟩
  | arm v => simp only [St.step]; split <;> exact ⟨rfl, hi⟩
  | attachment v => simp only [St.step]; split <;> exact ⟨rfl, hi⟩
  | boom v => simp only [St.step]; split <;> exact ⟨rfl, hi⟩
  | leftTrack v => simp only [St.step]; split <;> (try split) <;> exact ⟨rfl, hi⟩
  | rightTrack v => simp only [St.step]; split <;> (try split) <;> exact ⟨rfl, hi⟩
  | abort b => cases b <;> exact ⟨rfl, hi⟩
  | confirm b => exact ⟨rfl, hi⟩
  | driveLock b => cases b <;> exact ⟨rfl, hi⟩
  | limitMotion b => cases b <;> exact ⟨rfl, hi⟩

/-- the raw-record decoder is total on the four record types the joystick interface produces, and every
value it passes on is a valid i16 (no overflow anywhere, including −32768) -/
theorem C18_no_crash (b : List Nat) (hty : b.getD 6 0 = 1 ∨ b.getD 6 0 = 2 ∨ b.getD 6 0 = 129 ∨ b.getD 6 0 = 130)
    (h4 : b.getD 4 0 < 256) (h5 : b.getD 5 0 < 256) :
    ∃ e, decodeEvent b = some e ∧ InI16 e.value := by
  have hv : InI16 (i16OfU16 (b.getD 4 0 + 256 * b.getD 5 0)) := by
    unfold InI16 i16OfU16; split <;> omega
  have hn : ∀ v, InI16 v → InI16 (negSat v) := by
    intro v h; unfold InI16 at *; unfold negSat; split <;> omega
  unfold decodeEvent
  have c1 : Consts.jsEventTypeButton = 1 := by decide
  have c2 : Consts.jsEventTypeAxis = 2 := by decide
  have c3 : Consts.jsEventInit = 128 := by decide
  rw [c1, c2, c3]
  generalize b.getD 6 0 = ty at *
  generalize i16OfU16 (b.getD 4 0 + 256 * b.getD 5 0) = v at *
  rcases hty with rfl | rfl | rfl | rfl <;> simp [hv, hn _ hv]

/-- every arithmetic step of the pipeline (axis negation, halving, trigger folding and its reversal, dead-band)
keeps an i16 inside the i16 range: nothing can overflow, for any axis value including −32768 -/
theorem C18_arith_in_range (v : Int) (h : InI16 v) :
    InI16 (negSat v) ∧ InI16 (half v) ∧ InI16 (trigger v) ∧ InI16 (-(trigger v)) ∧ ∀ l, InI16 (ramp v l) := by
  unfold InI16 at *
  refine ⟨by unfold negSat; split <;> omega, by unfold half; split <;> omega, by unfold trigger; omega,
    by unfold trigger; omega, ?_⟩
  intro l; unfold ramp; split <;> omega

/-! ### glonaxctl -/

theorem C18_cli_words (w : String) : (parseToggle w).isSome = true ↔ w ∈ acceptedWords := by
  unfold parseToggle acceptedWords
  constructor
  · intro h
    by_cases a : w = "1" ∨ w = "on" ∨ w = "true"
    · rcases a with a | a | a <;> simp [a]
    · by_cases b : w = "0" ∨ w = "off" ∨ w = "false"
      · rcases b with b | b | b <;> simp [b]
      · simp [a, b] at h
  · intro h
    simp only [List.mem_cons, List.not_mem_nil, or_false] at h
    rcases h with h | h | h | h | h | h <;> subst h <;> decide

theorem C18_cli_packets (s : Sub) (w : String) (on : Bool) (h : parseToggle w = some on) :
    cliSends true s w = [s.packet on] := by
  simp [cliSends, h]

theorem C18_cli_incompatible_silent (s : Sub) (w : String) : cliSends false s w = [] := by
  simp [cliSends]

theorem C18_cli_rejected_silent (c : Bool) (s : Sub) (w : String) (h : w ∉ acceptedWords) : cliSends c s w = [] := by
  have : parseToggle w = none := by
    cases hp : parseToggle w with
    | none => rfl
    | some b => exact absurd ((C18_cli_words w).mp (by simp [hp])) h
  cases c <;> simp [cliSends, this]

/-- the loop of `main` with the lock state observed before each event -/
def runTrace (d : Dev) (s : St) : List Event → List (Bool × Option Packet)
  | [] => []
  | e :: rest =>
    match (d.map e).2 with
    | none => (s.motionLock, none) :: runTrace (d.map e).1 s rest
    | some sc => (s.motionLock, (s.step sc).2) :: runTrace (d.map e).1 (s.step sc).1 rest

/-- sequences of any length, any device mode, from any reachable state (in particular the start-up state):
every output produced while the lock is engaged is harmless, every engine request is in range, every
actuator value respects its deadband -/
theorem C18_sequences (d : Dev) (s : St) (hr : RpmOk s) (es : List Event) :
    ∀ p ∈ runTrace d s es, (p.1 = true → harmless p.2 = true) ∧ engineOk p.2 = true ∧ deadbandOk p.2 = true := by
  induction es generalizing d s with
  | nil => intro p hp; cases hp
  | cons e rest ih =>
    intro p hp
    simp only [runTrace] at hp
    cases hm : (d.map e).2 with
    | none =>
      simp only [hm, List.mem_cons] at hp
      rcases hp with rfl | hp
      · exact ⟨fun _ => rfl, rfl, rfl⟩
      · exact ih _ s hr p hp
    | some sc =>
      simp only [hm, List.mem_cons] at hp
      rcases hp with rfl | hp
      · exact ⟨fun hl => (C18_locked_means_locked s hl sc).1, (C18_engine_range s hr sc).1, C18_deadband s sc⟩
      · exact ih _ (s.step sc).1 (C18_engine_range s hr sc).2 p hp

/-- "registers a failsafe session unless told otherwise": a client built with the failsafe option (what
`unix_connect_safe` / `connect_safe` do, and what glonax-input uses by default) sends a session frame the daemon reads as
failsafe, over either transport and whatever the other options; without the option it does not -/
theorem C18_failsafe_session_registered (unix control command failsafe stream : Bool) :
    Sess.wantsFailsafe (Sess.clientFlags unix control command failsafe stream) = failsafe := by
  cases unix <;> cases control <;> cases command <;> cases failsafe <;> cases stream <;> decide

/-! ### the translator tie -/

/-- TRANSLATION THEOREM: the table the translator produces from the source text of `InputState::try_from` on this run
(`Consts.inputTable`, one row per match arm in source order: gates on the motion lock, the value expression of each axis
with its deadbands and the halving under motion limiting, the actuator or straight-drive output, the state assignment and
output of each button arm, the engine-speed steps and bounds), read with first-match semantics, computes `St.step` for
EVERY interlock state and EVERY scancode (all axis values).  All theorems of this file about `St.step` are therefore
statements about the function the source defines now. -/
theorem C18_translation (s : St) (sc : Scancode) : stepT Consts.inputTable s sc = some (s.step sc) := by
  have b1 : (Btn.released == Btn.pressed) = false := by decide
  have b2 : (Btn.pressed == Btn.pressed) = true := by decide
  obtain ⟨dl, ml, lm, rpm⟩ := s
  cases sc with
  | slew v => cases ml <;> cases lm <;> simp [stepT, Consts.inputTable, List.find?, rowMatches, Scancode.key, rowStep, axisValue, limited, Actuator.ofId?, Actuator.all, Actuator.id, St.step, change, Consts.actuatorBoom, Consts.actuatorArm, Consts.actuatorAttachment, Consts.actuatorSlew, Consts.actuatorLimpLeft, Consts.actuatorLimpRight]
  | arm v => cases ml <;> cases lm <;> simp [stepT, Consts.inputTable, List.find?, rowMatches, Scancode.key, rowStep, axisValue, limited, Actuator.ofId?, Actuator.all, Actuator.id, St.step, change, Consts.actuatorBoom, Consts.actuatorArm, Consts.actuatorAttachment, Consts.actuatorSlew, Consts.actuatorLimpLeft, Consts.actuatorLimpRight]
  | attachment v => cases ml <;> cases lm <;> simp [stepT, Consts.inputTable, List.find?, rowMatches, Scancode.key, rowStep, axisValue, limited, Actuator.ofId?, Actuator.all, Actuator.id, St.step, change, Consts.actuatorBoom, Consts.actuatorArm, Consts.actuatorAttachment, Consts.actuatorSlew, Consts.actuatorLimpLeft, Consts.actuatorLimpRight]
  | boom v => cases ml <;> cases lm <;> simp [stepT, Consts.inputTable, List.find?, rowMatches, Scancode.key, rowStep, axisValue, limited, Actuator.ofId?, Actuator.all, Actuator.id, St.step, change, Consts.actuatorBoom, Consts.actuatorArm, Consts.actuatorAttachment, Consts.actuatorSlew, Consts.actuatorLimpLeft, Consts.actuatorLimpRight]
  | leftTrack v => cases ml <;> cases dl <;> simp [stepT, Consts.inputTable, List.find?, rowMatches, Scancode.key, rowStep, axisValue, limited, Actuator.ofId?, Actuator.all, Actuator.id, St.step, change, Consts.actuatorBoom, Consts.actuatorArm, Consts.actuatorAttachment, Consts.actuatorSlew, Consts.actuatorLimpLeft, Consts.actuatorLimpRight]
  | rightTrack v => cases ml <;> cases dl <;> simp [stepT, Consts.inputTable, List.find?, rowMatches, Scancode.key, rowStep, axisValue, limited, Actuator.ofId?, Actuator.all, Actuator.id, St.step, change, Consts.actuatorBoom, Consts.actuatorArm, Consts.actuatorAttachment, Consts.actuatorSlew, Consts.actuatorLimpLeft, Consts.actuatorLimpRight]
  | abort b => cases b <;> simp [stepT, Consts.inputTable, List.find?, rowMatches, Scancode.key, rowStep, St.step, b1, b2]
  | confirm b => cases b <;> simp [stepT, Consts.inputTable, List.find?, rowMatches, Scancode.key, St.step, b1, b2]
  | driveLock b => cases b <;> simp [stepT, Consts.inputTable, List.find?, rowMatches, Scancode.key, rowStep, St.step, Consts.inputPowerNeutral, b1, b2]
  | limitMotion b => cases b <;> simp [stepT, Consts.inputTable, List.find?, rowMatches, Scancode.key, rowStep, St.step, b1, b2]
  | up b => cases b <;> cases ml <;> simp [stepT, Consts.inputTable, List.find?, rowMatches, Scancode.key, rowStep, St.step, clampRpm, Engine.fromRpm, b1, b2]
  | down b =>
    cases b
    · by_cases h : rpm ≤ 900 <;> simp [stepT, Consts.inputTable, List.find?, rowMatches, Scancode.key, rowStep, St.step, clampRpm, Engine.fromRpm, h, b1, b2]
    · simp [stepT, Consts.inputTable, List.find?, rowMatches, Scancode.key, St.step, b1, b2]

end Glonax.Thm.C18
