import GlonaxModel.Model.Authority
import GlonaxModel.Lemmas.J1939
/-! THEOREMS C20: J1939 node identity and configuration fidelity. -/
namespace Glonax.Thm.C20
open Glonax Auth J1939 Consts

/-! ### NAME layout (SAE J1939-81 bit fields, read back independently of the builder) -/

structure NameFields where
  identityNumber : Nat
  manufacturerCode : Nat
  functionInstance : Nat
  ecuInstance : Nat
  function : Nat
  vehicleSystem : Nat
  vehicleSystemInstance : Nat
  industryGroup : Nat
  arbitraryAddress : Nat
  deriving DecidableEq, Repr

/-- J1939-81 NAME, little endian 64-bit: identity 21 bits, manufacturer 11 bits, ECU instance 3, function
instance 5, function 8, reserved 1, vehicle system 7, vehicle system instance 4, industry group 3, arbitrary 1 -/
def readName (b : List Nat) : NameFields :=
  let v := b.getD 0 0 + 256 * b.getD 1 0 + 65536 * b.getD 2 0 + 16777216 * b.getD 3 0 +
           4294967296 * (b.getD 4 0 + 256 * b.getD 5 0 + 65536 * b.getD 6 0 + 16777216 * b.getD 7 0)
  { identityNumber := v % 2097152
    manufacturerCode := v / 2097152 % 2048
    ecuInstance := v / 4294967296 % 8
    functionInstance := v / 34359738368 % 32
    function := v / 1099511627776 % 256
    vehicleSystem := v / 562949953421312 % 128
    vehicleSystemInstance := v / 72057594037927936 % 16
    industryGroup := v / 1152921504606846976 % 8
    arbitraryAddress := v / 9223372036854775808 % 2 }

/-- configured fields within their J1939 widths -/
def NameCfg.InRange (n : NameCfg) : Prop :=
  n.manufacturerCode < 2048 ∧ n.functionInstance < 32 ∧ n.ecuInstance < 8 ∧ n.function < 256 ∧
  n.vehicleSystem < 128 ∧ n.vehicleSystemInstance < 16 ∧ n.industryGroup < 8

/-- C20 (NAME): the announced NAME carries every configured field in its J1939 bit position
(identity number 1, not arbitrary-address capable) -/
theorem C20_name_layout (n : NameCfg) (h : NameCfg.InRange n) :
    readName (nameBytes n) =
      { identityNumber := 1, manufacturerCode := n.manufacturerCode, functionInstance := n.functionInstance,
        ecuInstance := n.ecuInstance, function := n.function, vehicleSystem := n.vehicleSystem,
        vehicleSystemInstance := n.vehicleSystemInstance, industryGroup := n.industryGroup, arbitraryAddress := 0 } := by
  obtain ⟨h1, h2, h3, h4, h5, h6, h7⟩ := h
  simp only [readName, nameBytes, List.getD_cons_zero, List.getD_cons_succ]
  simp only [NameFields.mk.injEq]
  refine ⟨?_, ?_, ?_, ?_, ?_, ?_, ?_, ?_, ?_⟩ <;> omega

theorem nameBytes_len (n : NameCfg) : (nameBytes n).length = 8 := by simp [nameBytes]

theorem nameBytes_bytes (n : NameCfg) : ∀ x ∈ nameBytes n, x < 256 := by
  intro x hx
  simp only [nameBytes, List.mem_cons, List.mem_nil_iff, or_false] at hx
  rcases hx with h | h | h | h | h | h | h | h <;> omega

/-- non-vacuity: the shipped example NAME is in range and reads back -/
example : (readName (nameBytes ⟨0x717, 6, 0, 0x1C, 2, 0, 1⟩)).manufacturerCode = 0x717 := by decide

/-! ### address claim on set-up -/

/-- C20 (announce): set-up sends exactly one frame: Address Claimed from the configured address to the
global address with the configured NAME as payload -/
theorem C20_claim_on_setup (cfg : NetCfg) (s : St) (h : cfg.address < 256) :
    (step cfg s .setup).2.frames = [addressClaimed cfg.address cfg.name] ∧
    pgn (addressClaimed cfg.address cfg.name).id = pgnAddressClaimed ∧
    (addressClaimed cfg.address cfg.name).data = nameBytes cfg.name := by
  refine ⟨rfl, ?_, ?_⟩
  · simp only [addressClaimed, mkFrame]
    exact pgn_buildId 6 _ _ 255 (by omega) (by unfold Pdu1Group; decide) h (by omega)
  · simp only [addressClaimed, mkFrame]
    exact List.take_of_length_le (by rw [nameBytes_len]; omega)

theorem C20_claim_addressing (cfg : NetCfg) (h : cfg.address < 256) :
    source (addressClaimed cfg.address cfg.name).id = cfg.address ∧
    destination? (addressClaimed cfg.address cfg.name).id = some 255 := by
  simp only [addressClaimed, mkFrame]
  exact ⟨source_buildId 6 _ _ 255 (by omega) (by unfold Pdu1Group; decide) h (by omega), destination_buildId 6 _ _ 255 (by omega) (by unfold Pdu1Group; decide) h (by omega)⟩

/-! ### request responder -/

def reqPgn (f : Frame) : Nat := (Drv.byte f 0 + 256 * Drv.byte f 1 + 65536 * Drv.byte f 2) % 262144

/-- C20 (responder, complete case split): what the node answers to any frame -/
theorem C20_responder (cfg : NetCfg) (f : Frame) :
    respond cfg f =
      if pgn f.id ≠ pgnRequest then none
      else if destination? f.id ≠ some cfg.address then some []
      else if reqPgn f = pgnAddressClaimed then some [addressClaimed cfg.address cfg.name]
      else if reqPgn f = pgnSoftwareIdentification then
        some [mkFrame (buildId 6 pgnSoftwareIdentification cfg.address 0) [1, versionMajor, versionMinor, versionPatch, 42]]
      else if reqPgn f = pgnTimeDate then some [mkFrame (buildId 6 pgnTimeDate cfg.address 0) [0, 0, 0, 0, 0, 0, 0, 0]]
      else some [] := by
  rfl

/-- requests addressed to another node are ignored (and never reach the drivers) -/
theorem C20_ignores_others (cfg : NetCfg) (f : Frame) (hp : pgn f.id = pgnRequest)
    (hd : destination? f.id ≠ some cfg.address) : respond cfg f = some [] := by
  simp [respond, hp, hd]

/-- requests for any other parameter group are ignored -/
theorem C20_ignores_other_groups (cfg : NetCfg) (f : Frame) (hp : pgn f.id = pgnRequest)
    (h1 : reqPgn f ≠ pgnAddressClaimed) (h2 : reqPgn f ≠ pgnSoftwareIdentification) (h3 : reqPgn f ≠ pgnTimeDate) :
    respond cfg f = some [] := by
  unfold reqPgn at h1 h2 h3
  simp only [respond, hp, ne_eq, not_true_eq_false, if_false]
  split
  · rfl
  · simp [h1, h2, h3]

/-- a request built by any conforming node for one of the three groups, addressed to us, is answered with that group -/
theorem C20_answers (cfg : NetCfg) (from_ : Nat) (g : Nat) (ha : cfg.address < 256) (hf : from_ < 256)
    (hg : g = pgnAddressClaimed ∨ g = pgnSoftwareIdentification ∨ g = pgnTimeDate) :
    ∃ r, respond cfg (request cfg.address from_ g) = some [r] ∧ pgn r.id = g ∧ source r.id = cfg.address := by
  have hid : pgn (request cfg.address from_ g).id = pgnRequest := by
    simp only [request, mkFrame]; exact pgn_buildId 6 _ _ _ (by omega) (by unfold Pdu1Group; decide) hf ha
  have hd : destination? (request cfg.address from_ g).id = some cfg.address := by
    simp only [request, mkFrame]; exact destination_buildId 6 _ _ _ (by omega) (by unfold Pdu1Group; decide) hf ha
  have hreq : g < 262144 → (Drv.byte (request cfg.address from_ g) 0 + 256 * Drv.byte (request cfg.address from_ g) 1 +
      65536 * Drv.byte (request cfg.address from_ g) 2) % 262144 = g := by
    intro hlt
    simp only [request, mkFrame, Drv.byte, List.take, List.getD_cons_zero, List.getD_cons_succ]
    omega
  rcases hg with rfl | rfl | rfl
  · refine ⟨addressClaimed cfg.address cfg.name, ?_, ?_, ?_⟩
    · simp only [respond, hid, hd, hreq (by decide)]; simp
    · simp only [addressClaimed, mkFrame]; exact pgn_buildId 6 _ _ 255 (by omega) (by unfold Pdu1Group; decide) ha (by omega)
    · simp only [addressClaimed, mkFrame]; exact source_buildId 6 _ _ 255 (by omega) (by unfold Pdu1Group; decide) ha (by omega)
  · refine ⟨mkFrame (buildId 6 pgnSoftwareIdentification cfg.address 0) [1, versionMajor, versionMinor, versionPatch, 42], ?_, ?_, ?_⟩
    · simp only [respond, hid, hd, hreq (by decide)]
      have e1 : pgnSoftwareIdentification ≠ pgnAddressClaimed := by decide
      have e2 : pgnTimeDate ≠ pgnAddressClaimed := by decide
      have e3 : pgnTimeDate ≠ pgnSoftwareIdentification := by decide
      simp [e1, e2, e3]
    · simp only [mkFrame]; exact pgn_buildId2 6 _ _ 0 (by unfold Pdu2Group; decide) ha
    · simp only [mkFrame]; exact source_buildId2 6 _ _ 0 (by unfold Pdu2Group; decide) ha
  · refine ⟨mkFrame (buildId 6 pgnTimeDate cfg.address 0) [0, 0, 0, 0, 0, 0, 0, 0], ?_, ?_, ?_⟩
    · simp only [respond, hid, hd, hreq (by decide)]
      have e1 : pgnSoftwareIdentification ≠ pgnAddressClaimed := by decide
      have e2 : pgnTimeDate ≠ pgnAddressClaimed := by decide
      have e3 : pgnTimeDate ≠ pgnSoftwareIdentification := by decide
      simp [e1, e2, e3]
    · simp only [mkFrame]; exact pgn_buildId2 6 _ _ 0 (by unfold Pdu2Group; decide) ha
    · simp only [mkFrame]; exact source_buildId2 6 _ _ 0 (by unfold Pdu2Group; decide) ha

/-- the software identification answer is the runtime version -/
theorem C20_software_ident (cfg : NetCfg) (f : Frame) (hp : pgn f.id = pgnRequest)
    (hd : destination? f.id = some cfg.address) (hr : reqPgn f = pgnSoftwareIdentification) :
    ∃ r, respond cfg f = some [r] ∧ r.data = [1, versionMajor, versionMinor, versionPatch, 42] := by
  unfold reqPgn at hr
  refine ⟨mkFrame (buildId 6 pgnSoftwareIdentification cfg.address 0) [1, versionMajor, versionMinor, versionPatch, 42], ?_, rfl⟩
  simp only [respond, hp, hd, hr]
  have e1 : pgnSoftwareIdentification ≠ pgnAddressClaimed := by decide
  simp [e1]

/-- THE TIE for the responder: the arms the translator reads off `NetworkAuthority::recv` in the current source (and its
own-address guard) are the three groups this model answers -/
theorem C20_served_requests_as_modelled :
    (servedRequestPgns.all ([pgnAddressClaimed, pgnSoftwareIdentification, pgnTimeDate].contains ·) &&
     [pgnAddressClaimed, pgnSoftwareIdentification, pgnTimeDate].all (servedRequestPgns.contains ·)) = true ∧
    requestOwnAddressGuard = true := by decide

/-- corollary on the regenerated table alone: the node puts a frame on the bus in answer to a request only when the
requested group has an arm in the CURRENT source's responder and the request was addressed to the node itself -/
theorem C20_answers_only_served (cfg : NetCfg) (f : Frame) (r : Frame) (rs : List Frame) (h : respond cfg f = some (r :: rs)) :
    servedRequestPgns.contains (reqPgn f) = true ∧ destination? f.id = some cfg.address := by
  have ht := C20_served_requests_as_modelled.1
  simp only [Bool.and_eq_true, List.all_eq_true] at ht
  rw [C20_responder] at h
  by_cases h0 : pgn f.id ≠ pgnRequest
  · simp [h0] at h
  · by_cases h1 : destination? f.id ≠ some cfg.address
    · simp [h0, h1] at h
    · have hd : destination? f.id = some cfg.address := by simpa using h1
      refine ⟨?_, hd⟩
      by_cases g1 : reqPgn f = pgnAddressClaimed
      · rw [g1]; exact ht.2 _ (by simp)
      · by_cases g2 : reqPgn f = pgnSoftwareIdentification
        · rw [g2]; exact ht.2 _ (by simp)
        · by_cases g3 : reqPgn f = pgnTimeDate
          · rw [g3]; exact ht.2 _ (by simp)
          · simp [h0, h1, g1, g2, g3] at h

/-! ### the units driven -/

/-- what a single configured entry becomes -/
def unitOf (cfg : NetCfg) (d : DriverCfg) : Option BusUnit :=
  (factory d.vendor d.product).map fun k =>
    { kind := k, da := d.da, sa := d.sa.getD cfg.address, timeout := d.timeout, vendor := d.vendor, product := d.product }

/-- C20 (exactly the known entries): a unit is driven iff it is a configured entry with a known (vendor, product);
it has the configured unit address and the overridden or the network's source address -/
theorem C20_units_exact (cfg : NetCfg) (u : BusUnit) :
    u ∈ units cfg ↔ ∃ d ∈ cfg.drivers, ∃ k, factory d.vendor d.product = some k ∧
      u = { kind := k, da := d.da, sa := d.sa.getD cfg.address, timeout := d.timeout, vendor := d.vendor, product := d.product } := by
  simp only [units, List.mem_filterMap, Option.map_eq_some_iff]
  constructor
  · rintro ⟨d, hd, k, hk, rfl⟩; exact ⟨d, hd, k, hk, rfl⟩
  · rintro ⟨d, hd, k, hk, rfl⟩; exact ⟨d, hd, k, hk, rfl⟩

/-- C20 (source address default): without override the unit is addressed from the network's own address, with it from the override -/
theorem C20_source_address (cfg : NetCfg) (d : DriverCfg) (u : BusUnit) (h : unitOf cfg d = some u) :
    u.da = d.da ∧ u.timeout = d.timeout ∧
    (d.sa = none → u.sa = cfg.address) ∧ (∀ x, d.sa = some x → u.sa = x) := by
  simp only [unitOf, Option.map_eq_some_iff] at h
  obtain ⟨k, _, rfl⟩ := h
  refine ⟨rfl, rfl, ?_, ?_⟩
  · intro hn; simp [hn]
  · intro x hx; simp [hx]

/-- C20 (unknown entries are skipped without disturbing the rest): removing or inserting unknown entries anywhere
leaves the driven units, and their order, unchanged -/
theorem C20_unknown_skipped (addr : Nat) (nm : NameCfg) (a b : List DriverCfg) (d : DriverCfg)
    (h : factory d.vendor d.product = none) :
    units ⟨addr, nm, a ++ d :: b⟩ = units ⟨addr, nm, a ++ b⟩ := by
  simp [units, List.filterMap_append, List.filterMap_cons, h]

/-- the units are the known entries in configuration order (one unit per known entry) -/
theorem C20_units_order (cfg : NetCfg) :
    units cfg = cfg.drivers.filterMap (unitOf cfg) ∧
    (units cfg).length = (cfg.drivers.filter fun d => (factory d.vendor d.product).isSome).length := by
  refine ⟨rfl, ?_⟩
  simp only [units]
  induction cfg.drivers with
  | nil => rfl
  | cons d rest ih =>
    cases hf : factory d.vendor d.product <;> simp [List.filterMap_cons, List.filter_cons, hf, ih]

/-- the known (vendor, product) pairs are exactly these eight -/
theorem C20_factory_known (v p : String) :
    (factory v p).isSome ↔
      (v = "laixer" ∧ (p = "vcu" ∨ p = "hcu" ∨ p = "simulator")) ∨ (v = "volvo" ∧ p = "d7e") ∨
      (v = "kübler" ∧ (p = "inclinometer" ∨ p = "encoder")) ∨ (v = "j1939" ∧ (p = "ecm" ∨ p = "ecu")) := by
  unfold factory
  constructor
  · intro h
    repeat (split at h; · simp_all)
    simp at h
  · intro h
    rcases h with ⟨rfl, rfl | rfl | rfl⟩ | ⟨rfl, rfl⟩ | ⟨rfl, rfl | rfl⟩ | ⟨rfl, rfl | rfl⟩ <;> decide

/-- set-up requests (first control cycle) go to each unit's address from its source address -/
theorem C20_setup_addressing (u : BusUnit) (f : Frame) (hf : f ∈ setupFrames u) (hda : u.da < 256) (hsa : u.sa < 256) :
    source f.id = u.sa ∧ destination? f.id = some u.da := by
  have hreq : ∀ g, source (request u.da u.sa g).id = u.sa ∧ destination? (request u.da u.sa g).id = some u.da := by
    intro g; simp only [request, mkFrame]
    exact ⟨source_buildId 6 _ _ _ (by omega) (by unfold Pdu1Group; decide) hsa hda, destination_buildId 6 _ _ _ (by omega) (by unfold Pdu1Group; decide) hsa hda⟩
  have hident : ∀ b, source (identFrame u.da u.sa b).id = u.sa ∧ destination? (identFrame u.da u.sa b).id = some u.da := by
    intro b; simp only [identFrame, mkFrame]
    exact ⟨source_buildId 6 _ _ _ (by omega) (by unfold Pdu1Group; decide) hsa hda, destination_buildId 6 _ _ _ (by omega) (by unfold Pdu1Group; decide) hsa hda⟩
  have hreset : source (Hcu.resetFrame u.da u.sa).id = u.sa ∧ destination? (Hcu.resetFrame u.da u.sa).id = some u.da := by
    simp only [Hcu.resetFrame, Hcu.motionConfig, mkFrame]
    exact ⟨source_buildId _ _ _ _ (by decide) (by unfold Pdu1Group; decide) hsa hda, destination_buildId _ _ _ _ (by decide) (by unfold Pdu1Group; decide) hsa hda⟩
  unfold setupFrames at hf
  cases hk : u.kind <;> simp only [hk, List.mem_append, List.mem_cons, List.mem_nil_iff, or_false] at hf
  all_goals first
    | (rcases hf with (h | h | h) | h | h | h <;> subst h <;> first | exact hreq _ | exact hident _ | exact hreset)
    | (rcases hf with h | h | h <;> subst h <;> exact hreq _)
    | (subst hf; exact hreq _)

/-- the constructor the unit theorems are about: one driver per configured entry with a known pair, built from that
entry's own addresses (source = the entry's override or the network address), with its own context -/
theorem C20_constructor_as_modelled : authorityBuildsEveryKnownEntry = true ∧ authorityUnitsHaveTheirOwnContext = true := by decide

end Glonax.Thm.C20
