import GlonaxModel.Lemmas.Session
/-! THEOREMS C04: frame boundaries hold — every segmentation, every signal interleaving, all 256 type
codes, payload lengths 1..1024. -/
namespace Glonax.Thm.C04
open Glonax Wire Sess Consts Spec.Sess

private theorem decSession_no_panic (b : List Nat) : decSession b ≠ .panic := by
  unfold decSession
  split
  · simp
  · split <;> simp

/-- the state the session core is in between frames -/
def idle (flags : Nat) : Core := { flags := flags }

/-- one well-formed frame, from an idle core: back to idle, with exactly the frame's own effect -/
theorem C04_one_frame (inst : Instance) (flags : Nat) (f : Frame) (hf : f.WF) :
    (feed inst (idle flags) f.bytes).1 = idle ((validUpgrade f).getD flags) ∧
    dispatched (feed inst (idle flags) f.bytes).2 = (validCommand f).toList ∧
    replies (feed inst (idle flags) f.bytes).2 = ((validUpgrade f).map fun _ => sendPacket (.inst inst)).toList ∧
    Out.panicked ∉ (feed inst (idle flags) f.bytes).2 := by
  obtain ⟨hty, h1, h2, hb⟩ := hf
  have hne : f.payload ≠ [] := by intro h; simp [h] at h1
  have hh := feed_header inst flags f.ty f.payload.length hty h1 h2
  have hpay := feed_payload inst { flags := flags, pay := some (payFor f.ty f.payload.length) }
    (payFor f.ty f.payload.length).kind (payFor f.ty f.payload.length).need [] f.payload rfl
    (by simp [payFor]; split <;> rfl) (by simp [payFor]; split <;> rfl) hne
  simp only [Frame.bytes, feed_append, idle, hh, hpay, List.nil_append]
  -- case analysis on the type code
  unfold payFor validCommand validUpgrade
  cases hk : serverKind? f.ty with
  | none =>
    have hns : f.ty ≠ msgTypeSession := by
      intro h; simp [serverKind?, h] at hk
    simp [complete, dispatched, replies, hns]
  | some k =>
    by_cases hs : k = .session
    · subst hs
      have hts : f.ty = msgTypeSession := by
        unfold serverKind? at hk
        by_cases h : f.ty = msgTypeSession
        · exact h
        · simp only [h, if_false] at hk
          repeat' split at hk
          all_goals simp at hk
      have hsz : sizeOk .session f.payload.length = true := by simp [sizeOk, Kind.msgSize, msgSizeSession]
      have hnp := decSession_no_panic f.payload
      simp only [hsz, if_true, complete, hts]
      cases hd : decSession f.payload with
      | ok v => simp [dispatched, replies]
      | err => simp [dispatched, replies]
      | panic => exact absurd hd hnp
    · have hns : f.ty ≠ msgTypeSession := by
        intro h; simp [serverKind?, h] at hk; exact hs hk.symm
      by_cases hsz : sizeOk k f.payload.length = true
      · have hnp : decode k f.payload ≠ .panic := by
          apply Thm.C13.C13_decode_no_panic k f.payload h1
          intro n hn
          simp [sizeOk, hn] at hsz
          omega
        have hc : complete inst { flags := flags } (some k) f.payload =
            match decode k f.payload with
            | .ok p => ({ flags := flags }, [.dispatch p])
            | .err => ({ flags := flags }, [])
            | .panic => ({ flags := flags, ended := true }, [.panicked]) := by
          cases k <;> first | exact absurd rfl hs | rfl
        simp only [hsz, if_true, hc, hs, if_false, hns]
        cases hd : decode k f.payload with
        | ok p => simp [dispatched, replies]
        | err => simp [dispatched, replies]
        | panic => exact absurd hd hnp
      · simp [hsz, complete, dispatched, replies, hs, hns]


theorem dispatched_append (a b : List Out) : dispatched (a ++ b) = dispatched a ++ dispatched b := by
  simp [dispatched, List.filterMap_append]
theorem replies_append (a b : List Out) : replies (a ++ b) = replies a ++ replies b := by
  simp [replies, List.filterMap_append]

theorem lastFlags_cons (flags : Nat) (f : Frame) (fs : List Frame) :
    lastFlags flags (f :: fs) = lastFlags ((validUpgrade f).getD flags) fs := by
  unfold lastFlags
  simp only [List.reverse_cons, List.findSome?_append]
  cases h : fs.reverse.findSome? validUpgrade <;> cases hv : validUpgrade f <;> simp [List.findSome?, hv]

/-- a stream of well-formed frames dispatches exactly the valid command frames, in order, ends idle
(so no payload byte was ever taken for a header), and a frame the daemon cannot use affects only itself -/
theorem C04_frames (inst : Instance) (flags : Nat) (fs : List Frame) (hf : ∀ f ∈ fs, f.WF) :
    (feed inst (idle flags) (fs.flatMap Frame.bytes)).1 = idle (lastFlags flags fs) ∧
    dispatched (feed inst (idle flags) (fs.flatMap Frame.bytes)).2 = fs.filterMap validCommand ∧
    replies (feed inst (idle flags) (fs.flatMap Frame.bytes)).2 =
      (fs.filterMap validUpgrade).map (fun _ => sendPacket (.inst inst)) ∧
    Out.panicked ∉ (feed inst (idle flags) (fs.flatMap Frame.bytes)).2 := by
  induction fs generalizing flags with
  | nil => simp [feed, lastFlags, dispatched, replies]
  | cons f rest ih =>
    obtain ⟨h1, h2, h3, h4⟩ := C04_one_frame inst flags f (hf f (by simp))
    obtain ⟨i1, i2, i3, i4⟩ := ih ((validUpgrade f).getD flags) (fun g hg => hf g (by simp [hg]))
    simp only [List.flatMap_cons, feed_append, h1, dispatched_append, replies_append, h2, h3, i1, i2, i3,
      lastFlags_cons, List.filterMap_cons]
    refine ⟨trivial, ?_, ?_, ?_⟩
    · cases validCommand f <;> simp
    · cases validUpgrade f <;> simp
    · simp only [List.mem_append, not_or]; exact ⟨h4, i4⟩

/-! ### independence of segmentation and of signal interleaving -/

private theorem recv_closed_only (r : Ring Packet) (n : Nat) (h : r.closed = false) :
    (r.recv n).1 ≠ Ring.Recv.closed := by
  unfold Ring.recv
  split
  · simp
  · split <;> simp [h]

private theorem flush_inert (s : St) (fuel : Nat) (h : s.ring.closed = false) :
    (flush s fuel).1.core = s.core ∧ (flush s fuel).1.ring = s.ring ∧ dispatched (flush s fuel).2 = [] ∧
    Out.panicked ∉ (flush s fuel).2 := by
  induction fuel generalizing s with
  | zero => simp [flush, dispatched]
  | succ n ih =>
    unfold flush
    by_cases hc : s.core.ended ∨ s.core.pay.isSome
    · simp [hc, dispatched]
    · simp only [hc, if_false]
      have hcl := recv_closed_only s.ring s.rxNext h
      cases hr : s.ring.recv s.rxNext with
      | mk res nx =>
        cases res with
        | ok v =>
          have := ih { s with rxNext := nx } h
          simp only [dispatched_append, this.1, this.2.1, this.2.2.1]
          refine ⟨trivial, trivial, ?_, ?_⟩
          · split <;> simp [dispatched]
          · simp only [List.mem_append, not_or]; refine ⟨?_, this.2.2.2⟩; split <;> simp
        | lagged k => exact ih { s with rxNext := nx } h
        | empty => simp [dispatched]
        | closed => rw [hr] at hcl; exact absurd rfl hcl

/-- the outcome depends only on the bytes: any two event lists (any chunking, any signals published
in between) that carry the same bytes dispatch the same commands and leave the same session state -/
theorem C04_chunking_core (inst : Instance) (s : St) (es : List Ev) (hes : onlyBytesAndSignals es = true)
    (h : s.ring.closed = false) :
    (run inst s es).1.core = (feed inst s.core (bytesOf es)).1 ∧
    dispatched (run inst s es).2 = dispatched (feed inst s.core (bytesOf es)).2 ∧
    (run inst s es).1.ring.closed = false := by
  induction es generalizing s with
  | nil => simp [run, feed, bytesOf, dispatched, h]
  | cons e rest ih =>
    have hrest : onlyBytesAndSignals rest = true := by
      simp only [onlyBytesAndSignals, List.all_cons, Bool.and_eq_true] at hes; exact hes.2
    by_cases hend : s.core.ended = true
    · -- an ended session ignores everything; so does an ended core
      have hstep : step inst s e = (s, []) := by simp [step, hend]
      have := ih s hrest h
      simp only [run, hstep, List.nil_append, this.1, this.2.1, this.2.2, feed_ended inst s.core hend, and_self]
    · have hend' : s.core.ended = false := by simpa using hend
      cases e with
      | bytes c =>
        have fi := flush_inert { s with core := (feed inst s.core c).1 } (s.ring.buf.length + 2) h
        have hstep : step inst s (.bytes c) =
            ((flushAll { s with core := (feed inst s.core c).1 }).1,
             (feed inst s.core c).2 ++ (flushAll { s with core := (feed inst s.core c).1 }).2) := by
          simp [step, hend']
        have ih' := ih (flushAll { s with core := (feed inst s.core c).1 }).1 hrest (by
          simp only [flushAll]; rw [fi.2.1]; exact h)
        simp only [flushAll] at ih' hstep
        simp only [run, hstep, bytesOf, feed_append, dispatched_append, ih'.1, ih'.2.1, ih'.2.2, fi.1, fi.2.2.1,
          List.append_nil, and_self]
      | signal o =>
        have hs : (s.ring.send o).closed = false := by
          unfold Ring.send; split <;> simp [h]
        have fi := flush_inert { s with ring := s.ring.send o } ((s.ring.send o).buf.length + 2) hs
        have hstep : step inst s (.signal o) = flushAll { s with ring := s.ring.send o } := by
          simp [step, hend']
        have ih' := ih (flushAll { s with ring := s.ring.send o }).1 hrest (by
          simp only [flushAll]; rw [fi.2.1]; exact hs)
        simp only [flushAll] at ih' hstep
        simp only [run, hstep, bytesOf, dispatched_append, ih'.1, ih'.2.1, ih'.2.2, fi.1, fi.2.2.1, List.nil_append,
          and_self]
      | close m => simp [onlyBytesAndSignals] at hes
      | signalsClosed => simp [onlyBytesAndSignals] at hes

theorem C04_chunking (inst : Instance) (es es' : List Ev) (h1 : onlyBytesAndSignals es = true)
    (h2 : onlyBytesAndSignals es' = true) (hb : bytesOf es = bytesOf es') :
    dispatched (run inst {} es).2 = dispatched (run inst {} es').2 ∧
    (run inst {} es).1.core = (run inst {} es').1.core := by
  have a := C04_chunking_core inst {} es h1 rfl
  have b := C04_chunking_core inst {} es' h2 rfl
  rw [a.1, a.2.1, b.1, b.2.1, hb]
  exact ⟨rfl, rfl⟩

/-- full statement: any chunking and signal interleaving of a stream of well-formed frames
dispatches exactly the valid command frames in order and never treats payload bytes as a header -/
theorem C04_stream (inst : Instance) (fs : List Frame) (hf : ∀ f ∈ fs, f.WF) (es : List Ev)
    (hes : onlyBytesAndSignals es = true) (hb : bytesOf es = fs.flatMap Frame.bytes) :
    dispatched (run inst {} es).2 = fs.filterMap validCommand ∧
    (run inst {} es).1.core = idle (lastFlags 0 fs) := by
  have a := C04_chunking_core inst {} es hes rfl
  have f := C04_frames inst 0 fs hf
  rw [a.1, a.2.1, hb]
  exact ⟨f.2.1, f.1⟩

/-- non-vacuity: the two situations that used to desynchronise the stream -/
example : let inst : Instance := { id := List.replicate 16 0, ty := .excavator, v0 := 3, v1 := 5, v2 := 13, model := [], serial := [] }
    dispatched (run inst {} [.bytes ((Frame.mk 0x99 [1, 2, 3]).bytes ++ (Frame.mk 0x20 [0]).bytes ++ (Frame.mk 0x45 [0x1E, 1]).bytes)]).2
      = [.motion .stopAll, .control (.machineHorn true)] := by decide
example : let inst : Instance := { id := List.replicate 16 0, ty := .excavator, v0 := 3, v1 := 5, v2 := 13, model := [], serial := [] }
    dispatched (run inst {} [.bytes [0x4C, 0x58, 0x52, 3, 0x20], .signal (.motion .resumeAll), .bytes [0, 1, 0, 0, 0, 0],
      .bytes (Frame.mk 0x20 [0]).bytes]).2 = [.motion .stopAll, .motion .stopAll] := by decide

/-! ### the translator tie: `UnixServer::parse` and the session loop as regenerated tables -/

/-- the model's `serverKind?` has a case exactly for the message types that have an arm in `UnixServer::parse` of the current
source; every such arm reads its payload with `recv_packet` of its own type and the catch-all arm drains the payload
(what the model's frame handling rests on) -/
theorem C04_parse_arms_as_modelled :
    (∀ ty, (serverKind? ty).isSome = serverArmTypes.contains ty) ∧
    serverArmsReadOwnPayload = true ∧ serverCatchAllDrains = true := by
  refine ⟨?_, by decide, by decide⟩
  intro ty
  unfold serverKind?
  by_cases h1 : ty = msgTypeSession
  · subst h1; decide
  · by_cases h2 : ty = msgTypeEngine
    · subst h2; decide
    · by_cases h3 : ty = msgTypeMotion
      · subst h3; decide
      · by_cases h4 : ty = msgTypeTarget
        · subst h4; decide
        · by_cases h5 : ty = msgTypeControl
          · subst h5; decide
          · have e1 : msgTypeSession = 16 := by decide
            have e2 : msgTypeEngine = 67 := by decide
            have e3 : msgTypeMotion = 32 := by decide
            have e4 : msgTypeTarget = 68 := by decide
            have e5 : msgTypeControl = 69 := by decide
            have et : serverArmTypes = [16, 67, 32, 68, 69] := by decide
            simp only [h1, h2, h3, h4, h5, if_false, Option.isSome_none, et]
            rw [e1] at h1; rw [e2] at h2; rw [e3] at h3; rw [e4] at h4; rw [e5] at h5
            simp [h1, h2, h3, h4, h5]

/-- the session loop of the current source has the shape the model's `close` / `signalsClosed` events stand for: exactly
the four read-error kinds of `CloseMode` leave the loop and no other error does, only a closed signal channel ends it
from the signal side, nothing returns out of the session function before the fail-safe block, that block sends
stop-all on the command channel when the session is a fail-safe one, and a connection starts with no flag set (the
model's initial state `{}`) -/
theorem C04_session_loop_as_modelled :
    sessionEndKinds = [1, 2, 3, 4] ∧ sessionOtherErrorsEnd = false ∧ sessionSignalClosedEnds = true ∧
    sessionLoopBreaks = 5 ∧ sessionReturnsBeforeFailsafe = 0 ∧ sessionFailsafeAfterLoop = true ∧
    sessionStartsUnregistered = true := by decide

end Glonax.Thm.C04
