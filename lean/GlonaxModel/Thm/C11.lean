import GlonaxModel.Thm.C12
/-! THEOREMS C11: bus frames are attributed only to the unit that sent them. -/
namespace Glonax.Thm.C11
open Glonax J1939 Drv Consts Spec.Drivers

def touched (r : RecvOut) : Bool := r.alive || r.rxLast.isSome

/-- parameter groups the engine driver reacts to are all broadcast (PDU2) groups -/
theorem ems_pgns_pdu2 : ∀ g ∈ pgnElectronicEngineController1 :: emsOtherPgns, g ≥ 61440 := by decide

private theorem vcu_guard (da : Nat) (f : Frame) (h : touched (vcuRecv da f) = true) :
    source f.id = da ∧ daGuard da f = true := by
  unfold vcuRecv at h
  by_cases g0 : daGuard da f = true
  · refine ⟨?_, g0⟩
    simp only [g0, Bool.not_true, Bool.false_eq_true, if_false] at h
    by_cases g1 : pgn f.id = pgnProprietarilyConfigurableMessage1 <;> by_cases g2 : pgn f.id = pgnSoftwareIdentification <;>
      by_cases g3 : pgn f.id = pgnAddressClaimed <;> by_cases g4 : pgn f.id = vcuStatusPgn <;>
      by_cases g5 : fromUnit da f = true <;> simp_all [touched, RecvOut.alive, fromUnit]
  · simp [g0, touched, RecvOut.alive] at h

private theorem ecu_guard (da : Nat) (f : Frame) (h : touched (ecuRecv da f) = true) :
    source f.id = da ∧ daGuard da f = true := by
  unfold ecuRecv at h
  by_cases g0 : daGuard da f = true
  · refine ⟨?_, g0⟩
    simp only [g0, Bool.not_true, Bool.false_eq_true, if_false] at h
    by_cases g2 : pgn f.id = pgnSoftwareIdentification <;> by_cases g3 : pgn f.id = pgnAddressClaimed <;>
      by_cases g5 : fromUnit da f = true <;> simp_all [touched, RecvOut.alive, fromUnit]
  · simp [g0, touched, RecvOut.alive] at h

private theorem encoder_guard (da : Nat) (f : Frame) (h : touched (encoderRecv da f) = true) :
    source f.id = da ∧ daGuard da f = true := by
  unfold encoderRecv at h
  by_cases g0 : daGuard da f = true
  · refine ⟨?_, g0⟩
    simp only [g0, Bool.not_true, Bool.false_eq_true, if_false] at h
    by_cases g2 : pgn f.id = encoderPgn <;> by_cases g3 : pgn f.id = pgnAddressClaimed <;>
      by_cases g5 : fromUnit da f = true <;> simp_all [touched, RecvOut.alive, fromUnit]
  · simp [g0, touched, RecvOut.alive] at h

private theorem inclino_guard (da : Nat) (f : Frame) (h : touched (inclinoRecv da f) = true) :
    source f.id = da ∧ daGuard da f = true := by
  unfold inclinoRecv at h
  by_cases g0 : daGuard da f = true
  · refine ⟨?_, g0⟩
    simp only [g0, Bool.not_true, Bool.false_eq_true, if_false] at h
    by_cases g2 : pgn f.id = inclinometerPgn <;> by_cases g3 : pgn f.id = pgnAddressClaimed <;>
      by_cases g5 : fromUnit da f = true <;> simp_all [touched, RecvOut.alive, fromUnit]
  · simp [g0, touched, RecvOut.alive] at h

private theorem hcu_guard (da : Nat) (f : Frame) (h : touched (hcuRecv da f) = true) :
    source f.id = da ∧ daGuard da f = true := by
  unfold hcuRecv at h
  cases hp : hcuParse da f with
  | none => simp [hp, touched, RecvOut.alive] at h
  | some m =>
    have hg : daGuard da f = true := by
      by_cases g0 : daGuard da f = true
      · exact g0
      · simp [hcuParse, g0] at hp
    refine ⟨?_, hg⟩
    have hp0 := hp
    unfold hcuParse at hp
    simp only [hg, Bool.not_true, Bool.false_eq_true, if_false] at hp
    cases m with
    | actuator => simp [hp0, touched, RecvOut.alive] at h
    | motionConfig l r => simp [hp0, touched, RecvOut.alive] at h
    | vecraftConfig => simp [hp0, touched, RecvOut.alive] at h
    | softId =>
      repeat' split at hp
      all_goals simp_all [fromUnit]
    | addressClaim =>
      repeat' split at hp
      all_goals simp_all [fromUnit]
    | status st lk =>
      repeat' split at hp
      all_goals simp_all [fromUnit]

private theorem ems_guard (da : Nat) (f : Frame) (h : touched (emsRecv da f) = true) :
    source f.id = da ∧ destination? f.id = none := by
  unfold emsRecv at h
  by_cases g0 : pgn f.id = pgnTorqueSpeedControl1
  · simp [g0, touched, RecvOut.alive] at h
  · simp only [g0, if_false] at h
    by_cases g1 : pgn f.id = pgnElectronicEngineController1
    · by_cases g5 : fromUnit da f = true
      · exact ⟨by simpa [fromUnit] using g5, Thm.C12.pgn_pdu2 f.id (ems_pgns_pdu2 _ (by simp [g1]))⟩
      · simp [g1, g5, touched, RecvOut.alive] at h
    · simp only [g1, if_false] at h
      by_cases g2 : pgn f.id ∈ emsOtherPgns
      · by_cases g5 : fromUnit da f = true
        · exact ⟨by simpa [fromUnit] using g5, Thm.C12.pgn_pdu2 f.id (ems_pgns_pdu2 _ (List.mem_cons_of_mem _ g2))⟩
        · simp [g2, g5, touched, RecvOut.alive] at h
      · simp [g2, touched, RecvOut.alive] at h

/-- C11: a frame produces a signal, an alive mark or a last-message update for a unit only if its
source address is that unit's configured address, and never when addressed to another node -/
theorem C11_source_guard (k : Kind) (hk : k ≠ .sim) (da : Nat) (f : Frame) (r : RecvOut)
    (h : tryRecv k da f = .ok r) (ht : touched r = true) :
    source f.id = da ∧ (match destination? f.id with | some d => d = da ∨ d = 255 | none => True) := by
  cases k with
  | sim => exact absurd rfl hk
  | vcu =>
    simp only [tryRecv, Outcome.ok.injEq] at h; subst h
    have := vcu_guard da f ht
    refine ⟨this.1, ?_⟩
    have g := this.2; unfold daGuard at g
    cases hd : destination? f.id <;> simp_all
  | hcu =>
    simp only [tryRecv, Outcome.ok.injEq] at h; subst h
    have := hcu_guard da f ht
    refine ⟨this.1, ?_⟩
    have g := this.2; unfold daGuard at g
    cases hd : destination? f.id <;> simp_all
  | ecu =>
    simp only [tryRecv, Outcome.ok.injEq] at h; subst h
    have := ecu_guard da f ht
    refine ⟨this.1, ?_⟩
    have g := this.2; unfold daGuard at g
    cases hd : destination? f.id <;> simp_all
  | encoder =>
    simp only [tryRecv, Outcome.ok.injEq] at h; subst h
    have := encoder_guard da f ht
    refine ⟨this.1, ?_⟩
    have g := this.2; unfold daGuard at g
    cases hd : destination? f.id <;> simp_all
  | inclino =>
    simp only [tryRecv, Outcome.ok.injEq] at h; subst h
    have := inclino_guard da f ht
    refine ⟨this.1, ?_⟩
    have g := this.2; unfold daGuard at g
    cases hd : destination? f.id <;> simp_all
  | d7e =>
    simp only [tryRecv, Outcome.ok.injEq] at h; subst h
    have := ems_guard da f ht
    exact ⟨this.1, by simp [this.2]⟩
  | ecm =>
    simp only [tryRecv, Outcome.ok.injEq] at h; subst h
    have := ems_guard da f ht
    exact ⟨this.1, by simp [this.2]⟩

/-- units with distinct addresses: one frame is credited to at most one of them -/
theorem C11_at_most_one (k1 k2 : Kind) (h1 : k1 ≠ .sim) (h2 : k2 ≠ .sim) (da1 da2 : Nat) (hne : da1 ≠ da2)
    (f : Frame) (r1 r2 : RecvOut) (e1 : tryRecv k1 da1 f = .ok r1) (e2 : tryRecv k2 da2 f = .ok r2) :
    ¬ (touched r1 = true ∧ touched r2 = true) := by
  intro ⟨t1, t2⟩
  have a := (C11_source_guard k1 h1 da1 f r1 e1 t1).1
  have b := (C11_source_guard k2 h2 da2 f r2 e2 t2).1
  omega

/-- parameter-group requests never change any unit's state -/
theorem C11_requests_inert (k : Kind) (da : Nat) (f : Frame) (r : RecvOut) (hp : pgn f.id = 59904)
    (h : tryRecv k da f = .ok r) : touched r = false := by
  have n1 : ¬ (59904 = pgnProprietarilyConfigurableMessage1) := by decide
  have n3 : ¬ (59904 = pgnProprietarilyConfigurableMessage3) := by decide
  have n4 : ¬ (59904 = pgnSoftwareIdentification) := by decide
  have n5 : ¬ (59904 = pgnAddressClaimed) := by decide
  have n6 : ¬ (59904 = vcuStatusPgn) := by decide
  have n7 : ¬ (59904 = hcuStatusPgn) := by decide
  have n8 : ¬ (59904 = hcuBankPgn0) := by decide
  have n9 : ¬ (59904 = hcuBankPgn1) := by decide
  have n10 : ¬ (59904 = encoderPgn) := by decide
  have n11 : ¬ (59904 = inclinometerPgn) := by decide
  have n12 : ¬ (59904 = pgnTorqueSpeedControl1) := by decide
  have n13 : ¬ (59904 = pgnElectronicEngineController1) := by decide
  have n14 : ¬ (59904 ∈ emsOtherPgns) := by decide
  have hh : ∀ d, hcuParse d f = none := by
    intro d; unfold hcuParse; simp only [hp, n1, n3, n4, n5, n7, n8, n9, if_false, or_self]; split <;> rfl
  cases k <;> simp only [tryRecv, Outcome.ok.injEq] at h <;> subst h
  · simp only [vcuRecv, hp, n1, n4, n5, n6, if_false]; split <;> rfl
  · simp [hcuRecv, hh, touched, RecvOut.alive]
  · simp [simRecv, hh, touched, RecvOut.alive]
  · simp [emsRecv, hp, n12, n13, n14, touched, RecvOut.alive]
  · simp only [inclinoRecv, hp, n5, n11, if_false]; split <;> rfl
  · simp [emsRecv, hp, n12, n13, n14, touched, RecvOut.alive]
  · simp only [ecuRecv, hp, n4, n5, if_false]; split <;> rfl
  · simp only [encoderRecv, hp, n5, n10, if_false]; split <;> rfl

/-- a published rotation names the unit as its source -/
theorem C11_signal_names_unit (k : Kind) (hk : k ≠ .sim) (da : Nat) (f : Frame) (r : RecvOut)
    (h : tryRecv k da f = .ok r) :
    ∀ s ∈ r.signals, (match s with | .rotRel x => x = da | .rotAbs x => x = da | _ => True) := by
  intro s hs
  have ht : touched r = true := by
    cases hr : r.signals with
    | nil => simp [hr] at hs
    | cons a b => simp [touched, RecvOut.alive, hr]
  have hsrc := (C11_source_guard k hk da f r h ht).1
  cases k <;> simp only [tryRecv, Outcome.ok.injEq] at h <;> subst h
  · have : (vcuRecv da f).signals = [] := by
      unfold vcuRecv; simp only []; repeat' split
      all_goals rfl
    rw [this] at hs; cases hs
  · unfold hcuRecv at hs
    cases hp : hcuParse da f with
    | none => simp [hp] at hs
    | some m => cases m <;> simp_all
  · exact absurd rfl hk
  · unfold emsRecv at hs
    by_cases g0 : pgn f.id = pgnTorqueSpeedControl1 <;> by_cases g1 : pgn f.id = pgnElectronicEngineController1 <;>
      by_cases g2 : pgn f.id ∈ emsOtherPgns <;> by_cases g5 : fromUnit da f = true <;> simp_all
  · unfold inclinoRecv at hs
    by_cases g0 : daGuard da f = true <;> by_cases g3 : pgn f.id = pgnAddressClaimed <;>
      by_cases g4 : pgn f.id = inclinometerPgn <;> by_cases g5 : fromUnit da f = true <;> simp_all
  · unfold emsRecv at hs
    by_cases g0 : pgn f.id = pgnTorqueSpeedControl1 <;> by_cases g1 : pgn f.id = pgnElectronicEngineController1 <;>
      by_cases g2 : pgn f.id ∈ emsOtherPgns <;> by_cases g5 : fromUnit da f = true <;> simp_all
  · have : (ecuRecv da f).signals = [] := by
      unfold ecuRecv; simp only []; repeat' split
      all_goals rfl
    rw [this] at hs; cases hs
  · unfold encoderRecv at hs
    by_cases g0 : daGuard da f = true <;> by_cases g3 : pgn f.id = pgnAddressClaimed <;>
      by_cases g4 : pgn f.id = encoderPgn <;> by_cases g5 : fromUnit da f = true <;> simp_all

/-! ### the translator tie: the drivers' `parse` functions as regenerated tables -/

private theorem vcu_arm (da : Nat) (f : Frame) (h : touched (vcuRecv da f) = true) : (pgn f.id, true) ∈ Kind.vcu.arms := by
  unfold vcuRecv at h
  by_cases g0 : daGuard da f = true
  · simp only [g0, Bool.not_true, Bool.false_eq_true, if_false] at h
    by_cases g1 : pgn f.id = pgnProprietarilyConfigurableMessage1 <;> by_cases g2 : pgn f.id = pgnSoftwareIdentification <;>
      by_cases g3 : pgn f.id = pgnAddressClaimed <;> by_cases g4 : pgn f.id = vcuStatusPgn <;>
      by_cases g5 : fromUnit da f = true <;> simp_all [touched, RecvOut.alive, fromUnit, Kind.arms]
  · simp [g0, touched, RecvOut.alive] at h

private theorem ecu_arm (da : Nat) (f : Frame) (h : touched (ecuRecv da f) = true) : (pgn f.id, true) ∈ Kind.ecu.arms := by
  unfold ecuRecv at h
  by_cases g0 : daGuard da f = true
  · simp only [g0, Bool.not_true, Bool.false_eq_true, if_false] at h
    by_cases g2 : pgn f.id = pgnSoftwareIdentification <;> by_cases g3 : pgn f.id = pgnAddressClaimed <;>
      by_cases g5 : fromUnit da f = true <;> simp_all [touched, RecvOut.alive, fromUnit, Kind.arms]
  · simp [g0, touched, RecvOut.alive] at h

private theorem encoder_arm (da : Nat) (f : Frame) (h : touched (encoderRecv da f) = true) : (pgn f.id, true) ∈ Kind.encoder.arms := by
  unfold encoderRecv at h
  by_cases g0 : daGuard da f = true
  · simp only [g0, Bool.not_true, Bool.false_eq_true, if_false] at h
    by_cases g2 : pgn f.id = encoderPgn <;> by_cases g3 : pgn f.id = pgnAddressClaimed <;>
      by_cases g5 : fromUnit da f = true <;> simp_all [touched, RecvOut.alive, fromUnit, Kind.arms]
  · simp [g0, touched, RecvOut.alive] at h

private theorem inclino_arm (da : Nat) (f : Frame) (h : touched (inclinoRecv da f) = true) : (pgn f.id, true) ∈ Kind.inclino.arms := by
  unfold inclinoRecv at h
  by_cases g0 : daGuard da f = true
  · simp only [g0, Bool.not_true, Bool.false_eq_true, if_false] at h
    by_cases g2 : pgn f.id = inclinometerPgn <;> by_cases g3 : pgn f.id = pgnAddressClaimed <;>
      by_cases g5 : fromUnit da f = true <;> simp_all [touched, RecvOut.alive, fromUnit, Kind.arms]
  · simp [g0, touched, RecvOut.alive] at h

private theorem hcu_arm (da : Nat) (f : Frame) (h : touched (hcuRecv da f) = true) : (pgn f.id, true) ∈ Kind.hcu.arms := by
  unfold hcuRecv at h
  cases hp : hcuParse da f with
  | none => simp [hp, touched, RecvOut.alive] at h
  | some m =>
    have hg : daGuard da f = true := by
      by_cases g0 : daGuard da f = true
      · exact g0
      · simp [hcuParse, g0] at hp
    have hp0 := hp
    unfold hcuParse at hp
    simp only [hg, Bool.not_true, Bool.false_eq_true, if_false] at hp
    cases m with
    | actuator => simp [hp0, touched, RecvOut.alive] at h
    | motionConfig l r => simp [hp0, touched, RecvOut.alive] at h
    | vecraftConfig => simp [hp0, touched, RecvOut.alive] at h
    | softId =>
      repeat' split at hp
      all_goals simp_all [Kind.arms]
    | addressClaim =>
      repeat' split at hp
      all_goals simp_all [Kind.arms]
    | status st lk =>
      repeat' split at hp
      all_goals simp_all [Kind.arms]

private theorem ems_arm (da : Nat) (f : Frame) (h : touched (emsRecv da f) = true) : (pgn f.id, true) ∈ Kind.ecm.arms := by
  unfold emsRecv at h
  by_cases g0 : pgn f.id = pgnTorqueSpeedControl1
  · simp [g0, touched, RecvOut.alive] at h
  · simp only [g0, if_false] at h
    by_cases g1 : pgn f.id = pgnElectronicEngineController1
    · simp [Kind.arms, g1]
    · simp only [g1, if_false] at h
      by_cases g2 : pgn f.id ∈ emsOtherPgns
      · simp only [Kind.arms, List.mem_cons, List.mem_map]
        exact Or.inr (Or.inr ⟨_, g2, rfl⟩)
      · simp [g2, touched, RecvOut.alive] at h

/-- whatever a driver of the model credits to its unit comes through an arm of its table that refuses foreign senders -/
theorem arms_sound (k : Kind) (hk : k ≠ .sim) (da : Nat) (f : Frame) (r : RecvOut)
    (h : tryRecv k da f = .ok r) (ht : touched r = true) : (pgn f.id, true) ∈ k.arms := by
  cases k with
  | sim => exact absurd rfl hk
  | vcu => simp only [tryRecv, Outcome.ok.injEq] at h; subst h; exact vcu_arm da f ht
  | hcu => simp only [tryRecv, Outcome.ok.injEq] at h; subst h; exact hcu_arm da f ht
  | ecu => simp only [tryRecv, Outcome.ok.injEq] at h; subst h; exact ecu_arm da f ht
  | encoder => simp only [tryRecv, Outcome.ok.injEq] at h; subst h; exact encoder_arm da f ht
  | inclino => simp only [tryRecv, Outcome.ok.injEq] at h; subst h; exact inclino_arm da f ht
  | d7e => simp only [tryRecv, Outcome.ok.injEq] at h; subst h; exact ems_arm da f ht
  | ecm => simp only [tryRecv, Outcome.ok.injEq] at h; subst h; exact ems_arm da f ht

def sameArms (a b : List (Nat × Bool)) : Bool := a.all (b.contains ·) && b.all (a.contains ·)

/-- THE TIE: the tables the translator reads off the drivers' `parse` functions in the current source (which parameter
groups have an arm, which arms return `None` for a foreign sender, whether the function starts with the destination
guard) are exactly the tables this model was written against -/
theorem C11_parse_tables_as_modelled :
    ∀ k ∈ Kind.all, sameArms (parseTable k) k.arms = true ∧ parseDaGuard k = k.daGuarded := by decide

/-- corollary on the regenerated tables alone: a frame is credited to a unit only through an arm of the CURRENT source's
`parse` that refuses foreign senders -/
theorem C11_credited_only_through_guarded_arms (k : Kind) (hk : k ≠ .sim) (da : Nat) (f : Frame) (r : RecvOut)
    (h : tryRecv k da f = .ok r) (ht : touched r = true) : (parseTable k).contains (pgn f.id, true) = true := by
  have hm := arms_sound k hk da f r h ht
  have hall : k ∈ Kind.all := by cases k <;> decide
  have hs := (C11_parse_tables_as_modelled k hall).1
  simp only [sameArms, Bool.and_eq_true, List.all_eq_true] at hs
  exact hs.2 _ hm

/-- the simulator driver, by design, credits frames of OTHER nodes (the daemon's own HCU commands) to its
virtual encoders: the full statement of C11 is false for it (recorded finding) -/
theorem C11_simulator_witness :
    let f : Frame := { id := 0x0CA04A27, data := [0, 1, 255, 255, 255, 255, 255, 255] }
    source f.id ≠ 0x6A ∧ (simRecv f).signals ≠ [] := by decide

end Glonax.Thm.C11
