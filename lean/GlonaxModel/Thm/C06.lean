import GlonaxModel.Thm.C11
import GlonaxModel.Thm.C08
import GlonaxModel.Thm.C01
import GlonaxModel.Model.Can
import GlonaxModel.Thm.C20
/-! THEOREMS C06: no CAN frame can crash reception; short frames are normalised. -/
namespace Glonax.Thm.C06
open Glonax J1939 Drv Consts

/-- drivers always see 8 bytes: the received bytes followed by 0xFF padding, for every DLC 0..8 -/
theorem C06_normalise (data : List Nat) (h : data.length ≤ 8) :
    (normalise data).length = 8 ∧ (normalise data).take data.length = data ∧
    ∀ x ∈ (normalise data).drop data.length, x = 255 := by
  have ht : data.take 8 = data := List.take_of_length_le h
  unfold normalise
  simp only [ht]
  refine ⟨by simp; omega, by simp, ?_⟩
  intro x hx
  simp at hx
  exact hx.2

/-- what reaches the drivers from the socket layer is always an 8-byte frame with a 29-bit identifier -/
theorem C06_network_delivers_8 (flt : Can.Filter) (raw : List Nat) (hdlc : raw.getD 4 0 ≤ 8) (out : Frame)
    (h : Can.netRecv flt raw = some out) : out.data.length = 8 ∧ out.id < 536870912 := by
  unfold Can.netRecv at h
  by_cases hm : flt.matches (Can.rxFrame raw).id = true
  · simp only [hm, if_true, Option.some.injEq] at h
    subst h
    refine ⟨?_, ?_⟩
    · simp only [Can.rxFrame]
      have : ((raw.drop 8).take (raw.getD 4 0)).take 8 = ((raw.drop 8).take (raw.getD 4 0)).take 8 := rfl
      exact (C06_normalise _ (by simp; omega)).1
    · simp only [Can.rxFrame]; omega
  · simp [hm] at h

/-- reception by any driver kind, for any unit address and any frame, never panics -/
theorem C06_driver_total (k : Kind) (da : Nat) (f : Frame) : tryRecv k da f ≠ .panic := by
  cases k <;> simp [tryRecv]

/-- a received frame never alters what the hydraulic driver re-asserts or accepts afterwards -/
theorem C06_hcu_keeps_working (da sa : Nat) (s : Hcu.St) (f : Frame) :
    (Hcu.step da sa s (.rx f)).1 = s ∧ (Hcu.step da sa s (.rx f)).2 = [] := by
  simp [Hcu.step]

/-- an engine status frame only updates the reported status; the next cycle still emits exactly one valid
speed-control frame (C08_history), whatever was received -/
theorem C06_engine_keeps_working (sa : Nat) (hsa : sa < 256) (h : List VolvoOp) :
    ((volvoStep sa (volvoFinal sa {} h) .tick).2).length = 1 ∧
    ((volvoStep sa (volvoFinal sa {} h) .tick).2).all (Spec.C08.frameValid sa) = true := by
  have := Thm.C08.C08_history sa hsa [.tick] h
  simp only [volvoRun, Spec.C08.walk, List.all_append, Bool.and_eq_true, Spec.C08.opClauses] at this
  refine ⟨by simp [volvoStep], ?_⟩
  have h1 := this.1
  simp only [List.all_cons, Bool.and_eq_true] at h1
  exact h1.1

/-- what the totality results above are ABOUT is the code of the current tree: the parameter groups each driver's `parse`
has an arm for, the arms that refuse foreign senders, the destination guard (C11) and the arms of the authority's request
responder with its own-address guard (C20), all regenerated from the source, are the ones of this model.  A new arm - in
a driver or in the responder - is code the theorems above do not cover, and breaks this obligation. -/
theorem C06_receive_paths_as_modelled :
    (∀ k ∈ Kind.all, Thm.C11.sameArms (parseTable k) k.arms = true ∧ parseDaGuard k = k.daGuarded) ∧
    ((servedRequestPgns.all ([pgnAddressClaimed, pgnSoftwareIdentification, pgnTimeDate].contains ·) &&
      [pgnAddressClaimed, pgnSoftwareIdentification, pgnTimeDate].all (servedRequestPgns.contains ·)) = true ∧
     requestOwnAddressGuard = true) :=
  ⟨Thm.C11.C11_parse_tables_as_modelled, Thm.C20.C20_served_requests_as_modelled⟩

/-- the request responder of the model answers or ignores every frame (it has no failing case), and what it hands on to
the drivers is exactly the frames that are not requests -/
theorem C06_responder_total (cfg : Auth.NetCfg) (f : Frame) :
    (pgn f.id = pgnRequest → ∃ fr, Auth.respond cfg f = some fr ∧ fr.length ≤ 1) ∧
    (pgn f.id ≠ pgnRequest → Auth.respond cfg f = none) := by
  constructor
  · intro hp
    rw [Thm.C20.C20_responder]
    simp only [hp, ne_eq, not_true_eq_false, if_false]
    repeat' split
    all_goals exact ⟨_, rfl, by simp⟩
  · intro hp
    simp [Auth.respond, hp]

/-- `ControlNetwork::recv` of the current source pads after copying (`copy_from_slice` then `set_len(8)`): what
`C06_network_delivers_8` is about -/
theorem C06_network_pads_after_copy : netRecvFiltersThenPadsTo8 = true := by decide

end Glonax.Thm.C06
