import GlonaxModel.Lemmas.Hcu
/-! THEOREMS C02: for every motion, change list (any length/order/duplicates), i16 value and (da, sa):
the frames of the model satisfy the Spec. -/
namespace Glonax.Thm.C02
open Glonax J1939 Consts Hcu Spec.C02

private theorem bankPgn0 : bankPgn 0 = 40960 := by decide
private theorem bankPgn1 : bankPgn 1 = 41216 := by decide

private theorem wantBytes_eq (o : Option Int) : wantBytes o = slotBytes o := by cases o <;> rfl

private theorem seg (A B C D : List Nat) (ha : A.length = 2) (hb : B.length = 2) (hc : C.length = 2)
    (hd : D.length = 2) :
    List.take 2 (List.drop 4 (A ++ (B ++ (C ++ D)))) = C ∧ List.take 2 (List.drop 6 (A ++ (B ++ (C ++ D)))) = D := by
  match A, ha, B, hb, C, hc, D, hd with
  | [_, _], _, [_, _], _, [_, _], _, [_, _], _ => simp

/-- generic statement for any slot assignment `w` -/
private theorem slots_generic (da sa : Nat) (hda : da < 256) (hsa : sa < 256) (w : Nat → Option Int) :
    let out := bankFrame da sa w 0 ++ bankFrame da sa w 1
    bankOk w out 0 = true ∧ bankOk w out 1 = true ∧
    out.all (fun f => pgn f.id = bankPgn 0 || pgn f.id = bankPgn 1) = true ∧
    (out.map fun f => pgn f.id) = (out.filter (fun f => pgn f.id = bankPgn 0)).map (fun f => pgn f.id) ++
                                  (out.filter (fun f => pgn f.id = bankPgn 1)).map (fun f => pgn f.id) := by
  have hr : List.range 4 = [0, 1, 2, 3] := by decide
  have p0 : pgn (buildId 3 40960 sa da) = 40960 :=
    pgn_buildId 3 40960 sa da (by omega) (by unfold Pdu1Group; decide) hsa hda
  have p1 : pgn (buildId 3 41216 sa da) = 41216 :=
    pgn_buildId 3 41216 sa da (by omega) (by unfold Pdu1Group; decide) hsa hda
  have hl := fun o => slotBytes_length o
  simp only [bankFrame_eq da sa w 0 (Or.inl rfl), bankFrame_eq da sa w 1 (Or.inr rfl)]
  unfold bankOk
  rw [hr]
  simp only [bankPgn0, bankPgn1]
  by_cases e0 : bankEmpty w 0 = true <;> by_cases e1 : bankEmpty w 1 = true <;>
    simp [e0, e1, p0, p1, hl, wantBytes_eq, seg _ _ _ _ (hl _) (hl _) (hl _) (hl _)]

theorem C02_slots_change (da sa : Nat) (hda : da < 256) (hsa : sa < 256) (cs : List (Actuator × Int)) :
    slotsOk (.change cs) (encodeMotion da sa (.change cs)) = true := by
  have hw : slotVal (cs.map (fun c => (c.1.id, c.2))) = lastVal cs := funext (slotVal_map cs)
  have g := slots_generic da sa hda hsa (lastVal cs)
  simp only [slotsOk, want, encodeMotion, actuatorCommand, hw]
  simp only [Bool.and_eq_true, decide_eq_true_eq]
  exact ⟨⟨⟨g.1, g.2.1⟩, g.2.2.1⟩, g.2.2.2⟩


/-- straight drive: the value sits in both track slots (LimpRight, LimpLeft), everything else FF FF -/
theorem C02_straight (da sa : Nat) (hda : da < 256) (hsa : sa < 256) (v : Int) :
    slotsOk (.straightDrive v) (encodeMotion da sa (.straightDrive v)) = true := by
  have hw : slotVal [(2, v), (3, v)] = want (.straightDrive v) := by
    funext i
    simp only [slotVal, want, List.foldl]
    have h2 : Actuator.limpRight.id = 2 := by decide
    have h3 : Actuator.limpLeft.id = 3 := by decide
    rw [h2, h3]
    by_cases a : i = 2 <;> by_cases b : i = 3 <;> simp [a, b, eq_comm] <;> omega
  have g := slots_generic da sa hda hsa (want (.straightDrive v))
  simp only [slotsOk, encodeMotion, actuatorCommand, hw]
  simp only [Bool.and_eq_true, decide_eq_true_eq]
  exact ⟨⟨⟨g.1, g.2.1⟩, g.2.2.1⟩, g.2.2.2⟩

/-- stop / resume / reset ↦ the motion-config frame with the right lock / reset byte -/
theorem C02_config (da sa : Nat) (hda : da < 256) (hsa : sa < 256) (m : Motion) :
    configOk m (encodeMotion da sa m) = true := by
  have pc : pgn (buildId 3 45824 sa da) = 45824 :=
    pgn_buildId 3 45824 sa da (by omega) (by unfold Pdu1Group; decide) hsa hda
  have hp : hcuMotionConfigPriority = 3 := by decide
  have hg : hcuMotionConfigPgn = 45824 := by decide
  cases m <;> simp [configOk, encodeMotion, lockFrame, unlockFrame, resetFrame, motionConfig, mkFrame, hp, hg, pc]

private theorem addr_frame (da sa g : Nat) (hda : da < 256) (hsa : sa < 256) (hg : Pdu1Group g)
    (hgs : g = 45824 ∨ g = 40960 ∨ g = 41216) (d : List Nat) :
    addressing da sa [{ id := buildId 3 g sa da, data := d }] = true := by
  have h1 := priority_buildId 3 g sa da (by omega) hg hsa hda
  have h2 := destination_buildId 3 g sa da (by omega) hg hsa hda
  have h3 := source_buildId 3 g sa da (by omega) hg hsa hda
  have h4 := pgn_buildId 3 g sa da (by omega) hg hsa hda
  have h5 := buildId_lt 3 g sa da (by omega) hg hsa hda
  simp [addressing, h1, h2, h3, h4, h5]
  rcases hgs with h | h | h <;> simp [h]

private theorem addressing_append (da sa : Nat) (a b : List Frame) :
    addressing da sa (a ++ b) = (addressing da sa a && addressing da sa b) := by
  simp [addressing, List.all_append]

private theorem addr_bank (da sa : Nat) (hda : da < 256) (hsa : sa < 256) (w : Nat → Option Int) (b : Nat)
    (hb : b = 0 ∨ b = 1) : addressing da sa (bankFrame da sa w b) = true := by
  rw [bankFrame_eq da sa w b hb]
  split
  · simp [addressing]
  · rcases hb with rfl | rfl
    · exact addr_frame da sa _ hda hsa (by unfold Pdu1Group; decide) (by decide) _
    · exact addr_frame da sa _ hda hsa (by unfold Pdu1Group; decide) (by decide) _

/-- every emitted frame: priority 3, destination = unit, source = daemon, PGN ∈ {45824, 40960, 41216} -/
theorem C02_addressing (da sa : Nat) (hda : da < 256) (hsa : sa < 256) (m : Motion) :
    addressing da sa (encodeMotion da sa m) = true := by
  have hp : hcuMotionConfigPriority = 3 := by decide
  have hg : hcuMotionConfigPgn = 45824 := by decide
  have cfg : ∀ l r, addressing da sa [motionConfig da sa l r] = true := by
    intro l r
    unfold motionConfig mkFrame
    rw [hp, hg]
    exact addr_frame da sa 45824 hda hsa (by unfold Pdu1Group; decide) (by decide) _
  cases m with
  | stopAll => exact cfg _ _
  | resumeAll => exact cfg _ _
  | resetAll => exact cfg _ _
  | straightDrive v =>
    simp only [encodeMotion, actuatorCommand, addressing_append, Bool.and_eq_true]
    exact ⟨addr_bank da sa hda hsa _ 0 (Or.inl rfl), addr_bank da sa hda hsa _ 1 (Or.inr rfl)⟩
  | change cs =>
    simp only [encodeMotion, actuatorCommand, addressing_append, Bool.and_eq_true]
    exact ⟨addr_bank da sa hda hsa _ 0 (Or.inl rfl), addr_bank da sa hda hsa _ 1 (Or.inr rfl)⟩


/-! ### decode ∘ encode -/
private def sbLo : Option Int → Nat | none => 255 | some v => u16OfI16 v % 256
private def sbHi : Option Int → Nat | none => 255 | some v => u16OfI16 v / 256
private theorem slotBytes_eq (o : Option Int) : slotBytes o = [sbLo o, sbHi o] := by
  cases o <;> rfl
private def decSlot (lo hi : Nat) : Option Int :=
  if lo = 255 ∧ hi = 255 then none else some (i16OfU16 (lo + 256 * hi))

private theorem decSlot_sb (o : Option Int) (h : ∀ v, o = some v → InI16 v) :
    decSlot (sbLo o) (sbHi o) = readBack o := by
  cases o with
  | none => simp [decSlot, sbLo, sbHi, readBack]
  | some v =>
    have hv := h v rfl
    have hu := u16OfI16_lt v
    have hr := i16_roundtrip v hv
    have hm := u16OfI16_eq_65535_iff v hv
    have hsum : u16OfI16 v % 256 + 256 * (u16OfI16 v / 256) = u16OfI16 v := by omega
    simp only [decSlot, sbLo, sbHi, hsum, hr]
    by_cases e : v = -1
    · subst e; simp [readBack, u16OfI16]
    · have : ¬ (u16OfI16 v % 256 = 255 ∧ u16OfI16 v / 256 = 255) := by
        intro ⟨a, b⟩; exact e (hm.mp (by omega))
      simp only [this, if_false]
      unfold readBack
      split
      · rename_i h; cases h; exact absurd rfl e
      · rfl

private theorem decode_bank0 (id : Nat) (hp : pgn id = 40960) (a b c d : Option Int) :
    decodeActuators { id := id, data := slotBytes a ++ (slotBytes b ++ (slotBytes c ++ slotBytes d)) } =
      [decSlot (sbLo a) (sbHi a), decSlot (sbLo b) (sbHi b), decSlot (sbLo c) (sbHi c), decSlot (sbLo d) (sbHi d),
       none, none, none, none] := by
  have h0 : hcuBankPgn0 = 40960 := by decide
  simp [decodeActuators, hp, h0, slotBytes_eq, decSlot]

private theorem decode_bank1 (id : Nat) (hp : pgn id = 41216) (a b c d : Option Int) :
    decodeActuators { id := id, data := slotBytes a ++ (slotBytes b ++ (slotBytes c ++ slotBytes d)) } =
      [none, none, none, none,
       decSlot (sbLo a) (sbHi a), decSlot (sbLo b) (sbHi b), decSlot (sbLo c) (sbHi c), decSlot (sbLo d) (sbHi d)] := by
  have h0 : hcuBankPgn0 = 40960 := by decide
  have h1 : hcuBankPgn1 = 41216 := by decide
  simp [decodeActuators, hp, h0, h1, slotBytes_eq, decSlot]

private theorem fs1 {α β : Type} (g : α → Option β) (a : α) : List.findSome? g [a] = g a := by
  simp [List.findSome?]; cases g a <;> simp
private theorem fs2 {α β : Type} (g : α → Option β) (a b : α) : List.findSome? g [a, b] = (g a).or (g b) := by
  simp [List.findSome?]; cases g a <;> cases g b <;> simp

private theorem decode_generic (da sa : Nat) (hda : da < 256) (hsa : sa < 256) (w : Nat → Option Int)
    (hw : ∀ i v, w i = some v → InI16 v) :
    let out := bankFrame da sa w 0 ++ bankFrame da sa w 1
    (out.map decodeActuators).length = out.length ∧
    (List.range 8).all (fun i =>
      decide (((out.map decodeActuators).filterMap (fun d => d.getD i none)).head? = readBack (w i))) = true := by
  have hr : List.range 8 = [0, 1, 2, 3, 4, 5, 6, 7] := by decide
  have hr4 : List.range 4 = [0, 1, 2, 3] := by decide
  have p0 : pgn (buildId 3 40960 sa da) = 40960 :=
    pgn_buildId 3 40960 sa da (by omega) (by unfold Pdu1Group; decide) hsa hda
  have p1 : pgn (buildId 3 41216 sa da) = 41216 :=
    pgn_buildId 3 41216 sa da (by omega) (by unfold Pdu1Group; decide) hsa hda
  have ds := fun i => decSlot_sb (w i) (hw i)
  simp only [bankFrame_eq da sa w 0 (Or.inl rfl), bankFrame_eq da sa w 1 (Or.inr rfl), bankPgn0, bankPgn1]
  refine ⟨by simp, ?_⟩
  rw [hr]
  by_cases e0 : bankEmpty w 0 = true <;> by_cases e1 : bankEmpty w 1 = true
  · have e0' := e0
    have e1' := e1
    simp only [bankEmpty, hr4, List.all_cons, List.all_nil, Bool.and_true, Bool.and_eq_true,
      Option.isNone_iff_eq_none] at e0' e1'
    simp [e0, e1, e0', e1', readBack]
  · have e0' := e0
    simp only [bankEmpty, hr4, List.all_cons, List.all_nil, Bool.and_true, Bool.and_eq_true,
      Option.isNone_iff_eq_none] at e0'
    simp [e0, e1, decode_bank1 _ p1, ds, fs1, e0']
    simp [readBack]
  · have e1' := e1
    simp only [bankEmpty, hr4, List.all_cons, List.all_nil, Bool.and_true, Bool.and_eq_true,
      Option.isNone_iff_eq_none] at e1'
    simp [e0, e1, decode_bank0 _ p0, ds, fs1, e1']
    simp [readBack]
  · simp [e0, e1, decode_bank0 _ p0, decode_bank1 _ p1, ds, fs2]

/-- decoding what was emitted gives the commanded values back (−1 reads as not-available) -/
theorem C02_roundtrip (da sa : Nat) (hda : da < 256) (hsa : sa < 256) (m : Motion)
    (hv : match m with
          | .straightDrive v => InI16 v
          | .change cs => ∀ c ∈ cs, InI16 c.2
          | _ => True) :
    decodeOk m (encodeMotion da sa m) ((encodeMotion da sa m).map decodeActuators) = true := by
  cases m with
  | stopAll => rfl
  | resumeAll => rfl
  | resetAll => rfl
  | straightDrive v =>
    have hw : slotVal [(2, v), (3, v)] = want (.straightDrive v) := by
      funext i
      simp only [slotVal, want, List.foldl]
      have h2 : Actuator.limpRight.id = 2 := by decide
      have h3 : Actuator.limpLeft.id = 3 := by decide
      rw [h2, h3]
      by_cases a : i = 2 <;> by_cases b : i = 3 <;> simp [a, b, eq_comm] <;> omega
    have hin : ∀ i x, want (.straightDrive v) i = some x → InI16 x := by
      intro i x h
      simp only [want] at h
      split at h
      · cases h; exact hv
      · cases h
    have g := decode_generic da sa hda hsa (want (.straightDrive v)) hin
    simp only [decodeOk, encodeMotion, actuatorCommand, hw, Bool.and_eq_true, decide_eq_true_eq]
    exact ⟨g.1, g.2⟩
  | change cs =>
    have hw : slotVal (cs.map (fun c => (c.1.id, c.2))) = lastVal cs := funext (slotVal_map cs)
    have hin : ∀ i x, lastVal cs i = some x → InI16 x := by
      intro i x h
      unfold lastVal at h
      cases hf : cs.reverse.find? (fun c => decide (c.1.id = i)) with
      | none => simp [hf] at h
      | some c =>
        simp [hf] at h
        have := List.mem_of_find?_eq_some hf
        subst h
        exact hv c (by simpa using this)
    have g := decode_generic da sa hda hsa (lastVal cs) hin
    simp only [decodeOk, want, encodeMotion, actuatorCommand, hw, Bool.and_eq_true, decide_eq_true_eq]
    exact ⟨g.1, g.2⟩

/-- The excluded value is necessary: −1 is indistinguishable from "not commanded" on the wire. -/
theorem C02_excluded_value :
    encodeMotion 0x4A 0x27 (.change [(.boom, -1), (.slew, 5)]) = encodeMotion 0x4A 0x27 (.change [(.slew, 5)]) := by
  decide

/-- every Spec clause holds of the model's frames (and of the model's decoding of them) -/
theorem C02_spec (da sa : Nat) (hda : da < 256) (hsa : sa < 256) (m : Motion)
    (hv : match m with
          | .straightDrive v => InI16 v
          | .change cs => ∀ c ∈ cs, InI16 c.2
          | _ => True) :
    (clauses da sa m (encodeMotion da sa m) ((encodeMotion da sa m).map decodeActuators)).all (·.2) = true := by
  have h1 := C02_addressing da sa hda hsa m
  have h2 := C02_config da sa hda hsa m
  have h4 := C02_roundtrip da sa hda hsa m hv
  have h3 : slotsOk m (encodeMotion da sa m) = true := by
    cases m with
    | stopAll => rfl
    | resumeAll => rfl
    | resetAll => rfl
    | straightDrive v => exact C02_straight da sa hda hsa v
    | change cs => exact C02_slots_change da sa hda hsa cs
  simp [clauses, h1, h2, h3, h4]

/-- non-vacuity: a 3-entry change with a duplicate, both banks used -/
example : encodeMotion 0x4A 0x27 (.change [(.boom, 100), (.arm, -200), (.boom, -32768)]) =
    [{ id := 0x0CA04A27, data := [0x00, 0x80, 255, 255, 255, 255, 255, 255] },
     { id := 0x0CA14A27, data := [0x38, 0xFF, 255, 255, 255, 255, 255, 255] }] := by decide

/-- the encoder these theorems are about dispatches each motion variant to the emitter the current source dispatches it to,
in `trigger` and in `tick` alike (tables regenerated from hydraulic.rs on every run) -/
theorem C02_dispatch_translated (m : Motion) :
    Consts.hcuTriggerArms.contains (Hcu.armRow m) = true ∧ Consts.hcuTickArms.contains (Hcu.armRow m) = true := by
  cases m <;> simp only [Hcu.armRow] <;> exact ⟨by decide, by decide⟩

/-- an accepted command reaches the network: the command task the frames are emitted from holds its receiver from the
scheduling call on and handles every `Ok` (shape regenerated from runtime/mod.rs on every run) -/
theorem C02_command_task_as_modelled :
    Consts.cmdTaskOkDispatches = true ∧ Consts.cmdTaskLaggedContinues = true ∧
    Consts.cmdRxSubscribedAtScheduling = true := by decide

end Glonax.Thm.C02
