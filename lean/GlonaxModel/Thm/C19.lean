import GlonaxModel.Model.Kinematics
import GlonaxModel.Thm.C13
import Mathlib.Tactic.Linarith
import Mathlib.Tactic.Ring
import Mathlib.Tactic.FieldSimp
import Mathlib.Tactic.Positivity
import Mathlib.Algebra.Order.Floor.Ring
import Mathlib.Data.Rat.Floor
/-! THEOREMS C19 (partial by nature): the control maths over exact rationals.  The f32 code is tied to these
functions by the sampled correspondence only (rounding, `acos`, nalgebra are outside the theorems). -/
namespace Glonax.Thm.C19
open Glonax Kin

theorem floor_eq (q : ℚ) : Rat.floor q = ⌊q⌋ := rfl

theorem trunc_nonneg (q : ℚ) (h : 0 ≤ q) : trunc q = ⌊q⌋ := by
  unfold trunc; rw [if_pos h]; rfl

/-- for a non-negative dividend `%` is the mathematical remainder -/
theorem frem_range (x m : ℚ) (hx : 0 ≤ x) (hm : 0 < m) :
    0 ≤ frem x m ∧ frem x m < m ∧ frem x m = x - m * (⌊x / m⌋ : ℤ) := by
  have hq : 0 ≤ x / m := div_nonneg hx hm.le
  have ht := trunc_nonneg (x / m) hq
  unfold frem; rw [ht]
  have h1 := Int.floor_le (x / m)
  have h2 := Int.lt_floor_add_one (x / m)
  have hx' : x = m * (x / m) := by field_simp
  refine ⟨?_, ?_, rfl⟩
  · nlinarith
  · nlinarith

/-- C19 (shortest rotation): for any difference not below −2π the result lies in (−π, π] and is congruent to
the argument modulo 2π (π any positive number) -/
theorem C19_shortest_range_congruent (P d : ℚ) (hP : 0 < P) (hd : -(2 * P) ≤ d) :
    -P < shortestRotation P d ∧ shortestRotation P d ≤ P ∧ ∃ k : ℤ, shortestRotation P d = d + 2 * P * k := by
  have hr := frem_range (d + 2 * P) (2 * P) (by linarith) (by linarith)
  obtain ⟨h0, h1, h2⟩ := hr
  unfold shortestRotation
  simp only []
  by_cases hn : frem (d + 2 * P) (2 * P) > P
  · rw [if_pos hn]
    refine ⟨by linarith, by linarith, ⟨-⌊(d + 2 * P) / (2 * P)⌋, ?_⟩⟩
    rw [h2]; push_cast; ring
  · rw [if_neg hn]
    refine ⟨by linarith, by linarith, ⟨1 - ⌊(d + 2 * P) / (2 * P)⌋, ?_⟩⟩
    rw [h2]; push_cast; ring

/-- why the guard is needed: below −2π the helper leaves the range (the remainder keeps the dividend's sign) -/
theorem C19_shortest_guard_needed : shortestRotation 1 (-(7 / 2)) = -(3 / 2) := by
  have ht : trunc ((-(7 / 2) + 2 * 1) / (2 * 1) : ℚ) = 0 := by
    unfold trunc
    rw [if_neg (by norm_num), floor_eq]
    have : ⌊-((-(7 / 2) + 2 * 1) / (2 * 1) : ℚ)⌋ = 0 := by rw [Int.floor_eq_iff]; norm_num
    rw [this]; rfl
  unfold shortestRotation frem
  rw [ht]
  norm_num

/-- C19 (law of cosines): for positive sides a, b and c ≥ 0 the argument of `acos` lies in [−1, 1] — the helper
returns an angle rather than NaN — exactly when a triangle with these sides exists -/
theorem C19_triangle_iff (a b c : ℚ) (ha : 0 < a) (hb : 0 < b) (hc : 0 ≤ c) :
    (-1 ≤ cosArg a b c ∧ cosArg a b c ≤ 1) ↔ (|a - b| ≤ c ∧ c ≤ a + b) := by
  have hab : 0 < 2 * a * b := by positivity
  unfold cosArg
  rw [le_div_iff₀ hab, div_le_iff₀ hab, abs_le]
  constructor
  · rintro ⟨h1, h2⟩
    refine ⟨⟨?_, ?_⟩, ?_⟩
    · by_contra hcon; push_neg at hcon; nlinarith
    · by_contra hcon; push_neg at hcon; nlinarith
    · by_contra hcon; push_neg at hcon; nlinarith
  · rintro ⟨⟨h1, h2⟩, h3⟩
    constructor <;> nlinarith

/-- the argument is the cosine the law of cosines prescribes: c² = a² + b² − 2ab·cosArg -/
theorem C19_law (a b c : ℚ) (ha : a ≠ 0) (hb : b ≠ 0) : c * c = a * a + b * b - 2 * a * b * cosArg a b c := by
  unfold cosArg; field_simp; ring

/-! ### motion profiles -/

theorem absR_eq (q : ℚ) : absR q = |q| := by
  unfold absR; split
  · rw [abs_of_nonneg ‹_›]
  · rw [abs_of_neg (by linarith)]

theorem round_range (q : ℚ) (h0 : 0 ≤ q) (h1 : q ≤ 32767) : 0 ≤ roundHalfAway q ∧ roundHalfAway q ≤ 32767 := by
  unfold roundHalfAway; rw [if_pos h0, floor_eq]
  constructor
  · exact Int.floor_nonneg.mpr (by linarith)
  · have : ⌊q + 1 / 2⌋ < 32768 := by
      rw [Int.floor_lt]; push_cast; linarith
    omega

theorem round_mono (p q : ℚ) (hp : 0 ≤ p) (h : p ≤ q) : roundHalfAway p ≤ roundHalfAway q := by
  unfold roundHalfAway; rw [if_pos hp, if_pos (le_trans hp h), floor_eq, floor_eq]
  exact Int.floor_le_floor (by linarith)

theorem sat_id (z : ℤ) (h0 : -32768 ≤ z) (h1 : z ≤ 32767) : satI16 z = z := by
  unfold satI16; omega

/-- the magnitude the deadbanded profile commands for |delta| = x -/
def mag (offset scale x : ℚ) : ℤ :=
  satI16 (roundHalfAway ((if x * scale ≤ 32767 - offset then x * scale else 32767 - offset) + offset))

theorem mag_range (offset scale x : ℚ) (ho : 0 ≤ offset) (ho' : offset ≤ 32767) (hs : 0 ≤ scale) (hx : 0 ≤ x) :
    0 ≤ mag offset scale x ∧ mag offset scale x ≤ 32767 := by
  unfold mag
  have hxs : 0 ≤ x * scale := mul_nonneg hx hs
  have hq : 0 ≤ (if x * scale ≤ 32767 - offset then x * scale else 32767 - offset) + offset ∧
      (if x * scale ≤ 32767 - offset then x * scale else 32767 - offset) + offset ≤ 32767 := by
    split <;> constructor <;> linarith
  have hr := round_range _ hq.1 hq.2
  rw [sat_id _ (by omega) hr.2]; exact hr

theorem mag_mono (offset scale x y : ℚ) (ho : 0 ≤ offset) (ho' : offset ≤ 32767) (hs : 0 ≤ scale) (hx : 0 ≤ x) (h : x ≤ y) :
    mag offset scale x ≤ mag offset scale y := by
  have hxs : 0 ≤ x * scale := mul_nonneg hx hs
  have hxy : x * scale ≤ y * scale := mul_le_mul_of_nonneg_right h hs
  have key : (if x * scale ≤ 32767 - offset then x * scale else 32767 - offset) + offset ≤
      (if y * scale ≤ 32767 - offset then y * scale else 32767 - offset) + offset := by
    split <;> split <;> linarith
  have hq0 : 0 ≤ (if x * scale ≤ 32767 - offset then x * scale else 32767 - offset) + offset := by
    split <;> linarith
  have hr := round_mono _ _ hq0 key
  have r1 := mag_range offset scale x ho ho' hs hx
  have r2 := mag_range offset scale y ho ho' hs (le_trans hx h)
  unfold mag at *
  unfold satI16 at *
  omega

/-- the deadbanded profile in closed form under its contract (0 ≤ offset ≤ 32767, scale ≥ 0): no overflow, and the
value is the magnitude with the sign opposing the error (unless inverted) -/
theorem linearMotion_closed (delta lb offset scale : ℚ) (neg inverse : Bool)
    (ho : 0 ≤ offset) (ho' : offset ≤ 32767) (hs : 0 ≤ scale) :
    linearMotion delta lb offset scale neg inverse =
      if |delta| < lb then .none
      else .some ((if neg = inverse then -1 else 1) * mag offset scale |delta|) := by
  have hm := mag_range offset scale |delta| ho ho' hs (abs_nonneg _)
  unfold linearMotion
  rw [absR_eq]
  by_cases hd : |delta| < lb
  · simp [hd]
  · simp only [hd, if_false]
    change (if inverse = true then
        match (if neg = true then Res.some (mag offset scale |delta|) else negI16 (mag offset scale |delta|)) with
        | Res.some w => negI16 w
        | r => r
      else if neg = true then Res.some (mag offset scale |delta|) else negI16 (mag offset scale |delta|)) = _
    have hn1 : negI16 (mag offset scale |delta|) = .some (-(mag offset scale |delta|)) := by
      unfold negI16; rw [if_neg (by omega)]
    have hn2 : negI16 (-(mag offset scale |delta|)) = .some (mag offset scale |delta|) := by
      unfold negI16; rw [if_neg (by omega)]; simp
    cases neg <;> cases inverse <;> simp [hn1, hn2]

/-- C19 (deadband): the deadbanded profile yields no value exactly inside its deadband -/
theorem C19_deadband_none (delta lb offset scale : ℚ) (neg inverse : Bool) :
    linearMotion delta lb offset scale neg inverse = .none ↔ |delta| < lb := by
  unfold linearMotion
  rw [absR_eq]
  by_cases hd : |delta| < lb
  · simp [hd]
  · simp only [hd, if_false, iff_false]
    cases neg <;> cases inverse <;> simp [negI16] <;> (repeat' split) <;> simp_all

/-- C19 (saturation): under the contract the commanded value stays within the signed 16-bit limits, never wraps -/
theorem C19_profile_saturates (delta lb offset scale : ℚ) (neg inverse : Bool)
    (ho : 0 ≤ offset) (ho' : offset ≤ 32767) (hs : 0 ≤ scale) :
    linearMotion delta lb offset scale neg inverse ≠ .panic ∧
    ∀ v, linearMotion delta lb offset scale neg inverse = .some v → -32767 ≤ v ∧ v ≤ 32767 := by
  rw [linearMotion_closed delta lb offset scale neg inverse ho ho' hs]
  have hm := mag_range offset scale |delta| ho ho' hs (abs_nonneg _)
  constructor
  · split <;> simp
  · intro v hv
    split at hv
    · cases hv
    · simp only [Res.some.injEq] at hv
      subst hv
      split <;> omega

/-- C19 (sign): the value opposes the sign of the error unless inverted -/
theorem C19_profile_sign (delta lb offset scale : ℚ) (inverse : Bool)
    (ho : 0 ≤ offset) (ho' : offset ≤ 32767) (hs : 0 ≤ scale) (v : ℤ)
    (h : linearMotion delta lb offset scale (decide (delta < 0)) inverse = .some v) :
    (inverse = false → (0 < delta → v ≤ 0) ∧ (delta < 0 → 0 ≤ v)) ∧
    (inverse = true → (0 < delta → 0 ≤ v) ∧ (delta < 0 → v ≤ 0)) := by
  rw [linearMotion_closed delta lb offset scale _ inverse ho ho' hs] at h
  have hm := mag_range offset scale |delta| ho ho' hs (abs_nonneg _)
  split at h
  · cases h
  · simp only [Res.some.injEq] at h
    subst h
    constructor
    · intro hi; subst hi
      constructor
      · intro hpos
        have : ¬ delta < 0 := by linarith
        simp [this]; omega
      · intro hneg
        simp [hneg]; omega
    · intro hi; subst hi
      constructor
      · intro hpos
        have : ¬ delta < 0 := by linarith
        simp [this]; omega
      · intro hneg
        simp [hneg]; omega

/-- C19 (monotone): outside the deadband the (non-inverted) value never increases with the error -/
theorem C19_profile_monotone (d1 d2 lb offset scale : ℚ) (ho : 0 ≤ offset) (ho' : offset ≤ 32767) (hs : 0 ≤ scale)
    (h12 : d1 ≤ d2) (v1 v2 : ℤ)
    (h1 : linearMotion d1 lb offset scale (decide (d1 < 0)) false = .some v1)
    (h2 : linearMotion d2 lb offset scale (decide (d2 < 0)) false = .some v2) : v2 ≤ v1 := by
  rw [linearMotion_closed d1 lb offset scale _ false ho ho' hs] at h1
  rw [linearMotion_closed d2 lb offset scale _ false ho ho' hs] at h2
  have hm1 := mag_range offset scale |d1| ho ho' hs (abs_nonneg _)
  have hm2 := mag_range offset scale |d2| ho ho' hs (abs_nonneg _)
  split at h1
  · cases h1
  split at h2
  · cases h2
  simp only [Res.some.injEq] at h1 h2
  subst h1; subst h2
  by_cases n1 : d1 < 0 <;> by_cases n2 : d2 < 0
  · -- both negative: |d2| ≤ |d1|
    have : |d2| ≤ |d1| := by rw [abs_of_neg n1, abs_of_neg n2]; linarith
    have := mag_mono offset scale |d2| |d1| ho ho' hs (abs_nonneg _) this
    simp [n1, n2]; omega
  · simp [n1, n2]; omega
  · exfalso; linarith
  · have : |d1| ≤ |d2| := by rw [abs_of_nonneg (by linarith), abs_of_nonneg (by linarith)]; exact h12
    have := mag_mono offset scale |d1| |d2| ho ho' hs (abs_nonneg _) this
    simp [n1, n2]; omega

/-- C19 (saturation, any gains): whatever the offset and scale — negative, beyond the i16 span — the profile never
crashes and its value stays within the signed 16-bit limits (the negations saturate) -/
theorem C19_profile_saturates_any_gain (delta lb offset scale : ℚ) (neg inverse : Bool) :
    linearMotion delta lb offset scale neg inverse ≠ .panic ∧
    ∀ v, linearMotion delta lb offset scale neg inverse = .some v → -32768 ≤ v ∧ v ≤ 32767 := by
  have hs : ∀ z, -32768 ≤ satI16 z ∧ satI16 z ≤ 32767 := by intro z; unfold satI16; omega
  by_cases hd : absR delta < lb
  · simp [linearMotion, hd]
  · have key : ∃ dn : ℤ, -32768 ≤ dn ∧ dn ≤ 32767 ∧ linearMotion delta lb offset scale neg inverse =
        (if inverse = true then
          (match (if neg = true then Res.some dn else negI16 dn) with
           | Res.some w => negI16 w
           | r => r)
         else (if neg = true then Res.some dn else negI16 dn)) := by
      refine ⟨satI16 (roundHalfAway ((if absR delta * scale ≤ 32767 - offset then absR delta * scale else 32767 - offset) + offset)),
        (hs _).1, (hs _).2, ?_⟩
      simp only [linearMotion, hd, if_false]
      rfl
    obtain ⟨dn, h1, h2, hk⟩ := key
    rw [hk]
    unfold negI16
    cases neg <;> cases inverse <;> simp only [Bool.false_eq_true, if_false, if_true, ne_eq, reduceCtorEq,
      not_false_eq_true, Res.some.injEq, true_and]
    all_goals (intro v hv; subst hv; (repeat' split) <;> omega)

/-! ### `Linear::update` -/

theorem clamp_some (x lo hi : ℚ) (h : lo ≤ hi) :
    clampR x lo hi = some (max lo (min hi x)) := by
  unfold clampR
  rw [if_neg (by linarith)]
  congr 1
  by_cases h1 : x < lo
  · rw [if_pos h1, min_eq_right (by linarith), max_eq_left (by linarith)]
  · rw [if_neg h1]
    by_cases h2 : x > hi
    · rw [if_pos h2, min_eq_left (by linarith), max_eq_right h]
    · rw [if_neg h2, min_eq_right (by linarith), max_eq_right (by linarith)]

/-- C19 (`Linear`): under the contract (0 ≤ offset ≤ 32767, kp ≥ 0) the clamp never panics, the output stays within
±32768 (so the cast to i16 saturates by at most one count), opposes the error's sign unless inverted, and never
increases with the error -/
theorem C19_linear_update (kp offset : ℚ) (ho : 0 ≤ offset) (ho' : offset ≤ 32767) (hk : 0 ≤ kp) (e : ℚ) :
    ∃ v, linearUpdate kp offset false e (decide (e < 0)) = some v ∧ -32768 ≤ v ∧ v ≤ 32768 ∧
      (0 < e → v ≤ 0) ∧ (e < 0 → 0 ≤ v) := by
  have hlo : -32768 + offset ≤ 32767 - offset := by linarith
  unfold linearUpdate
  rw [clamp_some _ _ _ hlo]
  refine ⟨_, rfl, ?_⟩
  simp only []
  have hc1 : -32768 + offset ≤ max (-32768 + offset) (min (32767 - offset) (e * kp)) := le_max_left _ _
  have hc2 : max (-32768 + offset) (min (32767 - offset) (e * kp)) ≤ 32767 - offset :=
    max_le hlo (min_le_left _ _)
  by_cases hn : e < 0
  · simp only [hn, decide_true, if_true, Bool.false_eq_true, if_false]
    have hneg : e * kp ≤ 0 := mul_nonpos_of_nonpos_of_nonneg hn.le hk
    have hc3 : max (-32768 + offset) (min (32767 - offset) (e * kp)) ≤ 0 :=
      max_le (by linarith) (le_trans (min_le_right _ _) hneg)
    refine ⟨by linarith, by linarith, fun h => by linarith, fun _ => by linarith⟩
  · simp only [hn, decide_false, Bool.false_eq_true, if_false]
    have hpos : 0 ≤ e * kp := mul_nonneg (by linarith) hk
    have hc3 : 0 ≤ max (-32768 + offset) (min (32767 - offset) (e * kp)) :=
      le_max_of_le_right (le_min (by linarith) hpos)
    refine ⟨by linarith, by linarith, fun _ => by linarith, fun h => h.elim⟩

theorem C19_linear_monotone (kp offset : ℚ) (ho : 0 ≤ offset) (ho' : offset ≤ 32767) (hk : 0 ≤ kp) (e1 e2 : ℚ)
    (h : e1 ≤ e2) (v1 v2 : ℚ)
    (h1 : linearUpdate kp offset false e1 (decide (e1 < 0)) = some v1)
    (h2 : linearUpdate kp offset false e2 (decide (e2 < 0)) = some v2) : v2 ≤ v1 := by
  have hlo : -32768 + offset ≤ 32767 - offset := by linarith
  unfold linearUpdate at h1 h2
  rw [clamp_some _ _ _ hlo] at h1 h2
  simp only [Option.map_some, Option.some.injEq, Bool.false_eq_true, if_false] at h1 h2
  subst h1; subst h2
  have hm : max (-32768 + offset) (min (32767 - offset) (e1 * kp)) ≤ max (-32768 + offset) (min (32767 - offset) (e2 * kp)) :=
    max_le_max le_rfl (min_le_min le_rfl (mul_le_mul_of_nonneg_right h hk))
  by_cases n1 : e1 < 0 <;> by_cases n2 : e2 < 0 <;> simp only [n1, n2, decide_true, decide_false, if_true, Bool.false_eq_true, if_false]
  · linarith
  · linarith
  · exfalso; linarith
  · linarith

/-- outside the contract (`offset` above 32767.5) `f32::clamp` panics -/
theorem C19_linear_clamp_panics_outside_contract : linearUpdate 1 40000 false 0 false = none := by
  unfold linearUpdate clampR; norm_num

/-- the cast saturates -/
theorem C19_cast_saturates (q : ℚ) : -32768 ≤ toI16 q ∧ toI16 q ≤ 32767 := by
  unfold toI16 satI16; omega

/-! ### stop-once -/

def runAct (stop : Bool) : List (Option (ℚ × ℤ)) → Bool × List (Option Event)
  | [] => (stop, [])
  | i :: r => let s := actuatorUpdate stop i; let t := runAct s.1 r; (t.1, s.2 :: t.2)

/-- C19 (stop once): an absent error produces exactly one neutral event, repeated absences produce nothing until an
error has been seen again; every present error produces its event -/
theorem C19_stop_once (stop : Bool) (i : Option (ℚ × ℤ)) :
    (actuatorUpdate stop i).1 = i.isNone ∧ ((actuatorUpdate stop i).2 = none ↔ (i = none ∧ stop = true)) := by
  cases i with
  | some p => simp [actuatorUpdate]
  | none => cases stop <;> simp [actuatorUpdate]

theorem C19_stop_event (stop : Bool) :
    (actuatorUpdate stop none).2 = (if stop then none else some { error := none, value := 0 }) ∧
    (actuatorUpdate stop none).1 = true := by
  cases stop <;> simp [actuatorUpdate]

theorem C19_error_event (stop : Bool) (e : ℚ) (v : ℤ) :
    actuatorUpdate stop (some (e, v)) = (false, some { error := some e, value := v }) := rfl

/-- over any history: the stop flag is "the last input was absent" -/
theorem C19_stop_flag (l : List (Option (ℚ × ℤ))) (i : Option (ℚ × ℤ)) (stop : Bool) :
    (runAct stop (l ++ [i])).1 = i.isNone := by
  induction l generalizing stop with
  | nil => cases i <;> cases stop <;> simp [runAct, actuatorUpdate]
  | cons a r ih => simp only [List.cons_append, runAct]; exact ih _

/-! ### transform chain -/

/-- C19 (world position): the loop with `break` multiplies, in order, exactly the transforms of the segments up to
and including the first one with the requested name (all of them when there is none) -/
theorem C19_world_is_product {M : Type} (mul : M → M → M) (name : String) (acc : M) (segs : List (String × M)) :
    chain mul name acc segs = (upTo name segs).foldl (fun a p => mul a p.2) acc := by
  induction segs generalizing acc with
  | nil => rfl
  | cons p rest ih =>
    obtain ⟨n, t⟩ := p
    unfold chain upTo
    by_cases h : n = name
    · simp [h]
    · simp [h, ih]

/-- `upTo` is the prefix ending at the first match -/
theorem C19_upTo_prefix {M : Type} (name : String) (segs : List (String × M)) :
    (upTo name segs) <+: segs ∧ (∀ p ∈ (upTo name segs).dropLast, p.1 ≠ name) ∧
    ((∃ p ∈ segs, p.1 = name) → ∃ p, (upTo name segs).getLast? = some p ∧ p.1 = name) := by
  induction segs with
  | nil => simp [upTo]
  | cons p rest ih =>
    obtain ⟨n, t⟩ := p
    unfold upTo
    by_cases h : n = name
    · simp [h]
    · simp only [h, if_false]
      obtain ⟨i1, i2, i3⟩ := ih
      refine ⟨?_, ?_, ?_⟩
      · exact (List.prefix_cons_inj _).mpr i1
      · intro q hq
        cases hu : upTo name rest with
        | nil => rw [hu] at hq; simp at hq
        | cons u us =>
          rw [hu] at hq i2
          simp only [List.dropLast_cons_cons, List.mem_cons] at hq
          rcases hq with rfl | hq
          · exact h
          · exact i2 q hq
      · rintro ⟨q, hq, hqn⟩
        simp only [List.mem_cons] at hq
        rcases hq with rfl | hq
        · exact absurd hqn h
        · obtain ⟨r, hr1, hr2⟩ := i3 ⟨q, hq, hqn⟩
          refine ⟨r, ?_, hr2⟩
          cases hu : upTo name rest with
          | nil => rw [hu] at hr1; simp at hr1
          | cons u us => rw [hu] at hr1; simpa [List.getLast?_cons_cons] using hr1

/-- C19 (actor serialisation round-trips, byte level): re-exported from the wire-codec theorems -/
theorem C19_actor_roundtrip (a : Wire.Actor) (hl : a.name.length < 65536) (hc : a.segments.length < 256)
    (hw : ∀ s ∈ a.segments, s.name.length < 65536 ∧ s.f.length = 6 ∧ ∀ x ∈ s.f, Spec.C13.w32 x) :
    Wire.decode .actor (Wire.encode (.actor a)) = .ok (.actor a) :=
  Thm.C13.C13_roundtrip_actor a hl hc hw

end Glonax.Thm.C19
