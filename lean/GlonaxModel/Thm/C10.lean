import GlonaxModel.Spec.C10
import GlonaxModel.Thm.C11
/-! THEOREMS C10 -/
namespace Glonax.Thm.C10
open Glonax Auth Spec.C10 Consts

def view (tick now : Nat) (u : BusUnit) (s : UnitSt) : View :=
  { heard := s.heard, silentFor := now - s.lastRx + 1, timeout := u.timeout, previous := s.lastStatus, cycle := tick }

private theorem dec10 : statusDecimationMs / statusIntervalMs = 10 := by decide

/-- one unit in one control cycle publishes exactly what the reference rule demands, and remembers the truth -/
theorem C10_cycle (idx tick now : Nat) (u : BusUnit) (s : UnitSt) :
    (tickUnit idx tick now u s).2.1 = ((mustPublish (view tick now u s)).map fun k => ({ unit := idx, kind := k } : Status)).toList ∧
    (tickUnit idx tick now u s).1.lastStatus = (truth (view tick now u s)).or s.lastStatus := by
  unfold tickUnit mustPublish truth timedOut view
  rw [dec10]
  cases ht : u.timeout with
  | none =>
    cases hh : s.heard <;> cases hl : s.lastStatus <;> simp [hh, hl]
    all_goals (try (split <;> simp_all))
    all_goals (try (rename_i k; cases k <;> simp <;> split <;> simp_all))
    all_goals (try (by_cases a : tick % 10 = 0 <;> simp [a] <;> (try (split <;> simp_all))))
  | some t =>
    by_cases hto : now - s.lastRx + 1 > t
    · cases hh : s.heard <;> cases hl : s.lastStatus <;> simp [hh, hl, hto]
      all_goals (try (split <;> simp_all))
      all_goals (try (rename_i k; cases k <;> simp <;> (try split) <;> simp_all))
      all_goals (try (by_cases a : tick % 10 = 0 <;> simp [a] <;> (try (split <;> simp_all))))
    · cases hh : s.heard <;> cases hl : s.lastStatus <;> simp [hh, hl, hto]
      all_goals (try (split <;> simp_all))
      all_goals (try (rename_i k; cases k <;> simp <;> (try split) <;> simp_all))
      all_goals (try (by_cases a : tick % 10 = 0 <;> simp [a] <;> (try (split <;> simp_all))))


/-- Healthy is published only for a unit that has been heard and whose last message is younger than its timeout -/
theorem C10_healthy_sound (v : View) (ht : truth v = some .healthy) : v.heard = true ∧ timedOut v = false := by
  unfold truth at ht
  by_cases c : timedOut v = true
  · simp [c] at ht
  · by_cases hh : v.heard = true
    · exact ⟨hh, by simpa using c⟩
    · simp [c, hh] at ht

/-- once a unit has been silent longer than its timeout, the very next cycle publishes Faulty / communication timeout -/
theorem C10_timeout_faulty (v : View) (ht : timedOut v = true) (hprev : v.previous ≠ some .faultyTimeout) :
    mustPublish v = some .faultyTimeout := by
  unfold mustPublish truth
  simp [ht]
  intro h; exact absurd h hprev

/-- when it speaks again (heard, fresh) Healthy is published again at once -/
theorem C10_recovers (v : View) (hh : v.heard = true) (ht : timedOut v = false) (hprev : v.previous = some .faultyTimeout) :
    mustPublish v = some .healthy := by
  unfold mustPublish truth
  simp [ht, hh, hprev]

/-- a status is (re)published at least every tenth cycle -/
theorem C10_every_tenth (v : View) (h10 : v.cycle % 10 = 0) (hs : truth v ≠ none ∨ v.previous ≠ none) :
    mustPublish v ≠ none := by
  unfold mustPublish
  cases ht : truth v with
  | some k => simp [h10]
  | none =>
    cases hp : v.previous with
    | none => simp [ht, hp] at hs
    | some p => simp [h10]

/-- nothing is published for a unit that has never been heard and has not (yet) timed out -/
theorem C10_unheard_silent (v : View) (hh : v.heard = false) (ht : timedOut v = false) (hp : v.previous = none) :
    mustPublish v = none := by
  unfold mustPublish truth
  simp [hh, ht, hp]

/-- no publication between changes other than the tenth-cycle refresh -/
theorem C10_publish_on_change (v : View) (k : StatusKind) (ht : truth v = some k) :
    mustPublish v = some k ↔ (v.previous ≠ some k ∨ v.cycle % 10 = 0) := by
  unfold mustPublish
  simp [ht]
  by_cases a : v.previous = some k <;> simp [a]

/-- the canonical unit name: vendor:product:0xSA:0xDA in upper-case hexadecimal -/
theorem C10_name_example :
    unitName { kind := .hcu, da := 0x4A, sa := 0x27, timeout := none, vendor := "laixer", product := "hcu" } = "laixer:hcu:0x27:0x4A" := by
  decide

/-- a frame accepted by a unit's driver marks exactly that unit as heard *now* (first unit that produces objects) -/
theorem C10_accept_marks (now : Nat) (u : BusUnit) (s : UnitSt) (rest : List (BusUnit × UnitSt)) (f : J1939.Frame)
    (r : Drv.RecvOut) (hr : Drv.tryRecv u.kind u.da f = .ok r) (hs : r.signals ≠ []) :
    ((recvLoop now ((u, s) :: rest) f).1.head?.map fun x => (x.heard, x.lastRx)) = some (true, now) ∧
    (recvLoop now ((u, s) :: rest) f).1.tail = rest.map (·.2) := by
  have : r.signals.isEmpty = false := by cases h : r.signals with | nil => exact absurd h hs | cons a b => rfl
  simp [recvLoop, hr, this]

/-- "Healthy only if at least one message FROM IT has been accepted": whatever the set of configured units (the simulator
aside, see C11), a received frame turns a unit from not-heard into heard only if the frame's source address is that
unit's address.  (Rests on C11_source_guard; the drivers' parse tables behind it are regenerated from the source, see
C11_parse_tables_as_modelled.) -/
theorem C10_heard_only_from_own_address (now : Nat) (f : J1939.Frame) :
    ∀ (l : List (BusUnit × UnitSt)), (∀ p ∈ l, p.1.kind ≠ Drv.Kind.sim) →
      ∀ (i : Nat) (hi : i < l.length) (x : UnitSt), (recvLoop now l f).1[i]? = some x → x.heard = true →
        (l[i].2.heard = true ∨ J1939.source f.id = l[i].1.da) := by
  intro l
  induction l with
  | nil => intro _ i hi; simp at hi
  | cons p rest ih =>
    obtain ⟨u, s⟩ := p
    intro hns i hi x hx hh
    have hk : u.kind ≠ Drv.Kind.sim := hns (u, s) (by simp)
    have hrest : ∀ p ∈ rest, p.1.kind ≠ Drv.Kind.sim := fun p hp => hns p (by simp [hp])
    cases hr : Drv.tryRecv u.kind u.da f with
    | panic =>
      simp only [recvLoop, hr] at hx
      cases i with
      | zero => simp at hx; subst hx; exact Or.inl hh
      | succ j =>
        simp only [List.getElem?_cons_succ, List.getElem?_map] at hx
        have hj : j < rest.length := by simpa using hi
        simp only [List.getElem?_eq_getElem hj, Option.map_some, Option.some.injEq] at hx
        subst hx; exact Or.inl (by simpa using hh)
    | ok r =>
      by_cases he : r.signals.isEmpty = true
      · -- the loop goes on to the other units
        cases i with
        | zero =>
          simp only [recvLoop, hr, he, if_true] at hx
          simp only [List.getElem?_cons_zero, Option.some.injEq] at hx
          by_cases hm : r.marks = true
          · right
            exact (Thm.C11.C11_source_guard u.kind hk u.da f r hr (by simp [Thm.C11.touched, Drv.RecvOut.alive, hm])).1
          · left
            have hnil : r.signals = [] := by simpa using he
            subst hx
            simp [hnil, hm] at hh
            simpa using hh
        | succ j =>
          simp only [recvLoop, hr, he, if_true, List.getElem?_cons_succ] at hx
          have hj : j < rest.length := by simpa using hi
          simpa using ih hrest j hj x hx hh
      · -- this unit took the frame: the others are untouched
        have hne : r.signals.isEmpty = false := by simpa using he
        cases i with
        | zero =>
          right
          exact (Thm.C11.C11_source_guard u.kind hk u.da f r hr (by simp [Thm.C11.touched, Drv.RecvOut.alive, hne])).1
        | succ j =>
          simp only [recvLoop, hr, hne, Bool.false_eq_true, if_false, List.getElem?_cons_succ, List.getElem?_map] at hx
          have hj : j < rest.length := by simpa using hi
          simp only [List.getElem?_eq_getElem hj, Option.map_some, Option.some.injEq] at hx
          subst hx; exact Or.inl (by simpa using hh)

/-- the timeout a unit is judged by is the one of ITS configuration entry: the constructor of the current source builds
each known entry with `driver.timeout` of that very entry, and every unit has its own context (regenerated shape) -/
theorem C10_units_keep_their_own_timeout : Consts.authorityBuildsEveryKnownEntry = true ∧ Consts.authorityUnitsHaveTheirOwnContext = true := by
  decide

end Glonax.Thm.C10
