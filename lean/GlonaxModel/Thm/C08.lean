import GlonaxModel.Spec.C08
import GlonaxModel.Thm.C07
import GlonaxModel.Lemmas.J1939
/-! THEOREMS C08: engine control frames follow the governor over any history. -/
namespace Glonax.Thm.C08
open Glonax J1939 Drv Consts Spec.C08

theorem meaning_eq_normalise (c : Engine) : meaning c = normaliseCmd c := by
  unfold meaning normaliseCmd Engine.fromRpm Engine.shutdown; split <;> rfl

private theorem lastCmdRev_acc (r : List VolvoOp) (acc : Nat) :
    lastCmdRev r acc = (lastCmdRev r 0).map (fun p => (p.1, p.2 + acc)) := by
  induction r generalizing acc with
  | nil => simp [lastCmdRev]
  | cons op rest ih =>
    cases op with
    | cmd c => simp [lastCmdRev]
    | wait ms =>
      simp only [lastCmdRev, Nat.zero_add]
      rw [ih (acc + ms), ih ms]
      cases lastCmdRev rest 0 <;> simp [Nat.add_assoc, Nat.add_comm ms acc]
    | status e => simpa [lastCmdRev] using ih acc
    | other => simpa [lastCmdRev] using ih acc
    | tick => simpa [lastCmdRev] using ih acc

theorem final_append (sa : Nat) (s : VolvoSt) (h : List VolvoOp) (op : VolvoOp) :
    volvoFinal sa s (h ++ [op]) = (volvoStep sa (volvoFinal sa s h) op).1 := by
  simp [volvoFinal, List.foldl_append]

def lastStatusRev (r : List VolvoOp) : Engine :=
  (r.findSome? fun | .status e => some e | _ => none).getD Engine.shutdown

/-- invariant between a driver state and the history so far (most recent op first) -/
def Inv (s : VolvoSt) (r : List VolvoOp) : Prop :=
  s.rxLast.getD Engine.shutdown = lastStatusRev r ∧
  (match lastCmdRev r 0, s.txLast with
   | none, none => True
   | some (c, a), some (n, t) => n = normaliseCmd c ∧ t + a = s.now
   | _, _ => False)

private theorem inv_step (sa : Nat) (s : VolvoSt) (r : List VolvoOp) (op : VolvoOp) (h : Inv s r) :
    Inv (volvoStep sa s op).1 (op :: r) := by
  obtain ⟨h1, h2⟩ := h
  cases op with
  | status e =>
    refine ⟨by simp [volvoStep, lastStatusRev], ?_⟩
    simpa [volvoStep, lastCmdRev] using h2
  | cmd c =>
    refine ⟨by simpa [volvoStep, lastStatusRev] using h1, ?_⟩
    simp [volvoStep, lastCmdRev]
  | other =>
    refine ⟨by simpa [volvoStep, lastStatusRev] using h1, ?_⟩
    simpa [volvoStep, lastCmdRev] using h2
  | tick =>
    refine ⟨by simpa [volvoStep, lastStatusRev] using h1, ?_⟩
    simpa [volvoStep, lastCmdRev] using h2
  | wait ms =>
    refine ⟨by simpa [volvoStep, lastStatusRev] using h1, ?_⟩
    simp only [volvoStep, lastCmdRev, Nat.zero_add]
    rw [lastCmdRev_acc]
    cases hc : lastCmdRev r 0 with
    | none =>
      cases ht : s.txLast with
      | none => simp
      | some q => simp [hc, ht] at h2
    | some p =>
      cases ht : s.txLast with
      | none => simp [hc, ht] at h2
      | some q =>
        simp only [hc, ht] at h2
        simp only [Option.map_some]
        exact ⟨h2.1, by omega⟩

private theorem inv_fold (sa : Nat) (s : VolvoSt) (r h : List VolvoOp) (hi : Inv s r) :
    Inv (volvoFinal sa s h) (h.reverse ++ r) := by
  induction h generalizing s r with
  | nil => simpa [volvoFinal] using hi
  | cons op rest ih =>
    have := ih (volvoStep sa s op).1 (op :: r) (inv_step sa s r op hi)
    simpa [volvoFinal, List.reverse_cons, List.append_assoc] using this

/-- the driver state after any history: latest status, latest command (as it will be interpreted) with its age -/
theorem state_invariant (sa : Nat) (h : List VolvoOp) : Inv (volvoFinal sa {} h) h.reverse := by
  have hinit : Inv ({} : VolvoSt) [] := by simp [Inv, lastStatusRev, lastCmdRev]
  simpa using inv_fold sa {} [] h hinit

theorem lastStatus_eq (h : List VolvoOp) : lastStatus h = lastStatusRev h.reverse := rfl
theorem lastCmd_eq (h : List VolvoOp) : lastCmd h = lastCmdRev h.reverse 0 := rfl

private theorem frame_for_emit (sa : Nat) (hsa : sa < 256) (g : Engine) (hr : g.rpm / 10 ≤ 255) :
    volvoEmit sa g = frameFor sa g := by
  have hp : volvoSpeedPriority = 3 := by decide
  have hg : volvoSpeedPgn = 65282 := by decide
  have hid : buildId 3 65282 sa 0 = 3 * 67108864 + 65282 * 256 + sa := by simp [buildId]
  have hmin : min (g.rpm / 10) 255 = g.rpm / 10 := by omega
  unfold volvoEmit frameFor
  cases g.state <;> simp [volvoFrame, mkFrame, hp, hg, hid, hmin, codeOf] <;> decide

private theorem gov_range (sig cmd : Engine) (age : Option Nat) :
    volvoRpmIdle ≤ (volvoGovernor.nextState sig cmd age).rpm ∧ (volvoGovernor.nextState sig cmd age).rpm ≤ volvoRpmMax := by
  have := Thm.C07.C07_range volvoGovernor (by decide) sig cmd age
  unfold Spec.C07.range at this
  simp only [Bool.and_eq_true, decide_eq_true_eq] at this
  exact this

private theorem frameFor_valid (sa : Nat) (hsa : sa < 256) (sig cmd : Engine) (age : Option Nat) :
    frameValid sa (frameFor sa (volvoGovernor.nextState sig cmd age)) = true := by
  obtain ⟨h1, h2⟩ := gov_range sig cmd age
  have hi : volvoRpmIdle = 800 := by decide
  have hm : volvoRpmMax = 2100 := by decide
  rw [hi] at h1; rw [hm] at h2
  unfold frameValid frameFor
  have hpri : priority (3 * 67108864 + 65282 * 256 + sa) = 3 := by unfold priority; omega
  have hpgn : pgn (3 * 67108864 + 65282 * 256 + sa) = 65282 := by
    unfold pgn isPdu1 pf ps
    have : ¬ ((3 * 67108864 + 65282 * 256 + sa) / 65536 % 256 < 240) := by omega
    simp [this]; omega
  have hsrc : source (3 * 67108864 + 65282 * 256 + sa) = sa := by unfold source; omega
  simp only [hpri, hpgn, hsrc, hi, hm]
  cases (volvoGovernor.nextState sig cmd age).state <;> simp [codeOf, validCodes] <;> omega

/-- every op of every history: emitted frames are valid and are exactly what the governor decides for
the latest reported status and the latest command, read the same way at acceptance and on every cycle -/
theorem C08_history (sa : Nat) (hsa : sa < 256) (h pre : List VolvoOp) :
    (walk sa pre h (volvoRun sa (volvoFinal sa {} pre) h)).all (·.2) = true := by
  induction h generalizing pre with
  | nil => simp [volvoRun, walk]
  | cons op rest ih =>
    have hs : (volvoStep sa (volvoFinal sa {} pre) op).1 = volvoFinal sa {} (pre ++ [op]) := (final_append sa {} pre op).symm
    simp only [volvoRun, walk, List.all_append, Bool.and_eq_true]
    refine ⟨?_, by rw [hs]; exact ih (pre ++ [op])⟩
    obtain ⟨inv1, inv2⟩ := state_invariant sa pre
    rw [← lastStatus_eq] at inv1
    rw [← lastCmd_eq] at inv2
    have hrng := fun sig cmd age => gov_range sig cmd age
    have hm : volvoRpmMax = 2100 := by decide
    cases op with
    | status e => simp [opClauses, volvoStep]
    | other => simp [opClauses, volvoStep]
    | wait ms => simp [opClauses, volvoStep]
    | cmd c =>
      have hr := (hrng (lastStatus pre) (normaliseCmd c) none).2
      rw [hm] at hr
      have e := frame_for_emit sa hsa (volvoGovernor.nextState (lastStatus pre) (normaliseCmd c) none) (by omega)
      have v := frameFor_valid sa hsa (lastStatus pre) (normaliseCmd c) none
      simp [opClauses, volvoStep, inv1, meaning_eq_normalise, e, v]
    | tick =>
      simp only [opClauses, volvoStep, inv1]
      cases hc : lastCmd pre with
      | none =>
        cases ht : (volvoFinal sa {} pre).txLast with
        | some q => simp [hc, ht] at inv2
        | none =>
          have hr := (hrng (lastStatus pre) (lastStatus pre) none).2
          rw [hm] at hr
          have e := frame_for_emit sa hsa (volvoGovernor.nextState (lastStatus pre) (lastStatus pre) none) (by omega)
          have v := frameFor_valid sa hsa (lastStatus pre) (lastStatus pre) none
          simp [e, v]
      | some p =>
        obtain ⟨c, a⟩ := p
        cases ht : (volvoFinal sa {} pre).txLast with
        | none => simp [hc, ht] at inv2
        | some q =>
          obtain ⟨n, t⟩ := q
          simp only [hc, ht] at inv2
          obtain ⟨hn, hta⟩ := inv2
          have hage : (volvoFinal sa {} pre).now - t = a := by omega
          have hr := (hrng (lastStatus pre) (normaliseCmd c) (some a)).2
          rw [hm] at hr
          have e := frame_for_emit sa hsa (volvoGovernor.nextState (lastStatus pre) (normaliseCmd c) (some a)) (by omega)
          have v := frameFor_valid sa hsa (lastStatus pre) (normaliseCmd c) (some a)
          simp only [hn, hage, meaning_eq_normalise, e, v, List.all_cons, List.all_nil, Bool.and_true, decide_true,
            true_and, Bool.and_eq_true]
          refine ⟨?_, ?_⟩
          · -- stop honoured: a zero-speed command on an engine reported running gives the shutdown code
            by_cases hz : c.rpm = 0
            · by_cases hrun : (lastStatus pre).state = .request
              · have hn0 : normaliseCmd c = Engine.shutdown := by simp [normaliseCmd, hz]
                simp [hz, hrun, hn0, Engine.shutdown, Governor.nextState, frameFor, codeOf]
              · simp [hrun]
            · simp [hz]
          · -- cranking ends within the transition timeout after the last command
            by_cases hexp : a > volvoTimeoutMs
            · have hne : (volvoGovernor.nextState (lastStatus pre) (normaliseCmd c) (some a)).state ≠ .starting := by
                intro hst
                have := (Thm.C07.C07_starter_iff volvoGovernor (lastStatus pre) (normaliseCmd c) (some a)).mp hst
                simp [Governor.expired, volvoGovernor, hexp] at this
              simp only [hexp, decide_true, Bool.not_true, Bool.false_or]
              simp only [frameFor, List.getD_cons_succ, List.getD_cons_zero, bne_iff_ne, ne_eq, decide_eq_true_eq]
              cases hst : (volvoGovernor.nextState (lastStatus pre) (normaliseCmd c) (some a)).state <;>
                simp_all [codeOf]
            · simp [hexp]

theorem C08_spec (sa : Nat) (hsa : sa < 256) (h : List VolvoOp) :
    (walk sa [] h (volvoRun sa {} h)).all (·.2) = true := by
  simpa [volvoFinal] using C08_history sa hsa h []

/-- a command means the same when it is accepted and on every later cycle within the timeout -/
theorem C08_same_meaning (sig c : Engine) (a : Nat) (ha : a ≤ volvoTimeoutMs) :
    volvoGovernor.nextState sig (normaliseCmd c) (some a) = volvoGovernor.nextState sig (normaliseCmd c) none := by
  have : volvoGovernor.expired (some a) = false := by simp [Governor.expired, volvoGovernor]; omega
  have h2 : volvoGovernor.expired none = false := rfl
  unfold Governor.nextState
  cases sig.state <;> cases (normaliseCmd c).state <;> simp [this, h2]

/-- non-vacuity: running engine, zero-speed command written as {rpm 0, state Request}: shutdown code now and on the next cycle -/
example : volvoRun 0x27 {} [.status { rpm := 1500, state := .request }, .cmd { rpm := 0, state := .request }, .tick] =
    [[], [volvoFrame 0x27 0x07 800], [volvoFrame 0x27 0x07 800]] := by decide

/-! ### the translator tie -/

/-- the state code `volvoEmit` puts into the frame for a governed state -/
def emitCode : EngineState → Nat
  | .noRequest => Consts.volvoStateNominal
  | .starting => Consts.volvoStateStarting
  | .stopping => Consts.volvoStateShutdown
  | .request => Consts.volvoStateNominal

theorem volvoEmit_code (sa : Nat) (g : Engine) : volvoEmit sa g = volvoFrame sa (emitCode g.state) g.rpm := by
  unfold volvoEmit emitCode; cases g.state <;> rfl

/-- the payload `volvoFrame` builds, as a template (256 = the state code, 257 = the speed byte) -/
theorem volvoFrame_template (sa code rpm : Nat) :
    (volvoFrame sa code rpm).data = Consts.volvoPayloadTemplate.map fun b => if b = 256 then code else if b = 257 then min (rpm / 10) 255 else b := by
  simp [volvoFrame, J1939.mkFrame, Consts.volvoPayloadTemplate]

/-- TRANSLATION THEOREM for the command side of the Volvo driver.  What the translator reads off volvo_ems.rs on this run
says what `volvoStep` says: `trigger` and `tick` send, for each governed state, one speed-control frame with the state code
`volvoEmit` uses and the governed speed (one table for both); the payload template of `speed_control` is the one of
`volvoFrame`; `trigger` stores the NORMALISED command before governing it with no age and writes nothing else; `tick`
governs the stored command with its age (the reported engine when nothing is stored) and writes nothing. -/
theorem C08_driver_shape_translated :
    (∀ st : EngineState, Consts.volvoTriggerArms.contains [st.code, emitCode st] = true ∧
                         Consts.volvoTickArms.contains [st.code, emitCode st] = true) ∧
    Consts.volvoTriggerArms.length = 4 ∧ Consts.volvoTickArms = Consts.volvoTriggerArms ∧
    Consts.volvoTriggerStoresNormalisedCommand = true ∧ Consts.volvoTickGovernsStoredCommandWithItsAge = true ∧
    Consts.volvoTickContextWrites = 0 := by
  refine ⟨?_, by decide, by decide, by decide, by decide, by decide⟩
  intro st
  cases st <;> exact ⟨by decide, by decide⟩

end Glonax.Thm.C08
