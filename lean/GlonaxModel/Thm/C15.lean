import GlonaxModel.Model.CommandBus
import GlonaxModel.Lemmas.Ring
/-! THEOREMS C15: the command bus never wedges and the newest commands always get through —
for every schedule of sends and consumer steps, any number of producers and networks. -/
namespace Glonax.Thm.C15
open Glonax Bus RingLemmas

variable {α : Type}

/-- what a consumer has handled is, in order, a subsequence of what was published before its cursor -/
def Good (c : Cons α) (hist : List α) : Prop :=
  c.next ≤ hist.length ∧ c.handled.Sublist (hist.take c.next)

theorem poll_good (c : Cons α) (r : Ring α) (hist : List α) (hr : RingInv r hist) (hg : Good c hist) :
    Good (c.poll r) hist := by
  obtain ⟨hn, hs⟩ := hg
  have spec := ring_recv_spec r hist c.next hr hn
  unfold Cons.poll
  by_cases he : c.exited = true
  · simp [he, Good, hn, hs]
  · simp only [he, Bool.false_eq_true, if_false]
    by_cases c1 : c.next < r.head
    · rw [spec.1 c1]
      have hh : r.head ≤ hist.length := by have := hr.1; omega
      refine ⟨hh, ?_⟩
      simp only []
      exact hs.trans (List.take_sublist_take_left (by omega))
    · by_cases c2 : c.next = hist.length
      · cases hcl : r.closed
        · rw [spec.2.2 c2 hcl]; exact ⟨hn, hs⟩
        · -- closed and drained: the loop exits, nothing changes
          have hb : r.buf[c.next - r.head]? = none := by
            rw [List.getElem?_eq_none]; have := hr.1; omega
          have : r.recv c.next = (.closed, c.next) := by simp [Ring.recv, c1, hb, hcl]
          rw [this]; exact ⟨hn, hs⟩
      · have hlt : c.next < hist.length := by omega
        have hv : hist[c.next]? = some hist[c.next] := by simp [hlt]
        rw [spec.2.1 (by omega) _ hv]
        refine ⟨by simp; omega, ?_⟩
        simp only []
        have : hist.take (c.next + 1) = hist.take c.next ++ [hist[c.next]] := by
          rw [List.take_succ]; simp [hlt]
        rw [this]
        exact List.Sublist.append hs (List.Sublist.refl _)

theorem send_good (c : Cons α) (hist : List α) (x : α) (hg : Good c hist) : Good c (hist ++ [x]) := by
  obtain ⟨hn, hs⟩ := hg
  refine ⟨by simp; omega, ?_⟩
  rw [List.take_append_of_le_length hn]; exact hs

/-- everything sent so far, in order -/
def sent : List (Ev α) → List α
  | [] => []
  | .send x :: es => x :: sent es
  | _ :: es => sent es

theorem sent_append (a b : List (Ev α)) : sent (a ++ b) = sent a ++ sent b := by
  induction a with
  | nil => rfl
  | cons e rest ih => cases e <;> simp [sent, ih]

def sentOf : Ev α → List α
  | .send x => [x]
  | _ => []

theorem sent_cons (e : Ev α) (es : List (Ev α)) : sent (e :: es) = sentOf e ++ sent es := by
  cases e <;> rfl

/-- a ring only advances its head when it is full -/
def RingFull (r : Ring α) : Prop := r.head = 0 ∨ r.buf.length = r.cap

theorem ring_send_full (r : Ring α) (x : α) (h : RingFull r) (hb : r.buf.length ≤ r.cap) (hc : 0 < r.cap) :
    RingFull (r.send x) := by
  unfold RingFull Ring.send at *
  by_cases c : r.buf.length < r.cap
  · simp only [c, if_true]; rcases h with h | h
    · exact Or.inl h
    · omega
  · simp only [c, if_false]; right; simp; omega

def Inv (s : St α) (hist : List α) : Prop :=
  RingInv s.ring hist ∧ RingFull s.ring ∧ ∀ c ∈ s.cons, Good c hist

theorem step_inv (s : St α) (hist : List α) (e : Ev α) (h : Inv s hist) : Inv (step s e) (hist ++ sentOf e) := by
  obtain ⟨hr, hfull, hc⟩ := h
  cases e with
  | send x =>
    simp only [step, sentOf]
    exact ⟨ring_send_inv _ _ x hr, ring_send_full _ x hfull hr.2.2.1 hr.2.2.2, fun c hcm => send_good c _ x (hc c hcm)⟩
  | poll i =>
    simp only [step, sentOf, List.append_nil]
    refine ⟨hr, hfull, ?_⟩
    intro c hcm
    simp only [List.mem_mapIdx] at hcm
    obtain ⟨j, hj, rfl⟩ := hcm
    have hmem : s.cons[j] ∈ s.cons := List.getElem_mem hj
    by_cases hji : j = i
    · simp only [hji, if_true]; exact poll_good _ _ _ hr (hc _ (by simpa [hji] using hmem))
    · simp only [hji, if_false]; exact hc _ hmem
  | close =>
    simp only [step, sentOf, List.append_nil]
    exact ⟨⟨hr.1, hr.2.1, hr.2.2.1, hr.2.2.2⟩, hfull, hc⟩

theorem run_inv (s : St α) (hist : List α) (es : List (Ev α)) (h : Inv s hist) : Inv (run s es) (hist ++ sent es) := by
  induction es generalizing s hist with
  | nil => simpa [run, sent] using h
  | cons e rest ih =>
    have := ih (step s e) (hist ++ sentOf e) (step_inv s hist e h)
    simpa [run, sent_cons, List.append_assoc] using this

/-- the invariant holds along every schedule -/
theorem run_invariant (n : Nat) (es : List (Ev α)) : Inv (run (init α n) es) (sent es) := by
  have hinit : Inv (init α n) [] := by
    refine ⟨ring_init_inv _ (by decide), Or.inl rfl, ?_⟩
    intro c hc
    simp [init] at hc
    obtain ⟨_, rfl⟩ := hc
    simp [Good]
  simpa using run_inv (init α n) [] es hinit

/-- C15 (order): whatever the relative speed of producers and handlers, every network handles a
subsequence of the commands in the order they were accepted -/
theorem C15_order (n : Nat) (es : List (Ev α)) :
    ∀ c ∈ (run (init α n) es).cons, c.handled.Sublist (sent es) := by
  intro c hc
  have := ((run_invariant n es).2.2 c hc).2
  exact this.trans (List.take_sublist _ _)

/-- C15 (lossless under capacity): a handler that is fewer than the queue capacity behind never lags -/
theorem C15_lossless_under_capacity (r : Ring α) (hist : List α) (next : Nat) (hr : RingInv r hist)
    (hfull : RingFull r) (hout : hist.length - next ≤ r.cap) (hn : next ≤ hist.length) :
    ∀ k m, r.recv next ≠ (.lagged k, m) := by
  intro k m h
  have hlt : next < r.head := by
    unfold Ring.recv at h
    by_cases c : next < r.head
    · exact c
    · simp only [c, if_false] at h
      split at h
      · simp at h
      · split at h <;> simp at h
  have := hr.1
  rcases hfull with hf | hf <;> omega

/-- C15 (never wedges): a lag is skipped over, the loop keeps running (it exits only when the channel is closed) -/
theorem C15_never_exits_on_lag (c : Cons α) (r : Ring α) (k m : Nat) (he : c.exited = false)
    (h : r.recv c.next = (.lagged k, m)) : (c.poll r).exited = false ∧ (c.poll r).next = m ∧ (c.poll r).handled = c.handled := by
  simp [Cons.poll, he, h]

/-- after a lag and a drain the handler has processed exactly the retained suffix: only the OLDEST outstanding
commands were skipped, the most recent ones — in particular the last — were all handled -/
theorem C15_newest_processed (c : Cons α) (r : Ring α) (hist : List α) (hr : RingInv r hist)
    (hn : c.next ≤ hist.length) (he : c.exited = false) (hcl : r.closed = false) (fuel : Nat)
    (hf : (hist.length - max c.next r.head) + (if c.next < r.head then 2 else 1) ≤ fuel) :
    (drain c r fuel).handled = c.handled ++ hist.drop (max c.next r.head) ∧ (drain c r fuel).next = hist.length ∧
    (drain c r fuel).exited = false := by
  induction fuel generalizing c with
  | zero => split at hf <;> omega
  | succ n ih =>
    have spec := ring_recv_spec r hist c.next hr hn
    simp only [drain]
    by_cases c1 : c.next < r.head
    · have hp : c.poll r = { c with next := r.head } := by simp [Cons.poll, he, spec.1 c1]
      have hh : r.head ≤ hist.length := by have := hr.1; omega
      rw [hp]
      have := ih { c with next := r.head } hh he (by simp only [c1, if_true] at hf; simp; omega)
      have hm : max c.next r.head = r.head := by omega
      simpa [hm] using this
    · have hm : max c.next r.head = c.next := by omega
      by_cases c2 : c.next = hist.length
      · have hp : c.poll r = c := by simp [Cons.poll, he, spec.2.2 c2 hcl]
        rw [hp]
        -- nothing left: every further poll is a no-op
        have hstay : ∀ k, drain c r k = c := by
          intro k; induction k with
          | zero => rfl
          | succ k ihk => simp [drain, hp, ihk]
        rw [hstay, hm, c2]; simp [he]
      · have hlt : c.next < hist.length := by omega
        have hv : hist[c.next]? = some hist[c.next] := by simp [hlt]
        have hp : c.poll r = { c with next := c.next + 1, handled := c.handled ++ [hist[c.next]] } := by
          simp [Cons.poll, he, spec.2.1 (by omega) _ hv]
        rw [hp]
        have hm2 : max (c.next + 1) r.head = c.next + 1 := by omega
        have := ih { c with next := c.next + 1, handled := c.handled ++ [hist[c.next]] } (by simp; omega) he (by
          simp only [c1, if_false] at hf
          have : ¬ (c.next + 1 < r.head) := by omega
          simp only [this, if_false, hm2]; rw [hm] at hf; omega)
        simp only [hm2] at this
        rw [hm, this.1, List.append_assoc]
        refine ⟨?_, this.2⟩
        rw [List.drop_eq_getElem_cons hlt]; simp

/-- corollary: the final command (e.g. the stop-all of an emergency burst) is always handled, whatever the burst size -/
theorem C15_last_command_handled (c : Cons α) (r : Ring α) (hist : List α) (x : α) (hr : RingInv r (hist ++ [x]))
    (hfull : RingFull r) (hn : c.next ≤ hist.length) (he : c.exited = false) (hcl : r.closed = false) :
    x ∈ (drain c r (r.buf.length + 2)).handled := by
  have hl := hr.1
  have hb : (hist ++ [x]).length - max c.next r.head ≤ r.buf.length := by omega
  have d := C15_newest_processed c r (hist ++ [x]) hr (by simp; omega) he hcl (r.buf.length + 2) (by split <;> omega)
  rw [d.1]
  apply List.mem_append_right
  have hcap := hr.2.2.2; have hbl := hr.2.2.1
  have hmax : max c.next r.head ≤ hist.length := by
    have : r.head ≤ hist.length := by
      simp only [List.length_append, List.length_singleton] at hl
      have : 1 ≤ r.buf.length := by
        rcases hfull with hf | hf <;> omega
      omega
    omega
  rw [List.drop_append_of_le_length hmax]
  simp

/-- the queue the runtime builds holds at least the 16 commands the property is stated for (the constant of lib.rs,
regenerated from the source on every run, rounded up to a power of two as tokio does) -/
theorem C15_capacity_as_stated : statedCapacity ≤ effectiveCapacity := by decide

/-- the consumer these theorems are about (`Cons.poll`: handle on Ok, go on after Lagged, leave on Closed; a cursor that
exists from the scheduling call on) is the command task of the current tree: the three arms of
`match command_rx.recv().await` in `schedule_net_service` and the place where the receiver is subscribed are regenerated
from runtime/mod.rs on every run -/
theorem C15_command_task_as_modelled :
    Consts.cmdTaskOkDispatches = true ∧ Consts.cmdTaskLaggedContinues = true ∧ Consts.cmdTaskClosedLeaves = true ∧
    Consts.cmdRxSubscribedAtScheduling = true := by decide

end Glonax.Thm.C15
