import GlonaxModel.Model.Wire
/-! Reader/encoder lemmas for M-wire round trips. -/
namespace Glonax.Wire
open Glonax Consts

@[simp] theorem rd8_cons (b : Nat) (r : List Nat) : rd8 (b :: r) = some (b, r) := rfl
@[simp] theorem rd8_nil : rd8 [] = none := rfl

theorem rd16_beU16 (n : Nat) (h : n < 65536) (r : List Nat) : rd16 (beU16 n ++ r) = some (n, r) := by
  simp [rd16, beU16]; omega

theorem rd32_f32be (w : Nat) (h : w < 4294967296) (r : List Nat) : rd32 (f32be w ++ r) = some (w, r) := by
  simp [rd32, f32be, beU32, be32]; omega

theorem rdN_append (l r : List Nat) : rdN l.length (l ++ r) = some (l, r) := by
  simp [rdN]

theorem rdN_exact (l : List Nat) (n : Nat) (h : l.length = n) : rdN n l = some (l, []) := by
  subst h; simpa using rdN_append l []

theorem beU16_length (n : Nat) : (beU16 n).length = 2 := rfl
theorem f32be_length (w : Nat) : (f32be w).length = 4 := rfl
theorem be16_length (v : Int) : (be16 v).length = 2 := rfl

theorem beU16_bytes (n : Nat) : ∀ x ∈ beU16 n, x < 256 := by
  intro x hx; simp [beU16] at hx; omega
theorem f32be_bytes (w : Nat) (h : w < 4294967296) : ∀ x ∈ f32be w, x < 256 := by
  intro x hx; simp [f32be, beU32] at hx; omega
theorem be16_bytes (v : Int) : ∀ x ∈ be16 v, x < 256 := by
  intro x hx
  have := u16OfI16_lt v
  simp [be16] at hx; omega

theorem rdSix_append (a b c d e f : Nat) (ha : a < 4294967296) (hb : b < 4294967296) (hc : c < 4294967296)
    (hd : d < 4294967296) (he : e < 4294967296) (hf : f < 4294967296) (r : List Nat) :
    rdSix (f32be a ++ (f32be b ++ (f32be c ++ (f32be d ++ (f32be e ++ (f32be f ++ r)))))) = some ([a, b, c, d, e, f], r) := by
  simp [rdSix, rd32_f32be, ha, hb, hc, hd, he, hf, bind, Option.bind]

end Glonax.Wire
