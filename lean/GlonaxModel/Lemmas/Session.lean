import GlonaxModel.Spec.Session
import GlonaxModel.Thm.C13
/-! Lemmas about feeding bytes to the session core. -/
namespace Glonax.Sess
open Glonax Wire Consts Spec.Sess

theorem feed_append (inst : Instance) (c : Core) (a b : List Nat) :
    feed inst c (a ++ b) = ((feed inst (feed inst c a).1 b).1, (feed inst c a).2 ++ (feed inst (feed inst c a).1 b).2) := by
  induction a generalizing c with
  | nil => simp [feed]
  | cons x xs ih => simp [feed, ih, List.append_assoc]

theorem feed_ended (inst : Instance) (c : Core) (h : c.ended = true) (bs : List Nat) : feed inst c bs = (c, []) := by
  induction bs with
  | nil => rfl
  | cons b bs ih => simp [feed, stepByte, h, ih]

theorem header_eq_ref (ty len : Nat) : header ty len = Spec.C13.headerRef ty len := by
  have h1 : protoHeader = [0x4C, 0x58, 0x52] := by decide
  have h2 : protoVersion = 3 := by decide
  have h3 : protoPadding = 3 := by decide
  simp [header, Spec.C13.headerRef, h1, h2, h3, beU16]

theorem parse_header_ref (ty len : Nat) (hty : ty < 256) (h1 : 1 ≤ len) (h2 : len ≤ 1024) :
    parseHeader (Spec.C13.headerRef ty len) = .ok (ty, len) := by
  have hb : ∀ x ∈ Spec.C13.headerRef ty len, x < 256 := by
    intro x hx; simp [Spec.C13.headerRef] at hx; omega
  exact (Thm.C13.C13_header_exact _ hb ty len).mpr ⟨rfl, hty, h1, h2⟩

/-- an idle core reads a valid 10-byte header and enters the payload phase -/
theorem feed_header (inst : Instance) (flags ty len : Nat) (hty : ty < 256) (h1 : 1 ≤ len) (h2 : len ≤ 1024) :
    feed inst { flags := flags } (header ty len) =
      ({ flags := flags, pay := some (payFor ty len) }, []) := by
  have hp := parse_header_ref ty len hty h1 h2
  have h10 : protoBufferSize = 10 := by decide
  rw [header_eq_ref]
  unfold Spec.C13.headerRef at hp ⊢
  simp [feed, stepByte, h10, hp]

theorem stepByte_pay_lt (inst : Instance) (c : Core) (k : Option Kind) (need : Nat) (got : List Nat) (b : Nat)
    (hc : c.ended = false) (hp : c.pay = some { kind := k, need := need, got := got })
    (hlt : (got ++ [b]).length < need) :
    stepByte inst c b = ({ c with pay := some { kind := k, need := need, got := got ++ [b] } }, []) := by
  have h' : got.length + 1 < need := by simpa using hlt
  simp [stepByte, hc, hp, h']

theorem stepByte_pay_done (inst : Instance) (c : Core) (k : Option Kind) (need : Nat) (got : List Nat) (b : Nat)
    (hc : c.ended = false) (hp : c.pay = some { kind := k, need := need, got := got })
    (hge : ¬ (got ++ [b]).length < need) :
    stepByte inst c b = complete inst { c with pay := none } k (got ++ [b]) := by
  have h' : ¬ (got.length + 1 < need) := by simpa using hge
  simp [stepByte, hc, hp, h']

/-- inside a payload read, the remaining bytes complete the frame -/
theorem feed_payload (inst : Instance) (c : Core) (k : Option Kind) (need : Nat) (got l : List Nat)
    (hc : c.ended = false) (hp : c.pay = some { kind := k, need := need, got := got })
    (hl : got.length + l.length = need) (hne : l ≠ []) :
    feed inst c l = complete inst { c with pay := none } k (got ++ l) := by
  induction l generalizing c got with
  | nil => exact absurd rfl hne
  | cons b rest ih =>
    by_cases hr : rest = []
    · subst hr
      have hge : ¬ (got ++ [b]).length < need := by simp at hl ⊢; omega
      simp only [feed, stepByte_pay_done inst c k need got b hc hp hge, List.append_nil]
    · have hlt : (got ++ [b]).length < need := by
        have : 0 < rest.length := List.length_pos_iff.mpr hr
        simp at hl ⊢; omega
      have hstep := stepByte_pay_lt inst c k need got b hc hp hlt
      have := ih { c with pay := some { kind := k, need := need, got := got ++ [b] } } (got ++ [b]) hc rfl
        (by simp at hl ⊢; omega) hr
      simp only [feed, hstep, List.nil_append, this, List.append_assoc, List.singleton_append]

end Glonax.Sess
