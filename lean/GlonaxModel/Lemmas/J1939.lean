import GlonaxModel.Base.J1939
/-! Field lemmas for identifiers built by `buildId` for PDU1 parameter groups. -/
set_option linter.unusedSectionVars false
namespace Glonax.J1939

/-- a destination-specific (PDU1) parameter group with zero low byte -/
def Pdu1Group (g : Nat) : Prop := g % 256 = 0 ∧ g < 61440

theorem buildId_pdu1 (p g sa da : Nat) (hg : Pdu1Group g) :
    buildId p g sa da = (min p 7) * 67108864 + g * 256 + sa + da * 256 := by
  unfold Pdu1Group at hg; unfold buildId
  have : g / 256 % 256 < 240 := by omega
  simp [this]

section
variable (p g sa da : Nat) (hp : p ≤ 7) (hg : Pdu1Group g) (hsa : sa < 256) (hda : da < 256)
include hp hg hsa hda

theorem buildId_lt : buildId p g sa da < 536870912 := by
  rw [buildId_pdu1 p g sa da hg]; unfold Pdu1Group at hg; omega
theorem priority_buildId : priority (buildId p g sa da) = p := by
  rw [buildId_pdu1 p g sa da hg]; unfold Pdu1Group at hg; unfold priority; omega
theorem pf_buildId : pf (buildId p g sa da) = g / 256 := by
  rw [buildId_pdu1 p g sa da hg]; unfold Pdu1Group at hg; unfold pf; omega
theorem ps_buildId : ps (buildId p g sa da) = da := by
  rw [buildId_pdu1 p g sa da hg]; unfold Pdu1Group at hg; unfold ps; omega
theorem source_buildId : source (buildId p g sa da) = sa := by
  rw [buildId_pdu1 p g sa da hg]; unfold Pdu1Group at hg; unfold source; omega
theorem isPdu1_buildId : isPdu1 (buildId p g sa da) = true := by
  unfold isPdu1; rw [pf_buildId p g sa da hp hg hsa hda]; unfold Pdu1Group at hg; simp; omega
theorem pgn_buildId : pgn (buildId p g sa da) = g := by
  unfold pgn; rw [isPdu1_buildId p g sa da hp hg hsa hda, pf_buildId p g sa da hp hg hsa hda]
  unfold Pdu1Group at hg; simp; omega
theorem destination_buildId : destination? (buildId p g sa da) = some da := by
  unfold destination?; rw [isPdu1_buildId p g sa da hp hg hsa hda, ps_buildId p g sa da hp hg hsa hda]; simp
end

/-- a broadcast (PDU2) parameter group -/
def Pdu2Group (g : Nat) : Prop := 61440 ≤ g ∧ g < 65536

theorem buildId_pdu2 (p g sa da : Nat) (hg : Pdu2Group g) :
    buildId p g sa da = (min p 7) * 67108864 + g * 256 + sa := by
  unfold Pdu2Group at hg; unfold buildId
  have : ¬ g / 256 % 256 < 240 := by omega
  simp [this]

theorem pgn_buildId2 (p g sa da : Nat) (hg : Pdu2Group g) (hsa : sa < 256) : pgn (buildId p g sa da) = g := by
  rw [buildId_pdu2 p g sa da hg]; unfold Pdu2Group at hg
  have hpf : pf ((min p 7) * 67108864 + g * 256 + sa) = g / 256 := by unfold pf; omega
  have hps : ps ((min p 7) * 67108864 + g * 256 + sa) = g % 256 := by unfold ps; omega
  unfold pgn isPdu1; rw [hpf, hps]
  have : ¬ g / 256 < 240 := by omega
  simp [this]; omega

theorem source_buildId2 (p g sa da : Nat) (hg : Pdu2Group g) (hsa : sa < 256) : source (buildId p g sa da) = sa := by
  rw [buildId_pdu2 p g sa da hg]; unfold source; omega

end Glonax.J1939
