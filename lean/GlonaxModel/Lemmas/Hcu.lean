import GlonaxModel.Lemmas.J1939
import GlonaxModel.Spec.C02
/-! Helper lemmas about the HCU encoder. -/
namespace Glonax.Hcu
open Glonax J1939 Consts Spec.C02

theorem pdu1_bank0 : Pdu1Group hcuBankPgn0 := by unfold Pdu1Group; decide
theorem pdu1_bank1 : Pdu1Group hcuBankPgn1 := by unfold Pdu1Group; decide
theorem pdu1_config : Pdu1Group hcuMotionConfigPgn := by unfold Pdu1Group; decide

/-- fold "last write wins" = reverse search -/
theorem slotVal_eq_find (cs : List (Nat × Int)) (i : Nat) :
    slotVal cs i = (cs.reverse.find? (fun c => c.1 = i)).map (·.2) := by
  unfold slotVal
  suffices h : ∀ (acc : Option Int), cs.foldl (fun acc c => if c.1 = i then some c.2 else acc) acc =
      ((cs.reverse.find? (fun c => c.1 = i)).map (·.2)).or acc by simpa using h none
  induction cs with
  | nil => intro acc; simp
  | cons c cs ih =>
    intro acc
    simp only [List.foldl_cons, List.reverse_cons, List.find?_append]
    rw [ih]
    by_cases hc : c.1 = i
    · cases h : cs.reverse.find? (fun c => c.1 = i) <;> simp [hc]
    · cases h : cs.reverse.find? (fun c => c.1 = i) <;> simp [hc]

theorem slotVal_map (cs : List (Actuator × Int)) (i : Nat) :
    slotVal (cs.map (fun c => (c.1.id, c.2))) i = lastVal cs i := by
  rw [slotVal_eq_find]; unfold lastVal
  rw [← List.map_reverse, List.find?_map]
  cases h : List.find? ((fun c : Nat × Int => decide (c.1 = i)) ∘ fun c : Actuator × Int => (c.1.id, c.2)) cs.reverse with
  | none =>
    have : List.find? (fun c : Actuator × Int => decide (c.1.id = i)) cs.reverse = none := by
      simpa [Function.comp_def] using h
    simp [this]
  | some x =>
    have : List.find? (fun c : Actuator × Int => decide (c.1.id = i)) cs.reverse = some x := by
      simpa [Function.comp_def] using h
    simp [this]

theorem slotBytes_length (o : Option Int) : (slotBytes o).length = 2 := by
  cases o <;> simp [slotBytes, le16]

/-- explicit form of one bank frame -/
theorem bankFrame_eq (da sa : Nat) (w : Nat → Option Int) (b : Nat) (hb : b = 0 ∨ b = 1) :
    bankFrame da sa w b =
      if bankEmpty w b then []
      else [{ id := buildId 3 (bankPgn b) sa da,
              data := slotBytes (w (4 * b)) ++ slotBytes (w (4 * b + 1)) ++ slotBytes (w (4 * b + 2)) ++ slotBytes (w (4 * b + 3)) }] := by
  have hr : List.range 4 = [0, 1, 2, 3] := by decide
  have h4 : hcuBankSlots = 4 := by decide
  have hp : hcuActuatorPriority = 3 := by decide
  unfold bankFrame bankEmpty bankPgn
  rw [h4, hp, hr]
  have hl := fun o => slotBytes_length o
  have htake : ∀ a b c d : Option Int,
      List.take 8 (slotBytes a ++ (slotBytes b ++ (slotBytes c ++ slotBytes d))) =
        slotBytes a ++ (slotBytes b ++ (slotBytes c ++ slotBytes d)) := by
    intro a b c d; apply List.take_of_length_le; simp [hl]
  rcases hb with rfl | rfl
  · simp [htake]
  · simp [htake]

end Glonax.Hcu
