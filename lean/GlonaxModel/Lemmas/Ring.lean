import GlonaxModel.Base.Ring
/-! The broadcast ring against its publication history. -/
namespace Glonax.RingLemmas
open Glonax

/-! ### the broadcast ring against its publication history -/

/-- `hist` = everything ever published, oldest first -/
def RingInv {α : Type} (r : Ring α) (hist : List α) : Prop :=
  r.head + r.buf.length = hist.length ∧ r.buf = hist.drop r.head ∧ r.buf.length ≤ r.cap ∧ 0 < r.cap

theorem ring_init_inv {α : Type} (cap : Nat) (h : 0 < cap) : RingInv ({ cap := cap } : Ring α) [] := by
  simp [RingInv, h]

theorem ring_send_inv {α : Type} (r : Ring α) (hist : List α) (x : α) (h : RingInv r hist) :
    RingInv (r.send x) (hist ++ [x]) := by
  obtain ⟨h1, h2, h3, h4⟩ := h
  unfold Ring.send
  by_cases c : r.buf.length < r.cap
  · simp only [c, if_true]
    refine ⟨by simp <;> omega, ?_, by simp <;> omega, h4⟩
    have : r.head ≤ hist.length := by omega
    simp [h2, List.drop_append_of_le_length this]
  · simp only [c, if_false]
    have hb : 0 < r.buf.length := by omega
    refine ⟨by simp <;> omega, ?_, by simp <;> omega, h4⟩
    have : r.head + 1 ≤ hist.length := by omega
    rw [List.drop_append_of_le_length this, h2, List.drop_drop]
    try simp [Nat.add_comm]

/-- what a receiver gets: the value at its cursor if still retained; otherwise one `lagged` that moves
it to the oldest retained value (the overwritten, i.e. oldest, ones are the only ones lost) -/
theorem ring_recv_spec {α : Type} (r : Ring α) (hist : List α) (next : Nat) (h : RingInv r hist)
    (hn : next ≤ hist.length) :
    (next < r.head → r.recv next = (.lagged (r.head - next), r.head)) ∧
    (r.head ≤ next → ∀ v, hist[next]? = some v → r.recv next = (.ok v, next + 1)) ∧
    (next = hist.length → r.closed = false → r.recv next = (.empty, next)) := by
  obtain ⟨h1, h2, h3, h4⟩ := h
  refine ⟨?_, ?_, ?_⟩
  · intro hl; simp [Ring.recv, hl]
  · intro hge v hv
    have : ¬ next < r.head := by omega
    have hb : r.buf[next - r.head]? = some v := by
      rw [h2, List.getElem?_drop]
      have : r.head + (next - r.head) = next := by omega
      rw [this]; exact hv
    simp [Ring.recv, this, hb]
  · intro he hc
    have : ¬ next < r.head := by omega
    have hb : r.buf[next - r.head]? = none := by
      rw [List.getElem?_eq_none]; omega
    simp [Ring.recv, this, hb, hc]


end Glonax.RingLemmas
