import GlonaxModel.Lemmas.Tasks
/-! Liveness under fair polling, exactly-once teardown and quiescence of M-task. -/
namespace Glonax.Tasks

/-- main has left the scheduling calls: no task is created any more -/
def Past (s : Sys) : Prop := s.mainPhase = .waiting ∨ s.mainPhase = .joining ∨ s.mainPhase = .exited

def Stable (s : Sys) : Prop := Good s ∧ s.requested = true ∧ Past s

theorem stepMain_past (s : Sys) (h : Past s) : Past (stepMain s) ∧ (stepMain s).tasks = s.tasks ∧
    (stepMain s).requested = s.requested ∧ (stepMain s).log = s.log := by
  rcases h with h | h | h
  · simp only [stepMain, h]; split <;> simp [Past, h]
  · simp only [stepMain, h]; split <;> simp [Past, h]
  · simp only [stepMain, h]; simp [Past, h]

theorem stable_step (s : Sys) (e : Ev) (h : Stable s) :
    Stable (step s e) ∧ (step s e).tasks.length = s.tasks.length := by
  obtain ⟨hg, hr, hp⟩ := h
  cases e with
  | main =>
    have := stepMain_past s hp
    refine ⟨⟨?_, ?_, this.1⟩, by show (stepMain s).tasks.length = _; rw [this.2.1]⟩
    · intro t ht; exact hg t (by rw [← this.2.1]; exact ht)
    · show (stepMain s).requested = true; rw [this.2.2.1]; exact hr
  | request =>
    have hne : (s.mainPhase == MainPhase.unregistered) = false := by
      rcases hp with h | h | h <;> simp [h]
    simp only [step, hne]
    exact ⟨⟨hg, rfl, hp⟩, rfl⟩
  | poll i n =>
    refine ⟨⟨good_poll s i n hg, ?_, ?_⟩, ?_⟩
    all_goals (cases hi : s.tasks[i]? <;> simp only [step, hi])
    all_goals first | exact hr | exact hp | rfl | simp

def phaseAt (s : Sys) (i : Nat) : Nat := ((s.tasks[i]?).map fun t => rank t.phase).getD 0

def polls (i : Nat) : List Ev → Nat
  | [] => 0
  | .poll j _ :: r => (if j = i then 1 else 0) + polls i r
  | _ :: r => polls i r

theorem pollTask_rank (i : Nat) (n : Nat) (t : Task) (ha : t.arm = true) (hn : t.notifiable = true) :
    rank (pollTask i true n t).1.phase = rank t.phase - 1 := by
  unfold pollTask
  cases hph : t.phase <;> simp [rank, Task.notified, ha, hn, hph]

theorem phaseAt_step (s : Sys) (e : Ev) (i : Nat) (h : Stable s) :
    phaseAt (step s e) i = phaseAt s i - polls i [e] := by
  obtain ⟨hg, hr, hp⟩ := h
  cases e with
  | main =>
    have := stepMain_past s hp
    show phaseAt (stepMain s) i = _
    simp [phaseAt, this.2.1, polls]
  | request =>
    have hne : (s.mainPhase == MainPhase.unregistered) = false := by
      rcases hp with h | h | h <;> simp [h]
    simp [step, hne, phaseAt, polls]
  | poll j n =>
    cases hj : s.tasks[j]? with
    | none =>
      simp only [step, hj, polls]
      by_cases hji : j = i
      · subst hji; simp [phaseAt, hj]
      · simp [hji]
    | some t =>
      simp only [step, hj, polls]
      have htm : t ∈ s.tasks := List.mem_of_getElem? hj
      by_cases hji : j = i
      · subst hji
        have hlt : j < s.tasks.length := by
          rcases List.getElem?_eq_some_iff.mp hj with ⟨h, _⟩; exact h
        simp only [phaseAt, hj, if_true]
        rw [List.getElem?_set_self hlt]
        simp only [Option.map_some, Option.getD_some, Nat.add_zero]
        rw [hr]
        exact pollTask_rank j n t (hg t htm).1 (hg t htm).2
      · simp only [phaseAt, hji, if_false, Nat.add_zero, Nat.sub_zero]
        rw [List.getElem?_set_ne hji]

theorem run_cons (s : Sys) (e : Ev) (es : List Ev) : run s (e :: es) = run (step s e) es := rfl

theorem polls_cons (i : Nat) (e : Ev) (r : List Ev) : polls i (e :: r) = polls i [e] + polls i r := by
  cases e <;> simp [polls]

/-- the remaining work of task `i` shrinks with every poll of it, whatever else happens in between -/
theorem phaseAt_run (s : Sys) (es : List Ev) (i : Nat) (h : Stable s) :
    phaseAt (run s es) i = phaseAt s i - polls i es ∧ Stable (run s es) ∧ (run s es).tasks.length = s.tasks.length := by
  induction es generalizing s with
  | nil => simp [run, polls, h]
  | cons e rest ih =>
    have hs := stable_step s e h
    have := ih (step s e) hs.1
    have h1 := phaseAt_step s e i h
    rw [run_cons]
    refine ⟨?_, this.2.1, by rw [this.2.2, hs.2]⟩
    rw [this.1, h1, polls_cons i e rest]; omega

theorem phaseAt_le (s : Sys) (i : Nat) : phaseAt s i ≤ 2 := by
  unfold phaseAt
  cases s.tasks[i]? with
  | none => simp
  | some t => cases hp : t.phase <;> simp [rank, hp]

theorem done_of_phaseAt (s : Sys) (i : Nat) (t : Task) (ht : s.tasks[i]? = some t) (h : phaseAt s i = 0) : t.phase = .done := by
  simp only [phaseAt, ht, Option.map_some, Option.getD_some] at h
  cases hp : t.phase <;> simp [rank, hp] at h ⊢

/-! ### teardown exactly once -/

def tdCount (s : Sys) (i : Nat) : Nat := (s.log.filter (· == ⟨i, .teardown⟩)).length
def suCount (s : Sys) (i : Nat) : Nat := (s.log.filter (· == ⟨i, .setup⟩)).length

def Cnt (s : Sys) : Prop :=
  (∀ e ∈ s.log, e.task < s.tasks.length) ∧
  ∀ i t, s.tasks[i]? = some t →
    tdCount s i = (if t.phase = .done ∧ t.teardown = true then 1 else 0) ∧
    suCount s i = (if t.phase ≠ .start ∧ t.setup = true then 1 else 0)

theorem filter_replicate_body (i j n : Nat) (k : EmitKind) (hk : k ≠ .body) :
    ((List.replicate n (⟨j, .body⟩ : Emit)).filter (· == ⟨i, k⟩)) = [] := by
  rw [List.filter_eq_nil_iff]
  intro a ha
  rw [List.mem_replicate] at ha
  rw [ha.2]
  simp only [beq_iff_eq, Emit.mk.injEq, not_and]
  intro _ h; exact hk h.symm

theorem pollTask_emits (j : Nat) (rq : Bool) (n : Nat) (t : Task) : ∀ e ∈ (pollTask j rq n t).2, e.task = j := by
  intro e he
  unfold pollTask at he
  cases hp : t.phase <;> simp only [hp] at he
  · split at he <;> simp at he; rw [he]
  · split at he
    · simp only [List.mem_append, List.mem_replicate] at he
      rcases he with he | he
      · rw [he.2]
      · split at he <;> simp at he; rw [he]
    · simp only [List.mem_replicate] at he; rw [he.2]
  · simp at he

theorem filter_other (l : List Emit) (i j : Nat) (k : EmitKind) (h : ∀ e ∈ l, e.task = j) (hij : i ≠ j) :
    l.filter (· == ⟨i, k⟩) = [] := by
  rw [List.filter_eq_nil_iff]
  intro a ha
  have := h a ha
  simp only [beq_iff_eq]
  intro he; rw [he] at this; exact hij this

theorem cnt_execOp (s : Sys) (op : MOp) (cur' : List MOp) (h : Cnt s) : Cnt (execOp s op cur') := by
  obtain ⟨hb, hc⟩ := h
  cases op with
  | spawn k su td arm g role =>
    simp only [execOp]
    split
    · exact ⟨hb, hc⟩
    · refine ⟨?_, ?_⟩
      · intro e he; have := hb e he; simp only [List.length_append, List.length_singleton]; omega
      · intro i t hi
        simp only at hi
        by_cases hlt : i < s.tasks.length
        · rw [List.getElem?_append_left hlt] at hi
          exact hc i t hi
        · have hi' := hi
          rw [List.getElem?_append_right (by omega)] at hi
          have hi0 : i - s.tasks.length = 0 := by
            cases hk : i - s.tasks.length with
            | zero => rfl
            | succ m => rw [hk] at hi; simp at hi
          rw [hi0] at hi
          simp only [List.getElem?_cons_zero, Option.some.injEq] at hi
          subst hi
          have hz : ∀ kd, (s.log.filter (· == ⟨i, kd⟩)) = [] := by
            intro kd
            rw [List.filter_eq_nil_iff]
            intro a ha
            have := hb a ha
            simp only [beq_iff_eq]
            intro he; rw [he] at this; simp at this; omega
          simp [tdCount, suCount, hz]
  | subscribe k => exact ⟨hb, hc⟩
  | construct => exact ⟨hb, hc⟩
  | check => exact ⟨hb, hc⟩
  | point id => exact ⟨hb, hc⟩

theorem cnt_step (s : Sys) (e : Ev) (h : Cnt s) : Cnt (step s e) := by
  cases e with
  | request =>
    simp only [step]; split
    · exact h
    · exact h
  | main =>
    show Cnt (stepMain s)
    unfold stepMain
    split
    · exact h
    · split
      · exact cnt_execOp s _ _ h
      · split
        · exact h
        · exact h
    · split <;> exact h
    · split <;> exact h
    · exact h
  | poll j n =>
    obtain ⟨hb, hc⟩ := h
    cases hj : s.tasks[j]? with
    | none => simp only [step, hj]; exact ⟨hb, hc⟩
    | some tj =>
      simp only [step, hj]
      have hlt : j < s.tasks.length := by
        rcases List.getElem?_eq_some_iff.mp hj with ⟨h, _⟩; exact h
      have hem := pollTask_emits j s.requested n tj
      refine ⟨?_, ?_⟩
      · intro e he
        simp only [List.mem_append] at he
        simp only [List.length_set]
        rcases he with he | he
        · exact hb e he
        · rw [hem e he]; exact hlt
      · intro i t hi
        simp only at hi
        by_cases hij : i = j
        · subst hij
          rw [List.getElem?_set_self hlt] at hi
          simp only [Option.some.injEq] at hi
          have hold := hc i tj hj
          simp only [tdCount, suCount, List.filter_append, List.length_append] at hold ⊢
          rw [hold.1, hold.2, ← hi]
          unfold pollTask
          cases hp : tj.phase
          · -- start
            cases hsu : tj.setup <;> simp [hp, hsu]
          · -- loop
            by_cases hn : tj.notified s.requested = true
            · simp only [hn, if_true, hp]
              cases htd : tj.teardown <;> cases hsu : tj.setup <;>
                simp [hp, htd, hsu, List.filter_append, filter_replicate_body]
            · simp only [hn, if_false, hp]
              cases hsu : tj.setup <;> simp [hp, hsu, filter_replicate_body]
          · simp [hp]
        · rw [List.getElem?_set_ne (fun h => hij h.symm)] at hi
          have hold := hc i t hi
          simp only [tdCount, suCount, List.filter_append, List.length_append] at hold ⊢
          rw [filter_other _ i j _ hem hij, filter_other _ i j _ hem hij]
          simpa using hold

theorem cnt_init (calls : List (List MOp)) : Cnt (initOf calls) := by
  refine ⟨by intro e he; simp [initOf] at he, ?_⟩
  intro i t hi; simp [initOf] at hi

theorem cnt_run (s : Sys) (es : List Ev) (h : Cnt s) : Cnt (run s es) := by
  induction es generalizing s with
  | nil => exact h
  | cons e rest ih => exact ih (step s e) (cnt_step s e h)

/-! ### what is spawned when no request interferes -/

structure Shape where
  role : Role
  setup : Bool
  teardown : Bool
  deriving DecidableEq, Repr

def Task.shape (t : Task) : Shape := ⟨t.role, t.setup, t.teardown⟩

def spawnShapes : List MOp → List Shape
  | [] => []
  | .spawn _ su td _ _ role :: r => ⟨role, su, td⟩ :: spawnShapes r
  | _ :: r => spawnShapes r

/-- as long as no request has arrived, main spawns every task of every call -/
def Quiet (calls : List (List MOp)) (s : Sys) : Prop :=
  s.requested = false → s.skip = false ∧
    s.tasks.map Task.shape ++ spawnShapes s.cur ++ s.rest.flatMap spawnShapes = calls.flatMap spawnShapes

theorem quiet_step (calls : List (List MOp)) (s : Sys) (e : Ev) (h : Quiet calls s) : Quiet calls (step s e) := by
  cases e with
  | request =>
    simp only [step]; split
    · exact h
    · intro hr; simp at hr
  | poll j n =>
    cases hj : s.tasks[j]? with
    | none => simp only [step, hj]; exact h
    | some tj =>
      simp only [step, hj]
      intro hr
      obtain ⟨h1, h2⟩ := h hr
      refine ⟨h1, ?_⟩
      rw [← h2]
      congr 2
      apply List.ext_getElem?
      intro k
      simp only [List.getElem?_map]
      by_cases hk : k = j
      · subst hk
        have hlt : k < s.tasks.length := by
          rcases List.getElem?_eq_some_iff.mp hj with ⟨h, _⟩; exact h
        rw [List.getElem?_set_self hlt, hj]
        have := pollTask_keeps k s.requested n tj
        simp [Task.shape, this.2.2.1, this.2.2.2.1, this.2.2.2.2.1]
      · rw [List.getElem?_set_ne (fun h => hk h.symm)]
  | main =>
    show Quiet calls (stepMain s)
    unfold stepMain
    split
    · exact h
    · split
      · rename_i op cur' hc
        intro hr
        have hr0 : s.requested = false := by
          cases op <;> simp only [execOp] at hr
          all_goals first | exact hr | (split at hr <;> exact hr)
        obtain ⟨h1, h2⟩ := h hr0
        rw [hc] at h2
        cases op with
        | spawn k su td arm g role =>
          have hx : execOp s (.spawn k su td arm g role) cur' =
              { s with cur := cur', tasks := s.tasks ++ [{ svc := s.svc, role := role, setup := su, teardown := td, arm := arm,
                                                            notifiable := (s.slots.lookup k).getD false }] } := by
            simp [execOp, h1]
          rw [hx]
          refine ⟨h1, ?_⟩
          rw [← h2]
          simp [spawnShapes, Task.shape]
        | subscribe k => exact ⟨h1, by simpa [execOp, spawnShapes] using h2⟩
        | construct => exact ⟨h1, by simpa [execOp, spawnShapes] using h2⟩
        | point id => exact ⟨h1, by simpa [execOp, spawnShapes] using h2⟩
        | check => exact ⟨by simp [execOp, hr0], by simpa [execOp, spawnShapes] using h2⟩
      · rename_i hc
        split
        · rename_i c r hrest
          intro hr
          obtain ⟨_, h2⟩ := h hr
          refine ⟨rfl, ?_⟩
          rw [← h2, hc, hrest]
          simp [spawnShapes]
        · intro hr
          exact h hr
    · split
      · intro hr; exact h hr
      · exact h
    · split
      · intro hr; exact h hr
      · exact h
    · exact h

theorem quiet_init (calls : List (List MOp)) : Quiet calls (initOf calls) := by
  intro _; simp [initOf, spawnShapes]

theorem quiet_run (calls : List (List MOp)) (s : Sys) (es : List Ev) (h : Quiet calls s) : Quiet calls (run s es) := by
  induction es generalizing s with
  | nil => exact h
  | cons e rest ih => exact ih (step s e) (quiet_step calls s e h)

end Glonax.Tasks
