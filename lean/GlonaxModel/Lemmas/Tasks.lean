import GlonaxModel.Model.Tasks
/-! Invariants of the task system M-task. -/
namespace Glonax.Tasks

/-! ### every spawned task can be notified -/

def Good (s : Sys) : Prop := ∀ t ∈ s.tasks, t.arm = true ∧ t.notifiable = true

/-- what holds while `main` is inside the scheduling calls -/
def Loc (s : Sys) : Prop :=
  ∃ pre : List Nat,
    safeOps pre s.checked s.cur = true ∧
    (∀ c ∈ s.rest, safeCall c = true) ∧
    (s.checked = false → pre = s.slots.map (·.1)) ∧
    (s.requested = false → ∀ p ∈ s.slots, p.2 = true) ∧
    (s.skip = true → s.requested = true) ∧
    (s.checked = true → s.skip = false → ∀ k ∈ pre, s.slots.lookup k = some true)

def Inv (s : Sys) : Prop :=
  Good s ∧ (s.mainPhase = .scheduling → Loc s) ∧
  (s.mainPhase = .unregistered → s.requested = false ∧ s.cur = [] ∧ s.slots = [] ∧ s.checked = false ∧ s.skip = false ∧
    s.tasks = [] ∧ ∀ c ∈ s.rest, safeCall c = true)

theorem lookup_of_mem_keys (l : List (Nat × Bool)) (k : Nat) (h : k ∈ l.map (·.1)) :
    ∃ v, l.lookup k = some v ∧ (k, v) ∈ l := by
  induction l with
  | nil => simp at h
  | cons p rest ih =>
    obtain ⟨k', v'⟩ := p
    by_cases hk : k = k'
    · subst hk; exact ⟨v', by simp [List.lookup_cons], by simp⟩
    · have : k ∈ rest.map (·.1) := by
        simp only [List.map_cons, List.mem_cons] at h
        rcases h with h | h
        · exact absurd h hk
        · exact h
      obtain ⟨v, h1, h2⟩ := ih this
      refine ⟨v, ?_, List.mem_cons_of_mem _ h2⟩
      have : (k == k') = false := by simp [hk]
      simp [List.lookup_cons, this, h1]

theorem pollTask_keeps (i : Nat) (rq : Bool) (n : Nat) (t : Task) :
    (pollTask i rq n t).1.arm = t.arm ∧ (pollTask i rq n t).1.notifiable = t.notifiable ∧
    (pollTask i rq n t).1.teardown = t.teardown ∧ (pollTask i rq n t).1.setup = t.setup ∧
    (pollTask i rq n t).1.role = t.role ∧ (pollTask i rq n t).1.svc = t.svc := by
  unfold pollTask
  cases t.phase <;> simp
  split <;> simp

theorem good_poll (s : Sys) (i n : Nat) (h : Good s) : Good (step s (.poll i n)) := by
  cases hi : s.tasks[i]? with
  | none => simpa [step, hi] using h
  | some t =>
    intro t' ht'
    simp only [step, hi] at ht'
    rcases List.mem_or_eq_of_mem_set ht' with hm | he
    · exact h t' hm
    · have hk := pollTask_keeps i s.requested n t
      have htm : t ∈ s.tasks := List.mem_of_getElem? hi
      rw [he, hk.1, hk.2.1]; exact h t htm

theorem inv_execOp (s : Sys) (op : MOp) (cur' : List MOp) (hc : s.cur = op :: cur') (hp : s.mainPhase = .scheduling)
    (hg : Good s) (hl : Loc s) : Good (execOp s op cur') ∧ Loc (execOp s op cur') := by
  obtain ⟨pre, hsafe, hrest, hpre, hslots, hskip, hlook⟩ := hl
  rw [hc] at hsafe
  cases op with
  | subscribe k =>
    refine ⟨hg, ?_⟩
    cases hck : s.checked with
    | false =>
      rw [hck] at hsafe
      simp only [safeOps] at hsafe
      refine ⟨k :: pre, by simpa [execOp, hck] using hsafe, hrest, ?_, ?_, hskip, ?_⟩
      · intro _; simp [execOp, hpre hck]
      · intro hr p hp'
        simp only [execOp, List.mem_cons] at hp'
        rcases hp' with rfl | hp'
        · simp [show s.requested = false from hr]
        · exact hslots hr p hp'
      · intro h; simp [execOp, hck] at h
    | true =>
      rw [hck] at hsafe
      simp only [safeOps, Bool.and_eq_true, Bool.not_eq_true', ] at hsafe
      refine ⟨pre, by simpa [execOp, hck] using hsafe.2, hrest, ?_, ?_, hskip, ?_⟩
      · intro h; simp [execOp, hck] at h
      · intro hr p hp'
        simp only [execOp, List.mem_cons] at hp'
        rcases hp' with rfl | hp'
        · simp [show s.requested = false from hr]
        · exact hslots hr p hp'
      · intro _ hsk k0 hk0
        have hne : (k0 == k) = false := by
          have : ¬ k0 = k := by
            intro e; subst e
            have := hsafe.1
            simp [List.contains_iff_mem, hk0] at this
          simpa using this
        have := hlook hck hsk k0 hk0
        simp [execOp, List.lookup_cons, hne, this]
  | construct =>
    refine ⟨hg, pre, ?_, hrest, hpre, hslots, hskip, hlook⟩
    cases hck : s.checked <;> rw [hck] at hsafe <;> simpa [execOp, safeOps, hck] using hsafe
  | point id =>
    refine ⟨hg, pre, ?_, hrest, hpre, hslots, hskip, hlook⟩
    cases hck : s.checked <;> rw [hck] at hsafe <;> simpa [execOp, safeOps, hck] using hsafe
  | check =>
    refine ⟨hg, pre, ?_, hrest, ?_, hslots, ?_, ?_⟩
    · cases hck : s.checked <;> rw [hck] at hsafe <;> simpa [execOp, safeOps] using hsafe
    · intro h; simp [execOp] at h
    · intro h; simpa [execOp] using h
    · intro _ hsk k0 hk0
      have hr : s.requested = false := by simpa [execOp] using hsk
      cases hck : s.checked with
      | false =>
        have hmem : k0 ∈ s.slots.map (·.1) := by rw [← hpre hck]; exact hk0
        obtain ⟨v, h1, h2⟩ := lookup_of_mem_keys s.slots k0 hmem
        have : v = true := hslots hr (k0, v) h2
        subst this
        simpa [execOp] using h1
      | true =>
        have hsk0 : s.skip = false := by
          cases hs : s.skip with
          | false => rfl
          | true => have := hskip hs; rw [hr] at this; cases this
        simpa [execOp] using hlook hck hsk0 k0 hk0
  | spawn k su td arm g role =>
    have hs : s.checked = true ∧ g = true ∧ arm = true ∧ pre.contains k = true ∧ safeOps pre s.checked cur' = true := by
      cases hck : s.checked <;> rw [hck] at hsafe <;> simp [safeOps] at hsafe ⊢
      exact ⟨hsafe.1.1.1, hsafe.1.1.2, hsafe.1.2, hsafe.2⟩
    obtain ⟨hck, hgt, harm, hcont, hrestops⟩ := hs
    by_cases hsk : s.skip = true
    · have : execOp s (.spawn k su td arm g role) cur' = { s with cur := cur' } := by simp [execOp, hgt, hsk]
      rw [this]
      exact ⟨hg, pre, hrestops, hrest, hpre, hslots, hskip, hlook⟩
    · have hsk' : s.skip = false := by simpa using hsk
      have hk : s.slots.lookup k = some true := hlook hck hsk' k (by simpa [List.contains_iff_mem] using hcont)
      have : execOp s (.spawn k su td arm g role) cur' =
          { s with cur := cur', tasks := s.tasks ++ [{ svc := s.svc, role := role, setup := su, teardown := td, arm := arm, notifiable := true }] } := by
        simp [execOp, hgt, hsk', hk]
      rw [this]
      refine ⟨?_, pre, hrestops, hrest, hpre, hslots, hskip, hlook⟩
      intro t ht
      simp only [List.mem_append, List.mem_singleton] at ht
      rcases ht with ht | rfl
      · exact hg t ht
      · exact ⟨harm, rfl⟩

theorem inv_step (s : Sys) (e : Ev) (h : Inv s) : Inv (step s e) := by
  obtain ⟨hg, hl, hu⟩ := h
  cases e with
  | poll i n =>
    refine ⟨good_poll s i n hg, ?_, ?_⟩
    · intro hp
      cases hi : s.tasks[i]? with
      | none => simp only [step, hi] at hp ⊢; exact hl hp
      | some t =>
        simp only [step, hi] at hp ⊢
        obtain ⟨pre, h1, h2, h3, h4, h5, h6⟩ := hl hp
        exact ⟨pre, h1, h2, h3, h4, h5, h6⟩
    · intro hp
      cases hi : s.tasks[i]? with
      | none => simp only [step, hi] at hp ⊢; exact hu hp
      | some t =>
        simp only [step, hi] at hp
        have := (hu hp).2.2.2.2.2.1
        rw [this] at hi; simp at hi
  | request =>
    unfold step
    by_cases hp : s.mainPhase = .unregistered
    · simp only [hp, beq_self_eq_true, if_true]; exact ⟨hg, hl, hu⟩
    · have : (s.mainPhase == MainPhase.unregistered) = false := by simpa using hp
      simp only [this]
      refine ⟨hg, ?_, fun h => absurd h hp⟩
      intro hsch
      obtain ⟨pre, h1, h2, h3, _, h5, h6⟩ := hl hsch
      exact ⟨pre, h1, h2, h3, by intro h; simp at h, by intro _; rfl, h6⟩
  | main =>
    show Inv (stepMain s)
    cases hp : s.mainPhase with
    | unregistered =>
      simp only [stepMain, hp]
      obtain ⟨h1, h2, h3, h4, h5, h6, h7⟩ := hu hp
      refine ⟨hg, ?_, by intro h; simp at h⟩
      intro _
      exact ⟨[], by simp [h2, h4, safeOps], h7, by intro _; simp [h3], by intro _; simp [h3], by intro h; simp [h5] at h,
        by intro h; simp [h4] at h⟩
    | scheduling =>
      have hloc := hl hp
      cases hc : s.cur with
      | cons op cur' =>
        simp only [stepMain, hp, hc]
        have := inv_execOp s op cur' hc hp hg hloc
        have hph : (execOp s op cur').mainPhase = .scheduling := by
          cases op <;> simp [execOp, hp]
          split <;> simp [hp]
        exact ⟨this.1, fun _ => this.2, by intro h; rw [hph] at h; cases h⟩
      | nil =>
        obtain ⟨pre, _, hrest, _, _, _, _⟩ := hloc
        cases hr : s.rest with
        | nil =>
          simp only [stepMain, hp, hc, hr]
          exact ⟨hg, by intro h; simp at h, by intro h; simp at h⟩
        | cons c r =>
          simp only [stepMain, hp, hc, hr]
          refine ⟨hg, ?_, by intro h; simp [hp] at h⟩
          intro _
          have hc' : safeCall c = true := hrest c (by simp [hr])
          exact ⟨[], by simpa [safeCall] using hc', fun c' hc'' => hrest c' (by simp [hr, hc'']),
            by intro _; rfl, by intro _ p hp'; simp at hp', by intro h; simp at h, by intro h; simp at h⟩
    | waiting =>
      simp only [stepMain, hp]
      split
      · exact ⟨hg, by intro h; simp at h, by intro h; simp at h⟩
      · exact ⟨hg, hl, hu⟩
    | joining =>
      simp only [stepMain, hp]
      split
      · exact ⟨hg, by intro h; simp at h, by intro h; simp at h⟩
      · exact ⟨hg, hl, hu⟩
    | exited => simp only [stepMain, hp]; exact ⟨hg, hl, hu⟩

theorem inv_init (calls : List (List MOp)) (h : ∀ c ∈ calls, safeCall c = true) : Inv (initOf calls) := by
  refine ⟨by intro t ht; simp [initOf] at ht, by intro h; simp [initOf] at h, ?_⟩
  intro _
  exact ⟨rfl, rfl, rfl, rfl, rfl, rfl, h⟩

theorem inv_run (s : Sys) (es : List Ev) (h : Inv s) : Inv (run s es) := by
  induction es generalizing s with
  | nil => exact h
  | cons e rest ih => exact ih (step s e) (inv_step s e h)

end Glonax.Tasks
