import GlonaxModel.Base.J1939
/-! Shared helpers of the line-protocol driver (no imports outside core). -/
namespace Glonax.Driver

structure Verdict where
  /-- model output equals implementation output -/
  agree : Bool
  /-- canonical text of the model's output (shown on disagreement) -/
  model : String
  /-- names of Spec clauses that fail on the IMPLEMENTATION's output -/
  specFail : List String := []
  /-- the line could not be parsed (counts as a broken correspondence) -/
  parseErr : Bool := false

def Verdict.bad (msg : String) : Verdict := { agree := false, model := "parse-error: " ++ msg, parseErr := true }

def toks (s : String) : List String :=
  (s.trimAscii.toString.splitOn " ").filter (· ≠ "")

def nat? (s : String) : Option Nat := s.toNat?
def int? (s : String) : Option Int := s.toInt?

def nats? (l : List String) : Option (List Nat) := l.mapM nat?
def ints? (l : List String) : Option (List Int) := l.mapM int?

def hexDigit? (c : Char) : Option Nat :=
  if '0' ≤ c ∧ c ≤ '9' then some (c.toNat - '0'.toNat)
  else if 'a' ≤ c ∧ c ≤ 'f' then some (c.toNat - 'a'.toNat + 10)
  else if 'A' ≤ c ∧ c ≤ 'F' then some (c.toNat - 'A'.toNat + 10)
  else none

/-- "0a1bff" → [10, 27, 255]; "-" or "" → [] -/
def hexBytes? (s : String) : Option (List Nat) :=
  if s = "-" then some [] else
  let rec go : List Char → List Nat → Option (List Nat)
    | [], acc => some acc.reverse
    | [_], _ => none
    | a :: b :: rest, acc => do
        let x ← hexDigit? a
        let y ← hexDigit? b
        go rest ((x * 16 + y) :: acc)
  go s.toList []

def hexNib (n : Nat) : Char := if n < 10 then Char.ofNat (48 + n) else Char.ofNat (87 + n)
def hexByte (b : Nat) : String := String.ofList [hexNib (b / 16 % 16), hexNib (b % 16)]
def hexOf (bs : List Nat) : String := if bs.isEmpty then "-" else String.join (bs.map hexByte)

def failing (cl : List (String × Bool)) : List String := (cl.filter (fun c => !c.2)).map (·.1)

def joinSp (l : List String) : String := " ".intercalate l

end Glonax.Driver

namespace Glonax.Driver
open Glonax

def hexNat? (s : String) : Option Nat :=
  if s.isEmpty then none else
  s.toList.foldlM (fun acc c => do let d ← hexDigit? c; pure (acc * 16 + d)) 0

def hex8 (n : Nat) : String :=
  String.ofList ((List.range 8).reverse.map fun i => (hexNib (n / 16 ^ i % 16)).toUpper)

/-- `0CB34A27#5a43ff00ff` -/
def parseFrame? (s : String) : Option J1939.Frame :=
  match s.splitOn "#" with
  | [i, d] => do
      let id ← hexNat? i
      let data ← hexBytes? d
      pure { id := id, data := data }
  | _ => none

def showFrame (f : J1939.Frame) : String := hex8 f.id ++ "#" ++ hexOf f.data

def parseFrames? (s : String) : Option (List J1939.Frame) :=
  if s = "-" then some [] else (s.splitOn ",").mapM parseFrame?

def showFrames (fs : List J1939.Frame) : String :=
  if fs.isEmpty then "-" else ",".intercalate (fs.map showFrame)

end Glonax.Driver
