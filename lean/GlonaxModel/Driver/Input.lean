import GlonaxModel.Driver.Session
import GlonaxModel.Spec.C18
import GlonaxModel.Spec.Session
namespace Glonax.Driver.InpDrv
open Glonax Wire Input Glonax.Driver

def parseMode? : String → Option Mode
  | "xbox" => some .xbox | "logitech-solo" => some .logitechSolo
  | "logitech-right" => some .logitechRight | "logitech-left" => some .logitechLeft | _ => none

def showOut : Option Packet → String
  | none => "-"
  | some p => SessDrv.showCmd p

def parseOut? (s : String) : Option (Option Packet) :=
  if s = "-" then some none else (SessDrv.parseSignal? s).map some

def parseBtn? : String → Option Btn | "p" => some .pressed | "r" => some .released | _ => none

/-- `slew:<v>` … `abort:p` … -/
def parseScancode? (s : String) : Option Scancode :=
  match s.splitOn ":" with
  | ["slew", v] => v.toInt?.map .slew | ["arm", v] => v.toInt?.map .arm
  | ["attachment", v] => v.toInt?.map .attachment | ["boom", v] => v.toInt?.map .boom
  | ["left", v] => v.toInt?.map .leftTrack | ["right", v] => v.toInt?.map .rightTrack
  | ["abort", b] => (parseBtn? b).map .abort | ["confirm", b] => (parseBtn? b).map .confirm
  | ["drivelock", b] => (parseBtn? b).map .driveLock | ["limit", b] => (parseBtn? b).map .limitMotion
  | ["up", b] => (parseBtn? b).map .up | ["down", b] => (parseBtn? b).map .down
  | _ => none

def b01 (b : Bool) : String := if b then "1" else "0"
def showSt (s : St) : String := s!"{b01 s.driveLock}:{b01 s.motionLock}:{b01 s.limitMotion}:{s.engineRpm}"

def stepClauses (s : St) (sc : Scancode) (o : Option Packet) : List (String × Bool) :=
  [ ("locked_means_locked", !s.motionLock || Spec.C18.harmless o),
    ("abort_stops", sc != .abort .pressed || o == some (.motion .stopAll)),
    ("deadband", Spec.C18.deadbandOk o),
    ("half_scale", Spec.C18.halfScaleOk s.limitMotion o),
    ("engine_range", Spec.C18.engineOk o),
    ("values_i16", Spec.C18.valuesI16 o) ]

/-- model run over raw records from the start-up state, collecting (state before, scancode?, model out) -/
def modelRun (d : Dev) (s : St) : List (List Nat) → List (St × Option Scancode × Option (Option Packet))
  | [] => []
  | raw :: rest =>
    match decodeEvent raw with
    | none => [(s, none, none)]                -- the process died: nothing after it
    | some e =>
      let (d', sc) := d.map e
      match sc with
      | none => (s, none, some none) :: modelRun d' s rest
      | some sc =>
        let (s', o) := s.step sc
        (s, some sc, some o) :: modelRun d' s' rest

def parseSub? : String → Option Sub
  | "motion-lock" => some .motionLock | "hydraulic-quick-disconnect" => some .hydraulicQuickDisconnect
  | "hydraulic-lock" => some .hydraulicLock | "hydraulic-boost" => some .hydraulicBoost
  | "hydraulic-boom-conflux" => some .hydraulicBoomConflux | "hydraulic-arm-conflux" => some .hydraulicArmConflux
  | "hydraulic-boom-float" => some .hydraulicBoomFloat | "illumination" => some .illumination
  | "lights" => some .lights | "horn" => some .horn | "strobe-light" => some .strobeLight
  | "travel-alarm" => some .travelAlarm | _ => none

def check (inp out : List String) : Verdict :=
  match inp with
  | "ev" :: mode :: fm :: raws =>
    match parseMode? mode, raws.mapM hexBytes? with
    | some mode, some raws =>
      let m := modelRun { mode := mode } (startState (fm == "1")) raws
      let mout := m.map fun (_, _, o) => match o with | none => "PANIC" | some o => showOut o
      -- after a PANIC nothing follows
      let agree := mout == out.take mout.length && (out.length == mout.length)
      let cl := (m.zip out).flatMap fun ((s, sc, _), o) =>
        if o == "PANIC" then [("no_crash", false)]
        else match parseOut? o, sc with
          | some o, some sc => stepClauses s sc o
          | some o, none => [("silent_when_unmapped", o.isNone)]
          | none, _ => [("parsable_output", false)]
      { agree := agree, model := joinSp mout, specFail := (failing cl).eraseDups }
    | _, _ => .bad "ev tokens"
  | "hs" :: _ => SessDrv.check "C14" inp out
  | "e2e" :: _ :: "0late" :: _ =>
    -- the daemon's socket appeared only after glonax-input was started: giving up without a session is fine; a session that
    -- IS registered is a failsafe session (the bytes after the handshake depend on when it connected: not compared)
    match out with
    | ["NOCONN"] => { agree := true, model := "NOCONN", specFail := [] }
    | flags :: _ =>
      match flags.toNat? with
      | some flags =>
        let ok := flags / 16 % 2 == 1
        { agree := ok, model := "NOCONN | 16 …", specFail := failing [("failsafe_registered_by_default", ok)] }
      | none => .bad "e2e late flags"
    | _ => .bad "e2e late tokens"
  | "e2e" :: mode :: fm :: raws =>
    match parseMode? mode, raws.mapM hexBytes?, out with
    | some mode, some raws, [flags, bytes] =>
      match flags.toNat?, hexBytes? bytes with
      | some flags, some bytes =>
        let m := modelRun { mode := mode } (startState (fm == "1")) raws
        let sent := (m.filterMap fun (_, _, o) => o.join).flatMap sendPacket
        let wantFlags := if Consts.inputFailSafeDefault then 0x10 else 0
        -- independent of the model: what the stub daemon received, split into frames and decoded
        let (frames, leftover) := Spec.Sess.split (bytes.length + 1) bytes
        let received : List (Option Packet) := frames.map fun f =>
          match Sess.serverKind? f.ty with
          | some k => (match decode k f.payload with | .ok p => some p | _ => none)
          | none => none
        -- no Abort record (button 1) in the stream: the start-up lock was never released
        let neverReleased := raws.all fun r => !(r.getD 6 0 % 128 == 1 && r.getD 7 0 == 1)
        { agree := sent == bytes && flags == wantFlags, model := s!"{wantFlags} {hexOf sent}",
          specFail := failing [
            ("failsafe_registered_by_default", flags / 16 % 2 == 1),
            ("whole_frames", leftover.isEmpty && received.all (·.isSome)),
            ("startup_locked", !neverReleased || received.all Spec.C18.harmless),
            -- every Abort press the operator made (as the record sequence says) reached the daemon as a stop-all
            ("every_abort_press_is_forwarded_as_stop",
              (m.filter fun (_, sc, _) => sc == some (.abort .pressed)).length
                ≤ (received.filter fun p => p == some (.motion .stopAll)).length),
            ("engine_range", received.all Spec.C18.engineOk),
            ("deadband", received.all Spec.C18.deadbandOk) ] }
      | _, _ => .bad "e2e values"
    | _, _, _ => .bad "e2e tokens"
  | ["st", st, sc] =>
    match (st.splitOn ":"), parseScancode? sc, out with
    | [d, ml, lm, rpm], some sc, [st', o] =>
      match rpm.toNat?, parseOut? o with
      | some rpm, some o =>
        let s : St := { driveLock := d == "1", motionLock := ml == "1", limitMotion := lm == "1", engineRpm := rpm }
        let (ms, mo) := s.step sc
        { agree := showSt ms == st' && mo == o, model := showSt ms ++ " " ++ showOut mo,
          specFail := failing (stepClauses s sc o) }
      | _, _ => .bad "st values"
    | _, _, _ => .bad "st tokens"
  | ["cli2", sub, arg, compat] =>
    -- the sub-commands without an on/off word
    match hexBytes? (out.headD "-") with
    | some bytes =>
      let want? : Option Packet :=
        if sub == "engine-shutdown" then some (.engine Engine.shutdown)
        else if sub == "machine-shutdown" then some (.control .machineShutdown)
        else if sub == "engine" then arg.toNat?.map fun rpm => .engine (Engine.fromRpm rpm)
        else none
      match want? with
      | some p =>
        let m := if compat == "1" then sendPacket p else []
        { agree := m == bytes, model := hexOf m,
          specFail := failing [("cli_sends_exactly", bytes == m)] }
      | none => .bad "cli2 sub-command"
    | none => .bad "cli2 bytes"
  | ["cli", sub, word, compat] =>
    match parseSub? sub, out with
    | some sub, [bytes] =>
      match hexBytes? bytes with
      | some bytes =>
        -- the word is given hex-encoded (it may contain any characters)
        let w := match hexBytes? word with
          | some bs => (String.fromUTF8? (ByteArray.mk (bs.map (fun (x : Nat) => x.toUInt8)).toArray)).getD ""
          | none => ""
        let m := (cliSends (compat == "1") sub w.toLower).flatMap sendPacket
        let accepted := Spec.C18.acceptedWords.contains w.toLower
        { agree := m == bytes, model := hexOf m,
          specFail := failing [
            ("cli_sends_exactly", !(compat == "1" && accepted) || bytes == m),
            ("cli_rejected_word_silent", accepted || bytes.isEmpty),
            ("cli_incompatible_silent", compat == "1" || bytes.isEmpty) ] }
      | none => .bad "cli bytes"
    | _, _ => .bad "cli tokens"
  | _ => .bad "C18 arity"

end Glonax.Driver.InpDrv
