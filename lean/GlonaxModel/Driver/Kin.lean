import GlonaxModel.Driver.Common
import GlonaxModel.Base.F32
import GlonaxModel.Model.Kinematics
/-! Line protocol for C19.  All numbers travel as IEEE-754 binary32 bit patterns (8 hex digits) and are read as EXACT
rationals; the f32 results of the implementation are compared with the exact model within a stated tolerance and the
Spec clauses are evaluated on the implementation's own output in exact arithmetic.
  `sr <d> => <r>`                                  shortest_rotation
  `loc <a> <b> <c> => <r>`                         law_of_cosines
  `lm <lb> <offset> <scale> <inv> <d,d,…> => <v|n|P>,…`   linear_motion over an ascending sweep of errors
  `lu <kp> <offset> <inv> <e,e,…> => <bits|P>,…`   Linear::update over an ascending sweep
  `act <kp> <offset> <inv> <e|->… => <v:<i16>|s|n|P>…`   ActuatorState::update over a history
  `world <query> <name>:<16 words>… => <x> <y> <z>`       Actor::world_location
  `actor <n> => <verdict tokens from the harness oracle>` Actor to_bytes / try_from -/
namespace Glonax.Driver.KinDrv
open Glonax Kin Glonax.Driver

inductive F where
  | fin (q : Rat) (neg : Bool)
  | inf (neg : Bool)
  | nan
  deriving Repr

def pow2 (e : Int) : Rat := if e ≥ 0 then ((2 ^ e.toNat : Nat) : Rat) else 1 / ((2 ^ (-e).toNat : Nat) : Rat)

def ofBits (b : Nat) : F :=
  let neg := b ≥ 2147483648
  let ex := b / 8388608 % 256
  let fr := b % 8388608
  if ex = 255 then (if fr = 0 then .inf neg else .nan)
  else
    let mag : Rat := if ex = 0 then (fr : Rat) * pow2 (-149) else ((8388608 + fr : Nat) : Rat) * pow2 ((ex : Int) - 150)
    .fin (if neg then -mag else mag) neg

def f? (s : String) : Option F := (hexNat? s).map ofBits

def F.q? : F → Option Rat
  | .fin q _ => some q
  | _ => none

def absQ (q : Rat) : Rat := if q ≥ 0 then q else -q

/-- PI as f32: 0x40490FDB -/
def piF : Rat := (13176795 : Rat) / 4194304

def showQ (q : Rat) : String :=
  -- 6 decimals, for messages only
  let n := (q * 1000000).floor
  s!"{n}e-6"

/-! ### shortest_rotation -/

def nearestInt (q : Rat) : Int := (q + 1 / 2).floor

def checkSr (d r : F) : Verdict :=
  match d with
  | .fin dq _ =>
    if dq < -(2 * piF) then
      -- outside the stated domain: only totality (the harness got a value back)
      { agree := true, model := "(below -2pi: no claim)" }
    else
      match r with
      | .fin rq _ =>
        let m := shortestRotation piF dq
        let tol := (absQ dq + 8) / 4194304
        -- near a wrap point the f32 sum may land on the other side: the two candidates differ by 2*pi
        let agree := absQ (rq - m) ≤ tol || absQ (absQ (rq - m) - 2 * piF) ≤ tol
        let k := nearestInt ((rq - dq) / (2 * piF))
        { agree := agree, model := showQ m,
          specFail := failing [
            ("range_open_closed", decide (-piF < rq) && decide (rq ≤ piF)),
            ("congruent_mod_2pi", decide (absQ (rq - dq - 2 * piF * (k : Rat)) ≤ tol))] }
      | _ => { agree := false, model := "finite", specFail := ["finite_result"] }
  | _ => { agree := true, model := "(non-finite argument: no claim)" }

/-! ### law_of_cosines -/

/-- cos x by its Taylor polynomial of degree 24 (|x| ≤ 4: truncation error < 1e-9) -/
def cosT (x : Rat) : Rat :=
  let x2 := x * x
  (List.range 13).foldl (fun (acc : Rat × Rat) k =>
    -- term_k = (-1)^k x^(2k) / (2k)!
    let term := acc.2
    (acc.1 + term, -term * x2 / (((2 * k + 1) * (2 * k + 2) : Nat) : Rat))) ((0 : Rat), (1 : Rat)) |>.1

def checkLoc (a b c r : F) : Verdict :=
  match a.q?, b.q?, c.q? with
  | some a, some b, some c =>
    -- sides whose squares stay far inside the normal range of binary32 (1e-10 … 1e4)
    let inDom := decide (a ≥ 1 / 10000000000) && decide (a ≤ 10000) && decide (b ≥ 1 / 10000000000) && decide (b ≤ 10000) &&
                 decide (c ≥ 0) && decide (c ≤ 30000)
    if !inDom then { agree := true, model := "(outside the asserted magnitudes: no claim)" } else
    let x := cosArg a b c
    -- conditioning of the f32 evaluation: each square carries half an ulp, the quotient amplifies by 1/(2ab)
    let band : Rat := 1 / 10000 + (a * a + b * b + c * c) / (2 * a * b) / 1048576
    if absQ (absQ x - 1) ≤ band then { agree := true, model := "(degenerate triangle band: counted, not asserted)" } else
    let exists_ := decide (absQ x ≤ 1)
    match r with
    | .nan => { agree := !exists_, model := if exists_ then "angle" else "NaN",
                specFail := failing [("nan_only_without_triangle", !exists_)] }
    | .fin rq _ =>
      { agree := exists_, model := if exists_ then "angle" else "NaN",
        specFail := failing [
          ("angle_when_triangle_exists", exists_),
          ("angle_in_0_pi", decide (0 ≤ rq) && decide (rq ≤ piF + 1 / 1000000)),
          ("cos_of_angle_is_law_of_cosines", !exists_ || decide (absQ (cosT rq - x) ≤ 1 / 2000 + band))] }
    | .inf _ => { agree := false, model := "angle or NaN", specFail := ["finite_or_nan"] }
  | _, _, _ => { agree := true, model := "(non-finite side: no claim)" }

/-! ### linear_motion sweep -/

inductive IRes where
  | none | val (v : Int) | panic
  deriving DecidableEq, Repr

def ires? (s : String) : Option IRes :=
  if s = "n" then some .none else if s = "P" then some .panic else s.toInt?.map .val

def showRes : Res → String
  | .none => "n" | .some v => toString v | .panic => "P"

/-- non-increasing (or, inverted, non-decreasing) along the ascending sweep, over the values that are present -/
def monotone (inv : Bool) (vs : List Int) : Bool :=
  match vs with
  | [] => true
  | v :: r => (r.foldl (fun (acc : Bool × Int) w => (acc.1 && (if inv then decide (acc.2 ≤ w) else decide (w ≤ acc.2)), w)) (true, v)).1

def checkLm (lb off sc : F) (inv : Bool) (ds : List F) (out : List IRes) : Verdict :=
  if ds.length != out.length then .bad "one result per error" else
  match lb.q?, off.q?, sc.q?, ds.mapM F.q? with
  | some lbq, some offq, some scq, some dqs =>
    let negs := ds.map fun d => match d with | .fin _ n => n | _ => false
    let ms := (dqs.zip negs).map fun (d, n) => linearMotion d lbq offq scq n inv
    let contract := decide (0 ≤ offq) && decide (offq ≤ 32767) && decide (0 ≤ scq)
    let pairOk (m : Res) (o : IRes) : Bool :=
      match m, o with
      | .none, .none => true
      -- outside the contract (negative / huge gains) f32 absorption makes the exact value meaningless: only
      -- the presence of a value is compared there
      | .some a, .val b => contract && decide ((a - b).natAbs ≤ 1) || !contract
      | .panic, .panic => true
      | _, _ => false
    let vals := out.filterMap fun o => match o with | .val v => some v | _ => none
    let signOk := ((dqs.zip negs).zip out).all fun ((d, n), o) =>
      match o with
      | .val v => if d = 0 then true else if (n != inv) then decide (0 ≤ v) else decide (v ≤ 0)
      | _ => true
    { agree := (ms.zip out).all fun (m, o) => pairOk m o,
      model := ",".intercalate (ms.map showRes),
      specFail := failing [
        -- "saturate at the signed 16-bit limits instead of wrapping": for finite errors, whatever the gains
        ("saturates_instead_of_wrapping", out.all fun o => o != .panic),
        ("none_exactly_inside_deadband", (dqs.zip out).all fun (d, o) => (o == .none) == decide (absQ d < lbq)),
        ("within_i16", vals.all fun v => decide (-32768 ≤ v) && decide (v ≤ 32767)),
        ("opposes_error_sign_unless_inverted", !contract || signOk),
        ("monotone_in_error", !contract || monotone inv vals)] }
  | _, _, _, _ =>
    -- NaN / infinite parameters or errors: the property speaks about finite errors; a crash is still reported
    { agree := true, model := "(non-finite parameter: totality only)",
      specFail := failing [("saturates_instead_of_wrapping", out.all fun o => o != .panic)] }

/-! ### Linear::update sweep -/

inductive FRes where
  | val (f : F) | panic

def fres? (s : String) : Option FRes := if s = "P" then some .panic else (f? s).map .val

def monotoneQ (inv : Bool) (vs : List Rat) : Bool :=
  match vs with
  | [] => true
  | v :: r => (r.foldl (fun (acc : Bool × Rat) w => (acc.1 && (if inv then decide (acc.2 ≤ w) else decide (w ≤ acc.2)), w)) (true, v)).1

def checkLu (kp off : F) (inv : Bool) (es : List F) (out : List FRes) : Verdict :=
  if es.length != out.length then .bad "one result per error" else
  match kp.q?, off.q?, es.mapM F.q? with
  | some kpq, some offq, some eqs =>
    let negs := es.map fun d => match d with | .fin _ n => n | _ => false
    let ms := (eqs.zip negs).map fun (e, n) => linearUpdate kpq offq inv e n
    let contract := decide (0 ≤ offq) && decide (offq ≤ 32767) && decide (0 ≤ kpq)
    let tolOf (m : Rat) : Rat := (absQ m + absQ offq + 1) / 2097152
    let pairOk (m : Option Rat) (o : FRes) : Bool :=
      match m, o with
      | none, .panic => true
      | some a, .val (.fin b _) => decide (absQ (a - b) ≤ tolOf a)
      | _, _ => false
    let vals := out.filterMap fun o => match o with | .val (.fin v _) => some v | _ => none
    let signOk := ((eqs.zip negs).zip out).all fun ((e, _), o) =>
      match o with
      | .val (.fin v _) => if e = 0 then true else if (decide (e < 0) != inv) then decide (0 ≤ v) else decide (v ≤ 0)
      | _ => true
    { agree := (ms.zip out).all fun (m, o) => pairOk m o,
      model := ",".intercalate (ms.map fun m => match m with | some q => showQ q | none => "P"),
      specFail := failing [
        ("no_panic_within_contract", !contract || out.all fun o => match o with | .panic => false | _ => true),
        ("within_i16_span", !contract || vals.all fun v => decide (-32768 ≤ v) && decide (v ≤ 32768)),
        ("opposes_error_sign_unless_inverted", !contract || signOk),
        ("monotone_in_error", !contract || monotoneQ inv vals)] }
  | _, _, _ => { agree := true, model := "(non-finite parameter: no claim)" }

/-! ### ActuatorState -/

def checkAct (kp off : F) (inv : Bool) (ins : List (Option F)) (out : List String) : Verdict :=
  if ins.length != out.length then .bad "one event per input" else
  match kp.q?, off.q? with
  | some kpq, some offq =>
    let step (acc : Bool × List String × Bool) (i : Option F) (o : String) : Bool × List String × Bool :=
      let (stop, shown, ok) := acc
      match i with
      | none =>
        let r := actuatorUpdate stop none
        let m := match r.2 with | some _ => "s" | none => "n"
        (r.1, shown ++ [m], ok && o == m)
      | some (.fin e n) =>
        match linearUpdate kpq offq inv e n with
        | some v =>
          let mv := toI16 v
          let r := actuatorUpdate stop (some (e, mv))
          let okv := match (if o.startsWith "v:" then (o.drop 2).toString.toInt? else none) with
            | some iv => decide ((iv - mv).natAbs ≤ 1)
            | none => false
          (r.1, shown ++ [s!"v:{mv}"], ok && okv)
        | none => (false, shown ++ ["P"], ok && o == "P")
      | some _ => (false, shown ++ ["?"], ok)
    let r := (ins.zip out).foldl (fun acc (i, o) => step acc i o) (false, [], true)
    -- the stop-once rule on the implementation's own output
    let stopOnce := ((ins.zip out).foldl (fun (acc : Bool × Bool) (i, o) =>
        match i with
        | none => (true, acc.2 && (o == (if acc.1 then "n" else "s")))
        | some _ => (false, acc.2 && o != "n" && o != "s")) (false, true)).2
    -- the sign rule on the implementation's own output (contract gains only: kp > 0, 0 <= offset <= 32767): the value opposes
    -- the error for a non-inverted profile and follows it for an inverted one - in particular at saturation
    let inContract := decide (kpq > 0) && decide (offq ≥ 0) && decide (offq ≤ 32767)
    let signOk := !inContract || ((ins.zip out).all fun (i, o) =>
      match i, (if o.startsWith "v:" then (o.drop 2).toString.toInt? else none) with
      | some (.fin e neg), some v =>
        -- the error's sign bit decides (an error of +-0 included); a value of 0 is neither
        if v == 0 then true
        else if inv then (if neg then decide (v < 0) else decide (v > 0) || e == 0)
        else (if neg then decide (v > 0) else decide (v < 0) || e == 0)
      | _, _ => true)
    { agree := r.2.2, model := joinSp r.2.1,
      specFail := failing [("stop_exactly_once", stopOnce), ("value_opposes_or_follows_the_error_as_configured", signOk),
                           ("value_within_i16", out.all fun o =>
                              if o.startsWith "v:" then (match (o.drop 2).toString.toInt? with
                                | some v => decide (-32768 ≤ v) && decide (v ≤ 32767) | none => false) else true)] }
  | _, _ => { agree := true, model := "(non-finite parameter: no claim)" }

/-! ### world_location -/

def parseSeg? (s : String) : Option (String × Mat4) :=
  match s.splitOn ":" with
  | [name, ws] =>
    match (ws.splitOn ",").mapM (fun w => (f? w).bind F.q?) with
    | some qs =>
      if qs.length != 16 then none else
      -- row-major
      some (name, (List.range 4).map fun i => (List.range 4).map fun j => qs.getD (4 * i + j) 0)
    | none => none
  | _ => none

def checkWorld (query : String) (segs : List (String × Mat4)) (out : List F) : Verdict :=
  match out.mapM F.q? with
  | some [x, y, z] =>
    let m := worldLocation segs query
    -- tolerance: proportional to the magnitudes involved and the chain length
    let mags := segs.foldl (fun acc s => acc + (originOf s.2).foldl (fun a v => a + absQ v) 0) (1 : Rat)
    let tol := mags * (segs.length + 1 : Nat) / 1048576
    let ok := ((m.zip [x, y, z]).all fun (a, b) => decide (absQ (a - b) ≤ tol)) && m.length == 3
    -- the spec: the ordered product over the prefix up to the first segment with the requested name
    let pre := upTo query segs
    let prod := originOf (pre.foldl (fun a p => matMul a p.2) matId)
    let okSpec := ((prod.zip [x, y, z]).all fun (a, b) => decide (absQ (a - b) ≤ tol)) && prod.length == 3
    { agree := ok, model := joinSp (m.map showQ), specFail := failing [("ordered_product_of_segment_transforms", okSpec)] }
  | _ => { agree := false, model := "three finite coordinates", specFail := ["finite_result"] }

def check (inp out : List String) : Verdict :=
  match inp, out with
  | ["sr", d], [r] =>
    match f? d, f? r with
    | some d, some r => checkSr d r
    | _, _ => .bad "sr"
  | ["loc", a, b, c], [r] =>
    match f? a, f? b, f? c, f? r with
    | some a, some b, some c, some r => checkLoc a b c r
    | _, _, _, _ => .bad "loc"
  | ["lm", lb, off, sc, inv, ds], [vs] =>
    match f? lb, f? off, f? sc, (ds.splitOn ",").mapM f?, (vs.splitOn ",").mapM ires? with
    | some lb, some off, some sc, some ds, some vs => checkLm lb off sc (inv == "1") ds vs
    | _, _, _, _, _ => .bad "lm"
  | ["lu", kp, off, inv, es], [vs] =>
    match f? kp, f? off, (es.splitOn ",").mapM f?, (vs.splitOn ",").mapM fres? with
    | some kp, some off, some es, some vs => checkLu kp off (inv == "1") es vs
    | _, _, _, _ => .bad "lu"
  | "act" :: kp :: off :: inv :: ins, outs =>
    match f? kp, f? off, ins.mapM (fun s => if s = "-" then some none else (f? s).map some) with
    | some kp, some off, some ins => checkAct kp off (inv == "1") ins outs
    | _, _, _ => .bad "act"
  | "world" :: query :: segs, outs =>
    match segs.mapM parseSeg?, outs.mapM f? with
    | some segs, some outs => checkWorld query segs outs
    | _, _ => .bad "world"
  | "actor" :: _, outs =>
    -- oracle evaluated in the harness against the real types (names, translations bit-exact, rotation within 1e-5)
    { agree := true, model := "ok", specFail := if outs == ["ok"] then [] else ["actor_roundtrip"] }
  | _, _ => .bad "C19 arity"

end Glonax.Driver.KinDrv
