import GlonaxModel.Driver.Drivers
import GlonaxModel.Spec.C10
namespace Glonax.Driver.AuthDrv
open Glonax J1939 Drv Auth Glonax.Driver

def optNat? (s : String) : Option (Option Nat) := if s = "-" then some none else s.toNat?.map some

def parseDriver? (d : String) : Option DriverCfg :=
  match d.splitOn "," with
  | [da, sa, t, v, p] => do
      let da ← da.toNat?
      let sa ← optNat? sa
      let t ← optNat? t
      pure { da := da, sa := sa, timeout := t, vendor := v, product := p }
  | _ => none

/-- `addr;mc,fi,ecu,fn,vs,vsi,ig;da,sa|-,timeout|-,vendor,product/…` -/
def parseCfg? (s : String) : Option NetCfg :=
  match s.splitOn ";" with
  | [a, n, ds] => do
      let addr ← a.toNat?
      let nm ← (n.splitOn ",").mapM String.toNat?
      let name : NameCfg ← (match nm with
        | [mc, fi, ecu, fnc, vs, vsi, ig] => some (NameCfg.mk mc fi ecu fnc vs vsi ig)
        | _ => none)
      let drivers ← if ds = "-" then some [] else (ds.splitOn "/").mapM parseDriver?
      pure { address := addr, name := name, drivers := drivers }
  | _ => none

def parseEv? (s : String) : Option Ev :=
  if s = "U" then some .setup else if s = "Y" then some .cycle else if s = "O" then some .otherCmd
  else if s = "D" then some .teardown
  else if s.startsWith "F:" then (parseFrame? (s.drop 2).toString).map .frame
  else if s.startsWith "W:" then (s.drop 2).toString.toNat?.map .wait
  else if s.startsWith "M:" then (parseMotion? (s.drop 2).toString).map .motion
  else if s.startsWith "E:" then (DrvDrv.parseEngine? (s.drop 2).toString).map .engine
  else none

structure ImplOut where
  frames : List Frame
  signals : List String
  statuses : List String
  panicked : Bool := false
  /-- the frame was put on the bus but the service never got it (its network layer dropped it) -/
  notReceived : Bool := false

def parseOut? (s : String) : Option ImplOut :=
  if s = "PANIC" then some ⟨[], [], [], true, false⟩ else
  if s = "NOTRECEIVED" then some ⟨[], [], [], false, true⟩ else
  match s.splitOn "/" with
  | [f, sg, st] => do
      let frames ← parseFrames? f
      pure { frames := frames, signals := if sg = "-" then [] else sg.splitOn ";",
             statuses := if st = "-" then [] else st.splitOn ";" }
  | _ => none

def showStatus (cfg : NetCfg) (s : Status) : String :=
  let name := ((units cfg)[s.unit]?.map unitName).getD "?"
  name ++ "|" ++ (match s.kind with | .healthy => "H" | .faultyTimeout => "T")

def showOut (cfg : NetCfg) (o : Out) : String :=
  showFrames o.frames ++ "/" ++ (if o.signals.isEmpty then "-" else ";".intercalate (o.signals.map DrvDrv.showSig)) ++ "/" ++
  (if o.statuses.isEmpty then "-" else ";".intercalate (o.statuses.map (showStatus cfg)))

/-- walk the events with the model state, producing per-event clauses for the property -/
def clauses (prop : String) (cfg : NetCfg) (seen : List Nat := []) : St → List Ev → List ImplOut → List (String × Bool)
  | _, [], _ => []
  | _, _, [] => []
  | s, e :: es, o :: os =>
    let r := step cfg s e
    -- source addresses of every frame received so far (this event included)
    let seen' := match e with | .frame f => source f.id :: seen | _ => seen
    -- C11: a unit is reported Healthy only if some frame came from ITS OWN address (the simulator is exempt: finding)
    let healthyClause : List (String × Bool) :=
      if prop == "C11" then
        match e with
        | .cycle =>
          [("healthy_only_if_heard_from_own_address", ((units cfg).zipIdx.all fun (u, i) =>
              u.kind == .sim || !(o.statuses.contains (showStatus cfg { unit := i, kind := .healthy })) || seen'.contains u.da))]
        | _ => []
      else []
    let here : List (String × Bool) :=
      [("no_panic", !o.panicked), ("every_frame_on_the_bus_reaches_the_service", !o.notReceived)] ++
      (match e with
      | .cycle =>
        if prop == "C10" || prop == "C11" then
          -- the reference rule of the Spec, unit by unit, against what the implementation published in this cycle
          let expected := (((units cfg).zip s.units).zipIdx.filterMap fun ((u, us), i) =>
            (Spec.C10.mustPublish { heard := us.heard, silentFor := s.now - us.lastRx + 1, timeout := u.timeout,
                                     previous := us.lastStatus, cycle := s.tick }).map fun k =>
              showStatus cfg { unit := i, kind := k })
          -- (under C11 the same comparison reads: a unit counts as heard - and stays Healthy - only through frames from ITS
          -- OWN address that ITS driver accepts; `us.heard` / `us.lastRx` are credited by exactly those)
          [(if prop == "C10" then "status_truthful_and_fresh" else "units_credited_only_by_their_own_frames", expected == o.statuses)]
        else if prop == "C01" || prop == "C02" || prop == "C15" then
          -- every cycle re-asserts the LATEST accepted motion command to every hydraulic unit (lock if there was none)
          let setupLen := if s.isSetup then 0 else ((units cfg).flatMap setupFrames).length
          let isHcuMotion (f : Frame) : Bool :=
            (pgn f.id == 45824 || pgn f.id == 40960 || pgn f.id == 41216) &&
            ((units cfg).any fun u => u.kind == .hcu && destination? f.id == some u.da)
          let expect := ((units cfg).zip s.units).flatMap fun (u, us) =>
            if u.kind == .hcu then Hcu.encodeMotion u.da u.sa (us.hcu.getD .stopAll) else []
          [("cycle_reasserts_latest_command", (o.frames.drop setupLen).filter isHcuMotion == expect)]
        else if prop == "C08" then
          -- every cycle sends each engine unit exactly the speed-control frame the driver model prescribes for this
          -- history (one per configured Volvo unit), whether or not the unit is currently heard
          let isVolvo (f : Frame) : Bool := pgn f.id == Consts.volvoSpeedPgn
          let expect := ((units cfg).zip s.units).flatMap fun (u, us) =>
            if u.kind == .d7e then (volvoStep u.sa { us.volvo with now := s.now } .tick).2 else []
          [("cycle_sends_every_engine_its_frame", o.frames.filter isVolvo == expect)]
        else if prop == "C20" then
          -- every published status carries the canonical name of a CONFIGURED unit (vendor:product:0xSA:0xDA from the
          -- configuration entry, not from whatever driver the factory happened to build)
          let expectedSt := (((units cfg).zip s.units).zipIdx.filterMap fun ((u, us), i) =>
            (Spec.C10.mustPublish { heard := us.heard, silentFor := s.now - us.lastRx + 1, timeout := u.timeout,
                                     previous := us.lastStatus, cycle := s.tick }).map fun k =>
              showStatus cfg { unit := i, kind := k })
          [("status_names_are_configured_units", o.statuses.all fun st =>
              (units cfg).any fun u => st.startsWith (unitName u ++ "|")),
           -- each configured unit behaves as the driver of ITS (vendor, product): what it reports once it has spoken
           ("every_configured_unit_reports_as_its_product", expectedSt == o.statuses),
           ("setup_requests_on_first_cycle",
            s.isSetup || ((units cfg).flatMap setupFrames).isPrefixOf o.frames)]
        else []
      | .setup =>
        if prop == "C20" then [("address_claim_on_setup", o.frames == [addressClaimed cfg.address cfg.name])] else []
      | .frame f =>
        if prop == "C11" then
          -- only frames whose source is a configured unit may produce signals
          [("signals_only_from_configured_units", o.signals.isEmpty || (units cfg).any fun u => u.da == source f.id || u.kind == .sim)]
        else if prop == "C12" then
          [("signals_as_decoded", o.signals == r.2.signals.map DrvDrv.showSig)]
        else if prop == "C20" then
          let fn : Frame := { id := f.id, data := J1939.normalise f.data }
          [("request_responder", match respond cfg fn with | some fr => o.frames == fr | none => o.frames.isEmpty)]
        else []
      | .motion m =>
        if prop == "C01" || prop == "C02" || prop == "C15" then
          -- the accepted command reaches every hydraulic unit, heard or not
          [("command_reaches_every_hcu",
            o.frames == ((units cfg).filter (·.kind == .hcu)).flatMap fun u => Hcu.encodeMotion u.da u.sa m)]
        else []
      | .engine _ =>
        if prop == "C08" then
          -- what reaches the engine is what the driver model (governor + Volvo encoder) prescribes for this history
          [("engine_frames_as_prescribed", o.frames == r.2.frames)]
        else []
      | .teardown =>
        if prop == "C16" then
          [("teardown_resets_every_hcu", o.frames == ((units cfg).filter (·.kind == .hcu)).map fun u => Hcu.resetFrame u.da u.sa)]
        else []
      | _ => [])
    -- C06: a short frame and the same frame written out with its 0xFF padding are handled identically
    let pairClause : List (String × Bool) :=
      if prop == "C06" then
        match e, es, os with
        | .frame f, .frame g :: _, o2 :: _ =>
          if f.data.length < 8 && g.id == f.id && g.data == J1939.normalise f.data then
            [("short_frame_as_padded", o.panicked == o2.panicked && o.frames == o2.frames && o.signals == o2.signals)]
          else []
        | _, _, _ => []
      else []
    here ++ healthyClause ++ pairClause ++ clauses prop cfg seen' r.1 es os

def check (prop : String) (inp out : List String) : Verdict :=
  match inp with
  | "auth" :: cfgTok :: evs0 =>
    -- `X:<id>#<dlc>`: a raw frame whose length code is above 8 (it cannot occur on classic CAN and the property does not
    -- speak of it): whatever the code does with it - crash in the socket layer, drop it, report an error - is accepted,
    -- EXCEPT crediting it (or anything else) to a unit: no signal, no status may come out of it.  For the model it is a no-op.
    let overlong := evs0.map (·.startsWith "X:")
    let evs := evs0.map fun t => if t.startsWith "X:" then "O" else t
    match parseCfg? cfgTok, evs.mapM parseEv?, out.mapM parseOut? with
    | some cfg, some es, some outs0 =>
      let badOverlong := ((overlong.zip outs0).any fun (x, o) => x && !(o.signals.isEmpty && o.statuses.isEmpty && o.frames.isEmpty))
      let outs := (overlong.zip outs0).map fun (x, o) => if x then (⟨[], [], [], false, false⟩ : ImplOut) else o
      if badOverlong then
        { agree := false, model := "a frame with a length code above 8 has no effect on any unit",
          specFail := ["overlong_frame_credits_no_unit"] }
      else
      if es.length != outs.length then .bad "one output per event" else
      let m := run cfg (init cfg) es
      let agree := (m.zip outs).all fun (a, b) =>
        !b.panicked && !b.notReceived && a.frames == b.frames && a.signals.map DrvDrv.showSig == b.signals &&
        a.statuses.map (showStatus cfg) == b.statuses
      { agree := agree, model := joinSp (m.map (showOut cfg)),
        specFail := (failing (clauses prop cfg [] (init cfg) es outs)).eraseDups }
    | _, _, _ => .bad "auth tokens"
  | ["new", cfgTok] =>
    -- construction of the authority (and of its clones) from a configuration
    match parseCfg? cfgTok, out with
    | some cfg, [r, n] =>
      let ok := (units cfg).all constructible
      let mres := if ok then "ok" else "PANIC"
      { agree := r == mres && (r != "ok" || n == toString (units cfg).length),
        model := mres ++ " " ++ toString (units cfg).length,
        -- C20 demands that every configuration is accepted.  The one documented limitation of the code
        -- (`KueblerEncoder::new` aborts for a unit address it has no converter for) gets its own clause name
        specFail := failing [("configuration_accepted", r == "ok" || !ok),
                             ("encoder_unit_address_supported", r == "ok" || ok)] }
    | _, _ => .bad "new tokens"
  | ["daemon", cfgTok] =>
    -- one network of the REAL daemon: `<claims at start-up>|<answer to a SoftwareIdentification request>|<answer to an
    -- AddressClaimed request>` (each a comma-separated frame list or `-`)
    match parseCfg? cfgTok, out with
    | some cfg, [r] =>
      let sh (fs : List Frame) : String := if fs.isEmpty then "-" else ",".intercalate (fs.map showFrame)
      let reqFrame (g : Nat) : Frame := request cfg.address 0x10 g
      let ans (g : Nat) : List Frame := (respond cfg { id := (reqFrame g).id, data := J1939.normalise (reqFrame g).data }).getD []
      -- the requests every configured unit is sent when it is set up (in configuration order)
      let setupReqs := ((units cfg).flatMap setupFrames).filter fun f => pgn f.id == Consts.pgnRequest
      let want := s!"{sh [addressClaimed cfg.address cfg.name]}|{sh (ans Consts.pgnSoftwareIdentification)}|{sh (ans Consts.pgnAddressClaimed)}|{sh setupReqs}"
      let parts := r.splitOn "|"
      { agree := r == want, model := want,
        specFail := failing [
          ("every_configured_network_announces_itself", parts.headD "-" == sh [addressClaimed cfg.address cfg.name]),
          ("every_configured_network_answers_requests", (parts.drop 1).take 2 == [sh (ans Consts.pgnSoftwareIdentification), sh (ans Consts.pgnAddressClaimed)]),
          ("every_configured_unit_is_set_up", parts.drop 3 == [sh setupReqs])] }
    | _, _ => .bad "daemon tokens"
  | _ => .bad "authority arity"

end Glonax.Driver.AuthDrv
