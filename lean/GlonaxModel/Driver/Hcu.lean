import GlonaxModel.Driver.Common
import GlonaxModel.Spec.C01
import GlonaxModel.Spec.C02
import GlonaxModel.Spec.C17
namespace Glonax.Driver
open Glonax J1939 Hcu

def parseMotion? (s : String) : Option Motion :=
  match s.splitOn ":" with
  | ["stop"] => some .stopAll
  | ["resume"] => some .resumeAll
  | ["reset"] => some .resetAll
  | ["straight", v] => v.toInt?.map .straightDrive
  | ["change", l] =>
      if l.isEmpty then some (.change []) else
      ((l.splitOn ",").mapM fun (e : String) =>
        match e.splitOn "=" with
        | [a, v] => do
            let a ← a.toNat?
            let a ← Actuator.ofId? a
            let v ← v.toInt?
            pure (a, v)
        | _ => none).map .change
  | _ => none

def parseDec? (s : String) : Option (List (Option Int)) :=
  if !s.startsWith "D:" then none else
  ((s.drop 2).toString.splitOn ",").mapM fun t => if t = "n" then some none else t.toInt?.map some

def showDec (d : List (Option Int)) : String :=
  "D:" ++ ",".intercalate (d.map fun | none => "n" | some v => toString v)

namespace C02
/-- `da sa motion => frames D:… D:…` -/
def check (inp out : List String) : Verdict :=
  match inp, out with
  | [da, sa, m], ["REJECTED"] =>
    -- the command, written out in its wire form, was refused by the decoder every client command passes through: it
    -- never reaches the unit (every command of the generator is within the protocol's bounds)
    match da.toNat?, sa.toNat?, parseMotion? m with
    | some da, some sa, some m =>
      { agree := false, model := joinSp [showFrames (encodeMotion da sa m)],
        specFail := ["command_within_the_protocol_bounds_is_accepted"] }
    | _, _, _ => .bad "C02 tokens"
  | [da, sa, m], fr :: decs =>
    match da.toNat?, sa.toNat?, parseMotion? m, parseFrames? fr, decs.mapM parseDec? with
    | some da, some sa, some m, some fs, some ds =>
      let mf := encodeMotion da sa m
      let md := mf.map decodeActuators
      { agree := mf == fs && md == ds,
        model := joinSp (showFrames mf :: md.map showDec),
        specFail := failing (Spec.C02.clauses da sa m fs ds) }
    | _, _, _, _, _ => .bad "C02 tokens"
  | _, _ => .bad "C02 arity"
end C02

namespace C01
def parseOp? (s : String) : Option Op :=
  if s = "T" then some .tick
  else if s.startsWith "M:" then (parseMotion? (s.drop 2).toString).map fun m => .cmd (.motion m)
  else if s.startsWith "O:" then some (.cmd (.other (s.drop 2).toString))
  else if s.startsWith "R:" then (parseFrame? (s.drop 2).toString).map .rx
  else none

/-- the handlers' accesses to the shared driver context, as the sequential model implies them: the stored command is
read once by a cycle, written once by an accepted motion command, untouched by everything else -/
def accessModel : String → Option (List String)
  | "tick" => some ["tx_read"]
  | "cmd-motion" => some ["tx_write"]
  | "cmd-other" => some []
  | _ => none

/-- `da sa op… => out…` (one output token per op); `acc <handler> => <accesses>`; `stress <rounds> => <violations>` -/
def check (inp out : List String) : Verdict :=
  match inp with
  | ["acc", kind] =>
    let tr := match out with | ["-"] => [] | [t] => t.splitOn "," | _ => ["?"]
    let slot := tr.filter fun a => a == "tx_read" || a == "tx_write" || a == "inner"
    { agree := (match accessModel kind with | some m => slot == m | none => true),
      model := match accessModel kind with | some m => ",".intercalate m | none => "(not the command slot)",
      specFail := failing [
        -- a handler is atomic with respect to the stored command iff it touches that slot at most once
        ("single_access_to_command_slot", decide (slot.length ≤ 1)),
        ("only_commands_write_the_command_slot", kind == "cmd-motion" || !(slot.contains "tx_write" || slot.contains "inner"))] }
  | ["stress", _] =>
    { agree := out == ["0"], model := "0", specFail := failing [("latest_command_survives_concurrent_cycles", out == ["0"])] }
  | da :: sa :: ops =>
    match da.toNat?, sa.toNat?, ops.mapM parseOp?, out.mapM parseFrames? with
    | some da, some sa, some h, some outs =>
      let m := run da sa none h
      { agree := m == outs,
        model := joinSp (m.map showFrames),
        specFail := (failing (Spec.C01.walk da sa [] h outs)).eraseDups }
    | _, _, _, _ => .bad "C01 tokens"
  | _ => .bad "C01 arity"
end C01

namespace C17
open Can

def parseItem? (s : String) : Option FilterItem :=
  let f (t : String) : Option (Option Nat) := if t = "*" then some none else t.toNat?.map some
  match s.splitOn "." with
  | [p, g, sa, d] => do
      pure { priority := ← f p, pgn := ← f g, source := ← f sa, destination := ← f d }
  | _ => none

def check (inp out : List String) : Verdict :=
  match inp, out with
  | ["tx", i, d], [raw] =>
    match hexNat? i, hexBytes? d, hexBytes? raw with
    | some id, some data, some raw =>
      let f : Frame := { id := id, data := data }
      let m := txBytes f
      { agree := m == raw, model := hexOf m,
        specFail := failing [("tx_exact", Spec.C17.txExact f raw)] }
    | _, _, _ => .bad "C17 tx tokens"
  | ["rx", raw], ["TIMEOUT"] =>
    -- the frame was put on the bus and never delivered (a network without a filter delivers every frame)
    match hexBytes? raw with
    | some raw =>
      { agree := false, model := ((netRecv ⟨[], true⟩ raw).map showFrame).getD "none",
        specFail := ["every_frame_is_delivered_with_its_identifier_masked"] }
    | none => .bad "C17 rx tokens"
  | ["rx", raw], [fr] =>
    match hexBytes? raw, parseFrame? fr with
    | some raw, some f =>
      let m := netRecv ⟨[], true⟩ raw
      { agree := m == some f, model := (m.map showFrame).getD "none",
        specFail := failing [("rx_mask_pad", Spec.C17.rxMaskPad raw f)] }
    | _, _ => .bad "C17 rx tokens"
  | ["flt", mode, items, i], [r] =>
    let its := if items = "-" then some [] else (items.splitOn ";").mapM parseItem?
    match its, hexNat? i, r.toNat? with
    | some its, some id, some r =>
      let flt : Filter := ⟨its, mode = "A"⟩
      let m := flt.matches id
      let impl := r = 1
      { agree := m == impl, model := if m then "1" else "0",
        specFail := failing [("filter_semantics", Spec.C17.shouldPass flt id == impl)] }
    | _, _, _ => .bad "C17 flt tokens"
  | ["fnet", mode, items, i], [r] =>
    -- the same decision, taken by a real ControlNetwork on which the filter was installed with `with_filter`
    let its := if items = "-" then some [] else (items.splitOn ";").mapM parseItem?
    match its, hexNat? i, r.toNat? with
    | some its, some id, some r =>
      let flt : Filter := ⟨its, mode = "A"⟩
      let m := flt.matches id
      let impl := r = 1
      { agree := m == impl, model := if m then "1" else "0",
        specFail := failing [("network_applies_the_installed_filter", Spec.C17.shouldPass flt id == impl)] }
    | _, _, _ => .bad "C17 fnet tokens"
  | ["frx", mode, items, raw1, raw2], [fr] =>
    -- two frames waiting on a network with an installed filter, one `recv`: the first frame the filter passes is delivered,
    -- masked and padded like any received frame
    match (items.splitOn ";").mapM parseItem?, hexBytes? raw1, hexBytes? raw2 with
    | some its, some raw1, some raw2 =>
      let flt : Filter := ⟨its, mode = "A"⟩
      let m := (netRecv flt raw1).orElse fun _ => netRecv flt raw2
      let src := if (netRecv flt raw1).isSome then raw1 else raw2
      match parseFrame? fr with
      | some f =>
        { agree := m == some f, model := (m.map showFrame).getD "none",
          specFail := failing [("filtered_rx_mask_pad", m.isSome && Spec.C17.rxMaskPad src f)] }
      | none =>
        { agree := false, model := (m.map showFrame).getD "none",
          specFail := failing [("filtered_frame_is_delivered", m.isNone)] }
    | _, _, _ => .bad "C17 frx tokens"
  | _, _ => .bad "C17 arity"
end C17

end Glonax.Driver
