import GlonaxModel.Driver.Common
import GlonaxModel.Spec.C07
namespace Glonax.Driver.C07
open Glonax Glonax.Driver

def showEngine (e : Engine) : String :=
  s!"{e.driverDemand} {e.actualEngine} {e.rpm} {e.state.code}"

/-- `idle max timeout sigState sigRpm cmdState cmdRpm age(-1 = none)  =>  dd ae rpm state` -/
def check (inp out : List String) : Verdict :=
  match ints? inp, nats? out with
  | some [idle, mx, tmo, ss, sr, cs, cr, age], some [dd, ae, rpm, st] =>
    match EngineState.ofCode? ss.toNat, EngineState.ofCode? cs.toNat, EngineState.ofCode? st with
    | some ss, some cs, some st =>
      let g : Governor := ⟨idle.toNat, mx.toNat, tmo.toNat⟩
      let sig : Engine := { rpm := sr.toNat, state := ss }
      let cmd : Engine := { rpm := cr.toNat, state := cs }
      let a : Option Nat := if age < 0 then none else some age.toNat
      let impl : Engine := { driverDemand := dd, actualEngine := ae, rpm := rpm, state := st }
      let m := g.nextState sig cmd a
      { agree := m == impl, model := showEngine m,
        specFail := failing (Spec.C07.clauses g sig cmd a impl) }
    | _, _, _ => .bad "state code"
  | _, _ => .bad "arity"

end Glonax.Driver.C07
