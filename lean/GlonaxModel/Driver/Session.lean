import GlonaxModel.Driver.Wire
import GlonaxModel.Spec.Session
namespace Glonax.Driver.SessDrv
open Glonax Wire Sess Spec.Sess Glonax.Driver

def cmdKindName : Packet → String
  | .engine _ => "engine" | .motion _ => "motion" | .control _ => "control" | .target _ => "target"
  | .rotator _ => "rotator" | .status _ => "status" | p => toString (repr p.kind)

def showCmd (p : Packet) : String := cmdKindName p ++ "~" ++ showPacket p

def parseSignal? (s : String) : Option Packet :=
  match s.splitOn "~" with
  | [k, tok] =>
    match k with
    | "engine" => parsePacket? .engine tok
    | "motion" => parsePacket? .motion tok
    | "control" => parsePacket? .control tok
    | "target" => parsePacket? .target tok
    | "rotator" => parsePacket? .rotator tok
    | "status" => parsePacket? .status tok
    | _ => none
  | _ => none

def parseEv? (s : String) : Option Ev :=
  if s = "Z" then some .signalsClosed
  else if s.startsWith "B:" then (hexBytes? (s.drop 2).toString).map .bytes
  else if s.startsWith "S:" then (parseSignal? (s.drop 2).toString).map .signal
  else if s.startsWith "X:" then
    match (s.drop 2).toString with
    | "eof" => some (.close .eof) | "reset" => some (.close .reset)
    | "timedout" => some (.close .timedOut) | "aborted" => some (.close .aborted) | _ => none
  else none

structure EvOut where
  cmds : List String
  written : List Nat
  ended : String
  deriving Repr

def parseEvOut? (s : String) : Option EvOut :=
  match s.splitOn "/" with
  | [c, w, e] => do
      let w ← hexBytes? w
      pure { cmds := if c = "-" then [] else c.splitOn ";", written := w, ended := e }
  | _ => none

/-- field-wise comparison where the implementation may print `?` (orientation it cannot echo) -/
def tokMatch (model impl : String) : Bool :=
  let a := model.splitOn ":"
  let b := impl.splitOn ":"
  a.length == b.length && (a.zip b).all fun (x, y) => y == "?" || x == y

def cmdsMatch (model impl : List String) : Bool :=
  model.length == impl.length && (model.zip impl).all fun (m, i) =>
    match m.splitOn "~", i.splitOn "~" with
    | [mk, mt], [ik, it] => mk == ik && tokMatch mt it
    | _, _ => m == i

def modelEvOut (o : List Out) (endedAfter : Bool) : EvOut :=
  { cmds := o.filterMap fun
      | .dispatch p => some (showCmd p)
      | .failsafeStop => some "motion~stop"
      | _ => none,
    written := (replies o).flatten,
    ended := if o.contains .panicked then "P" else if endedAfter then "1" else "0" }

def showEvOut (e : EvOut) : String :=
  (if e.cmds.isEmpty then "-" else ";".intercalate e.cmds) ++ "/" ++ hexOf e.written ++ "/" ++ e.ended

/-- run the model event by event -/
def modelRun (inst : Instance) : St → List Ev → List EvOut
  | _, [] => []
  | s, e :: es =>
    let r := step inst s e
    modelEvOut r.2 r.1.core.ended :: modelRun inst r.1 es

def isClose : Ev → Bool | .close _ => true | _ => false
def isEnder : Ev → Bool | .close _ => true | .signalsClosed => true | _ => false

/-- split written bytes into frames with the reference splitter -/
def writtenFrames (w : List Nat) : List Frame × List Nat := split (w.length + 1) w

/-- Spec clauses evaluated on the IMPLEMENTATION's per-event outputs -/
def clauses (prop : String) (inst : Instance) (es : List Ev) (outs : List EvOut) : List (String × Bool) :=
  let allCmds := outs.flatMap (·.cmds)
  let noPanic := outs.all fun o => o.ended != "P"
  -- events before the first close / signals-closed
  let pre := es.takeWhile (fun e => !isEnder e)
  let bytes := bytesOf pre
  let (fs, leftover) := split (bytes.length + 1) bytes
  let expectCmds := (fs.filterMap validCommand).map showCmd
  let flags := lastFlags 0 fs
  let closed := es.any isClose
  let wellFormedPrefix : Bool := leftover.length < 10 ||
    (match parseHeader (leftover.take 10) with | .ok _ => true | .error _ => false)
  match prop with
  | "C04" =>
    if closed || !leftover.isEmpty then [("no_panic", noPanic)]
    else
      -- the daemon answers with the identity record exactly once per VALID upgrade frame (a frame it must reject - reserved
      -- flag bits, wrong size - gets no answer and changes nothing)
      let (wf0, _) := writtenFrames (outs.flatMap (·.written))
      let instBytes0 := sendPacket (.inst inst)
      let nInst := (wf0.filter fun f => f.bytes == instBytes0).length
      [("no_panic", noPanic), ("dispatch_exact_in_order", cmdsMatch expectCmds allCmds),
       ("one_identity_record_per_valid_upgrade", nInst == (fs.filterMap validUpgrade).length)]
  | "C03" =>
    if closed && !wellFormedPrefix then
      -- the stream contains a header the daemon rejects: which registration is "current" when the client disappears is then
      -- what the proved model says (C03_failsafe holds for EVERY byte stream, with the model's arming): the stop must be
      -- there exactly when that registration carries the failsafe flag
      let modelFlags := (run inst {} pre).1.core.flags
      let stopAtClose : Bool := (es.zip outs).all fun (e, o) =>
        !isClose e || ((es.takeWhile (fun x => x != e)).any isEnder) ||
          (if isFailsafe modelFlags then o.cmds.getLast? == some "motion~stop" else !(o.cmds.contains "motion~stop"))
      [("no_panic", noPanic), ("failsafe_follows_the_current_registration_after_a_rejected_header", stopAtClose)]
    else
    if !closed || !wellFormedPrefix then [("no_panic", noPanic)]
    else
      let armed := isFailsafe flags
      let endsAtClose := (es.zip outs).all fun (e, o) => !isClose e || o.ended == "1"
      [ ("no_panic", noPanic),
        ("failsafe_stop_after_last_command", !armed || cmdsMatch (expectCmds ++ ["motion~stop"]) allCmds),
        ("unarmed_silent", armed || cmdsMatch expectCmds allCmds),
        ("session_ends", endsAtClose) ]
  | "C05" =>
    let endedEarly := (es.zip outs).any fun (e, o) => o.ended != "0" && !(isEnder e) &&
      -- ended may stay "1" for events after the close
      !((es.takeWhile (fun x => x != e)).any isEnder)
    let modelFlags := (run inst {} pre).1.core.flags
    let stopAtClose : Bool := (es.zip outs).all fun (e, o) =>
      !isClose e || ((es.takeWhile (fun x => x != e)).any isEnder) ||
        (if isFailsafe modelFlags then o.cmds.getLast? == some "motion~stop" else !(o.cmds.contains "motion~stop"))
    [ ("no_panic", noPanic), ("ends_only_by_termination", !endedEarly), ("failsafe_still_applies", stopAtClose) ]
  | "C14" =>
    let w := outs.flatMap (·.written)
    let (wf, wleft) := writtenFrames w
    let instBytes := sendPacket (.inst inst)
    let isInst (f : Frame) : Bool := f.bytes == instBytes
    let nUpgrades := (fs.filterMap validUpgrade).length
    let published := es.filterMap fun | .signal p => some (sendPacket p) | _ => none
    let sigFrames := (wf.filter (fun f => !isInst f)).map Frame.bytes
    let everStream := (fs.filterMap validUpgrade).any isStream
    -- a session never ends because of what is published to it (a lagging subscriber skips, it is not dropped)
    let endedBySignal := (es.zip outs).any fun (e, o) => o.ended != "0" && !(isEnder e) &&
      !((es.takeWhile (fun x => x != e)).any isEnder)
    -- streaming from its first frame to the end, idle at the end: the newest published signal has been delivered
    let streamsThroughout := !es.any isEnder && leftover.isEmpty &&
      (match fs.head? with | some f => (validUpgrade f).any isStream | none => false) &&
      (fs.filterMap validUpgrade).all isStream &&
      (match es.head? with | some (.signal _) => false | _ => true)
    -- only signals published after the first (upgrade) frame has arrived completely are owed to the client
    let firstLen := (fs.head?.map fun f => f.bytes.length).getD 0
    let afterUpgrade := (es.foldl (fun (acc : Nat × List Ev) e =>
        match e with
        | .bytes b => (acc.1 + b.length, acc.2)
        | _ => if acc.1 ≥ firstLen then (acc.1, acc.2 ++ [e]) else acc) (0, [])).2
    let lastPublished := (afterUpgrade.filterMap fun | .signal p => if forwardable p then some (sendPacket p) else none | _ => none).getLast?
    -- every chunk of client bytes ends on a frame boundary: the session is idle whenever a signal is published and
    -- keeps up, so every published signal is answered with exactly one frame, in order
    let wholeChunks := (es.foldl (fun (acc : List Nat × Bool) e =>
        match e with
        | .bytes b =>
          let all := acc.1 ++ b
          let (_, left) := split (all.length + 1) all
          (all, acc.2 && left.isEmpty)
        | _ => acc) ([], true)).2
    let owed := afterUpgrade.filterMap fun | .signal p => if forwardable p then some (sendPacket p) else none | _ => none
    [ ("no_panic", noPanic),
      ("one_frame_per_signal_when_keeping_up", !(streamsThroughout && wholeChunks) || sigFrames == owed),
      ("lagging_subscriber_is_not_dropped", !endedBySignal),
      ("newest_signal_delivered", !streamsThroughout || lastPublished.isNone || sigFrames.getLast? == lastPublished),
      ("whole_frames", wleft.isEmpty),
      ("one_instance_per_upgrade", leftover.length ≥ 10 || (wf.filter isInst).length == nUpgrades),
      ("signals_subsequence_in_order", sigFrames.isSublist published),
      ("gated_on_stream_flag", everStream || sigFrames.isEmpty) ]
  | _ => [("unknown_property", false)]

def check (prop : String) (inp out : List String) : Verdict :=
  match inp with
  | ["compat", ma, mi, pa] =>
    match ma.toNat?, mi.toNat?, pa.toNat?, out with
    | some ma, some mi, some pa, [r] =>
      let m := isCompatible ma mi pa
      let impl := r == "1"
      { agree := m == impl, model := if m then "1" else "0",
        specFail := failing [("compat_iff", impl == (ma == Consts.versionMajor && mi == Consts.versionMinor))] }
    | _, _, _, _ => .bad "compat tokens"
  | ["hs", how, control, command, failsafe, stream, nameHex] =>
    -- the session frame a real client put on a real socket (stub daemon), per ClientBuilder option set / convenience function
    match hexBytes? nameHex, out with
    | some name, [flagsTok, gotNameHex] =>
      let unix := how.startsWith "u"
      let builder := how.endsWith "b"
      let safe := how == "us" || how == "ts"
      let (c, m, f, st) := if builder then (control == "1", command == "1", failsafe == "1", stream == "1") else (false, false, safe, false)
      let wantFlags := clientFlags unix c m f st
      let wantName := name.take 64
      let impl := match flagsTok.toNat?, hexBytes? gotNameHex with
        | some fl, some n => some (fl, n)
        | _, _ => none
      { agree := impl == some (wantFlags, wantName), model := s!"{wantFlags} {hexOf wantName}",
        specFail := failing [
          ("client_sends_a_session", impl.isSome),
          ("failsafe_registered_iff_asked", match impl with | some (fl, _) => wantsFailsafe fl == f | none => true),
          ("streaming_asked_iff_option", match impl with | some (fl, _) => wantsStream fl == st | none => true) ] }
    | _, _ => .bad "hs tokens"
  | ["id", instTok] =>
    -- the daemon's identity as a client decodes it from the handshake reply
    match parsePacket? .inst instTok, out with
    | some (.inst inst), [r] =>
      -- a record longer than the protocol's payload limit cannot be carried by a frame: the client's header check
      -- refuses it (such an identity is outside the protocol, the clause does not speak about it)
      let fits := decide (((sendPacket (.inst inst)).drop 10).length ≤ Consts.maxPayloadSize)
      let m := if !fits then none else match decode .inst ((sendPacket (.inst inst)).drop 10) with
        | .ok (.inst i) => some i
        | _ => none
      let impl := match parsePacket? .inst r with | some (.inst i) => some i | _ => none
      { agree := m == impl, model := if m.isSome then "decodes" else "rejected",
        specFail := failing [("client_decodes_daemon_identity", !fits || impl == some inst)] }
    | _, _ => .bad "id tokens"
  | "sess" :: instTok :: evToks =>
    if out == ["HANG"] then
      -- the session task never gave control back: whatever the bytes, a session must keep serving and must end
      -- when its client is gone
      (match parsePacket? .inst instTok, evToks.mapM parseEv? with
       | some (.inst inst), some es =>
         { agree := false, model := joinSp ((modelRun inst {} es).map showEvOut), specFail := ["session_never_hangs"] }
       | _, _ => .bad "sess tokens")
    else
    match parsePacket? .inst instTok, evToks.mapM parseEv?, out.mapM parseEvOut? with
    | some (.inst inst), some es, some outs =>
      if es.length != outs.length then .bad "one output per event" else
      let m := modelRun inst {} es
      -- what is written at the very moment the peer disappears is unobservable (and, with signals still queued,
      -- decided by tokio's random select! order): not compared
      let agree := ((m.zip outs).zip es).all fun ((a, b), e) =>
        cmdsMatch a.cmds b.cmds && (isClose e || a.written == b.written) && a.ended == b.ended
      { agree := agree, model := joinSp (m.map showEvOut), specFail := failing (clauses prop inst es outs) }
    | _, _, _ => .bad "session tokens"
  | _ => .bad "session arity"

end Glonax.Driver.SessDrv
