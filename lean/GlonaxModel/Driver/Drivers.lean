import GlonaxModel.Driver.Wire
import GlonaxModel.Spec.Drivers
import GlonaxModel.Spec.C08
namespace Glonax.Driver.DrvDrv
open Glonax J1939 Drv Glonax.Driver

def parseKind? : String → Option Kind
  | "vcu" => some .vcu | "hcu" => some .hcu | "sim" => some .sim | "d7e" => some .d7e
  | "inclino" => some .inclino | "ecm" => some .ecm | "ecu" => some .ecu | "encoder" => some .encoder
  | _ => none

def showErr : Option ErrKind → String
  | none => "-" | some .busError => "bus" | some .sensorError => "sensor"
  | some .invalidConfiguration => "config" | some .hardwareError => "hardware" | some .unknownState => "unknown"

def parseErr? : String → Option (Option ErrKind)
  | "-" => some none | "bus" => some (some .busError) | "sensor" => some (some .sensorError)
  | "config" => some (some .invalidConfiguration) | "hardware" => some (some .hardwareError)
  | "unknown" => some (some .unknownState) | _ => none

def showSig : Sig → String
  | .rotRel s => s!"rotrel:{s}:ok"
  | .rotAbs s => s!"rotabs:{s}:ok"
  | .engine e => s!"eng:{e.driverDemand}:{e.actualEngine}:{e.rpm}:{e.state.code}"
  | .motion .stopAll => "motion:stop"
  | .motion .resumeAll => "motion:resume"
  | .motion _ => "motion:?"

/-- parse a signal token; the trailing ok/BAD of rotations is returned separately -/
def parseSig? (s : String) : Option (Sig × Bool) :=
  match s.splitOn ":" with
  | ["rotrel", src, flag] => src.toNat?.map fun n => (.rotRel n, flag == "ok")
  | ["rotabs", src, flag] => src.toNat?.map fun n => (.rotAbs n, flag == "ok")
  | ["eng", dd, ae, rpm, st] => do
      let st ← EngineState.ofCode? (← st.toNat?)
      pure (.engine { driverDemand := ← dd.toNat?, actualEngine := ← ae.toNat?, rpm := ← rpm.toNat?, state := st }, true)
  | ["motion", "stop"] => some (.motion .stopAll, true)
  | ["motion", "resume"] => some (.motion .resumeAll, true)
  | _ => none

def showRecv (r : RecvOut) : String :=
  (if r.signals.isEmpty then "-" else ";".intercalate (r.signals.map showSig)) ++ "/" ++
  (if r.marks then "1" else "0") ++ "/" ++ showErr r.err ++ "/" ++ (if r.rxLast.isSome then "1" else "0")

/-- `signals/marks/err/rxlast` ; for the rx-last flag only presence is observed -/
def parseRecv? (s : String) : Option (RecvOut × Bool) :=
  match s.splitOn "/" with
  | [sg, m, e, rl] => do
      let sigs ← if sg = "-" then some [] else (sg.splitOn ";").mapM parseSig?
      let err ← parseErr? e
      pure ({ signals := sigs.map (·.1), marks := m == "1", err := err,
              rxLast := if rl == "1" then sigs.head?.map (·.1) else none }, sigs.all (·.2))
  | _ => none

def recvCheck (prop : String) (k : Kind) (da : Nat) (f : Frame) (out : String) : Verdict :=
  let m := tryRecv k da f
  let mshow := match m with | .ok r => showRecv r | .panic => "PANIC"
  if out == "PANIC" then
    { agree := m == .panic, model := mshow, specFail := ["no_panic"] }
  else match parseRecv? out with
    | none => .bad "recv output"
    | some (r, rotOk) =>
      let agree := (match m with
        | .ok mr => mr.signals == r.signals && mr.marks == r.marks && mr.err == r.err && mr.rxLast.isSome == r.rxLast.isSome
        | .panic => false) && rotOk
      let cl := match prop with
        | "C06" => [("no_panic", true)]
        | "C11" => if k == .sim then [("simulator_attribution", !(r.alive || r.rxLast.isSome) || source f.id = da)]
                   else Spec.Drivers.c11Clauses k da f r
        | "C12" => ("rotation_formula", rotOk) :: Spec.Drivers.c12Clauses k da f r
        | _ => []
      { agree := agree, model := mshow, specFail := failing cl }

/-! ### Volvo histories -/

def parseEngine? (s : String) : Option Engine :=
  match (s.splitOn ":").mapM String.toNat? with
  | some [dd, ae, rpm, st] => (EngineState.ofCode? st).map fun st => { driverDemand := dd, actualEngine := ae, rpm := rpm, state := st }
  | _ => none

/-- ops: `S:<frame>` status frame as received, `C:dd:ae:rpm:st` engine command, `O` other command, `T`, `W:<ms>` -/
def parseOp? (da : Nat) (s : String) : Option VolvoOp :=
  if s = "T" then some .tick
  else if s = "O" then some .other
  else if s.startsWith "W:" then (s.drop 2).toString.toNat?.map .wait
  else if s.startsWith "C:" then (parseEngine? (s.drop 2).toString).map .cmd
  else if s.startsWith "S:" then
    (parseFrame? (s.drop 2).toString).map fun f =>
      match (emsRecv da f).signals with
      | [.engine e] => .status e
      | _ => .other     -- a frame that is not an EEC1 status from the unit changes nothing
  else none

def volvoCheck (inp out : List String) : Verdict :=
  match inp with
  | da :: sa :: ops =>
    match da.toNat?, sa.toNat?, out.mapM parseFrames? with
    | some da, some sa, some outs =>
      match ops.mapM (parseOp? da) with
      | some h =>
        let m := volvoRun sa {} h
        { agree := m == outs, model := joinSp (m.map showFrames),
          specFail := (failing (Spec.C08.walk sa [] h outs)).eraseDups }
      | none => .bad "volvo ops"
    | _, _, _ => .bad "volvo tokens"
  | _ => .bad "volvo arity"

def check (prop : String) (inp out : List String) : Verdict :=
  match inp with
  | ["recv", k, da, fr] =>
    match parseKind? k, da.toNat?, parseFrame? fr with
    | some k, some da, some f => recvCheck prop k da f (joinSp out)
    | _, _, _ => .bad "recv tokens"
  | "volvo" :: rest => volvoCheck rest out
  | ["acc", kind] =>
    -- which slots of the shared driver context a handler of the engine driver touches (hook verif_access): the
    -- sequential histories cover the concurrent tasks when each handler touches the stored command at most once
    let tr := match out with | ["-"] => [] | [t] => t.splitOn "," | _ => ["?"]
    let slot := tr.filter fun a => a == "tx_read" || a == "tx_write" || a == "inner"
    let model : Option (List String) := match kind with
      | "tick" => some ["tx_read"] | "cmd-engine" => some ["tx_write"] | "cmd-other" => some [] | "rx" => some [] | _ => none
    { agree := (match model with | some m => slot == m | none => false),
      model := match model with | some m => ",".intercalate m | none => "?",
      specFail := failing [
        ("single_access_to_command_slot", decide (slot.length ≤ 1)),
        ("only_commands_write_the_command_slot", kind == "cmd-engine" || !(slot.contains "tx_write" || slot.contains "inner"))] }
  | _ => .bad "drv arity"

end Glonax.Driver.DrvDrv
