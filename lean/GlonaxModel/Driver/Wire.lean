import GlonaxModel.Driver.Hcu
import GlonaxModel.Spec.C13
namespace Glonax.Driver
open Glonax Wire

def showMotion : Motion → String
  | .stopAll => "stop" | .resumeAll => "resume" | .resetAll => "reset"
  | .straightDrive v => s!"straight:{v}"
  | .change cs => "change:" ++ ",".intercalate (cs.map fun c => s!"{c.1.id}={c.2}")

def colon (l : List String) : String := ":".intercalate l

def showSeg (s : Segment) : String := "/".intercalate (hexOf s.name :: s.f.map toString)

def showPacket : Packet → String
  | .session s => colon [toString s.flags, hexOf s.name]
  | .sessionError e => toString e.code
  | .request m => toString m
  | .engine e => colon [toString e.driverDemand, toString e.actualEngine, toString e.rpm, toString e.state.code]
  | .motion m => showMotion m
  | .control c => colon [toString c.code, if c.arg then "1" else "0"]
  | .target t => colon ([t.x, t.y, t.z, t.roll, t.pitch, t.yaw, t.constraint.code].map toString)
  | .rotator r => colon ([r.source, r.roll, r.pitch, r.yaw, r.reference.code].map toString)
  | .status s => colon [hexOf s.name, toString s.state.code, match s.error with | none => "n" | some e => toString e.code]
  | .inst i => colon [hexOf i.id, toString i.ty.code, toString i.v0, toString i.v1, toString i.v2, hexOf i.model, hexOf i.serial]
  | .gnss g => colon ([g.lat, g.lon, g.altitude, g.speed, g.heading, g.satellites, g.status.code].map toString)
  | .actor a => colon [hexOf a.name, toString a.segments.length,
      if a.segments.isEmpty then "-" else ";".intercalate (a.segments.map showSeg)]

def parseKind? : String → Option Kind
  | "session" => some .session | "sessionError" => some .sessionError | "request" => some .request
  | "engine" => some .engine | "motion" => some .motion | "control" => some .control | "target" => some .target
  | "rotator" => some .rotator | "status" => some .status | "instance" => some .inst | "gnss" => some .gnss
  | "actor" => some .actor | _ => none

def parseSeg? (s : String) : Option Segment :=
  match s.splitOn "/" with
  | n :: fs => do
      let name ← hexBytes? n
      let f ← fs.mapM String.toNat?
      pure { name := name, f := f }
  | _ => none

def parsePacket? (k : Kind) (s : String) : Option Packet :=
  let parts := s.splitOn ":"
  match k with
  | .session => match parts with
    | [f, n] => do pure (.session { flags := ← f.toNat?, name := ← hexBytes? n })
    | _ => none
  | .sessionError => do let c ← s.toNat?; let e ← SessionError.ofCode? c; pure (.sessionError e)
  | .request => s.toNat?.map .request
  | .engine => match parts.mapM String.toNat? with
    | some [dd, ae, rpm, st] => (EngineState.ofCode? st).map fun st => .engine { driverDemand := dd, actualEngine := ae, rpm := rpm, state := st }
    | _ => none
  | .motion => (parseMotion? s).map .motion
  | .control => match parts.mapM String.toNat? with
    | some [c, on] => (Control.ofCode? c (on = 1)).map .control
    | _ => none
  | .target => match parts.mapM String.toNat? with
    | some [x, y, z, r, p, yw, c] => (Constraint.ofCode? c).map fun c => .target { x := x, y := y, z := z, roll := r, pitch := p, yaw := yw, constraint := c }
    | _ => none
  | .rotator => match parts.mapM String.toNat? with
    | some [src, r, p, yw, rf] => (RotationReference.ofCode? rf).map fun rf => .rotator { source := src, roll := r, pitch := p, yaw := yw, reference := rf }
    | _ => none
  | .status => match parts with
    | [n, st, e] => do
        let name ← hexBytes? n
        let st ← ModuleState.ofCode? (← st.toNat?)
        let err ← if e = "n" then some none else (do let c ← e.toNat?; let e ← ModuleError.ofCode? c; pure (some e))
        pure (.status { name := name, state := st, error := err })
    | _ => none
  | .inst => match parts with
    | [id, ty, v0, v1, v2, m, sn] => do
        let ty ← MachineType.ofCode? (← ty.toNat?)
        pure (.inst { id := ← hexBytes? id, ty := ty, v0 := ← v0.toNat?, v1 := ← v1.toNat?, v2 := ← v2.toNat?, model := ← hexBytes? m, serial := ← hexBytes? sn })
    | _ => none
  | .gnss => match parts.mapM String.toNat? with
    | some [la, lo, al, sp, hd, sat, st] => (GnssStatus.ofCode? st).map fun st => .gnss { lat := la, lon := lo, altitude := al, speed := sp, heading := hd, satellites := sat, status := st }
    | _ => none
  | .actor => match parts with
    | [n, _cnt, segs] => do
        let name ← hexBytes? n
        let segs ← if segs = "-" then some [] else (segs.splitOn ";").mapM parseSeg?
        pure (.actor { name := name, segments := segs })
    | _ => none

/-- names that went through `from_utf8_lossy` are compared only when they are valid UTF-8 -/
def nameEq (model impl : List Nat) : Bool := if validUtf8 model then model == impl else true

/-- equality of a model-decoded packet with the implementation's, modulo lossy strings -/
def packetEq : Packet → Packet → Bool
  | .status a, .status b => nameEq a.name b.name && a.state == b.state && a.error == b.error
  | .inst a, .inst b => a.id == b.id && a.ty == b.ty && a.v0 == b.v0 && a.v1 == b.v1 && a.v2 == b.v2 &&
      nameEq a.model b.model && nameEq a.serial b.serial
  | .actor a, .actor b => nameEq a.name b.name && a.segments.length == b.segments.length &&
      (a.segments.zip b.segments).all fun (x, y) => nameEq x.name y.name && x.f == y.f
  | a, b => a == b

/-- decidable versions of WF / InBounds for the Spec-on-implementation clauses -/
def inBoundsB : Packet → Bool
  | .session s => decide (s.flags < 32) && validUtf8 s.name && decide (charCount s.name ≤ 64) && decide (s.name.length ≤ 255)
  | .motion (.change cs) => decide (cs.length ≤ 32)
  | .status s => decide (s.name.length ≤ 255)
  | .inst i => decide (i.model.length ≤ 255) && decide (i.serial.length ≤ 255)
  | .actor a => decide (a.name.length ≤ 255) && decide (a.segments.length ≤ 255) && a.segments.all fun s => decide (s.name.length ≤ 255)
  | _ => true

def showHeaderResult : Except HeaderError (Nat × Nat) → String
  | .ok (t, l) => s!"ok:{t}:{l}"
  | .error .tooSmall => "err:tooSmall" | .error .invalidHeader => "err:invalidHeader"
  | .error .versionMismatch => "err:versionMismatch" | .error .payloadEmpty => "err:payloadEmpty"
  | .error .excessiveLength => "err:excessiveLength" | .error .invalidPadding => "err:invalidPadding"

namespace C13
open Spec.C13

/-- the value a caller's arguments become: `Session::new` keeps the first 64 characters of the name -/
def clientBuilt : Packet → Packet
  | .session s => .session { s with name := takeChars Consts.sessionNameMaxChars s.name }
  | p => p

def check (inp out : List String) : Verdict :=
  match inp, out with
  | ["enc", k, tok], ["PANIC"] =>
    -- building the value panicked: no well-formed value of the protocol makes its constructor crash
    match parseKind? k with
    | none => .bad "kind"
    | some k =>
    match parsePacket? k tok with
    | some p => { agree := false, model := hexOf (sendPacket (clientBuilt p)), specFail := ["constructor_total"] }
    | none => .bad "enc tokens"
  | ["enc", k, tok], [bytes, rt] =>
    match parseKind? k with
    | none => .bad "kind"
    | some k =>
    match parsePacket? k tok, hexBytes? bytes with
    | some p, some bytes =>
      -- the token is what the caller passed; the value is what the constructor made of it
      let p := clientBuilt p
      let m := sendPacket p
      let payload := bytes.drop 10
      let inb := inBoundsB p
      let isActor := k == .actor
      { agree := m == bytes, model := hexOf m,
        specFail := failing [
          ("header_layout", frameLayout k.msgType payload bytes),
          ("fixed_size", match k.msgSize with | some n => payload.length == n | none => true),
          ("size_bound", !inb || (decide (1 ≤ payload.length) && decide (payload.length ≤ 1024))),
          ("roundtrip", !inb || (isActor && decide (payload.length > 1024)) || rt == "rt=1") ] }
    | _, _ => .bad "enc tokens"
  | ["hdr", h], [r] =>
    match hexBytes? h with
    | some b =>
      let m := showHeaderResult (parseHeader b)
      let specOk : Bool := match r.splitOn ":" with
        | ["ok", t, l] => (match t.toNat?, l.toNat? with
            | some t, some l => decide (headerOk b t l)
            | _, _ => false)
        | _ => -- rejected: no (type, len) makes it acceptable
          !(b.length == 10 && decide (headerOk b (b.getD 4 0) (b.getD 5 0 * 256 + b.getD 6 0)))
      { agree := m == r, model := m, specFail := failing [("header_exact", specOk)] }
    | none => .bad "hdr hex"
  | "hdrs" :: hs, rs =>
    -- several headers read one after the other from ONE stream: each is accepted or rejected on its own
    match hs.mapM hexBytes? with
    | some bs =>
      let want := bs.map fun b => match parseHeader b with
        | .ok (t, l) => s!"ok:{t}:{l}"
        | .error _ => "err"
      let got := rs.map fun r => if r.startsWith "err:" then "err" else r
      { agree := got == want, model := joinSp want,
        specFail := failing [("every_header_on_a_stream_is_judged_on_its_own", got == want)] }
    | none => .bad "hdrs hex"
  | ["decshort", _k, size, stream], [res] =>
    -- the transport ends before the declared payload is there: `recv_packet` needs `size` bytes for a value and
    -- reads (or discards) that many before it can fail for another reason, so the outcome is always an error
    match size.toNat?, hexBytes? stream with
    | some size, some stream =>
      if stream.length ≥ size then .bad "decshort: stream not short" else
      { agree := res == "err", model := "err",
        specFail := failing [("no_panic", res != "PANIC"), ("returns_on_short_stream", res != "HANG"),
                             ("no_value_from_a_short_stream", res != "ok")] }
    | _, _ => .bad "decshort tokens"
  | ["dec", k, size, stream], [consumed, res] =>
    match parseKind? k, size.toNat?, hexBytes? stream, consumed.toNat? with
    | some k, some size, some stream, some consumed =>
      let m := recvPacket k size stream
      let implOk : Option (Option Packet) :=   -- none = unparsable, some none = err/panic
        if res.startsWith "ok:" then (parsePacket? k (res.drop 3).toString).map some else some none
      -- a session name that is not valid UTF-8 comes back through the lossy replacement: only flags compared
      let sessionLossy : Bool := k == .session &&
        (match decSession (stream.take size) with | .ok v => v.name.isNone | _ => false)
      let agree := m.consumed == consumed &&
        (match m.result, implOk with
          | .ok (.session ms), some (some (.session is)) => ms.flags == is.flags && (sessionLossy || ms.name == is.name)
          | .ok mp, some (some ip) => packetEq mp ip
          | .err, some none => res == "err"
          | .panic, some none => res == "PANIC"
          | _, _ => false)
      let mshow := toString m.consumed ++ " " ++ (match m.result with | .ok p => "ok:" ++ showPacket p | .err => "err" | .panic => "PANIC")
      { agree := agree, model := mshow,
        specFail := failing [
          ("no_panic", res != "PANIC"),
          ("never_reads_past_payload", decide (consumed ≤ size)),
          ("size_gates", !(res.startsWith "ok:") || (consumed == size && decide (1 ≤ size) && decide (size ≤ 1024) && (match k.msgSize with | some n => size == n | none => true))),
          ("value_or_error", res == "err" || res == "PANIC" || implOk.isSome) ] }
    | _, _, _, _ => .bad "dec tokens"
  | _, _ => .bad "C13 arity"

end C13
end Glonax.Driver
