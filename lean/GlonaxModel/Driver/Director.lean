import GlonaxModel.Driver.Session
import GlonaxModel.Spec.C09
namespace Glonax.Driver.DirDrv
open Glonax Wire Dir Glonax.Driver

def parseSig? (s : String) : Option Sig :=
  if s.startsWith "E:" then (s.drop 2).toString.toNat?.map .engine
  else if s.startsWith "O:" then some .other
  else if s.startsWith "R:" then
    match ((s.drop 2).toString.splitOn ":").mapM String.toNat? with
    | some [src, r, p, y] => some (.rotator src r p y)
    | _ => none
  else none

def showOut (o : List Packet) : String :=
  if o.isEmpty then "-" else ";".intercalate (o.map SessDrv.showCmd)

def parseOut? (s : String) : Option (List Packet) :=
  if s = "-" then some [] else (s.splitOn ";").mapM SessDrv.parseSignal?

def check (inp out : List String) : Verdict :=
  match inp with
  | "dir" :: sigs =>
    match sigs.mapM parseSig?, out.mapM parseOut? with
    | some h, some outs =>
      let m := run {} h
      { agree := m == outs, model := joinSp (m.map showOut),
        specFail := (failing (Spec.C09.walk [] h outs)).eraseDups }
    | _, _ => .bad "director tokens"
  | _ => .bad "director arity"

end Glonax.Driver.DirDrv
