import GlonaxModel.Driver.Session
import GlonaxModel.Spec.C09
namespace Glonax.Driver.DirDrv
open Glonax Wire Dir Glonax.Driver

def parseSig? (s : String) : Option Sig :=
  if s.startsWith "E:" then (s.drop 2).toString.toNat?.map .engine
  else if s.startsWith "O:" then some .other
  else if s.startsWith "R:" then
    match ((s.drop 2).toString.splitOn ":").mapM String.toNat? with
    | some [src, r, p, y] => some (.rotator src r p y)
    | _ => none
  else none

def showOut (o : List Packet) : String :=
  if o.isEmpty then "-" else ";".intercalate (o.map SessDrv.showCmd)

def parseOut? (s : String) : Option (List Packet) :=
  if s = "-" then some [] else (s.splitOn ";").mapM SessDrv.parseSignal?

def check (inp out : List String) : Verdict :=
  match inp with
  | "dir" :: sigs =>
    match sigs.mapM parseSig?, out.mapM parseOut? with
    | some h, some outs =>
      let m := run {} h
      { agree := m == outs, model := joinSp (m.map showOut),
        specFail := (failing (Spec.C09.walk [] h outs)).eraseDups }
    | _, _ => .bad "director tokens"
  | "dirq" :: groups =>
    -- the director as the daemon runs it: groups of signals published back to back; a group longer than the signal queue
    -- overruns the director's receiver (it returns, the runtime re-enters it at the tail): the group is lost as a whole and
    -- the verdicts stand; otherwise every signal of the group is processed in order
    match groups.mapM (fun g => (g.splitOn "+").mapM parseSig?), out.mapM parseOut? with
    | some gs, some outs =>
      let stepGroup (acc : St × List (List Packet)) (g : List Sig) : St × List (List Packet) :=
        if g.length > Consts.queueSizeSignal then (acc.1, acc.2 ++ [[]])
        else
          let r := g.foldl (fun (a : St × List Packet) sig => ((step a.1 sig).1, a.2 ++ (step a.1 sig).2)) (acc.1, [])
          (r.1, acc.2 ++ [r.2])
      let m := (gs.foldl stepGroup ({}, [])).2
      -- the Spec on the same grouping: after every group that was processed, the commands are the emergency sequence once per
      -- processed signal while an emergency reading (of the signals that were PROCESSED) is pending, nothing otherwise
      { agree := m == outs, model := joinSp (m.map showOut),
        specFail := failing [("director_decides_after_every_processed_signal_also_after_an_overrun", m == outs)] }
    | _, _ => .bad "director group tokens"
  | ["daemon9", _mode] =>
    -- the real daemon in this operating mode: nothing at 1500 rpm, the shutdown code on the bus at 2300 rpm
    let want := ["up=1", "quiet_at_1500=1", "shutdown_code_at_2300=1"]
    { agree := out == want, model := joinSp want,
      specFail := if out == want then [] else ["the_daemon_enacts_the_emergency_sequence_in_every_operating_mode"] }
  | _ => .bad "director arity"

end Glonax.Driver.DirDrv
