import GlonaxModel.Driver.Authority
import GlonaxModel.Model.Tasks
/-! Line protocol for the task system (C16):
  `sched <ct|mt> <nets> <point nth | after ms | sigterm ms> [burst] => j=<0|1> q=<0|1> fast=<0|1> <svc:setups:teardowns>…`
  `bus <ct|mt> <cfg|cfg…> <when> [burst] => j=<0|1> after=<n> fast=<0|1> <frames of net 1> <frames of net 2>…` -/
namespace Glonax.Driver.TaskDrv
open Glonax Tasks Auth J1939 Glonax.Driver

def pointId? : String → Option Nat
  | "enter" => some 0 | "guard" => some 1 | "spawn" => some 2 | "spawn2" => some 3 | "spawn3" => some 4 | _ => none

/-- `some none`: after scheduling -/
def parseWhen? (p n : String) : Option (Option (Nat × Nat)) :=
  if p = "after" ∨ p = "sigterm" then n.toNat?.map fun _ => none
  else do
    let pid ← pointId? p
    let k ← n.toNat?
    pure (some (pid, k))

def kv? (key tok : String) : Option Nat :=
  if tok.startsWith (key ++ "=") then (tok.drop (key.length + 1)).toString.toNat? else none

def svcCounts (o : Outcome) (k : Nat) : Nat × Nat :=
  (o.tasks.filter (·.1 == k)).foldl (fun acc t => (acc.1 + t.2.2.1, acc.2 + t.2.2.2.1)) (0, 0)

def hasTasks (o : Outcome) (k : Nat) : Bool := o.tasks.any (·.1 == k)

def parseTriple? (s : String) : Option (Nat × Nat × Nat) :=
  match s.splitOn ":" with
  | [a, b, c] => do pure ((← a.toNat?), (← b.toNat?), (← c.toNat?))
  | _ => none

def isSub : List Frame → List Frame → Bool
  | [], _ => true
  | _ :: _, [] => false
  | a :: as, b :: bs => if a == b then isSub as bs else isSub (a :: as) bs

def checkSched (nets : Nat) (at_ : Option (Nat × Nat)) (out : List String) : Verdict :=
  match out with
  | j :: q :: fast :: per =>
    match kv? "j" j, kv? "q" q, kv? "fast" fast, per.mapM parseTriple? with
    | some j, some q, some fast, some per =>
      let o := life nets at_
      let n := (callsOf nets Consts.mainCalls).length
      let mper := (List.range n).map fun i => (i + 1, (svcCounts o (i + 1)).1, (svcCounts o (i + 1)).2)
      let mj := if o.exited then 1 else 0
      { agree := j == mj && per == mper,
        model := s!"j={mj} " ++ joinSp (mper.map fun (k, a, b) => s!"{k}:{a}:{b}"),
        specFail := failing [
          ("all_tasks_joined", j == 1),
          ("no_activity_after_completion", q == 1),
          ("exits_well_inside_stop_timeout", fast == 1),
          -- a service that was started is torn down exactly once
          ("every_started_service_torn_down", j == 0 || per.all fun (_, su, td) => su == 0 || td == 1),
          ("teardown_at_most_once", per.all fun (_, _, td) => td ≤ 1),
          -- the literal statement: EVERY service is stopped and torn down whenever the request arrives
          ("startup_window_services_never_started", j == 0 || per.all fun (_, su, td) => !(su == 0 && td == 0))] }
    | _, _, _, _ => .bad "sched output"
  | _ => .bad "sched output arity"

def checkBus (cfgs : List NetCfg) (at_ : Option (Nat × Nat)) (out : List String) : Verdict :=
  match out with
  | j :: after :: fast :: frames =>
    match kv? "j" j, kv? "after" after, kv? "fast" fast, frames.mapM parseFrames? with
    | some j, some after, some fast, some frames =>
      if frames.length != cfgs.length then .bad "one frame list per network" else
      let o := lifeOf (ioSubCall :: List.replicate cfgs.length netCall) at_
      let mj := if o.exited then 1 else 0
      let nets := (cfgs.zip frames).zipIdx
      -- service index of network i is i + 2 (the producer stub is service 1)
      let resetsOf (cfg : NetCfg) : List Frame := (units cfg).flatMap teardownFrames
      let tornDown (i : Nat) : Bool := (svcCounts o (i + 2)).2 == 1
      { agree := j == mj && nets.all fun ((cfg, fr), i) =>
          (if tornDown i then isSub (resetsOf cfg) fr else true) && (if hasTasks o (i + 2) then true else fr.isEmpty),
        model := s!"j={mj} " ++ joinSp (nets.map fun ((cfg, _), i) => if tornDown i then showFrames (resetsOf cfg) else "(no teardown)"),
        specFail := failing [
          ("all_tasks_joined", j == 1),
          ("no_frame_after_completion", after == 0),
          ("exits_well_inside_stop_timeout", fast == 1),
          ("every_hcu_reset_on_teardown", j == 0 || nets.all fun ((cfg, fr), i) =>
              !hasTasks o (i + 2) || ((units cfg).filter (·.kind == .hcu)).all fun u => fr.contains (Hcu.resetFrame u.da u.sa)),
          ("startup_window_services_never_started", j == 0 || nets.all fun ((cfg, fr), i) =>
              hasTasks o (i + 2) || ((units cfg).filter (·.kind == .hcu)).all fun u => fr.contains (Hcu.resetFrame u.da u.sa))] }
    | _, _, _, _ => .bad "bus output"
  | _ => .bad "bus output arity"

def check (inp out : List String) : Verdict :=
  match inp with
  | "sched" :: _rt :: nets :: p :: n :: _ =>
    match nets.toNat?, parseWhen? p n with
    | some nets, some at_ => checkSched nets at_ out
    | _, _ => .bad "sched input"
  | "bus" :: _rt :: cfgs :: p :: n :: _ =>
    match (cfgs.splitOn "|").mapM AuthDrv.parseCfg?, parseWhen? p n with
    | some cfgs, some at_ => checkBus cfgs at_ out
    | _, _ => .bad "bus input"
  | _ => AuthDrv.check "C16" inp out

end Glonax.Driver.TaskDrv
