import GlonaxModel.Driver.Common
import GlonaxModel.Model.CommandBus
namespace Glonax.Driver.BusDrv
open Glonax Bus Glonax.Driver

/-- network `i` obtains `k` more commands: its loop keeps polling (lags are skipped over) -/
def recvK (s : St Nat) (i k : Nat) : Nat → St Nat
  | 0 => s
  | fuel + 1 =>
    if k = 0 then s else
    let before := (s.cons.getD i {}).handled.length
    let s' := step s (.poll i)
    let after := (s'.cons.getD i {}).handled.length
    recvK s' i (k - (after - before)) fuel

inductive Act where | send (id : Nat) | recv (i k : Nat)

def parseAct? (s : String) : Option Act :=
  match s.splitOn ":" with
  | ["s", id] => id.toNat?.map .send
  | ["r", i, k] => do pure (.recv (← i.toNat?) (← k.toNat?))
  | _ => none

def showLists (l : List (List Nat)) : String :=
  ";".intercalate (l.map fun h => if h.isEmpty then "-" else ",".intercalate (h.map toString))

def parseLists? (s : String) : Option (List (List Nat)) :=
  (s.splitOn ";").mapM fun h => if h = "-" then some [] else (h.splitOn ",").mapM String.toNat?

def isSublist : List Nat → List Nat → Bool
  | [], _ => true
  | _, [] => false
  | a :: as, b :: bs => if a = b then isSublist as bs else isSublist (a :: as) bs

def check (inp out : List String) : Verdict :=
  match inp, out with
  | "bus" :: n :: acts, [lists] =>
    match n.toNat?, acts.mapM parseAct?, parseLists? lists with
    | some n, some acts, some impl =>
      let cap := effectiveCapacity
      let final := acts.foldl (fun s a => match a with
        | .send id => step s (.send id)
        | .recv i k => recvK s i k (k + 2)) (init Nat n)
      let m := final.cons.map (·.handled)
      let sentIds := acts.filterMap fun | .send id => some id | _ => none
      -- per network: the largest number of commands outstanding at any send (sent − obtained so far)
      let maxOutstanding (i : Nat) : Nat :=
        (acts.foldl (fun (acc : Nat × Nat × Nat) a => match a with
          | .send _ => (acc.1 + 1, acc.2.1, max acc.2.2 (acc.1 + 1 - acc.2.1))
          | .recv j k => if j = i then (acc.1, acc.2.1 + k, acc.2.2) else acc) (0, 0, 0)).2.2
      let cl := (List.range n).flatMap fun i =>
        let h := impl.getD i []
        [ ("in_order_subsequence", isSublist h sentIds),
          ("lossless_under_capacity", decide (maxOutstanding i > cap) || h == sentIds),
          ("lossless_with_fewer_than_16_outstanding", decide (maxOutstanding i > statedCapacity) || h == sentIds),
          ("newest_processed", h.reverse.take (min cap sentIds.length) == sentIds.reverse.take (min cap sentIds.length)) ]
      { agree := m == impl, model := showLists m, specFail := (failing cl).eraseDups }
    | _, _, _ => .bad "bus tokens"
  | "bus" :: _, [_, extra] =>
    -- the harness saw a command whose handler was started but never finished (dropped mid-command)
    { agree := false, model := "every started handler finishes", specFail := ["started_command_runs_to_completion"], parseErr := !extra.startsWith "INCOMPLETE" }
  | _, _ => .bad "bus arity"

end Glonax.Driver.BusDrv
