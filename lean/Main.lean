import GlonaxModel.Driver.C07
import GlonaxModel.Driver.Hcu
import GlonaxModel.Driver.Wire
import GlonaxModel.Driver.Session
import GlonaxModel.Driver.Drivers
import GlonaxModel.Driver.Director
import GlonaxModel.Driver.Input
import GlonaxModel.Driver.Bus
import GlonaxModel.Driver.Authority
import GlonaxModel.Driver.Tasks
import GlonaxModel.Driver.Kin
open Glonax.Driver

def dispatch (prop : String) (inp out : List String) : Verdict :=
  match prop with
  | "C07" => if inp.head? == some "volvo" || inp.head? == some "acc" then DrvDrv.check "C08" inp out else C07.check inp out
  | "C01" => if inp.head? == some "auth" then AuthDrv.check "C01" inp out
             else if inp.head? == some "bus" then BusDrv.check inp out else C01.check inp out
  | "C02" => if inp.head? == some "auth" then AuthDrv.check "C02" inp out
             else if inp.head? == some "bus" then BusDrv.check inp out else C02.check inp out
  | "C17" => C17.check inp out
  | "C13" => C13.check inp out
  | "C03" => SessDrv.check "C03" inp out
  | "C04" => SessDrv.check "C04" inp out
  | "C05" => if inp.head? == some "bus" then BusDrv.check inp out else SessDrv.check "C05" inp out
  | "C14" => if inp.head? == some "bus" then BusDrv.check inp out else SessDrv.check "C14" inp out
  | "C06" => if inp.head? == some "auth" then AuthDrv.check "C06" inp out
             else if inp.head? == some "live" then
               -- concurrent flood, then probes: the three tasks of the network service are all still working
               { agree := out == ["recv=1", "tick=1", "cmd=1"], model := "recv=1 tick=1 cmd=1",
                 specFail := if out == ["recv=1", "tick=1", "cmd=1"] then [] else ["receive_tick_and_command_tasks_survive_concurrent_traffic"] }
             else DrvDrv.check "C06" inp out
  | "C09" => DirDrv.check inp out
  | "C18" => InpDrv.check inp out
  | "C15" => if inp.head? == some "auth" then AuthDrv.check "C15" inp out
             else if inp.head? == some "dirq" then DirDrv.check inp out else BusDrv.check inp out
  | "C10" => AuthDrv.check "C10" inp out
  | "C20" => AuthDrv.check "C20" inp out
  | "C16" => TaskDrv.check inp out
  | "C19" => KinDrv.check inp out
  | "C08" => if inp.head? == some "auth" then AuthDrv.check "C08" inp out else DrvDrv.check "C08" inp out
  | "C11" => if inp.head? == some "auth" then AuthDrv.check "C11" inp out else DrvDrv.check "C11" inp out
  | "C12" => if inp.head? == some "auth" then AuthDrv.check "C12" inp out else DrvDrv.check "C12" inp out
  | _ => .bad s!"unknown property {prop}"

structure Tally where
  n : Nat := 0
  ok : Nat := 0
  disagree : Nat := 0
  specFail : Nat := 0
  parseErr : Nat := 0
  shown : Nat := 0
  shownSpec : Nat := 0

partial def loop (h : IO.FS.Stream) (t : Tally) (maxShow : Nat) : IO Tally := do
  let line ← h.getLine
  if line.isEmpty then return t
  let line := line.trimAscii.toString
  if line.isEmpty || line.startsWith "#" then loop h t maxShow else
  match line.splitOn " => " with
  | [l, r] =>
    match toks l with
    | prop :: inp =>
      let v := dispatch prop inp (toks r)
      let bad := !v.agree || !v.specFail.isEmpty
      let mut t := { t with n := t.n + 1 }
      if !bad then t := { t with ok := t.ok + 1 }
      if v.parseErr then t := { t with parseErr := t.parseErr + 1 }
      else if !v.agree then t := { t with disagree := t.disagree + 1 }
      if !v.specFail.isEmpty then t := { t with specFail := t.specFail + 1 }
      -- separate budgets: lines with a Spec failure on the implementation are never crowded out by mere disagreements
      let isSpec := !v.specFail.isEmpty
      if bad && ((isSpec && t.shownSpec < maxShow) || (!isSpec && t.shown < maxShow)) then
        t := if isSpec then { t with shownSpec := t.shownSpec + 1 } else { t with shown := t.shown + 1 }
        let tag := (if v.specFail.isEmpty then "" else s!"SPEC_FAIL {",".intercalate v.specFail} ") ++
                   (if v.agree then "" else s!"DISAGREE model=[{v.model}] ")
        IO.println s!"{tag}| {line}"
      loop h t maxShow
    | [] => loop h { t with n := t.n + 1, parseErr := t.parseErr + 1 } maxShow
  | _ =>
    if t.shown < maxShow then IO.println s!"PARSE_ERR | {line}"
    loop h { t with n := t.n + 1, parseErr := t.parseErr + 1, shown := t.shown + 1 } maxShow

def main (args : List String) : IO UInt32 := do
  let maxShow := (args.head?.bind String.toNat?).getD 200
  let t ← loop (← IO.getStdin) {} maxShow
  IO.println s!"SUMMARY n={t.n} ok={t.ok} disagree={t.disagree} spec_fail={t.specFail} parse_err={t.parseErr}"
  return (if t.ok == t.n then 0 else 1)
