#!/bin/sh
# run every claimed check (quick by default) and print one line each
cd /verif
tier=${1:-quick}
for p in $(python3 -c "import json;print(' '.join(c['property_id'] for c in json.load(open('MANIFEST.json'))['checks']))"); do
  ./check $p --tier $tier 2>/dev/null | grep -E "^(VIOLATION|KNOWN|C[0-9]+ tier)" | cut -c1-200
done
