#!/bin/sh
# Run every seeded mutation against the current machinery (quick tier) and list the ones NOT reported.
# usage: tools/seedregress.sh [glob, default C*]   — takes 2-3 hours; nothing else may use /repo or rebuild /verif meanwhile.
cd /verif
log=/verif/.cache/regress.log
: > $log
for d in seeded/${1:-C*}; do
  n=$(basename $d)
  [ -f $d/patch.diff ] || continue
  t0=$(date +%s)
  res=$(tools/seedtest.sh $n 2>&1 | grep -E "tier=|does not apply|not clean" | tail -1 | cut -c1-160)
  t1=$(date +%s)
  echo "$n $((t1-t0))s $res" >> $log
done
echo "== not reported:"; grep -v -- "-> FAIL" $log
