#!/usr/bin/env python3
"""Show, event by event, where model and implementation outputs differ for a case line of a replay file."""
import re, sys
path = sys.argv[1]
idx = int(sys.argv[2]) if len(sys.argv) > 2 else 0
skip = int(sys.argv[3]) if len(sys.argv) > 3 else 3
lines = [l for l in open(path) if not l.startswith('#')]
l = lines[idx]
head, case = l.split('| ', 1)
m = re.search(r'model=\[(.*)\]', head)
model = m.group(1).split(' ') if m else []
inp, out = case.strip().split(' => ')
toks = inp.split(' ')
print(head[:100]); print(' '.join(toks[:skip]))
ins = toks[skip:]
outs = out.split(' ')
for i, a in enumerate(ins):
    b = model[i] if i < len(model) else '<none>'
    c = outs[i] if i < len(outs) else '<none>'
    if b != c:
        print(i, a[:70], '\n   M:', b[:300], '\n   I:', c[:300])
