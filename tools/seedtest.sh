#!/bin/sh
# usage: tools/seedtest.sh <seeded dir name, e.g. C07 or C07b> [prop...]
# apply /verif/seeded/<dir>/patch.diff to /repo, run the check(s) (quick unless TIER is set), record the verdict in
# /verif/seeded/<dir>/check_result.txt, undo the change
d=/verif/seeded/$1; shift
props="$@"
[ -n "$props" ] || props=$(python3 -c "import json;print(json.load(open('$d/meta.json'))['property'])")
[ -z "$(git -C /repo status --porcelain)" ] || { echo "/repo not clean"; exit 2; }
git -C /repo apply "$d/patch.diff" || { echo "patch does not apply"; exit 2; }
cd /verif
: > "$d/check_result.txt.new"
for p in $props; do
  cp evidence/$p.json /verif/.cache/evidence-$p.keep 2>/dev/null
  ./check $p ${TIER:+--tier $TIER} 2>/dev/null | grep -E "^(VIOLATION|KNOWN|C[0-9]+ tier)" | cut -c1-220 | tee -a "$d/check_result.txt.new"
  r=$(grep -o 'replay=[^ ]*' "$d/check_result.txt.new" | tail -1 | cut -d= -f2)
  if [ -n "$r" ] && [ -f "$r" ]; then grep -v '^#' "$r" | head -3 | cut -c1-600 > "$d/first_failing_cases.txt"; fi
  # the evidence files describe the unchanged tree: put the previous one back
  [ -f /verif/.cache/evidence-$p.keep ] && mv /verif/.cache/evidence-$p.keep evidence/$p.json
done
mv "$d/check_result.txt.new" "$d/check_result.txt"
git -C /repo checkout -- .
