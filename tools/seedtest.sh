#!/bin/sh
# usage: tools/seedtest.sh <seeded dir name, e.g. C07 or C07b> [prop...]   — apply /verif/seeded/<dir>/patch.diff to /repo, run the check(s), undo
d=/verif/seeded/$1; shift
props="$@"
[ -n "$props" ] || props=$(python3 -c "import json;print(json.load(open('$d/meta.json'))['property'])")
[ -z "$(git -C /repo status --porcelain)" ] || { echo "/repo not clean"; exit 2; }
git -C /repo apply "$d/patch.diff" || { echo "patch does not apply"; exit 2; }
cd /verif
for p in $props; do ./check $p ${TIER:+--tier $TIER} 2>/dev/null | grep -E "^(VIOLATION|KNOWN|C[0-9]+ tier)" | cut -c1-220; done
git -C /repo checkout -- .
