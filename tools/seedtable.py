#!/usr/bin/env python3
"""Print the markdown table of seeded mutations (/verif/seeded/*) and what the checks said."""
import json, os, re, glob
rows = []
for d in sorted(glob.glob('/verif/seeded/C*')):
    name = os.path.basename(d)
    try:
        m = json.load(open(os.path.join(d, 'meta.json')))
    except Exception:
        continue
    res = open(os.path.join(d, 'check_result.txt')).read() if os.path.exists(os.path.join(d, 'check_result.txt')) else ''
    verdicts = []
    for line in res.splitlines():
        mm = re.match(r'(C\d+) tier=(\w+) .* disagree=(\d+) spec_fail=(\d+) .*-> (\w+)', line)
        if mm:
            nf = 'no-failing-input-found' in res and ('property=%s ' % mm.group(1)) in res and any(('property=%s ' % mm.group(1)) in l and 'no-failing-input-found' in l for l in res.splitlines())
            verdicts.append('%s %s: %s (disagree %s, spec_fail %s%s)' % (mm.group(1), mm.group(2), 'CAUGHT' if mm.group(5) == 'FAIL' else 'missed', mm.group(3), mm.group(4), ', no replay input' if nf else ''))
    note = ''
    np = os.path.join(d, 'NOTE.md')
    if os.path.exists(np):
        note = ' — ' + open(np).read().strip().replace('\n', ' ')
    summ = m.get('summary', '').replace('|', '/')
    trig = m.get('trigger', '').replace('|', '/')
    if len(summ) > 230: summ = summ[:227] + '…'
    if len(trig) > 200: trig = trig[:197] + '…'
    rows.append('| %s | %s | %s | %s%s |' % (name, summ, trig, '; '.join(verdicts) or 'not run', note))
print('| seed | change (by a fresh sub-agent that saw only the property text) | needs | check verdict |')
print('|---|---|---|---|')
print('\n'.join(rows))
