#!/usr/bin/env python3
"""Regenerate GlonaxModel/Generated/Consts.lean from /repo's current working tree.

Every item is located by declaration (named const, enum discriminant, match table) or by an
anchored pattern inside a named function.  If an item cannot be found the extractor FAILS
(exit 2, message on stderr): it never substitutes a default.  The output file is rewritten only
when its content changes so that lake does not rebuild needlessly.
"""
import os, re, sys

REPO = os.environ.get("GLONAX_REPO", "/repo")
OUT = os.path.join(os.path.dirname(os.path.abspath(__file__)), "..", "lean", "GlonaxModel", "Generated", "Consts.lean")


class ExtractError(Exception):
    pass


_cache = {}


def src(rel):
    if rel not in _cache:
        p = os.path.join(REPO, rel)
        try:
            with open(p, encoding="utf-8") as f:
                _cache[rel] = f.read()
        except OSError as e:
            raise ExtractError(f"{rel}: cannot read ({e})")
    return _cache[rel]


def num(tok):
    tok = tok.strip().replace("_", "")
    tok = re.sub(r"(u8|u16|u32|u64|usize|i8|i16|i32|i64|isize)$", "", tok)
    if tok.startswith("0x") or tok.startswith("0X"):
        return int(tok, 16)
    if tok.startswith("0b"):
        return int(tok, 2)
    return int(tok)


def one(rel, pattern, what, flags=re.S):
    m = re.search(pattern, src(rel), flags)
    if not m:
        raise ExtractError(f"{rel}: cannot find {what} (pattern {pattern!r})")
    return m


def body_of(rel, anchor, what):
    """Text of the brace block following the first match of `anchor` (a regex)."""
    s = src(rel)
    m = re.search(anchor, s, re.S)
    if not m:
        raise ExtractError(f"{rel}: cannot find {what} (anchor {anchor!r})")
    i = s.find("{", m.end() - 1)
    if i < 0:
        raise ExtractError(f"{rel}: no block after {what}")
    depth, j = 0, i
    while j < len(s):
        c = s[j]
        if c == "{":
            depth += 1
        elif c == "}":
            depth -= 1
            if depth == 0:
                return s[i : j + 1]
        j += 1
    raise ExtractError(f"{rel}: unbalanced block after {what}")


def enum_discriminants(rel, enum):
    """[(Variant, value)] of `enum Name { A = 1, ... }` (explicit discriminants only)."""
    b = body_of(rel, r"\benum\s+" + enum + r"\b[^{;]*\{", f"enum {enum}")
    b = re.sub(r"//[^\n]*", "", b)
    out = []
    for m in re.finditer(r"\b([A-Z][A-Za-z0-9]*)\s*=\s*([0-9a-fA-Fxb_]+)\s*,?", b):
        out.append((m.group(1), num(m.group(2))))
    if not out:
        raise ExtractError(f"{rel}: enum {enum} has no explicit discriminants")
    return out


def enum_variants(rel, enum):
    b = body_of(rel, r"\benum\s+" + enum + r"\b[^{;]*\{", f"enum {enum}")
    b = re.sub(r"//[^\n]*", "", b)
    b = re.sub(r"#\[[^\]]*\]", "", b)
    return [m.group(1) for m in re.finditer(r"\b([A-Z][A-Za-z0-9]*)\s*(?:\([^)]*\)|\{[^}]*\})?\s*(?:=\s*[0-9a-fA-Fxb_]+)?\s*,", b[1:-1] + ",")]


def const(rel, name):
    m = one(rel, r"\bconst\s+" + name + r"\s*:\s*[A-Za-z0-9_<>:]+\s*=\s*([0-9a-fA-Fxb_]+(?:u8|u16|u32|usize)?)\s*;", f"const {name}")
    return num(m.group(1))


def message_type(rel, ty):
    b = body_of(rel, r"impl\s+(?:crate::protocol::)?Packetize\s+for\s+" + ty + r"\b", f"Packetize for {ty}")
    m = re.search(r"const\s+MESSAGE_TYPE\s*:\s*u8\s*=\s*([0-9a-fA-Fx_]+)\s*;", b)
    if not m:
        raise ExtractError(f"{rel}: MESSAGE_TYPE of {ty}")
    t = num(m.group(1))
    m = re.search(r"const\s+MESSAGE_SIZE\s*:\s*Option<usize>\s*=\s*(None|Some\(([^)]*)\))\s*;", b)
    if not m:
        # default from the trait: None
        size = None
    elif m.group(1) == "None":
        size = None
    else:
        size = m.group(2).strip()
    return t, size


items = []  # (lean name, lean type, lean value, comment)


def add(name, value, comment="", ty="Nat"):
    items.append((name, ty, str(value), comment))


def lower1(s):
    return s[0].lower() + s[1:]


def extract():
    # ---- core/engine.rs : EngineState discriminants -------------------------------------------
    for v, n in enum_discriminants("glonax-runtime/src/core/engine.rs", "EngineState"):
        add(f"engineState{v}", n, "core/engine.rs enum EngineState")
    # ---- driver/net/volvo_ems.rs : governor parameters and state codes ------------------------
    b = body_of("glonax-runtime/src/driver/net/volvo_ems.rs", r"impl\s+VolvoD7E\s*\{", "impl VolvoD7E")
    m = re.search(r"Governor::new\(\s*([0-9_]+)\s*,\s*([0-9_]+)\s*,\s*Duration::from_millis\(\s*([0-9_]+)\s*\)\s*\)", b)
    if not m:
        raise ExtractError("volvo_ems.rs: Governor::new(idle, max, Duration::from_millis(t)) in VolvoD7E::new")
    add("volvoRpmIdle", num(m.group(1)), "VolvoD7E::new Governor::new arg 1")
    add("volvoRpmMax", num(m.group(2)), "VolvoD7E::new Governor::new arg 2")
    add("volvoTimeoutMs", num(m.group(3)), "VolvoD7E::new Governor::new arg 3")
    for v, n in enum_discriminants("glonax-runtime/src/driver/net/volvo_ems.rs", "VolvoEngineState"):
        add(f"volvoState{v}", n, "volvo_ems.rs enum VolvoEngineState")
    m = re.search(r"PGN::ProprietaryB\(\s*([0-9_]+)\s*\)\s*\)\s*\.priority\(\s*([0-9]+)\s*\)", b, re.S)
    if not m:
        raise ExtractError("volvo_ems.rs: speed_control PGN/priority")
    add("volvoSpeedPgn", num(m.group(1)), "VolvoD7E::speed_control PGN")
    add("volvoSpeedPriority", num(m.group(2)), "VolvoD7E::speed_control priority")


HOOKS = []

def extract_hcu():
    f = "glonax-runtime/src/driver/net/hydraulic.rs"
    add("hcuStatusPgn", const(f, "STATUS_PGN"), "hydraulic.rs STATUS_PGN")
    m = one(f, r"const\s+BANK_PGN_LIST\s*:\s*\[PGN;\s*2\]\s*=\s*\[\s*PGN::Other\(([0-9_]+)\)\s*,\s*PGN::Other\(([0-9_]+)\)\s*\]", "BANK_PGN_LIST")
    add("hcuBankPgn0", num(m.group(1)), "hydraulic.rs BANK_PGN_LIST[0]")
    add("hcuBankPgn1", num(m.group(2)), "hydraulic.rs BANK_PGN_LIST[1]")
    add("hcuBankSlots", const(f, "BANK_SLOTS"), "hydraulic.rs BANK_SLOTS")
    # ActuatorMessage::to_frame priority and MotionConfigMessage::to_frame PGN / priority
    b = body_of(f, r"impl\s+ActuatorMessage\s*\{", "impl ActuatorMessage")
    m = re.search(r"fn\s+to_frame.*?\.priority\(\s*([0-9]+)\s*\)", b, re.S)
    if not m:
        raise ExtractError("hydraulic.rs: ActuatorMessage::to_frame priority")
    add("hcuActuatorPriority", num(m.group(1)), "ActuatorMessage::to_frame priority")
    b = body_of(f, r"impl\s+MotionConfigMessage\s*\{", "impl MotionConfigMessage")
    m = re.search(r"fn\s+to_frame.*?IdBuilder::from_pgn\(PGN::(\w+)\)\s*\.priority\(\s*([0-9]+)\s*\)", b, re.S)
    if not m:
        raise ExtractError("hydraulic.rs: MotionConfigMessage::to_frame pgn/priority")
    add("hcuMotionConfigPgn", pgn_number(m.group(1)), "MotionConfigMessage::to_frame PGN::" + m.group(1))
    add("hcuMotionConfigPriority", num(m.group(2)), "MotionConfigMessage::to_frame priority")
    # Actuator discriminants
    for v, n in enum_discriminants("glonax-runtime/src/core/motion.rs", "Actuator"):
        add(f"actuator{v}", n, "core/motion.rs enum Actuator")
    for name in ["MOTION_TYPE_STOP_ALL", "MOTION_TYPE_RESUME_ALL", "MOTION_TYPE_RESET_ALL", "MOTION_TYPE_STRAIGHT_DRIVE", "MOTION_TYPE_CHANGE", "MOTION_MAX_CHANGE_SET_COUNT"]:
        add(camel(name), const("glonax-runtime/src/core/motion.rs", name), "core/motion.rs " + name)
    # vecraft state bytes (State::to_byte)
    b = body_of("glonax-runtime/src/driver/net/vecraft.rs", r"pub\s+fn\s+to_byte\(self\)\s*->\s*u8", "vecraft State::to_byte")
    for m in re.finditer(r"State::(\w+)\s*=>\s*(0x[0-9a-fA-F]+|[0-9]+)", b):
        add("vecraftState" + m.group(1), num(m.group(2)), "vecraft.rs State::to_byte")


def camel(name):
    parts = name.lower().split("_")
    return parts[0] + "".join(p.capitalize() for p in parts[1:])


_PGN_TABLE = None


def pgn_number(variant):
    """Number of a named j1939::PGN variant, read from the j1939 crate source in the cargo registry
    (vendored dependency, not part of /repo; version pinned by Cargo.lock)."""
    global _PGN_TABLE
    if _PGN_TABLE is None:
        import glob
        cands = sorted(glob.glob(os.path.expanduser("~/.cargo/registry/src/*/j1939-0.1.*/src/pgn.rs")))
        if not cands:
            raise ExtractError("j1939 crate source not found in the cargo registry")
        t = open(cands[-1], encoding="utf-8").read()
        _PGN_TABLE = {m.group(1): num(m.group(2)) for m in re.finditer(r"PGN::(\w+)\s*=>\s*([0-9_]+)\s*,", t)}
    if variant not in _PGN_TABLE:
        raise ExtractError(f"PGN::{variant} not in the j1939 crate table")
    return _PGN_TABLE[variant]


HOOKS.append(extract_hcu)

def eval_size(expr):
    e = expr
    for ty, n in (("f32", 4), ("u8", 1), ("i8", 1), ("u16", 2), ("i16", 2), ("u32", 4), ("i32", 4), ("u64", 8), ("f64", 8)):
        e = e.replace(f"std::mem::size_of::<{ty}>()", str(n))
    if not re.fullmatch(r"[0-9+*() ]+", e):
        raise ExtractError(f"cannot evaluate MESSAGE_SIZE expression {expr!r}")
    return int(eval(e))


def match_table(rel, anchor, what):
    """[(lhs number, Variant)] of `lit => Ok(X::Variant)` / `lit => Some(..Variant)` arms in the block after anchor."""
    b = body_of(rel, anchor, what)
    out = []
    for m in re.finditer(r"(0x[0-9a-fA-F]+|[0-9]+)\s*=>\s*(?:Ok|Some)\(\s*(?:[A-Za-z0-9_]+::)*([A-Z][A-Za-z0-9]*)", b):
        out.append((num(m.group(1)), m.group(2)))
    if not out:
        raise ExtractError(f"{rel}: no match arms found for {what}")
    return out


def extract_wire():
    base = "glonax-runtime/src/"
    pm = base + "protocol/mod.rs"
    m = one(pm, r"const\s+PROTO_HEADER\s*:\s*\[u8;\s*3\]\s*=\s*\[\s*b'(.)'\s*,\s*b'(.)'\s*,\s*b'(.)'\s*\]", "PROTO_HEADER")
    add("protoHeader", "[%d, %d, %d]" % tuple(ord(m.group(i)) for i in (1, 2, 3)), "protocol/mod.rs PROTO_HEADER", ty="List Nat")
    add("protoVersion", const(pm, "PROTO_VERSION"), "protocol/mod.rs PROTO_VERSION")
    add("maxPayloadSize", const(pm, "MAX_PAYLOAD_SIZE"), "protocol/mod.rs MAX_PAYLOAD_SIZE")
    m = one(pm, r"const\s+PROTO_BUFFER_SIZE\s*:\s*usize\s*=\s*PROTO_HEADER\.len\(\)\s*\+\s*std::mem::size_of::<u8>\(\)\s*\+\s*std::mem::size_of::<u8>\(\)\s*\+\s*std::mem::size_of::<u16>\(\)\s*\+\s*([0-9]+)\s*;", "PROTO_BUFFER_SIZE")
    add("protoBufferSize", 3 + 1 + 1 + 2 + num(m.group(1)), "protocol/mod.rs PROTO_BUFFER_SIZE (evaluated)")
    add("protoPadding", num(m.group(1)), "protocol/mod.rs PROTO_BUFFER_SIZE trailing padding bytes")
    # FrameMessage discriminants (Session/Request/Error message types)
    fm = dict(enum_discriminants(base + "protocol/frame.rs", "FrameMessage"))
    types = [
        ("Session", base + "protocol/frame.rs"), ("SessionError", base + "protocol/frame.rs"), ("Request", base + "protocol/frame.rs"),
        ("Engine", base + "core/engine.rs"), ("Motion", base + "core/motion.rs"), ("Control", base + "core/control.rs"),
        ("Target", base + "core/target.rs"), ("Rotator", base + "core/rotation.rs"), ("ModuleStatus", base + "core/status.rs"),
        ("Instance", base + "core/instance.rs"), ("Gnss", base + "core/gnss.rs"), ("Actor", base + "world/mod.rs"),
    ]
    for ty, f in types:
        b = body_of(f, r"impl\s+(?:crate::protocol::|super::)?Packetize\s+for\s+" + ty + r"\b", f"Packetize for {ty}")
        m = re.search(r"const\s+MESSAGE_TYPE\s*:\s*u8\s*=\s*([^;]+);", b)
        if not m:
            raise ExtractError(f"{f}: MESSAGE_TYPE of {ty}")
        e = m.group(1).strip()
        mm = re.fullmatch(r"FrameMessage::(\w+)\s+as\s+u8", e)
        if mm:
            e = e.split("//")[0]
            if mm.group(1) not in fm:
                raise ExtractError(f"FrameMessage::{mm.group(1)} has no discriminant")
            t = fm[mm.group(1)]
        else:
            t = num(e.split("//")[0])
        add(f"msgType{ty}", t, f"{ty}::MESSAGE_TYPE")
        m = re.search(r"const\s+MESSAGE_SIZE\s*:\s*Option<usize>\s*=\s*(None|Some\((.*?)\))\s*;", b, re.S)
        if not m or m.group(1) == "None":
            add(f"msgSize{ty}", "none", f"{ty}::MESSAGE_SIZE (trait default None)", ty="Option Nat")
        else:
            add(f"msgSize{ty}", f"some {eval_size(m.group(2).strip())}", f"{ty}::MESSAGE_SIZE = Some({m.group(2).strip()})", ty="Option Nat")
    # Control type codes
    cf = base + "core/control.rs"
    for m in re.finditer(r"const\s+(CONTROL_TYPE_[A-Z_]+)\s*:\s*u8\s*=\s*(0x[0-9a-fA-F]+|[0-9]+)\s*;", src(cf)):
        add(camel(m.group(1)), num(m.group(2)), "core/control.rs " + m.group(1))
    # Constraint, RotationReference, ModuleState, GnssStatus, MachineType, SessionError
    for v, n in enum_discriminants(base + "core/target.rs", "Constraint"):
        add(f"constraint{v}", n, "core/target.rs enum Constraint")
    for n, v in match_table(base + "core/rotation.rs", r"impl\s+TryFrom<u8>\s+for\s+RotationReference", "RotationReference::try_from"):
        add(f"rotationReference{v}", n, "core/rotation.rs RotationReference::try_from")
    for v, n in enum_discriminants(base + "core/status.rs", "ModuleState"):
        add(f"moduleState{v}", n, "core/status.rs enum ModuleState")
    b = body_of(base + "core/status.rs", r"impl\s+TryFrom<Vec<u8>>\s+for\s+ModuleStatus", "ModuleStatus::try_from")
    for m in re.finditer(r"([0-9]+)\s*=>\s*Some\(ModuleError::(\w+)\)", b):
        add(f"moduleError{m.group(2)}", num(m.group(1)), "core/status.rs ModuleStatus::try_from error code")
    for v, n in enum_discriminants(base + "core/gnss.rs", "GnssStatus"):
        add(f"gnssStatus{v}", n, "core/gnss.rs enum GnssStatus")
    for v, n in enum_discriminants(base + "core/mod.rs", "MachineType"):
        add(f"machineType{v}", n, "core/mod.rs enum MachineType")
    for v, n in enum_discriminants(base + "protocol/frame.rs", "SessionError"):
        add(f"sessionError{v}", n, "protocol/frame.rs enum SessionError")
    b = body_of(base + "protocol/frame.rs", r"impl\s+Session\s*\{", "impl Session")
    for m in re.finditer(r"pub\s+const\s+(MODE_[A-Z]+)\s*:\s*u8\s*=\s*(0b[01_]+|0x[0-9a-fA-F]+|[0-9]+)\s*;", b):
        add("sessionMode" + m.group(1)[5:].capitalize(), num(m.group(2)), "Session::" + m.group(1))
    m = re.search(r"name\.chars\(\)\.take\(\s*([0-9]+)\s*\)", b)
    if not m:
        raise ExtractError("frame.rs: Session::new name truncation")
    add("sessionNameMaxChars", num(m.group(1)), "Session::new name.chars().take(N)")
    b = body_of(base + "protocol/frame.rs", r"impl\s+TryFrom<Vec<u8>>\s+for\s+Session\b", "Session::try_from")
    m = re.search(r"let\s+mask\s*=\s*(0b[01_]+|0x[0-9a-fA-F]+)\s*;", b)
    if not m:
        raise ExtractError("frame.rs: Session::try_from mask")
    add("sessionInvalidFlagMask", num(m.group(1)), "Session::try_from mask")
    # crate version
    m = one("glonax-runtime/Cargo.toml", r'\[package\].*?\nversion\s*=\s*"([0-9]+)\.([0-9]+)\.([0-9]+)"', "package version")
    add("versionMajor", int(m.group(1)), "glonax-runtime/Cargo.toml version major")
    add("versionMinor", int(m.group(2)), "glonax-runtime/Cargo.toml version minor")
    add("versionPatch", int(m.group(3)), "glonax-runtime/Cargo.toml version patch")
    lf = base + "lib.rs"
    add("queueSizeCommand", const(lf, "QUEUE_SIZE_COMMAND"), "lib.rs consts::QUEUE_SIZE_COMMAND")
    add("queueSizeSignal", const(lf, "QUEUE_SIZE_SIGNAL"), "lib.rs consts::QUEUE_SIZE_SIGNAL")


HOOKS.append(extract_wire)

def extract_drivers():
    import glob
    base = "glonax-runtime/src/"
    names = set()
    files = sorted(glob.glob(os.path.join(REPO, base, "driver/net/*.rs"))) + [os.path.join(REPO, base, "service/authority.rs")]
    for f in files:
        rel = os.path.relpath(f, REPO)
        for m in re.finditer(r"PGN::([A-Z][A-Za-z0-9]*)\b(?!\()", src(rel)):
            if m.group(1) not in ("ProprietaryB", "Other"):
                names.add(m.group(1))
    for n in sorted(names):
        add("pgn" + n, pgn_number(n), "j1939::PGN::" + n + " (number from the j1939 crate table)")
    add("vcuStatusPgn", const(base + "driver/net/vcu.rs", "STATUS_PGN"), "vcu.rs STATUS_PGN")
    m = one(base + "driver/net/encoder.rs", r"const\s+ENCODER_PGN\s*:\s*PGN\s*=\s*PGN::ProprietaryB\(([0-9_]+)\)", "ENCODER_PGN")
    add("encoderPgn", num(m.group(1)), "encoder.rs ENCODER_PGN")
    m = one(base + "driver/net/inclino.rs", r"const\s+INCLINOMETER_PGN\s*:\s*PGN\s*=\s*PGN::ProprietaryB\(([0-9_]+)\)", "INCLINOMETER_PGN")
    add("inclinometerPgn", num(m.group(1)), "inclino.rs INCLINOMETER_PGN")
    # encoder state words
    b = body_of(base + "driver/net/encoder.rs", r"message\.state\s*=\s*match\s+state", "encoder state match")
    found = set()
    for m in re.finditer(r"(0x[0-9a-fA-F]+)\s*=>\s*EncoderState::(\w+)", b):
        add("encoderState" + m.group(2), num(m.group(1)), "encoder.rs ProcessDataMessage::from_frame state word")
        found.add(m.group(2))
    need = {"NoError", "GeneralSensorError", "InvalidMUR", "InvalidTMR", "InvalidPreset"}
    if not need <= found:
        raise ExtractError("encoder.rs: state words of %s not found as literal match arms" % sorted(need - found))
    # encoder addresses of KueblerEncoder::new
    b = body_of(base + "driver/net/encoder.rs", r"impl\s+KueblerEncoder\s*\{", "impl KueblerEncoder")
    addrs = [num(x) for x in re.findall(r"da\s*==\s*(0x[0-9a-fA-F]+)", b)]
    if len(addrs) != 4:
        raise ExtractError("encoder.rs: expected four encoder addresses in KueblerEncoder::new, found %r" % addrs)
    add("encoderAddrs", "[%s]" % ", ".join(map(str, addrs)), "KueblerEncoder::new known unit addresses (z-axis, y-axis+60deg, y, y)", ty="List Nat")
    m = re.search(r"([0-9_]+)_f32\.to_radians\(\)", b)
    if not m:
        raise ExtractError("encoder.rs: boom offset degrees")
    add("encoderBoomOffsetDeg", num(m.group(1)), "KueblerEncoder::new offset of the second address, degrees")
    # inclinometer status nibble
    b = body_of(base + "driver/net/inclino.rs", r"message\.status\s*=\s*match\s+frame\.pdu\(\)\[6\]\s*>>\s*4", "inclinometer status match")
    for m in re.finditer(r"(0x[0-9a-fA-F]+)\s*=>\s*InclinometerStatus::(\w+)", b):
        add("inclinoStatus" + m.group(2), num(m.group(1)), "inclino.rs status nibble")
    # director thresholds and authority decimation
    d = base + "service/director.rs"
    b = body_of(d, r"fn\s+elect_engine_state", "elect_engine_state")
    m1 = re.search(r"rpm\s*<\s*([0-9_]+)", b)
    m2 = re.search(r"rpm\s*>\s*([0-9_]+)", b)
    if not (m1 and m2):
        raise ExtractError("director.rs: engine thresholds")
    add("directorRpmInhibit", num(m1.group(1)), "director.rs elect_engine_state: rpm < N => Inhibited")
    add("directorRpmEmergency", num(m2.group(1)), "director.rs elect_engine_state: rpm > N => Emergency")
    a = base + "service/authority.rs"
    m = one(a, r"interval_decimation\(Duration::from_millis\(([0-9_]+)\),\s*self\.tick,\s*([0-9_]+)\)", "interval_decimation call")
    add("statusIntervalMs", num(m.group(1)), "authority.rs on_tick interval_decimation interval")
    add("statusDecimationMs", num(m.group(2)), "authority.rs on_tick interval_decimation decimation")


HOOKS.append(extract_drivers)

def f32(x):
    import struct
    return struct.unpack("<f", struct.pack("<f", x))[0]


def f32_bits(x):
    import struct
    return struct.unpack("<I", struct.pack("<f", x))[0]


def deg_to_rad_bits(deg):
    """bit pattern of `(deg as f32).to_radians()` = deg * (PI_f32 / 180.0_f32), each step rounded to f32"""
    import math
    k = f32(f32(math.pi) / f32(180.0))
    return f32_bits(f32(f32(deg) * k))


def extract_director():
    d = "glonax-runtime/src/service/director.rs"
    add("directorInclinometer", const(d, "INCLINOMETER"), "director.rs INCLINOMETER source address")
    b = body_of(d, r"INCLINOMETER\s*=>\s*\{", "inclinometer arm of elect_rotator_state")
    # thresholds with the verdict each branch returns, in source order
    arms = re.findall(r"roll\s*>\s*([0-9.]+)_f32\.to_radians\(\)\s*\|\|\s*pitch\s*>\s*([0-9.]+)_f32\.to_radians\(\)\)\s*&&\s*yaw\s*==\s*0\.0\s*\{.*?return\s+DirectorLocslState::(\w+)", b, re.S)
    if len(arms) != 2 or any(a[0] != a[1] for a in arms):
        raise ExtractError("director.rs: inclinometer branches (found %r)" % (arms,))
    for i, (t, _, verdict) in enumerate(arms):
        add(f"directorTiltBranch{i}Bits", deg_to_rad_bits(float(t)), f"director.rs inclinometer branch {i}: ({t}_f32).to_radians() as f32 bit pattern")
        add(f"directorTiltBranch{i}Emergency", "true" if verdict == "Emergency" else "false", f"director.rs inclinometer branch {i} returns {verdict}", ty="Bool")
        add(f"directorTiltBranch{i}Deg", int(float(t)), f"director.rs inclinometer branch {i} threshold in degrees")


HOOKS.append(extract_director)

def extract_input():
    f = "glonax-input/src/main.rs"
    b = body_of(f, r"let\s+mut\s+input_state\s*=\s*input::InputState\s*\{", "start-up InputState in glonax-input main")
    def field(name, pat):
        m = re.search(name + r"\s*:\s*" + pat + r"\s*,", b)
        if not m:
            raise ExtractError(f"glonax-input main.rs: start-up value of {name}")
        return m
    add("inputStartDriveLock", field("drive_lock", r"(true|false)").group(1), "glonax-input main: drive_lock at start-up", ty="Bool")
    add("inputStartMotionLock", field("motion_lock", r"(true|false)").group(1), "glonax-input main: motion_lock at start-up", ty="Bool")
    m = field("limit_motion", r"(!?)args\.full_motion")
    add("inputStartLimitIsNotFullMotion", "true" if m.group(1) == "!" else "false", "glonax-input main: limit_motion = !args.full_motion", ty="Bool")
    add("inputStartEngineRpm", num(field("engine_rpm", r"([0-9_]+)").group(1)), "glonax-input main: engine_rpm at start-up")
    m = one(f, r"default_value_t\s*=\s*(true|false)\s*\)\]\s*fail_safe\s*:\s*bool", "fail_safe default")
    add("inputFailSafeDefault", m.group(1), "glonax-input main: --fail-safe default", ty="Bool")
    j = "glonax-input/src/joystick.rs"
    for name in ["JS_EVENT_TYPE_BUTTON", "JS_EVENT_TYPE_AXIS", "JS_EVENT_INIT"]:
        add(camel(name), const(j, name), "joystick.rs " + name)


HOOKS.append(extract_input)


def block_at(s, i, what):
    """brace block of `s` that starts at the first `{` at or after offset i: (start, end_exclusive)"""
    i = s.find("{", i)
    if i < 0:
        raise ExtractError(f"no block for {what}")
    depth, j = 0, i
    while j < len(s):
        if s[j] == "{":
            depth += 1
        elif s[j] == "}":
            depth -= 1
            if depth == 0:
                return i, j + 1
        j += 1
    raise ExtractError(f"unbalanced block for {what}")


POINT_IDS = {"enter": 0, "guard": 1, "spawn": 2, "spawn2": 3, "spawn3": 4}
ROLE_OF_CALL = {"wait_io_sub": 0, "wait_io_pub": 1, "recv": 2, "on_tick": 3, "on_command": 4}


def schedule_ops(fn):
    """The scheduling function as a list of micro-operations in SOURCE ORDER:
       [0, slot]                                   let <v> = self.shutdown.0.subscribe()
       [1]                                         S::new(..) / <service>.clone()
       [2]                                         if self.shutdown.1.is_empty() {
       [3, slot, setup, teardown, arm, guarded, role]   self.spawn(async move { [setup] select!{loop{role}, <v>.recv()} [teardown] })
       [4, id]                                     verification point
    `slot` numbers the `let` it comes from; a spawn's slot is the binding of the receiver named in its select arm
    that is in scope at the spawn (999 if its select has no shutdown arm)."""
    r = "glonax-runtime/src/runtime/mod.rs"
    b = body_of(r, r"pub\s+fn\s+" + fn + r"\b.*?\)\s*where.*?\{", fn)
    b = re.sub(r"//[^\n]*", lambda m: " " * len(m.group(0)), b)
    events = []  # (offset, op)
    slot_of = []  # (offset, name, slot)
    for k, m in enumerate(re.finditer(r"let\s+(?:mut\s+)?(\w+)\s*=\s*self\s*\.\s*shutdown\s*\.\s*0\s*\.\s*subscribe\s*\(\s*\)", b)):
        slot_of.append((m.start(), m.group(1), k))
        events.append((m.start(), [0, k]))
    for m in re.finditer(r"\bS::new\s*\(|\bservice\d*\s*\.\s*clone\s*\(\s*\)", b):
        events.append((m.start(), [1]))
    guards = []
    for m in re.finditer(r"if\s+self\s*\.\s*shutdown\s*\.\s*1\s*\.\s*is_empty\s*\(\s*\)\s*\{", b):
        st, en = block_at(b, m.end() - 1, fn + " guard")
        guards.append((st, en))
        events.append((m.start(), [2]))
    for m in re.finditer(r"self\s*\.\s*verif_point\s*\(\s*\"(\w+)\"\s*\)", b):
        if m.group(1) not in POINT_IDS:
            raise ExtractError(f"runtime/mod.rs {fn}: unknown verification point {m.group(1)}")
        events.append((m.start(), [4, POINT_IDS[m.group(1)]]))
    for m in re.finditer(r"self\s*\.\s*spawn\s*\(\s*async\s+move\s*\{", b):
        st, en = block_at(b, m.end() - 1, fn + " spawn")
        t = b[st:en]
        sm = re.search(r"tokio::select!\s*\{", t)
        if not sm:
            raise ExtractError(f"runtime/mod.rs {fn}: spawned task without select!")
        s0, s1 = block_at(t, sm.end() - 1, fn + " select")
        before, sel, after = t[:sm.start()], t[s0:s1], t[s1:]
        setup = 1 if re.search(r"\.\s*setup\s*\(\s*\)\s*\.\s*await", before) else 0
        teardown = 1 if re.search(r"\.\s*teardown\s*\(\s*\)\s*\.\s*await", after) else 0
        lm = re.search(r"\bloop\s*\{", sel)
        if not lm:
            raise ExtractError(f"runtime/mod.rs {fn}: select! without service loop")
        l0, l1 = block_at(sel, lm.end() - 1, fn + " loop")
        role = None
        for name, code in ROLE_OF_CALL.items():
            if re.search(r"\.\s*" + name + r"\s*\(", sel[l0:l1]):
                role = code
        if role is None:
            raise ExtractError(f"runtime/mod.rs {fn}: service loop calls no known service method")
        # the shutdown arm: `_ = <v>.recv() => {}` outside the loop block
        rest = sel[:l0] + sel[l1:]
        am = re.search(r"=\s*(\w+)\s*\.\s*recv\s*\(\s*\)\s*=>", rest)
        slot, arm = 999, 0
        if am:
            cands = [(o, k) for (o, n, k) in slot_of if n == am.group(1) and o < m.start()]
            if cands:
                slot, arm = max(cands)[1], 1
        guarded = 1 if any(g0 <= m.start() < g1 for g0, g1 in guards) else 0
        events.append((m.start(), [3, slot, setup, teardown, arm, guarded, role]))
    events.sort(key=lambda e: e[0])
    if not any(op[0] == 3 for _, op in events):
        raise ExtractError(f"runtime/mod.rs {fn}: no spawned task found")
    return [op for _, op in events]


def lean_ll(ops):
    return "[" + ", ".join("[" + ", ".join(str(x) for x in op) + "]" for op in ops) + "]"


def extract_tasks():
    add("schedIoSubOps", lean_ll(schedule_ops("schedule_io_sub_service")), "runtime/mod.rs schedule_io_sub_service as micro-operations in source order (see tools/extract.py schedule_ops)", ty="List (List Nat)")
    add("schedIoPubOps", lean_ll(schedule_ops("schedule_io_pub_service")), "runtime/mod.rs schedule_io_pub_service", ty="List (List Nat)")
    add("schedNetOps", lean_ll(schedule_ops("schedule_net_service")), "runtime/mod.rs schedule_net_service", ty="List (List Nat)")
    # glonax-server main.rs run(): order of the runtime calls
    f = "glonax-server/src/main.rs"
    b = body_of(f, r"async\s+fn\s+run\s*\(", "glonaxd run()")
    b = re.sub(r"//[^\n]*", lambda m: " " * len(m.group(0)), b)
    calls = []
    loops = []
    for m in re.finditer(r"for\s+\w+\s+in\s+&?config\s*\.\s*j1939\s*\{", b):
        loops.append(block_at(b, m.end() - 1, "j1939 loop"))
    for m in re.finditer(r"runtime\s*\.\s*(register_shutdown_signal|schedule_io_sub_service|schedule_io_pub_service|schedule_net_service|wait_for_shutdown|wait_for_tasks)\b", b):
        code = {"register_shutdown_signal": 0, "schedule_io_sub_service": 1, "schedule_io_pub_service": 5,
                "schedule_net_service": 2, "wait_for_shutdown": 3, "wait_for_tasks": 4}[m.group(1)]
        in_loop = any(a <= m.start() < z for a, z in loops)
        if code == 2 and not in_loop:
            raise ExtractError("glonaxd run(): schedule_net_service outside the per-network loop")
        if code != 2 and in_loop:
            raise ExtractError("glonaxd run(): unexpected runtime call inside the per-network loop")
        calls.append(code)
    add("mainCalls", "[" + ", ".join(map(str, calls)) + "]", "glonax-server main.rs run(): 0 register_shutdown_signal, 1 schedule_io_sub_service, 5 schedule_io_pub_service, 2 schedule_net_service (once per configured network), 3 wait_for_shutdown, 4 wait_for_tasks — in source order", ty="List Nat")
    u = "contrib/systemd/glonax.service"
    m = one(u, r"^TimeoutStopSec\s*=\s*(\d+)\s*$", "TimeoutStopSec", flags=re.M)
    add("supervisorStopTimeoutSec", int(m.group(1)), "contrib/systemd/glonax.service TimeoutStopSec")


HOOKS.append(extract_tasks)


def main():
    try:
        extract()
        for h in HOOKS:
            h()
    except ExtractError as e:
        print(f"EXTRACT-FAIL {e}", file=sys.stderr)
        return 2
    lines = [
        "-- GENERATED by /verif/tools/extract.py from /repo's working tree. Do not edit.",
        "namespace Glonax.Consts",
        "",
    ]
    seen = set()
    for name, ty, val, comment in items:
        if name in seen:
            print(f"EXTRACT-FAIL duplicate item {name}", file=sys.stderr)
            return 2
        seen.add(name)
        if comment:
            lines.append(f"/-- {comment} -/")
        lines.append(f"def {name} : {ty} := {val}")
    lines += ["", "end Glonax.Consts", ""]
    text = "\n".join(lines)
    out = os.path.normpath(OUT)
    old = None
    if os.path.exists(out):
        with open(out, encoding="utf-8") as f:
            old = f.read()
    if old != text:
        os.makedirs(os.path.dirname(out), exist_ok=True)
        tmp = out + ".tmp%d" % os.getpid()
        with open(tmp, "w", encoding="utf-8") as f:
            f.write(text)
        os.replace(tmp, out)
    print(f"extract: {len(items)} items -> {out}")
    return 0


if __name__ == "__main__":
    sys.exit(main())
