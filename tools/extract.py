#!/usr/bin/env python3
"""Regenerate GlonaxModel/Generated/Consts.lean from /repo's current working tree.

Every item is located by declaration (named const, enum discriminant, match table) or by an
anchored pattern inside a named function.  If an item cannot be found the extractor FAILS
(exit 2, message on stderr): it never substitutes a default.  The output file is rewritten only
when its content changes so that lake does not rebuild needlessly.
"""
import os, re, sys

REPO = os.environ.get("GLONAX_REPO", "/repo")
OUT = os.path.join(os.path.dirname(os.path.abspath(__file__)), "..", "lean", "GlonaxModel", "Generated", "Consts.lean")


class ExtractError(Exception):
    pass


_cache = {}


def src(rel):
    if rel not in _cache:
        p = os.path.join(REPO, rel)
        try:
            with open(p, encoding="utf-8") as f:
                _cache[rel] = f.read()
        except OSError as e:
            raise ExtractError(f"{rel}: cannot read ({e})")
    return _cache[rel]


def num(tok):
    tok = tok.strip().replace("_", "")
    tok = re.sub(r"(u8|u16|u32|u64|usize|i8|i16|i32|i64|isize)$", "", tok)
    if tok.startswith("0x") or tok.startswith("0X"):
        return int(tok, 16)
    if tok.startswith("0b"):
        return int(tok, 2)
    return int(tok)


def one(rel, pattern, what, flags=re.S):
    m = re.search(pattern, src(rel), flags)
    if not m:
        raise ExtractError(f"{rel}: cannot find {what} (pattern {pattern!r})")
    return m


def body_of(rel, anchor, what):
    """Text of the brace block following the first match of `anchor` (a regex)."""
    s = src(rel)
    m = re.search(anchor, s, re.S)
    if not m:
        raise ExtractError(f"{rel}: cannot find {what} (anchor {anchor!r})")
    i = s.find("{", m.end() - 1)
    if i < 0:
        raise ExtractError(f"{rel}: no block after {what}")
    depth, j = 0, i
    while j < len(s):
        c = s[j]
        if c == "{":
            depth += 1
        elif c == "}":
            depth -= 1
            if depth == 0:
                return s[i : j + 1]
        j += 1
    raise ExtractError(f"{rel}: unbalanced block after {what}")


def enum_discriminants(rel, enum):
    """[(Variant, value)] of `enum Name { A = 1, ... }` (explicit discriminants only)."""
    b = body_of(rel, r"\benum\s+" + enum + r"\b[^{;]*\{", f"enum {enum}")
    b = re.sub(r"//[^\n]*", "", b)
    out = []
    for m in re.finditer(r"\b([A-Z][A-Za-z0-9]*)\s*=\s*([0-9a-fA-Fxb_]+)\s*,?", b):
        out.append((m.group(1), num(m.group(2))))
    if not out:
        raise ExtractError(f"{rel}: enum {enum} has no explicit discriminants")
    return out


def enum_variants(rel, enum):
    b = body_of(rel, r"\benum\s+" + enum + r"\b[^{;]*\{", f"enum {enum}")
    b = re.sub(r"//[^\n]*", "", b)
    b = re.sub(r"#\[[^\]]*\]", "", b)
    return [m.group(1) for m in re.finditer(r"\b([A-Z][A-Za-z0-9]*)\s*(?:\([^)]*\)|\{[^}]*\})?\s*(?:=\s*[0-9a-fA-Fxb_]+)?\s*,", b[1:-1] + ",")]


def const(rel, name):
    m = one(rel, r"\bconst\s+" + name + r"\s*:\s*[A-Za-z0-9_<>:]+\s*=\s*([0-9a-fA-Fxb_]+(?:u8|u16|u32|usize)?)\s*;", f"const {name}")
    return num(m.group(1))


def message_type(rel, ty):
    b = body_of(rel, r"impl\s+(?:crate::protocol::)?Packetize\s+for\s+" + ty + r"\b", f"Packetize for {ty}")
    m = re.search(r"const\s+MESSAGE_TYPE\s*:\s*u8\s*=\s*([0-9a-fA-Fx_]+)\s*;", b)
    if not m:
        raise ExtractError(f"{rel}: MESSAGE_TYPE of {ty}")
    t = num(m.group(1))
    m = re.search(r"const\s+MESSAGE_SIZE\s*:\s*Option<usize>\s*=\s*(None|Some\(([^)]*)\))\s*;", b)
    if not m:
        # default from the trait: None
        size = None
    elif m.group(1) == "None":
        size = None
    else:
        size = m.group(2).strip()
    return t, size


items = []  # (lean name, lean type, lean value, comment)


def add(name, value, comment="", ty="Nat"):
    items.append((name, ty, str(value), comment))


def lower1(s):
    return s[0].lower() + s[1:]


def extract():
    # ---- core/engine.rs : EngineState discriminants -------------------------------------------
    for v, n in enum_discriminants("glonax-runtime/src/core/engine.rs", "EngineState"):
        add(f"engineState{v}", n, "core/engine.rs enum EngineState")
    # ---- driver/net/volvo_ems.rs : governor parameters and state codes ------------------------
    b = body_of("glonax-runtime/src/driver/net/volvo_ems.rs", r"impl\s+VolvoD7E\s*\{", "impl VolvoD7E")
    m = re.search(r"Governor::new\(\s*([0-9_]+)\s*,\s*([0-9_]+)\s*,\s*Duration::from_millis\(\s*([0-9_]+)\s*\)\s*\)", b)
    if not m:
        raise ExtractError("volvo_ems.rs: Governor::new(idle, max, Duration::from_millis(t)) in VolvoD7E::new")
    add("volvoRpmIdle", num(m.group(1)), "VolvoD7E::new Governor::new arg 1")
    add("volvoRpmMax", num(m.group(2)), "VolvoD7E::new Governor::new arg 2")
    add("volvoTimeoutMs", num(m.group(3)), "VolvoD7E::new Governor::new arg 3")
    for v, n in enum_discriminants("glonax-runtime/src/driver/net/volvo_ems.rs", "VolvoEngineState"):
        add(f"volvoState{v}", n, "volvo_ems.rs enum VolvoEngineState")
    m = re.search(r"PGN::ProprietaryB\(\s*([0-9_]+)\s*\)\s*\)\s*\.priority\(\s*([0-9]+)\s*\)", b, re.S)
    if not m:
        raise ExtractError("volvo_ems.rs: speed_control PGN/priority")
    add("volvoSpeedPgn", num(m.group(1)), "VolvoD7E::speed_control PGN")
    add("volvoSpeedPriority", num(m.group(2)), "VolvoD7E::speed_control priority")


HOOKS = []


def main():
    try:
        extract()
        for h in HOOKS:
            h()
    except ExtractError as e:
        print(f"EXTRACT-FAIL {e}", file=sys.stderr)
        return 2
    lines = [
        "-- GENERATED by /verif/tools/extract.py from /repo's working tree. Do not edit.",
        "namespace Glonax.Consts",
        "",
    ]
    seen = set()
    for name, ty, val, comment in items:
        if name in seen:
            print(f"EXTRACT-FAIL duplicate item {name}", file=sys.stderr)
            return 2
        seen.add(name)
        if comment:
            lines.append(f"/-- {comment} -/")
        lines.append(f"def {name} : {ty} := {val}")
    lines += ["", "end Glonax.Consts", ""]
    text = "\n".join(lines)
    out = os.path.normpath(OUT)
    old = None
    if os.path.exists(out):
        with open(out, encoding="utf-8") as f:
            old = f.read()
    if old != text:
        os.makedirs(os.path.dirname(out), exist_ok=True)
        tmp = out + ".tmp%d" % os.getpid()
        with open(tmp, "w", encoding="utf-8") as f:
            f.write(text)
        os.replace(tmp, out)
    print(f"extract: {len(items)} items -> {out}")
    return 0


if __name__ == "__main__":
    sys.exit(main())
